#!/bin/bash
# MANIFEST.setup_cmd: build everything once, offline.
cd "$(dirname "$0")"
export GOFLAGS=-mod=mod GOPROXY=off GOSUMDB=off GOTOOLCHAIN=local
set -e
mkdir -p harness/bin replays evidence lean/YangVerif/Gen
cp /repo/go.sum harness/go.sum 2>/dev/null || true
(cd harness && go build -tags verif -o bin/vgen ./cmd/vgen && ./bin/vgen)
(cd effects && go build -o ../harness/bin/vfx ./cmd/vfx && ../harness/bin/vfx -lean ../lean/YangVerif/Gen/EffectTable.lean -report ../harness/bin/effects.json)
(cd lean && lake build YangVerif driver)
(cd harness && go build -tags verif -o bin/vcheck ./cmd/vcheck)
echo setup-ok
