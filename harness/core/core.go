// Package core holds what every property check shares: the PRNG, the Lean
// pipeline (regenerate Gen/*.lean, lake build, axiom audit, driver I/O), the
// evidence writer, known findings and replay files.
package core

import (
	"bufio"
	"bytes"
	"encoding/hex"
	"encoding/json"
	"fmt"
	"os"
	"os/exec"
	"path/filepath"
	"regexp"
	"sort"
	"strings"
	"syscall"
	"time"
)

const VerifDir = "/verif"
const LeanDir = "/verif/lean"
const RepoDir = "/repo"

// ---------------------------------------------------------------- PRNG

// Rng is splitmix64; every random choice of a run derives from VERIF_SEED.
type Rng struct{ s uint64 }

// the seed is hashed first, so that consecutive seeds give unrelated streams (not one stream shifted by a step)
func NewRng(seed uint64) *Rng {
	z := seed + 0x1234567
	z = (z ^ (z >> 30)) * 0xBF58476D1CE4E5B9
	z = (z ^ (z >> 27)) * 0x94D049BB133111EB
	z ^= z >> 31
	return &Rng{s: z * 0xD1342543DE82EF95}
}

func (r *Rng) U64() uint64 {
	r.s += 0x9E3779B97F4A7C15
	z := r.s
	z = (z ^ (z >> 30)) * 0xBF58476D1CE4E5B9
	z = (z ^ (z >> 27)) * 0x94D049BB133111EB
	return z ^ (z >> 31)
}
func (r *Rng) Intn(n int) int {
	if n <= 0 {
		return 0
	}
	return int(r.U64() % uint64(n))
}
func (r *Rng) Bool() bool        { return r.U64()&1 == 1 }
func (r *Rng) Chance(p int) bool { return r.Intn(100) < p }
func (r *Rng) Fork() *Rng        { return NewRng(r.U64()) }
func Pick[T any](r *Rng, xs []T) T {
	return xs[r.Intn(len(xs))]
}

// ---------------------------------------------------------------- hex tokens

// Hex encodes a string for the line protocol ("-" is the empty string).
func Hex(s string) string {
	if s == "" {
		return "-"
	}
	return hex.EncodeToString([]byte(s))
}
func Unhex(s string) string {
	if s == "-" {
		return ""
	}
	b, err := hex.DecodeString(s)
	if err != nil {
		return "<bad-hex:" + s + ">"
	}
	return string(b)
}

// ---------------------------------------------------------------- context

type Ctx struct {
	Prop   string
	Tier   string
	Seed   uint64
	Start  time.Time
	Replay string // --replay <path>

	// proof side
	Obligations     int
	Discharged      int
	AxiomsSeen      map[string]int
	ProofBroken     []string // names / messages of obligations that no longer check
	TheoremsChecked []string

	// tie side
	Evaluations  int
	distinct     map[string]struct{}
	Samples      []any
	Hist         map[string]map[string]int
	Disagree     int
	Exhaustive   bool
	ExhaustiveOf []string
	Rule         string
	Assumptions  []string
	TrustedBase  []string
	Extra        map[string]any

	violations    int
	knownPrinted  map[string]bool
	Known         map[string]KnownFinding // id -> entry, for this property
	KnownHits     map[string]int
	replayCounter int
	seenClass     map[string]int
}

func NewCtx(prop, tier string, seed uint64) *Ctx {
	c := &Ctx{Prop: prop, Tier: tier, Seed: seed, Start: time.Now(),
		AxiomsSeen: map[string]int{}, distinct: map[string]struct{}{},
		Hist: map[string]map[string]int{}, Extra: map[string]any{},
		knownPrinted: map[string]bool{}, KnownHits: map[string]int{}}
	c.Known = LoadKnown(prop)
	return c
}

func (c *Ctx) Thorough() bool { return c.Tier == "thorough" }

// N picks the case count for the tier.
func (c *Ctx) N(quick, thorough int) int {
	if c.Thorough() {
		return thorough
	}
	return quick
}

func (c *Ctx) Count(hist, key string) {
	m := c.Hist[hist]
	if m == nil {
		m = map[string]int{}
		c.Hist[hist] = m
	}
	m[key]++
}

// Distinct records a canonical non-trivial case.
func (c *Ctx) Distinct(key string) { c.distinct[key] = struct{}{} }

func (c *Ctx) Sample(s any) {
	if len(c.Samples) < 6 {
		c.Samples = append(c.Samples, s)
	}
}

// ---------------------------------------------------------------- known findings

type KnownFinding struct {
	ID   string
	Desc string
}

var knownRe = regexp.MustCompile(`^known:\s+property=(\S+)\s+id=(\S+)\s+(.*)$`)

func LoadKnown(prop string) map[string]KnownFinding {
	out := map[string]KnownFinding{}
	f, err := os.Open(filepath.Join(VerifDir, "known_findings.txt"))
	if err != nil {
		return out
	}
	defer f.Close()
	sc := bufio.NewScanner(f)
	sc.Buffer(make([]byte, 1<<20), 1<<20)
	for sc.Scan() {
		m := knownRe.FindStringSubmatch(strings.TrimSpace(sc.Text()))
		if m != nil && m[1] == prop {
			out[m[2]] = KnownFinding{ID: m[2], Desc: m[3]}
		}
	}
	return out
}

// IsKnown reports whether a failing case that the check classified under
// finding `id` is suppressed by known_findings.txt. It prints the
// KNOWN-FINDING line once per id.
func (c *Ctx) IsKnown(id string, what string) bool {
	k, ok := c.Known[id]
	if !ok {
		return false
	}
	c.KnownHits[id]++
	if !c.knownPrinted[id] {
		c.knownPrinted[id] = true
		fmt.Printf("KNOWN-FINDING: property=%s id=%s %s -- e.g. %s\n", c.Prop, id, k.Desc, what)
	}
	return true
}

// ---------------------------------------------------------------- violations

type Replay struct {
	Property     string `json:"property"`
	Seed         uint64 `json:"seed"`
	Tier         string `json:"tier"`
	Kind         string `json:"kind"` // property-failure | correspondence | proof-broken
	Summary      string `json:"summary"`
	Input        any    `json:"input,omitempty"`
	Impl         any    `json:"impl,omitempty"`
	Model        any    `json:"model,omitempty"`
	Spec         any    `json:"spec,omitempty"`
	Broken       any    `json:"broken_obligation,omitempty"`
	NoInputFound bool   `json:"no_failing_input_found,omitempty"`
	Class        string `json:"class,omitempty"` // violations of one class are reported once
	ReplayCmd    string `json:"replay_cmd,omitempty"`
}

const maxViolationLines = 8

// Violation writes a replay file and prints the VIOLATION line.
func (c *Ctx) Violation(r Replay) {
	if r.Class != "" {
		if c.seenClass == nil {
			c.seenClass = map[string]int{}
		}
		c.seenClass[r.Class]++
		if c.seenClass[r.Class] > 1 {
			c.violations++
			return
		}
	}
	c.violations++
	if c.replayCounter >= maxViolationLines {
		return
	}
	r.Property, r.Seed, r.Tier = c.Prop, c.Seed, c.Tier
	dir := filepath.Join(VerifDir, "replays")
	os.MkdirAll(dir, 0o755)
	c.replayCounter++
	path := filepath.Join(dir, fmt.Sprintf("%s-%d-%d.json", c.Prop, c.Seed, c.replayCounter))
	r.ReplayCmd = fmt.Sprintf("./check %s --replay %s", c.Prop, path)
	b, _ := json.MarshalIndent(r, "", " ")
	os.WriteFile(path, b, 0o644)
	fmt.Printf("  violation: %s\n", r.Summary)
	if r.NoInputFound {
		fmt.Printf("VIOLATION property=%s replay=%s no-failing-input-found\n", c.Prop, path)
	} else {
		fmt.Printf("VIOLATION property=%s replay=%s\n", c.Prop, path)
	}
}

func (c *Ctx) Violations() int { return c.violations }

// ---------------------------------------------------------------- lean pipeline

func lockLean() func() {
	f, err := os.OpenFile(filepath.Join(LeanDir, ".buildlock"), os.O_CREATE|os.O_RDWR, 0o644)
	if err != nil {
		return func() {}
	}
	syscall.Flock(int(f.Fd()), syscall.LOCK_EX)
	return func() { syscall.Flock(int(f.Fd()), syscall.LOCK_UN); f.Close() }
}

// WriteIfChanged writes a generated file only when its content differs.
func WriteIfChanged(path string, content string) {
	old, err := os.ReadFile(path)
	if err == nil && string(old) == content {
		return
	}
	os.MkdirAll(filepath.Dir(path), 0o755)
	os.WriteFile(path, []byte(content), 0o644)
}

// LakeBuild builds the given targets; returns ok and combined output.
func LakeBuild(targets ...string) (bool, string) {
	unlock := lockLean()
	defer unlock()
	args := append([]string{"build"}, targets...)
	cmd := exec.Command("lake", args...)
	cmd.Dir = LeanDir
	out, err := cmd.CombinedOutput()
	return err == nil, string(out)
}

var theoremRe = regexp.MustCompile(`(?m)^\s*(?:private\s+|protected\s+)?theorem\s+([A-Za-z0-9_.'!?]+)`)
var namespaceRe = regexp.MustCompile(`(?m)^namespace\s+(\S+)`)
var forbiddenRe = regexp.MustCompile(`\b(sorry|admit|native_decide|bv_decide|implemented_by|unsafe)\b|^\s*axiom\s|maxHeartbeats\s+0`)

// stripLeanComments removes -- and /- -/ comments (good enough for the grep audit).
func stripLeanComments(s string) string {
	var b strings.Builder
	depth := 0
	for i := 0; i < len(s); i++ {
		if depth == 0 && strings.HasPrefix(s[i:], "--") {
			for i < len(s) && s[i] != '\n' {
				i++
			}
			b.WriteByte('\n')
			continue
		}
		if strings.HasPrefix(s[i:], "/-") {
			depth++
			i++
			continue
		}
		if depth > 0 && strings.HasPrefix(s[i:], "-/") {
			depth--
			i++
			continue
		}
		if depth == 0 {
			b.WriteByte(s[i])
		} else if s[i] == '\n' {
			b.WriteByte('\n')
		}
	}
	return b.String()
}

// ProofStep regenerates the audit file for the property's Props module, builds
// it (which re-checks every theorem, including those over Gen tables) and
// audits axioms. It fills Obligations/Discharged/ProofBroken.
func (c *Ctx) ProofStep(propsModules ...string) {
	if len(propsModules) == 0 {
		propsModules = []string{"YangVerif.Props." + c.Prop}
	}
	// 1. collect theorem names from the Props files
	var names []string
	for _, mod := range propsModules {
		path := filepath.Join(LeanDir, strings.ReplaceAll(mod, ".", "/")+".lean")
		src, err := os.ReadFile(path)
		if err != nil {
			c.ProofBroken = append(c.ProofBroken, "missing "+path)
			continue
		}
		txt := stripLeanComments(string(src))
		ns := ""
		if m := namespaceRe.FindStringSubmatch(txt); m != nil {
			ns = m[1] + "."
		}
		for _, m := range theoremRe.FindAllStringSubmatch(txt, -1) {
			names = append(names, ns+m[1])
		}
	}
	c.Obligations = len(names)
	// 2. forbidden constructs anywhere in the library
	filepath.Walk(filepath.Join(LeanDir, "YangVerif"), func(p string, info os.FileInfo, err error) error {
		if err != nil || info.IsDir() || !strings.HasSuffix(p, ".lean") {
			return nil
		}
		src, _ := os.ReadFile(p)
		for i, line := range strings.Split(stripLeanComments(string(src)), "\n") {
			if forbiddenRe.MatchString(line) {
				c.ProofBroken = append(c.ProofBroken, fmt.Sprintf("forbidden construct at %s:%d: %s", p, i+1, strings.TrimSpace(line)))
			}
		}
		return nil
	})
	// 3. audit file
	var ab strings.Builder
	for _, mod := range propsModules {
		fmt.Fprintf(&ab, "import %s\n", mod)
	}
	for _, n := range names {
		fmt.Fprintf(&ab, "#print axioms %s\n", n)
	}
	auditMod := "Audit." + c.Prop
	WriteIfChanged(filepath.Join(LeanDir, "Audit", c.Prop+".lean"), ab.String())
	// 4. build
	targets := append([]string{}, propsModules...)
	ok, out := LakeBuild(targets...)
	if !ok {
		c.ProofBroken = append(c.ProofBroken, "lake build "+strings.Join(targets, " ")+" failed:\n"+tail(out, 60))
		c.Discharged = 0
		return
	}
	// 5. axioms
	unlock := lockLean()
	cmd := exec.Command("lake", "env", "lean", filepath.Join("Audit", c.Prop+".lean"))
	cmd.Dir = LeanDir
	outb, err := cmd.CombinedOutput()
	unlock()
	_ = auditMod
	if err != nil {
		c.ProofBroken = append(c.ProofBroken, "axiom audit failed:\n"+tail(string(outb), 40))
		return
	}
	allowed := map[string]bool{"propext": true, "Classical.choice": true, "Quot.sound": true}
	text := strings.ReplaceAll(string(outb), "\n  ", " ")
	reDep := regexp.MustCompile(`'([^']+)' depends on axioms: \[([^\]]*)\]`)
	reNo := regexp.MustCompile(`'([^']+)' does not depend on any axioms`)
	seen := map[string]bool{}
	for _, m := range reNo.FindAllStringSubmatch(text, -1) {
		seen[m[1]] = true
	}
	for _, m := range reDep.FindAllStringSubmatch(text, -1) {
		okAx := true
		for _, ax := range strings.Split(m[2], ",") {
			ax = strings.TrimSpace(ax)
			if ax == "" {
				continue
			}
			c.AxiomsSeen[ax]++
			if !allowed[ax] {
				okAx = false
				c.ProofBroken = append(c.ProofBroken, fmt.Sprintf("theorem %s depends on disallowed axiom %s", m[1], ax))
			}
		}
		if okAx {
			seen[m[1]] = true
		}
	}
	for _, n := range names {
		if seen[n] {
			c.Discharged++
			c.TheoremsChecked = append(c.TheoremsChecked, n)
		} else {
			c.ProofBroken = append(c.ProofBroken, "theorem not confirmed by audit: "+n)
		}
	}
}

func tail(s string, n int) string {
	lines := strings.Split(strings.TrimRight(s, "\n"), "\n")
	if len(lines) > n {
		lines = lines[len(lines)-n:]
	}
	return strings.Join(lines, "\n")
}

// LeanChecker re-checks the compiled Props module with the independent checker (thorough tier).
func (c *Ctx) LeanChecker(mod string) {
	unlock := lockLean()
	defer unlock()
	cmd := exec.Command("lake", "env", "leanchecker", mod)
	cmd.Dir = LeanDir
	out, err := cmd.CombinedOutput()
	if err != nil {
		c.ProofBroken = append(c.ProofBroken, "leanchecker "+mod+" failed: "+tail(string(out), 20))
	} else {
		c.Extra["leanchecker"] = "ok: " + mod
	}
}

// BuildDriver builds the native line-protocol driver; returns its path.
func BuildDriver() (string, error) {
	ok, out := LakeBuild("driver")
	if !ok {
		return "", fmt.Errorf("lake build driver failed:\n%s", tail(out, 60))
	}
	return filepath.Join(LeanDir, ".lake/build/bin/driver"), nil
}

// RunDriver pipes the lines to the Lean driver and returns one output line per input line.
func RunDriver(lines []string) ([]string, error) {
	if len(lines) == 0 {
		return nil, nil
	}
	exe, err := BuildDriver()
	if err != nil {
		return nil, err
	}
	// split across workers for large batches
	workers := 1
	if len(lines) > 20000 {
		workers = 8
	}
	chunk := (len(lines) + workers - 1) / workers
	outs := make([][]string, workers)
	errs := make([]error, workers)
	done := make(chan int, workers)
	for w := 0; w < workers; w++ {
		go func(w int) {
			defer func() { done <- w }()
			lo, hi := w*chunk, (w+1)*chunk
			if lo > len(lines) {
				lo = len(lines)
			}
			if hi > len(lines) {
				hi = len(lines)
			}
			if lo == hi {
				return
			}
			cmd := exec.Command(exe)
			cmd.Stdin = strings.NewReader(strings.Join(lines[lo:hi], "\n") + "\n")
			var ob, eb bytes.Buffer
			cmd.Stdout = &ob
			cmd.Stderr = &eb
			if err := cmd.Run(); err != nil {
				errs[w] = fmt.Errorf("driver: %v: %s", err, tail(eb.String(), 10))
				return
			}
			res := strings.Split(strings.TrimRight(ob.String(), "\n"), "\n")
			if len(res) != hi-lo {
				errs[w] = fmt.Errorf("driver returned %d lines for %d inputs", len(res), hi-lo)
				return
			}
			outs[w] = res
		}(w)
	}
	for w := 0; w < workers; w++ {
		<-done
	}
	var all []string
	for w := 0; w < workers; w++ {
		if errs[w] != nil {
			return nil, errs[w]
		}
		all = append(all, outs[w]...)
	}
	return all, nil
}

// ---------------------------------------------------------------- evidence

func (c *Ctx) Finish() int {
	// a broken proof obligation without any concrete failing input
	if len(c.ProofBroken) > 0 && c.violations == 0 {
		c.Violation(Replay{Kind: "proof-broken", Summary: "proof obligation no longer checks: " + firstLine(c.ProofBroken[0]),
			Broken: c.ProofBroken, NoInputFound: true})
	}
	cov := map[string]any{
		"obligations":           c.Obligations,
		"discharged":            c.Discharged,
		"checker_cmd":           fmt.Sprintf("cd /verif/lean && lake build YangVerif.Props.%s && lake env lean Audit/%s.lean", c.Prop, c.Prop),
		"trusted_base":          c.TrustedBase,
		"evaluations":           c.Evaluations,
		"distinct_nontrivial":   len(c.distinct),
		"rule":                  c.Rule,
		"samples":               c.Samples,
		"histograms":            c.Hist,
		"disagreements_checked": c.Disagree,
		"exhaustive":            c.Exhaustive,
		"axioms_seen":           c.AxiomsSeen,
		"theorems":              c.TheoremsChecked,
		"known_findings_hit":    c.KnownHits,
	}
	if len(c.ExhaustiveOf) > 0 {
		cov["exhaustive_subdomains"] = c.ExhaustiveOf
	}
	if len(c.ProofBroken) > 0 {
		cov["proof_broken"] = c.ProofBroken
	}
	keys := make([]string, 0, len(c.Extra))
	for k := range c.Extra {
		keys = append(keys, k)
	}
	sort.Strings(keys)
	for _, k := range keys {
		cov[k] = c.Extra[k]
	}
	if c.Samples == nil {
		cov["samples"] = []any{}
	}
	if c.TrustedBase == nil {
		cov["trusted_base"] = []string{}
	}
	ev := map[string]any{
		"property_id": c.Prop,
		"tier":        c.Tier,
		"seed":        c.Seed,
		"level":       "proof",
		"coverage":    cov,
		"assumptions": c.Assumptions,
		"wall_s":      time.Since(c.Start).Seconds(),
		"violations":  c.violations,
	}
	if c.Assumptions == nil {
		ev["assumptions"] = []string{}
	}
	b, _ := json.MarshalIndent(ev, "", " ")
	os.MkdirAll(filepath.Join(VerifDir, "evidence"), 0o755)
	if c.Replay == "" {
		os.WriteFile(filepath.Join(VerifDir, "evidence", c.Prop+".json"), b, 0o644)
	}
	fmt.Printf("%s %s seed=%d: obligations=%d discharged=%d evaluations=%d distinct=%d violations=%d wall=%.1fs\n",
		c.Prop, c.Tier, c.Seed, c.Obligations, c.Discharged, c.Evaluations, len(c.distinct), c.violations, time.Since(c.Start).Seconds())
	if c.violations > 0 {
		return 1
	}
	return 0
}

func firstLine(s string) string {
	if i := strings.IndexByte(s, '\n'); i >= 0 {
		return s[:i]
	}
	return s
}

// BaseTrusted is the part of the trusted base every check shares.
var BaseTrusted = []string{
	"Lean 4.33.0 kernel (leanchecker re-check in the thorough tier)",
	"axioms allowed in property theorems: propext, Classical.choice, Quot.sound (audited by #print axioms on every theorem of the Props module on every run)",
	"the Go harness (generators, canonicalisers, diff) and the go/ast extractor that regenerates lean/YangVerif/Gen/*.lean",
	"the Lean driver's line-protocol decoding",
	"Go compiler/runtime, reflect, sort, strconv, IEEE-754 float64 (assumed contracts)",
}

// FirstLines returns the first n lines of s joined by " | ".
func FirstLines(s string, n int) string {
	ls := strings.Split(strings.TrimSpace(s), "\n")
	if len(ls) > n {
		ls = ls[:n]
	}
	return strings.Join(ls, " | ")
}
