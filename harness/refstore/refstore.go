// Package refstore is the harness's own node.Node implementation: an independent reference
// store over positional gen.DNode trees. It implements the store contract the Lean editor
// model is proved against (child get/new/delete, next byKey/byRow/new/delete, field
// read/write/clear, choose), records every callback and can inject a fault at the k-th one.
package refstore

import (
	"strconv"
	"context"
	"fmt"
	"strings"

	"verif/harness/gen"

	"github.com/freeconf/yang/meta"
	"github.com/freeconf/yang/node"
	"github.com/freeconf/yang/val"
)

type Event struct {
	Op   string // child next field choose begin end
	Node string // path id of the node receiving the callback
	Arg  string
}

func (e Event) String() string { return e.Op + " " + e.Node + " " + e.Arg }

type InjectedError struct{ K int }

func (e *InjectedError) Error() string { return fmt.Sprintf("injected fault at callback %d", e.K) }

// Recorder is shared by all nodes of one run (source and target).
type Recorder struct {
	Events []Event
	FailAt int // 1-based index of the callback that fails; 0 = none
	Count  int
	Failed bool
}

func (r *Recorder) hit(op, nodeId, arg string) error {
	if r == nil {
		return nil
	}
	r.Count++
	r.Events = append(r.Events, Event{op, nodeId, arg})
	if r.FailAt != 0 && r.Count == r.FailAt {
		r.Failed = true
		return &InjectedError{K: r.Count}
	}
	return nil
}

// Body is a node.Node over a container body / list entry.
type Body struct {
	Rec  *Recorder
	Kids []*gen.SNode
	Data []*gen.DNode
	Id   string
	// ListSep, when set, separates the elements of a leaf-list inside the one text a leaf holds
	ListSep string
}

func NewBody(rec *Recorder, kids []*gen.SNode, data []*gen.DNode, id string) *Body {
	return &Body{Rec: rec, Kids: kids, Data: data, Id: id, ListSep: gen.ListSep}
}

func (b *Body) index(name string) int {
	for i, k := range b.Kids {
		if k.Name == name {
			return i
		}
	}
	return -1
}

// locate finds a data node by name, looking through the cases of choices (which are
// transparent in the data tree).
func locate(kids []*gen.SNode, data []*gen.DNode, name string) (*gen.SNode, *gen.DNode) {
	for i, k := range kids {
		if k.Kind == "choice" {
			for ci, c := range k.Cases {
				if s, d := locate(c.Kids, data[i].Cases[ci], name); s != nil {
					return s, d
				}
			}
			continue
		}
		if k.Name == name {
			return k, data[i]
		}
	}
	return nil, nil
}

func locateChoice(kids []*gen.SNode, data []*gen.DNode, name string) (*gen.SNode, *gen.DNode) {
	for i, k := range kids {
		if k.Kind != "choice" {
			continue
		}
		if k.Name == name {
			return k, data[i]
		}
		for ci, c := range k.Cases {
			if s, d := locateChoice(c.Kids, data[i].Cases[ci], name); s != nil {
				return s, d
			}
		}
	}
	return nil, nil
}

func bodyHasData(kids []*gen.SNode, data []*gen.DNode) bool {
	for i, k := range kids {
		d := data[i]
		switch k.Kind {
		case "choice":
			for ci, c := range k.Cases {
				if bodyHasData(c.Kids, d.Cases[ci]) {
					return true
				}
			}
		default:
			// a list holds data when it has entries (a list that was created and lost its entries again does not)
			if d.Leaf != nil || (k.Kind != "list" && d.Present) || len(d.Rows) > 0 {
				return true
			}
		}
	}
	return false
}

func flags(parts ...string) string {
	var out []string
	for _, p := range parts {
		if p != "" {
			out = append(out, p)
		}
	}
	return strings.Join(out, ",")
}

func (b *Body) Child(r node.ChildRequest) (node.Node, error) {
	name := r.Meta.Ident()
	fl := ""
	if r.New {
		fl = "new"
	} else if r.Delete {
		fl = "delete"
	}
	if err := b.Rec.hit("child", b.Id, flags(name, fl)); err != nil {
		return nil, err
	}
	s, d := locate(b.Kids, b.Data, name)
	if s == nil {
		return nil, fmt.Errorf("refstore: no child %s in %s", name, b.Id)
	}
	if s.Kind == "list" {
		switch {
		case r.New:
			d.Rows = nil
			d.Present = true
			return &List{Rec: b.Rec, S: s, D: d, Id: b.Id + "/" + name, ListSep: b.ListSep}, nil
		case r.Delete:
			d.Rows = nil
			d.Present = false
			return nil, nil
		}
		if len(d.Rows) == 0 && !d.Present {
			return nil, nil
		}
		if len(d.Rows) == 0 {
			return nil, nil
		}
		return &List{Rec: b.Rec, S: s, D: d, Id: b.Id + "/" + name, ListSep: b.ListSep}, nil
	}
	switch {
	case r.New:
		d.Present = true
		d.Kids = gen.EmptyBody(s.Kids)
	case r.Delete:
		d.Present = false
		d.Kids = nil
		return nil, nil
	}
	if !d.Present {
		return nil, nil
	}
	return &Body{Rec: b.Rec, Kids: s.Kids, Data: d.Kids, Id: b.Id + "/" + name, ListSep: b.ListSep}, nil
}

func (b *Body) Field(r node.FieldRequest, hnd *node.ValueHandle) error {
	name := r.Meta.Ident()
	op := "read"
	if r.Write {
		op = "write"
		if r.Clear {
			op = "clear"
		}
	}
	if err := b.Rec.hit("field", b.Id, flags(name, op)); err != nil {
		return err
	}
	_, d := locate(b.Kids, b.Data, name)
	if d == nil {
		return fmt.Errorf("refstore: no leaf %s in %s", name, b.Id)
	}
	if r.Write {
		if r.Clear || hnd.Val == nil {
			d.Leaf = nil
		} else if l, isList := hnd.Val.(val.Listable); isList && b.ListSep != "" {
			var parts []string
			for i := 0; i < l.Len(); i++ {
				parts = append(parts, ValText(l.Item(i)))
			}
			s := strings.Join(parts, b.ListSep)
			d.Leaf = &s
		} else {
			s := ValText(hnd.Val)
			d.Leaf = &s
		}
		return nil
	}
	if d.Leaf != nil {
		var raw interface{} = *d.Leaf
		if _, isLL := r.Meta.(*meta.LeafList); isLL && b.ListSep != "" {
			raw = strings.Split(*d.Leaf, b.ListSep)
		}
		v, err := node.NewValue(r.Meta.Type(), raw)
		if err != nil {
			return err
		}
		hnd.Val = v
	}
	return nil
}

// Next on a container: a document rooted at the parent of a list can stand in for the list
// (the way the JSON reader allows for ReplaceFrom on a list entry)
func (b *Body) Next(r node.ListRequest) (node.Node, []val.Value, error) {
	s, d := locate(b.Kids, b.Data, r.Meta.Ident())
	if s == nil || s.Kind != "list" {
		return nil, nil, fmt.Errorf("refstore: Next on a container %s", b.Id)
	}
	return (&List{Rec: b.Rec, S: s, D: d, Id: b.Id + "/" + s.Name, ListSep: b.ListSep}).Next(r)
}

func (b *Body) Choose(sel *node.Selection, choice *meta.Choice) (*meta.ChoiceCase, error) {
	if err := b.Rec.hit("choose", b.Id, choice.Ident()); err != nil {
		return nil, err
	}
	// first case, in sorted case-ident order, that holds any data
	cs, cd := locateChoice(b.Kids, b.Data, choice.Ident())
	if cs == nil {
		return nil, fmt.Errorf("refstore: no choice %s in %s", choice.Ident(), b.Id)
	}
	for ci, c := range cs.Cases {
		if bodyHasData(c.Kids, cd.Cases[ci]) {
			mc := choice.Cases()[c.Name]
			if mc == nil {
				return nil, fmt.Errorf("refstore: case %s not in schema", c.Name)
			}
			return mc, nil
		}
	}
	return nil, nil
}

func editFlags(r node.NodeRequest) string {
	return flags(map[bool]string{true: "new"}[r.New], map[bool]string{true: "delete"}[r.Delete], map[bool]string{true: "root"}[r.EditRoot])
}

func (b *Body) BeginEdit(r node.NodeRequest) error { return b.Rec.hit("begin", b.Id, editFlags(r)) }
func (b *Body) EndEdit(r node.NodeRequest) error   { return b.Rec.hit("end", b.Id, editFlags(r)) }
func (b *Body) Action(r node.ActionRequest) (node.Node, error) {
	return nil, fmt.Errorf("refstore: no actions")
}
func (b *Body) Notify(r node.NotifyRequest) (node.NotifyCloser, error) {
	return nil, fmt.Errorf("refstore: no notifications")
}
func (b *Body) Peek(sel *node.Selection, consumer interface{}) interface{} { return nil }
func (b *Body) Context(sel *node.Selection) context.Context              { return sel.Context }
func (b *Body) Release(sel *node.Selection)                              {}

// List is the node.Node of a list (not inside an entry).
type List struct {
	Rec     *Recorder
	S       *gen.SNode
	D       *gen.DNode
	Id      string
	ListSep string
}

// NoKeyOnLookup makes the lists answer a lookup by key with the entry and no key, which node.Node allows
// ("no need to trust implementation to return the key we passed to them")
var NoKeyOnLookup bool

func keyTexts(key []val.Value) []string {
	out := make([]string, len(key))
	for i, k := range key {
		if k != nil {
			out[i] = k.String()
		}
	}
	return out
}

func sameKey(a, b []string) bool {
	if len(a) != len(b) {
		return false
	}
	for i := range a {
		if a[i] != b[i] {
			return false
		}
	}
	return true
}

func (l *List) keyVals(r node.ListRequest, key []string) ([]val.Value, error) {
	km := r.Meta.KeyMeta()
	out := make([]val.Value, len(key))
	for i := range key {
		if i >= len(km) {
			break
		}
		v, err := node.NewValue(km[i].Type(), key[i])
		if err != nil {
			return nil, err
		}
		out[i] = v
	}
	return out, nil
}

func (l *List) Next(r node.ListRequest) (node.Node, []val.Value, error) {
	arg := ""
	switch {
	case r.New:
		arg = "new " + strings.Join(keyTexts(r.Key), ",")
	case r.Delete:
		arg = "delete " + strings.Join(keyTexts(r.Key), ",")
	case r.Key != nil:
		arg = "key " + strings.Join(keyTexts(r.Key), ",")
	default:
		arg = fmt.Sprintf("row %d", r.Row)
	}
	if err := l.Rec.hit("next", l.Id, arg); err != nil {
		return nil, nil, err
	}
	entry := func(row *gen.DRow) node.Node {
		return &Body{Rec: l.Rec, Kids: l.S.Kids, Data: row.Kids, Id: l.Id + "=" + strings.Join(row.Key, ","), ListSep: l.ListSep}
	}
	switch {
	case r.New:
		row := &gen.DRow{Key: keyTexts(r.Key), Kids: gen.EmptyBody(l.S.Kids)}
		l.D.Rows = append(l.D.Rows, row)
		return entry(row), r.Key, nil
	case r.Delete:
		want := keyTexts(r.Key)
		for i, row := range l.D.Rows {
			if sameKey(row.Key, want) {
				l.D.Rows = append(append([]*gen.DRow{}, l.D.Rows[:i]...), l.D.Rows[i+1:]...)
				break
			}
		}
		return nil, nil, nil
	case r.Key != nil:
		want := keyTexts(r.Key)
		for _, row := range l.D.Rows {
			if sameKey(row.Key, want) {
				if NoKeyOnLookup {
					return entry(row), nil, nil
				}
				return entry(row), r.Key, nil
			}
		}
		return nil, nil, nil
	}
	if r.Row < len(l.D.Rows) {
		row := l.D.Rows[r.Row]
		key, err := l.keyVals(r, row.Key)
		if err != nil {
			return nil, nil, err
		}
		return entry(row), key, nil
	}
	return nil, nil, nil
}

func (l *List) Child(r node.ChildRequest) (node.Node, error) {
	return nil, fmt.Errorf("refstore: Child on a list %s", l.Id)
}
func (l *List) Field(r node.FieldRequest, hnd *node.ValueHandle) error {
	return fmt.Errorf("refstore: Field on a list %s", l.Id)
}
func (l *List) Choose(sel *node.Selection, choice *meta.Choice) (*meta.ChoiceCase, error) {
	return nil, fmt.Errorf("refstore: Choose on a list %s", l.Id)
}
func (l *List) BeginEdit(r node.NodeRequest) error { return l.Rec.hit("begin", l.Id, editFlags(r)) }
func (l *List) EndEdit(r node.NodeRequest) error   { return l.Rec.hit("end", l.Id, editFlags(r)) }
func (l *List) Action(r node.ActionRequest) (node.Node, error) {
	return nil, fmt.Errorf("refstore: no actions")
}
func (l *List) Notify(r node.NotifyRequest) (node.NotifyCloser, error) {
	return nil, fmt.Errorf("refstore: no notifications")
}
func (l *List) Peek(sel *node.Selection, consumer interface{}) interface{} { return nil }
func (l *List) Context(sel *node.Selection) context.Context              { return sel.Context }
func (l *List) Release(sel *node.Selection)                              {}

// ValText is the text the store keeps for a value: String() of the value, except that a decimal64 keeps
// every digit (Decimal64.String() rounds to six places, which would hide a loss of precision).
func ValText(v val.Value) string {
	if v.Format() == val.FmtDecimal64 {
		if f, ok := v.Value().(float64); ok {
			return strconv.FormatFloat(f, 'f', -1, 64)
		}
	}
	return v.String()
}
