// Package gen holds the schema and data generators shared by the data-tree properties
// (C03 C04 C08 C09 C12 C18 …) and the positional encoding used by the Lean model.
package gen

import (
	"fmt"
	"sort"
	"strings"

	"verif/harness/core"
)

// SNode is a generated schema node. Data is positional: a container body is a slice
// aligned with Kids.
type SNode struct {
	Name    string
	Kind    string // leaf | cont | list
	Type    string // leaf: string | int32
	Default *string
	NKeys   int
	Kids    []*SNode
}

// DNode is data shaped by an SNode.
type DNode struct {
	Leaf    *string // leaf: canonical text, nil = unset
	Present bool    // cont
	Kids    []*DNode
	Rows    []*DRow // list
}

type DRow struct {
	Key  []string
	Kids []*DNode
}

type Opts struct {
	MaxDepth  int
	MaxKids   int
	Hostile   bool // hostile key alphabet
	Defaults  bool
	MultiKeys bool
}

var nameSeq int

func GenSchema(r *core.Rng, o Opts) []*SNode {
	nameSeq = 0
	return genKids(r, o, 0, 2+r.Intn(o.MaxKids-1))
}

func genKids(r *core.Rng, o Opts, depth int, n int) []*SNode {
	var out []*SNode
	for i := 0; i < n; i++ {
		nameSeq++
		k := r.Intn(10)
		switch {
		case k < 5 || depth >= o.MaxDepth:
			out = append(out, genLeaf(r, o, fmt.Sprintf("f%d", nameSeq)))
		case k < 7:
			out = append(out, &SNode{Name: fmt.Sprintf("c%d", nameSeq), Kind: "cont", Kids: genKids(r, o, depth+1, 1+r.Intn(o.MaxKids))})
		default:
			l := &SNode{Name: fmt.Sprintf("l%d", nameSeq), Kind: "list", NKeys: 1}
			if o.MultiKeys && r.Chance(30) {
				l.NKeys = 2
			}
			for j := 0; j < l.NKeys; j++ {
				nameSeq++
				kl := &SNode{Name: fmt.Sprintf("k%d", nameSeq), Kind: "leaf", Type: "string"}
				if r.Chance(30) {
					kl.Type = "int32"
				}
				l.Kids = append(l.Kids, kl)
			}
			l.Kids = append(l.Kids, genKids(r, o, depth+1, 1+r.Intn(o.MaxKids))...)
			out = append(out, l)
		}
	}
	return out
}

func genLeaf(r *core.Rng, o Opts, name string) *SNode {
	l := &SNode{Name: name, Kind: "leaf", Type: "string"}
	if r.Chance(35) {
		l.Type = "int32"
	}
	if o.Defaults && r.Chance(35) {
		d := "dv" + name
		if l.Type == "int32" {
			d = fmt.Sprint(7 + r.Intn(90))
		}
		l.Default = &d
	}
	return l
}

// Yang renders the children as YANG statements.
func Yang(kids []*SNode, indent string) string {
	var b strings.Builder
	for _, s := range kids {
		switch s.Kind {
		case "leaf":
			fmt.Fprintf(&b, "%sleaf %s { type %s;", indent, s.Name, s.Type)
			if s.Default != nil {
				fmt.Fprintf(&b, " default \"%s\";", *s.Default)
			}
			b.WriteString(" }\n")
		case "cont":
			fmt.Fprintf(&b, "%scontainer %s {\n%s%s}\n", indent, s.Name, Yang(s.Kids, indent+"  "), indent)
		case "list":
			var ks []string
			for i := 0; i < s.NKeys; i++ {
				ks = append(ks, s.Kids[i].Name)
			}
			fmt.Fprintf(&b, "%slist %s { key \"%s\";\n%s%s}\n", indent, s.Name, strings.Join(ks, " "), Yang(s.Kids, indent+"  "), indent)
		}
	}
	return b.String()
}

func Module(name string, kids []*SNode) string {
	return fmt.Sprintf("module %s { namespace \"urn:%s\"; prefix %s; revision 2020-01-01;\n%s}\n", name, name, name, Yang(kids, "  "))
}

var keyAlphabet = []string{"a", "b", "k", "x1", "zz", "A"}
var hostileKeys = []string{"a/b", "a,b", "a=b", "50%", "a+b", "a b", "é", "日本", "x?y", "a&b", "q\"q", "%2F", "", "a#b", "..", "a;b"}

func genLeafVal(r *core.Rng, s *SNode) string {
	if s.Type == "int32" {
		return fmt.Sprint(r.Intn(50) - 10)
	}
	return core.Pick(r, []string{"v", "w", "hello", "x y", "", "é", "0"}) + fmt.Sprint(r.Intn(5))
}

func genKey(r *core.Rng, s *SNode, o Opts) string {
	if s.Type == "int32" {
		return fmt.Sprint(r.Intn(6) - 1)
	}
	if o.Hostile && r.Chance(50) {
		return core.Pick(r, hostileKeys)
	}
	return core.Pick(r, keyAlphabet)
}

// GenBody generates conforming data for the children; density in percent.
func GenBody(r *core.Rng, kids []*SNode, density int, o Opts) []*DNode {
	out := make([]*DNode, len(kids))
	for i, s := range kids {
		out[i] = GenData(r, s, density, o)
	}
	return out
}

func GenData(r *core.Rng, s *SNode, density int, o Opts) *DNode {
	d := &DNode{}
	switch s.Kind {
	case "leaf":
		if r.Chance(density) {
			v := genLeafVal(r, s)
			d.Leaf = &v
		}
	case "cont":
		if r.Chance(density) {
			d.Present = true
			d.Kids = GenBody(r, s.Kids, density, o)
		}
	case "list":
		if r.Chance(density) {
			n := 1 + r.Intn(4)
			seen := map[string]bool{}
			for i := 0; i < n; i++ {
				var key []string
				for j := 0; j < s.NKeys; j++ {
					key = append(key, genKey(r, s.Kids[j], o))
				}
				ks := strings.Join(key, "\x00")
				if seen[ks] {
					continue
				}
				seen[ks] = true
				body := GenBody(r, s.Kids, density, o)
				for j := 0; j < s.NKeys; j++ {
					k := key[j]
					body[j] = &DNode{Leaf: &k}
				}
				d.Rows = append(d.Rows, &DRow{Key: key, Kids: body})
			}
		}
	}
	return d
}

// EmptyBody is a body with nothing set.
func EmptyBody(kids []*SNode) []*DNode {
	out := make([]*DNode, len(kids))
	for i := range kids {
		out[i] = &DNode{}
	}
	return out
}

// ---------------------------------------------------------------- token encoding (Lean line protocol)

func hexTok(s string) string { return "h" + core.Hex(s) } // "h-" = empty string, "~" = none

func SchemaTokens(kids []*SNode) []string {
	out := []string{fmt.Sprint(len(kids))}
	for _, s := range kids {
		switch s.Kind {
		case "leaf":
			if s.Default != nil {
				out = append(out, "L", hexTok(*s.Default))
			} else {
				out = append(out, "L", "~")
			}
		case "cont":
			out = append(out, "C")
			out = append(out, SchemaTokens(s.Kids)...)
		case "list":
			out = append(out, "K", fmt.Sprint(s.NKeys))
			out = append(out, SchemaTokens(s.Kids)...)
		}
	}
	return out
}

func BodyTokens(kids []*SNode, body []*DNode) []string {
	out := []string{fmt.Sprint(len(body))}
	for i, d := range body {
		out = append(out, DataTokens(kids[i], d)...)
	}
	return out
}

func DataTokens(s *SNode, d *DNode) []string {
	switch s.Kind {
	case "leaf":
		if d.Leaf == nil {
			return []string{"l", "~"}
		}
		return []string{"l", hexTok(*d.Leaf)}
	case "cont":
		if !d.Present {
			return []string{"c0"}
		}
		return append([]string{"c1"}, BodyTokens(s.Kids, d.Kids)...)
	}
	return RowsTokens(s, d.Rows)
}

func RowsTokens(s *SNode, rows []*DRow) []string {
	out := []string{"r", fmt.Sprint(len(rows))}
	for _, row := range rows {
		out = append(out, fmt.Sprint(len(row.Key)))
		for _, k := range row.Key {
			out = append(out, hexTok(k))
		}
		out = append(out, BodyTokens(s.Kids, row.Kids)...)
	}
	return out
}

type tokReader struct {
	toks []string
	pos  int
	err  error
}

func (t *tokReader) next() string {
	if t.pos >= len(t.toks) {
		t.err = fmt.Errorf("unexpected end of tokens")
		return ""
	}
	s := t.toks[t.pos]
	t.pos++
	return s
}

func (t *tokReader) num() int {
	var n int
	fmt.Sscan(t.next(), &n)
	return n
}

func unhexTok(s string) *string {
	if s == "~" {
		return nil
	}
	v := core.Unhex(strings.TrimPrefix(s, "h"))
	return &v
}

// ParseBody decodes body tokens produced by the Lean driver.
func ParseBody(kids []*SNode, toks []string) ([]*DNode, error) {
	t := &tokReader{toks: toks}
	b := t.body(kids)
	if t.err == nil && t.pos != len(toks) {
		t.err = fmt.Errorf("trailing tokens")
	}
	return b, t.err
}

func ParseRows(s *SNode, toks []string) ([]*DRow, error) {
	t := &tokReader{toks: toks}
	d := t.data(s)
	return d.Rows, t.err
}

func (t *tokReader) body(kids []*SNode) []*DNode {
	n := t.num()
	if n != len(kids) {
		t.err = fmt.Errorf("body length %d for %d schema children", n, len(kids))
		return nil
	}
	out := make([]*DNode, n)
	for i := 0; i < n && t.err == nil; i++ {
		out[i] = t.data(kids[i])
	}
	return out
}

func (t *tokReader) data(s *SNode) *DNode {
	d := &DNode{}
	switch tag := t.next(); tag {
	case "l":
		d.Leaf = unhexTok(t.next())
	case "c0":
	case "c1":
		d.Present = true
		d.Kids = t.body(s.Kids)
	case "r":
		n := t.num()
		for i := 0; i < n && t.err == nil; i++ {
			nk := t.num()
			row := &DRow{}
			for j := 0; j < nk; j++ {
				row.Key = append(row.Key, *unhexTok(t.next()))
			}
			row.Kids = t.body(s.Kids)
			d.Rows = append(d.Rows, row)
		}
	default:
		t.err = fmt.Errorf("bad data tag %q", tag)
	}
	return d
}

// Canon renders a body canonically for comparison; unordered lists are sorted by key.
func Canon(kids []*SNode, body []*DNode, unorderedLists bool) string {
	var b strings.Builder
	canonBody(&b, kids, body, unorderedLists)
	return b.String()
}

func canonBody(b *strings.Builder, kids []*SNode, body []*DNode, un bool) {
	b.WriteString("{")
	for i, s := range kids {
		var d *DNode
		if i < len(body) {
			d = body[i]
		}
		if d == nil {
			d = &DNode{}
		}
		switch s.Kind {
		case "leaf":
			if d.Leaf != nil {
				fmt.Fprintf(b, "%s=%q ", s.Name, *d.Leaf)
			}
		case "cont":
			if d.Present {
				b.WriteString(s.Name)
				canonBody(b, s.Kids, d.Kids, un)
				b.WriteString(" ")
			}
		case "list":
			if len(d.Rows) > 0 {
				rows := append([]*DRow{}, d.Rows...)
				if un {
					sort.SliceStable(rows, func(i, j int) bool {
						return strings.Join(rows[i].Key, "\x00") < strings.Join(rows[j].Key, "\x00")
					})
				}
				b.WriteString(s.Name + "[")
				for _, r := range rows {
					fmt.Fprintf(b, "%q:", r.Key)
					canonBody(b, s.Kids, r.Kids, un)
				}
				b.WriteString("] ")
			}
		}
	}
	b.WriteString("}")
}

// Clone deep-copies a body.
func Clone(body []*DNode) []*DNode {
	out := make([]*DNode, len(body))
	for i, d := range body {
		out[i] = cloneD(d)
	}
	return out
}

func cloneD(d *DNode) *DNode {
	if d == nil {
		return nil
	}
	c := &DNode{Present: d.Present}
	if d.Leaf != nil {
		v := *d.Leaf
		c.Leaf = &v
	}
	if d.Kids != nil {
		c.Kids = Clone(d.Kids)
	}
	for _, r := range d.Rows {
		c.Rows = append(c.Rows, &DRow{Key: append([]string{}, r.Key...), Kids: Clone(r.Kids)})
	}
	return c
}

// ---------------------------------------------------------------- conversions

// Overlap rewrites some list keys of src so that they coincide with keys of tgt.
func Overlap(r *core.Rng, kids []*SNode, src, tgt []*DNode) {
	for i, s := range kids {
		a, b := src[i], tgt[i]
		switch s.Kind {
		case "cont":
			if a.Present && b.Present {
				Overlap(r, s.Kids, a.Kids, b.Kids)
			}
		case "list":
			if len(a.Rows) == 0 || len(b.Rows) == 0 {
				continue
			}
			seen := map[string]bool{}
			for _, row := range a.Rows {
				seen[strings.Join(row.Key, "\x00")] = true
			}
			for _, row := range a.Rows {
				if !r.Chance(50) {
					continue
				}
				tr := b.Rows[r.Intn(len(b.Rows))]
				ks := strings.Join(tr.Key, "\x00")
				if seen[ks] {
					continue
				}
				delete(seen, strings.Join(row.Key, "\x00"))
				seen[ks] = true
				row.Key = append([]string{}, tr.Key...)
				for j := 0; j < s.NKeys; j++ {
					k := row.Key[j]
					row.Kids[j] = &DNode{Leaf: &k}
				}
				Overlap(r, s.Kids, row.Kids, tr.Kids)
			}
		}
	}
}

func leafGo(s *SNode, v string) interface{} {
	if s.Type == "int32" {
		var n int
		fmt.Sscan(v, &n)
		return n
	}
	return v
}

// ToMap converts a body into the nested map / slice form reflection nodes and the JSON encoder use.
func ToMap(kids []*SNode, body []*DNode) map[string]interface{} {
	m := map[string]interface{}{}
	for i, s := range kids {
		d := body[i]
		switch s.Kind {
		case "leaf":
			if d.Leaf != nil {
				m[s.Name] = leafGo(s, *d.Leaf)
			}
		case "cont":
			if d.Present {
				m[s.Name] = ToMap(s.Kids, d.Kids)
			}
		case "list":
			if len(d.Rows) > 0 {
				var l []interface{}
				for _, row := range d.Rows {
					l = append(l, ToMap(s.Kids, row.Kids))
				}
				m[s.Name] = l
			}
		}
	}
	return m
}

// FromMap reads a store of nested maps/slices back into positional form, independent of the library.
// unordered reports whether any list was held in a Go map (entry order is then not meaningful).
func FromMap(kids []*SNode, in interface{}, unordered *bool) []*DNode {
	get := func(name string) (interface{}, bool) {
		switch m := in.(type) {
		case map[string]interface{}:
			v, ok := m[name]
			return v, ok
		case map[interface{}]interface{}:
			v, ok := m[name]
			return v, ok
		}
		return nil, false
	}
	out := EmptyBody(kids)
	for i, s := range kids {
		v, ok := get(s.Name)
		if !ok || v == nil {
			continue
		}
		switch s.Kind {
		case "leaf":
			t := fmt.Sprint(v)
			out[i].Leaf = &t
		case "cont":
			out[i].Present = true
			out[i].Kids = FromMap(s.Kids, v, unordered)
		case "list":
			var items []interface{}
			switch l := v.(type) {
			case []interface{}:
				items = l
			case []map[string]interface{}:
				for _, x := range l {
					items = append(items, x)
				}
			default:
				// a Go map keyed by the list key
				*unordered = true
				items = mapValues(v)
			}
			for _, it := range items {
				body := FromMap(s.Kids, it, unordered)
				row := &DRow{Kids: body}
				for j := 0; j < s.NKeys; j++ {
					k := ""
					if body[j].Leaf != nil {
						k = *body[j].Leaf
					}
					row.Key = append(row.Key, k)
				}
				out[i].Rows = append(out[i].Rows, row)
			}
		}
	}
	return out
}

func mapValues(v interface{}) []interface{} {
	var out []interface{}
	switch m := v.(type) {
	case map[string]interface{}:
		for _, x := range m {
			out = append(out, x)
		}
	case map[int]interface{}:
		for _, x := range m {
			out = append(out, x)
		}
	case map[int64]interface{}:
		for _, x := range m {
			out = append(out, x)
		}
	case map[interface{}]interface{}:
		for _, x := range m {
			out = append(out, x)
		}
	}
	return out
}

// Paths to every present container (depth-first), as lists of child indexes.
type Loc struct {
	Path []string // url segments
	Kids []*SNode
	Body []*DNode
}
