// Package gen holds the schema and data generators shared by the data-tree properties
// (C03 C04 C08 C09 C12 C18 …) and the positional encoding used by the Lean model.
package gen

import (
	"reflect"
	"fmt"
	"sort"
	"strings"

	"verif/harness/core"
)

// SNode is a generated schema node. Data is positional: a container body is a slice
// aligned with Kids.
type SNode struct {
	Name      string
	Kind      string // leaf | cont | list | choice
	Type      string // leaf: string | int32
	Default   *string
	NKeys     int
	Kids      []*SNode
	Cases     []*SCase // choice: in sorted case-ident order (the order Choice.CaseIdents gives)
	NonConfig bool     // container / list stated "config false"
	LeafList  bool     // leaf: it is a leaf-list; its text is the items joined by ListSep
}

// ListSep separates the items of a leaf-list in the text form of its value.
const ListSep = "\x1e"

// SCase is a case of a choice; Shorthand means it is written as a bare node under the choice.
type SCase struct {
	Name      string
	Kids      []*SNode
	Shorthand bool
}

// DNode is data shaped by an SNode.
type DNode struct {
	Leaf    *string // leaf: canonical text, nil = unset
	Present bool    // cont
	Kids    []*DNode
	Rows    []*DRow    // list
	Cases   [][]*DNode // choice: one body per case
}

type DRow struct {
	Key  []string
	Kids []*DNode
}

type Opts struct {
	MaxDepth  int
	MaxKids   int
	Hostile   bool // hostile key alphabet
	Defaults  bool
	MultiKeys bool
	NonConfig bool // some containers / lists are config false
	LeafNonConfig bool // some leaves (not keys) of config nodes are config false
	LeafLists bool // some leaves are leaf-lists
	NoZero    bool // no int value 0 (struct-backed stores cannot tell 0 from unset)
}

var nameSeq int

func GenSchema(r *core.Rng, o Opts) []*SNode {
	nameSeq = 0
	return genKids(r, o, 0, 2+r.Intn(o.MaxKids-1))
}

func genKids(r *core.Rng, o Opts, depth int, n int) []*SNode {
	var out []*SNode
	for i := 0; i < n; i++ {
		nameSeq++
		k := r.Intn(10)
		switch {
		case k < 5 || depth >= o.MaxDepth:
			out = append(out, genLeaf(r, o, fmt.Sprintf("f%d", nameSeq)))
		case k < 7:
			cn := &SNode{Name: fmt.Sprintf("c%d", nameSeq), Kind: "cont"}
			o2 := o
			if o.NonConfig && r.Chance(30) {
				cn.NonConfig = true
				o2.NonConfig = false // everything below is config false already
			}
			cn.Kids = genKids(r, o2, depth+1, 1+r.Intn(o.MaxKids))
			out = append(out, cn)
		default:
			l := &SNode{Name: fmt.Sprintf("l%d", nameSeq), Kind: "list", NKeys: 1}
			if o.NonConfig && r.Chance(30) {
				l.NonConfig = true
				o.NonConfig = false
				defer func() { o.NonConfig = true }()
			}
			if o.MultiKeys && r.Chance(30) {
				l.NKeys = 2
			}
			for j := 0; j < l.NKeys; j++ {
				nameSeq++
				kl := &SNode{Name: fmt.Sprintf("k%d", nameSeq), Kind: "leaf", Type: "string"}
				if r.Chance(30) {
					kl.Type = "int32"
				}
				l.Kids = append(l.Kids, kl)
			}
			l.Kids = append(l.Kids, genKids(r, o, depth+1, 1+r.Intn(o.MaxKids))...)
			out = append(out, l)
		}
	}
	return out
}

func genLeaf(r *core.Rng, o Opts, name string) *SNode {
	l := &SNode{Name: name, Kind: "leaf", Type: "string"}
	if r.Chance(35) {
		l.Type = "int32"
	}
	if o.Defaults && r.Chance(35) {
		d := "dv" + name
		if l.Type == "int32" {
			d = fmt.Sprint(7 + r.Intn(90))
		}
		l.Default = &d
	}
	if o.LeafNonConfig && o.NonConfig && r.Chance(25) {
		l.NonConfig = true
	}
	if o.LeafLists && l.Default == nil && r.Chance(22) {
		l.LeafList = true
	}
	return l
}

// Yang renders the children as YANG statements.
func Yang(kids []*SNode, indent string) string {
	var b strings.Builder
	for _, s := range kids {
		switch s.Kind {
		case "leaf":
			kw := "leaf"
			if s.LeafList {
				kw = "leaf-list"
			}
			fmt.Fprintf(&b, "%s%s %s { type %s;", indent, kw, s.Name, s.Type)
			if s.NonConfig {
				b.WriteString(" config false;")
			}
			if s.Default != nil {
				fmt.Fprintf(&b, " default \"%s\";", *s.Default)
			}
			b.WriteString(" }\n")
		case "cont":
			cfg := ""
			if s.NonConfig {
				cfg = " config false;"
			}
			fmt.Fprintf(&b, "%scontainer %s {%s\n%s%s}\n", indent, s.Name, cfg, Yang(s.Kids, indent+"  "), indent)
		case "choice":
			fmt.Fprintf(&b, "%schoice %s {\n", indent, s.Name)
			for _, c := range s.Cases {
				if c.Shorthand {
					b.WriteString(Yang(c.Kids, indent+"  "))
				} else {
					fmt.Fprintf(&b, "%s  case %s {\n%s%s  }\n", indent, c.Name, Yang(c.Kids, indent+"    "), indent)
				}
			}
			fmt.Fprintf(&b, "%s}\n", indent)
		case "list":
			var ks []string
			for i := 0; i < s.NKeys; i++ {
				ks = append(ks, s.Kids[i].Name)
			}
			cfg := ""
			if s.NonConfig {
				cfg = " config false;"
			}
			fmt.Fprintf(&b, "%slist %s { key \"%s\";%s\n%s%s}\n", indent, s.Name, strings.Join(ks, " "), cfg, Yang(s.Kids, indent+"  "), indent)
		}
	}
	return b.String()
}

func Module(name string, kids []*SNode) string {
	return fmt.Sprintf("module %s { namespace \"urn:%s\"; prefix %s; revision 2020-01-01;\n%s}\n", name, name, name, Yang(kids, "  "))
}

var keyAlphabet = []string{"a", "b", "k", "x1", "zz", "A"}
var hostileKeys = []string{"a/b", "a,b", "a=b", "50%", "a+b", "a b", "é", "日本", "x?y", "a&b", "q\"q", "%2F", "", "a#b", "..", "a;b"}

func genLeafVal(r *core.Rng, s *SNode, noZero ...bool) string {
	nz := len(noZero) > 0 && noZero[0]
	if s.LeafList {
		n := 1 + r.Intn(4)
		var items []string
		for i := 0; i < n; i++ {
			items = append(items, genItemVal(r, s, nz))
		}
		return strings.Join(items, ListSep)
	}
	return genItemVal(r, s, nz)
}

func genItemVal(r *core.Rng, s *SNode, noZero bool) string {
	if s.Type == "int32" {
		v := r.Intn(50) - 10
		if v == 0 && noZero {
			v = 41 // struct-backed stores cannot tell 0 from unset
		}
		return fmt.Sprint(v)
	}
	return core.Pick(r, []string{"v", "w", "hello", "x y", "", "é", "0"}) + fmt.Sprint(r.Intn(5))
}

func genKey(r *core.Rng, s *SNode, o Opts) string {
	if s.Type == "int32" {
		return fmt.Sprint(r.Intn(6) - 1)
	}
	if o.Hostile && r.Chance(50) {
		return core.Pick(r, hostileKeys)
	}
	return core.Pick(r, keyAlphabet)
}

// GenBody generates conforming data for the children; density in percent.
func GenBody(r *core.Rng, kids []*SNode, density int, o Opts) []*DNode {
	out := make([]*DNode, len(kids))
	for i, s := range kids {
		out[i] = GenData(r, s, density, o)
	}
	return out
}

func GenData(r *core.Rng, s *SNode, density int, o Opts) *DNode {
	d := &DNode{}
	switch s.Kind {
	case "leaf":
		if r.Chance(density) {
			v := genLeafVal(r, s, o.NoZero)
			d.Leaf = &v
		}
	case "cont":
		if r.Chance(density) {
			d.Present = true
			d.Kids = GenBody(r, s.Kids, density, o)
		}
	case "list":
		if r.Chance(density) {
			n := 1 + r.Intn(4)
			seen := map[string]bool{}
			for i := 0; i < n; i++ {
				var key []string
				for j := 0; j < s.NKeys; j++ {
					key = append(key, genKey(r, s.Kids[j], o))
				}
				ks := strings.Join(key, "\x00")
				if seen[ks] {
					continue
				}
				seen[ks] = true
				body := GenBody(r, s.Kids, density, o)
				for j := 0; j < s.NKeys; j++ {
					k := key[j]
					body[j] = &DNode{Leaf: &k}
				}
				d.Rows = append(d.Rows, &DRow{Key: key, Kids: body})
			}
		}
	}
	return d
}

// EmptyBody is a body with nothing set.
func EmptyBody(kids []*SNode) []*DNode {
	out := make([]*DNode, len(kids))
	for i, s := range kids {
		out[i] = &DNode{}
		if s.Kind == "choice" {
			for _, c := range s.Cases {
				out[i].Cases = append(out[i].Cases, EmptyBody(c.Kids))
			}
		}
	}
	return out
}

// Flatten splices the nodes of every case of every choice into the enclosing body (schema and data alike):
// what a reader or writer of data sees, since choices and cases have no representation in data.
// Leaf DNodes are shared with the input, containers and rows are copied.
func Flatten(kids []*SNode, body []*DNode) ([]*SNode, []*DNode) {
	var fk []*SNode
	var fb []*DNode
	for i, s := range kids {
		d := body[i]
		switch s.Kind {
		case "choice":
			for ci, cs := range s.Cases {
				k2, b2 := Flatten(cs.Kids, d.Cases[ci])
				fk = append(fk, k2...)
				fb = append(fb, b2...)
			}
		case "cont":
			s2 := *s
			d2 := &DNode{Present: d.Present}
			sub := d.Kids
			if sub == nil {
				sub = EmptyBody(s.Kids)
			}
			s2.Kids, d2.Kids = Flatten(s.Kids, sub)
			if !d.Present {
				d2.Kids = nil
			}
			fk = append(fk, &s2)
			fb = append(fb, d2)
		case "list":
			s2 := *s
			s2.Kids, _ = Flatten(s.Kids, EmptyBody(s.Kids))
			d2 := &DNode{}
			for _, row := range d.Rows {
				_, rb := Flatten(s.Kids, row.Kids)
				d2.Rows = append(d2.Rows, &DRow{Key: row.Key, Kids: rb})
			}
			fk = append(fk, &s2)
			fb = append(fb, d2)
		default:
			fk = append(fk, s)
			fb = append(fb, d)
		}
	}
	return fk, fb
}

// ---------------------------------------------------------------- token encoding (Lean line protocol)

func hexTok(s string) string { return "h" + core.Hex(s) } // "h-" = empty string, "~" = none

func SchemaTokens(kids []*SNode) []string {
	out := []string{fmt.Sprint(len(kids))}
	for _, s := range kids {
		switch s.Kind {
		case "leaf":
			if s.Default != nil {
				out = append(out, "L", hexTok(*s.Default))
			} else {
				out = append(out, "L", "~")
			}
		case "cont":
			out = append(out, "C")
			out = append(out, SchemaTokens(s.Kids)...)
		case "list":
			out = append(out, "K", fmt.Sprint(s.NKeys))
			out = append(out, SchemaTokens(s.Kids)...)
		}
	}
	return out
}

func BodyTokens(kids []*SNode, body []*DNode) []string {
	out := []string{fmt.Sprint(len(body))}
	for i, d := range body {
		out = append(out, DataTokens(kids[i], d)...)
	}
	return out
}

func DataTokens(s *SNode, d *DNode) []string {
	switch s.Kind {
	case "leaf":
		if d.Leaf == nil {
			return []string{"l", "~"}
		}
		return []string{"l", hexTok(*d.Leaf)}
	case "cont":
		if !d.Present {
			return []string{"c0"}
		}
		return append([]string{"c1"}, BodyTokens(s.Kids, d.Kids)...)
	}
	return RowsTokens(s, d.Rows)
}

func RowsTokens(s *SNode, rows []*DRow) []string {
	out := []string{"r", fmt.Sprint(len(rows))}
	for _, row := range rows {
		out = append(out, fmt.Sprint(len(row.Key)))
		for _, k := range row.Key {
			out = append(out, hexTok(k))
		}
		out = append(out, BodyTokens(s.Kids, row.Kids)...)
	}
	return out
}

type tokReader struct {
	toks []string
	pos  int
	err  error
}

func (t *tokReader) next() string {
	if t.pos >= len(t.toks) {
		t.err = fmt.Errorf("unexpected end of tokens")
		return ""
	}
	s := t.toks[t.pos]
	t.pos++
	return s
}

func (t *tokReader) num() int {
	var n int
	fmt.Sscan(t.next(), &n)
	return n
}

func unhexTok(s string) *string {
	if s == "~" {
		return nil
	}
	v := core.Unhex(strings.TrimPrefix(s, "h"))
	return &v
}

// ParseBody decodes body tokens produced by the Lean driver.
func ParseBody(kids []*SNode, toks []string) ([]*DNode, error) {
	t := &tokReader{toks: toks}
	b := t.body(kids)
	if t.err == nil && t.pos != len(toks) {
		t.err = fmt.Errorf("trailing tokens")
	}
	return b, t.err
}

func ParseRows(s *SNode, toks []string) ([]*DRow, error) {
	t := &tokReader{toks: toks}
	d := t.data(s)
	return d.Rows, t.err
}

func (t *tokReader) body(kids []*SNode) []*DNode {
	n := t.num()
	if n != len(kids) {
		t.err = fmt.Errorf("body length %d for %d schema children", n, len(kids))
		return nil
	}
	out := make([]*DNode, n)
	for i := 0; i < n && t.err == nil; i++ {
		out[i] = t.data(kids[i])
	}
	return out
}

func (t *tokReader) data(s *SNode) *DNode {
	d := &DNode{}
	switch tag := t.next(); tag {
	case "l":
		d.Leaf = unhexTok(t.next())
	case "c0":
	case "c1":
		d.Present = true
		d.Kids = t.body(s.Kids)
	case "r":
		n := t.num()
		for i := 0; i < n && t.err == nil; i++ {
			nk := t.num()
			row := &DRow{}
			for j := 0; j < nk; j++ {
				row.Key = append(row.Key, *unhexTok(t.next()))
			}
			row.Kids = t.body(s.Kids)
			d.Rows = append(d.Rows, row)
		}
	default:
		t.err = fmt.Errorf("bad data tag %q", tag)
	}
	return d
}

// Canon renders a body canonically for comparison; unordered lists are sorted by key.
func Canon(kids []*SNode, body []*DNode, unorderedLists bool) string {
	var b strings.Builder
	canonBody(&b, kids, body, unorderedLists)
	return b.String()
}

func canonBody(b *strings.Builder, kids []*SNode, body []*DNode, un bool) {
	b.WriteString("{")
	for i, s := range kids {
		var d *DNode
		if i < len(body) {
			d = body[i]
		}
		if d == nil {
			d = &DNode{}
		}
		switch s.Kind {
		case "leaf":
			if d.Leaf != nil {
				fmt.Fprintf(b, "%s=%q ", s.Name, *d.Leaf)
			}
		case "cont":
			if d.Present {
				b.WriteString(s.Name)
				canonBody(b, s.Kids, d.Kids, un)
				b.WriteString(" ")
			}
		case "choice":
			for ci, cs := range s.Cases {
				if ci < len(d.Cases) {
					var inner strings.Builder
					canonBody(&inner, cs.Kids, d.Cases[ci], un)
					if t := inner.String(); t != "{}" {
						b.WriteString(strings.TrimSuffix(strings.TrimPrefix(t, "{"), "}"))
					}
				}
			}
		case "list":
			if len(d.Rows) > 0 {
				rows := append([]*DRow{}, d.Rows...)
				if un {
					sort.SliceStable(rows, func(i, j int) bool {
						return strings.Join(rows[i].Key, "\x00") < strings.Join(rows[j].Key, "\x00")
					})
				}
				b.WriteString(s.Name + "[")
				for _, r := range rows {
					fmt.Fprintf(b, "%q:", r.Key)
					canonBody(b, s.Kids, r.Kids, un)
				}
				b.WriteString("] ")
			}
		}
	}
	b.WriteString("}")
}

// Clone deep-copies a body.
func Clone(body []*DNode) []*DNode {
	out := make([]*DNode, len(body))
	for i, d := range body {
		out[i] = cloneD(d)
	}
	return out
}

func cloneD(d *DNode) *DNode {
	if d == nil {
		return nil
	}
	c := &DNode{Present: d.Present}
	if d.Leaf != nil {
		v := *d.Leaf
		c.Leaf = &v
	}
	if d.Kids != nil {
		c.Kids = Clone(d.Kids)
	}
	for _, r := range d.Rows {
		c.Rows = append(c.Rows, &DRow{Key: append([]string{}, r.Key...), Kids: Clone(r.Kids)})
	}
	for _, cs := range d.Cases {
		c.Cases = append(c.Cases, Clone(cs))
	}
	return c
}

// ---------------------------------------------------------------- conversions

// Overlap rewrites some list keys of src so that they coincide with keys of tgt.
func Overlap(r *core.Rng, kids []*SNode, src, tgt []*DNode) {
	for i, s := range kids {
		a, b := src[i], tgt[i]
		switch s.Kind {
		case "cont":
			if a.Present && b.Present {
				Overlap(r, s.Kids, a.Kids, b.Kids)
			}
		case "list":
			if len(a.Rows) == 0 || len(b.Rows) == 0 {
				continue
			}
			seen := map[string]bool{}
			for _, row := range a.Rows {
				seen[strings.Join(row.Key, "\x00")] = true
			}
			for _, row := range a.Rows {
				if !r.Chance(50) {
					continue
				}
				tr := b.Rows[r.Intn(len(b.Rows))]
				ks := strings.Join(tr.Key, "\x00")
				if seen[ks] {
					continue
				}
				delete(seen, strings.Join(row.Key, "\x00"))
				seen[ks] = true
				row.Key = append([]string{}, tr.Key...)
				for j := 0; j < s.NKeys; j++ {
					k := row.Key[j]
					row.Kids[j] = &DNode{Leaf: &k}
				}
				Overlap(r, s.Kids, row.Kids, tr.Kids)
			}
		}
	}
}

func leafGo(s *SNode, v string) interface{} {
	if s.LeafList {
		one := *s
		one.LeafList = false
		var out []interface{}
		for _, it := range strings.Split(v, ListSep) {
			out = append(out, leafGo(&one, it))
		}
		return out
	}
	if s.Type == "int32" {
		var n int
		fmt.Sscan(v, &n)
		return n
	}
	return v
}

// ToMap converts a body into the nested map / slice form reflection nodes and the JSON encoder use.
func ToMap(kids []*SNode, body []*DNode) map[string]interface{} {
	m := map[string]interface{}{}
	for i, s := range kids {
		d := body[i]
		switch s.Kind {
		case "leaf":
			if d.Leaf != nil {
				m[s.Name] = leafGo(s, *d.Leaf)
			}
		case "cont":
			if d.Present {
				m[s.Name] = ToMap(s.Kids, d.Kids)
			}
		case "choice":
			for ci, cs := range s.Cases {
				for k, v := range ToMap(cs.Kids, d.Cases[ci]) {
					m[k] = v
				}
			}
		case "list":
			if len(d.Rows) > 0 {
				var l []interface{}
				for _, row := range d.Rows {
					l = append(l, ToMap(s.Kids, row.Kids))
				}
				m[s.Name] = l
			}
		}
	}
	return m
}

// FromMap reads a store of nested maps/slices back into positional form, independent of the library.
// unordered reports whether any list was held in a Go map (entry order is then not meaningful).
func FromMap(kids []*SNode, in interface{}, unordered *bool) []*DNode {
	get := func(name string) (interface{}, bool) {
		switch m := in.(type) {
		case map[string]interface{}:
			v, ok := m[name]
			return v, ok
		case map[interface{}]interface{}:
			v, ok := m[name]
			return v, ok
		}
		return nil, false
	}
	out := EmptyBody(kids)
	for i, s := range kids {
		if s.Kind == "choice" {
			for ci, cs := range s.Cases {
				out[i].Cases[ci] = FromMap(cs.Kids, in, unordered)
			}
			continue
		}
		v, ok := get(s.Name)
		if !ok || v == nil {
			continue
		}
		switch s.Kind {
		case "leaf":
			t := fmt.Sprint(v)
			if rv := reflect.ValueOf(v); rv.Kind() == reflect.Slice {
				var items []string
				for k := 0; k < rv.Len(); k++ {
					items = append(items, fmt.Sprint(rv.Index(k).Interface()))
				}
				if len(items) == 0 {
					continue
				}
				t = strings.Join(items, ListSep)
			}
			out[i].Leaf = &t
		case "cont":
			out[i].Present = true
			out[i].Kids = FromMap(s.Kids, v, unordered)
		case "list":
			var items []interface{}
			switch l := v.(type) {
			case []interface{}:
				items = l
			case []map[string]interface{}:
				for _, x := range l {
					items = append(items, x)
				}
			default:
				// a Go map keyed by the list key
				*unordered = true
				if s.NKeys > 1 {
					CompoundInMap++
				}
				items = mapValues(v)
			}
			for _, it := range items {
				body := FromMap(s.Kids, it, unordered)
				row := &DRow{Kids: body}
				for j := 0; j < s.NKeys; j++ {
					k := ""
					if body[j].Leaf != nil {
						k = *body[j].Leaf
					}
					row.Key = append(row.Key, k)
				}
				out[i].Rows = append(out[i].Rows, row)
			}
		}
	}
	return out
}

// CompoundInMap counts lists with several key leaves that FromMap found held in a Go map
// (reset by the caller before a read-back).
var CompoundInMap int

func mapValues(v interface{}) []interface{} {
	var out []interface{}
	switch m := v.(type) {
	case map[string]interface{}:
		for _, x := range m {
			out = append(out, x)
		}
	case map[int]interface{}:
		for _, x := range m {
			out = append(out, x)
		}
	case map[int64]interface{}:
		for _, x := range m {
			out = append(out, x)
		}
	case map[interface{}]interface{}:
		for _, x := range m {
			out = append(out, x)
		}
	}
	return out
}

// Paths to every present container (depth-first), as lists of child indexes.
type Loc struct {
	Path []string // url segments
	Kids []*SNode
	Body []*DNode
}

// ---------------------------------------------------------------- choices (C09)

// GenChoiceSchema generates leaves, containers and choices (nested in cases, shorthand cases).
func GenChoiceSchema(r *core.Rng, depth int, n int) []*SNode {
	var out []*SNode
	for i := 0; i < n; i++ {
		nameSeq++
		k := r.Intn(10)
		switch {
		case k < 4 || depth >= 3:
			out = append(out, genLeaf(r, Opts{Defaults: true}, fmt.Sprintf("f%d", nameSeq)))
		case k < 6:
			out = append(out, &SNode{Name: fmt.Sprintf("c%d", nameSeq), Kind: "cont", Kids: GenChoiceSchema(r, depth+1, 1+r.Intn(3))})
		default:
			ch := &SNode{Name: fmt.Sprintf("x%d", nameSeq), Kind: "choice"}
			nc := 2 + r.Intn(2)
			for ci := 0; ci < nc; ci++ {
				nameSeq++
				// names are built so that sorting the case idents keeps this order
				cname := fmt.Sprintf("%c%d", 'a'+ci, nameSeq)
				if r.Chance(30) {
					lf := genLeaf(r, Opts{}, cname)
					ch.Cases = append(ch.Cases, &SCase{Name: cname, Kids: []*SNode{lf}, Shorthand: true})
				} else {
					ch.Cases = append(ch.Cases, &SCase{Name: cname, Kids: GenChoiceSchema(r, depth+1, 1+r.Intn(3))})
				}
			}
			out = append(out, ch)
		}
	}
	return out
}

func ResetNames() { nameSeq = 0 }

// GenChoiceBody generates data; at each choice at most one case gets data unless violate is set.
func GenChoiceBody(r *core.Rng, kids []*SNode, density int) []*DNode {
	out := EmptyBody(kids)
	for i, s := range kids {
		switch s.Kind {
		case "leaf":
			if r.Chance(density) {
				v := genLeafVal(r, s)
				out[i].Leaf = &v
			}
		case "cont":
			if r.Chance(density) {
				out[i].Present = true
				out[i].Kids = GenChoiceBody(r, s.Kids, density)
			}
		case "choice":
			if r.Chance(density + 20) {
				ci := r.Intn(len(s.Cases))
				out[i].Cases[ci] = GenChoiceBody(r, s.Cases[ci].Kids, density+30)
			}
		}
	}
	return out
}

func ChoiceSchemaTokens(kids []*SNode) []string {
	out := []string{fmt.Sprint(len(kids))}
	for _, s := range kids {
		switch s.Kind {
		case "leaf":
			if s.Default != nil {
				out = append(out, "L", hexTok(*s.Default))
			} else {
				out = append(out, "L", "~")
			}
		case "cont":
			out = append(out, "C")
			out = append(out, ChoiceSchemaTokens(s.Kids)...)
		case "choice":
			out = append(out, "X", fmt.Sprint(len(s.Cases)))
			for _, c := range s.Cases {
				out = append(out, ChoiceSchemaTokens(c.Kids)...)
			}
		}
	}
	return out
}

func ChoiceBodyTokens(kids []*SNode, body []*DNode) []string {
	out := []string{fmt.Sprint(len(body))}
	for i, d := range body {
		s := kids[i]
		switch s.Kind {
		case "leaf":
			if d.Leaf == nil {
				out = append(out, "l", "~")
			} else {
				out = append(out, "l", hexTok(*d.Leaf))
			}
		case "cont":
			if !d.Present {
				out = append(out, "c0")
			} else {
				out = append(out, "c1")
				out = append(out, ChoiceBodyTokens(s.Kids, d.Kids)...)
			}
		case "choice":
			out = append(out, "x", fmt.Sprint(len(s.Cases)))
			for ci, c := range s.Cases {
				out = append(out, ChoiceBodyTokens(c.Kids, d.Cases[ci])...)
			}
		}
	}
	return out
}

// ParseChoiceBody decodes the Choice model's output.
func ParseChoiceBody(kids []*SNode, toks []string) ([]*DNode, error) {
	t := &tokReader{toks: toks}
	b := t.cbody(kids)
	if t.err == nil && t.pos != len(toks) {
		t.err = fmt.Errorf("trailing tokens")
	}
	return b, t.err
}

func (t *tokReader) cbody(kids []*SNode) []*DNode {
	n := t.num()
	if n != len(kids) {
		t.err = fmt.Errorf("body length %d for %d schema children", n, len(kids))
		return nil
	}
	out := make([]*DNode, n)
	for i := 0; i < n && t.err == nil; i++ {
		s := kids[i]
		d := &DNode{}
		switch tag := t.next(); tag {
		case "l":
			d.Leaf = unhexTok(t.next())
		case "c0":
		case "c1":
			d.Present = true
			d.Kids = t.cbody(s.Kids)
		case "x":
			nc := t.num()
			for ci := 0; ci < nc && t.err == nil; ci++ {
				if ci < len(s.Cases) {
					d.Cases = append(d.Cases, t.cbody(s.Cases[ci].Kids))
				}
			}
		default:
			t.err = fmt.Errorf("bad tag %q", tag)
		}
		out[i] = d
	}
	return out
}
