package gen

import (
	"fmt"
	"reflect"
	"strings"
)

// Struct-backed stores: Go struct types built with reflect.StructOf for a generated schema, so that the
// reflection nodes of the library (nodeutil.Reflect, nodeutil.Node) can be given a struct to manage.
//
//	leaf string        string                      leaf int32       IntType (int for nodeutil.Node, int64 for Reflect)
//	leaf-list string   []string                    leaf-list int32  []IntType
//	container          *struct                     list             []struct (values) or []*struct
//
// With Embed, the last two non-key members of every struct with at least three of them live in an embedded
// (anonymous) struct, so that they are reached through promoted fields.
// A struct cannot tell an unset leaf from one holding "" / 0: FromStruct reads those as unset (key leaves are
// always read as set), and data for these stores is generated without the value 0.

type StructOpts struct {
	IntType reflect.Type
	LLInt   reflect.Type // element type of an int32 leaf-list (nil: IntType)
	ListPtr bool
	Embed   bool
	Tags    bool // fields carry `yang:"<name>"` tags, have unrelated Go names and are declared in reverse order
}

func FieldName(n string) string {
	// the generated names are lower-case letters and digits; nodeutil.MetaNameToFieldName upper-cases the first letter
	return strings.ToUpper(n[:1]) + n[1:]
}

var strType = reflect.TypeOf("")

// fieldOf finds the field that holds the node: by yang tag, else by Go name, also inside embedded structs
func fieldOf(v reflect.Value, name string) reflect.Value {
	t := v.Type()
	for i := 0; i < t.NumField(); i++ {
		f := t.Field(i)
		if f.Anonymous {
			if r := fieldOf(v.Field(i), name); r.IsValid() {
				return r
			}
			continue
		}
		if tag, ok := f.Tag.Lookup("yang"); ok {
			if tag == name {
				return v.Field(i)
			}
			continue
		}
		if f.Name == FieldName(name) {
			return v.Field(i)
		}
	}
	return reflect.Value{}
}

func leafType(s *SNode, o StructOpts) reflect.Type {
	t := strType
	if s.Type == "int32" {
		t = o.IntType
		if s.LeafList && o.LLInt != nil {
			t = o.LLInt
		}
	}
	if s.LeafList {
		return reflect.SliceOf(t)
	}
	return t
}

func StructType(kids []*SNode, nkeys int, o StructOpts) reflect.Type {
	var fields []reflect.StructField
	for _, s := range kids {
		f := reflect.StructField{Name: FieldName(s.Name)}
		if o.Tags {
			f.Tag = reflect.StructTag(fmt.Sprintf(`yang:"%s"`, s.Name))
			f.Name = fmt.Sprintf("Fld%d", len(fields))
		}
		switch s.Kind {
		case "leaf":
			f.Type = leafType(s, o)
		case "cont":
			f.Type = reflect.PtrTo(StructType(s.Kids, 0, o))
		case "list":
			it := StructType(s.Kids, s.NKeys, o)
			if o.ListPtr {
				f.Type = reflect.SliceOf(reflect.PtrTo(it))
			} else {
				f.Type = reflect.SliceOf(it)
			}
		default:
			continue
		}
		fields = append(fields, f)
	}
	if o.Tags {
		for i, j := 0, len(fields)-1; i < j; i, j = i+1, j-1 {
			fields[i], fields[j] = fields[j], fields[i]
		}
		return reflect.StructOf(fields)
	}
	if o.Embed && len(fields)-nkeys >= 3 {
		n := len(fields)
		emb := reflect.StructOf([]reflect.StructField{fields[n-2], fields[n-1]})
		fields = append(fields[:n-2:n-2], reflect.StructField{Name: "Emb", Type: emb, Anonymous: true})
	}
	return reflect.StructOf(fields)
}

// ToStruct returns a pointer to a new struct of type t holding the body.
func ToStruct(kids []*SNode, body []*DNode, t reflect.Type, o StructOpts) reflect.Value {
	p := reflect.New(t)
	fillStruct(kids, body, p.Elem(), o)
	return p
}

func setLeaf(s *SNode, text string, f reflect.Value) {
	one := func(txt string, dst reflect.Value) {
		if dst.Kind() == reflect.String {
			dst.SetString(txt)
		} else {
			var n int64
			fmt.Sscan(txt, &n)
			dst.SetInt(n)
		}
	}
	if s.LeafList {
		items := strings.Split(text, ListSep)
		sl := reflect.MakeSlice(f.Type(), len(items), len(items))
		for i, it := range items {
			one(it, sl.Index(i))
		}
		f.Set(sl)
		return
	}
	one(text, f)
}

func fillStruct(kids []*SNode, body []*DNode, v reflect.Value, o StructOpts) {
	for i, s := range kids {
		f := fieldOf(v, s.Name)
		if !f.IsValid() {
			continue
		}
		d := body[i]
		switch s.Kind {
		case "leaf":
			if d.Leaf != nil {
				setLeaf(s, *d.Leaf, f)
			}
		case "cont":
			if d.Present {
				f.Set(ToStruct(s.Kids, d.Kids, f.Type().Elem(), o))
			}
		case "list":
			if len(d.Rows) == 0 {
				continue
			}
			sl := reflect.MakeSlice(f.Type(), 0, len(d.Rows))
			for _, row := range d.Rows {
				if f.Type().Elem().Kind() == reflect.Ptr {
					sl = reflect.Append(sl, ToStruct(s.Kids, row.Kids, f.Type().Elem().Elem(), o))
				} else {
					sl = reflect.Append(sl, ToStruct(s.Kids, row.Kids, f.Type().Elem(), o).Elem())
				}
			}
			f.Set(sl)
		}
	}
}

// FromStruct reads a struct (or pointer to one) back into positional form, independent of the library.
func FromStruct(kids []*SNode, v reflect.Value, nkeys int) []*DNode {
	for v.Kind() == reflect.Ptr || v.Kind() == reflect.Interface {
		if v.IsNil() {
			return EmptyBody(kids)
		}
		v = v.Elem()
	}
	out := EmptyBody(kids)
	for i, s := range kids {
		f := fieldOf(v, s.Name)
		if !f.IsValid() {
			continue
		}
		switch s.Kind {
		case "leaf":
			if s.LeafList {
				if f.Len() == 0 {
					continue
				}
				var items []string
				for k := 0; k < f.Len(); k++ {
					items = append(items, fmt.Sprint(f.Index(k).Interface()))
				}
				t := strings.Join(items, ListSep)
				out[i].Leaf = &t
				continue
			}
			if f.IsZero() && i >= nkeys {
				continue
			}
			t := fmt.Sprint(f.Interface())
			out[i].Leaf = &t
		case "cont":
			if !f.IsNil() {
				out[i].Present = true
				out[i].Kids = FromStruct(s.Kids, f, 0)
			}
		case "list":
			for k := 0; k < f.Len(); k++ {
				e := f.Index(k)
				if e.Kind() == reflect.Ptr && e.IsNil() {
					continue
				}
				body := FromStruct(s.Kids, e, s.NKeys)
				row := &DRow{Kids: body}
				for j := 0; j < s.NKeys; j++ {
					kt := ""
					if body[j].Leaf != nil {
						kt = *body[j].Leaf
					}
					row.Key = append(row.Key, kt)
				}
				out[i].Rows = append(out[i].Rows, row)
			}
		}
	}
	return out
}
