// vcheck runs one property check: regenerate Gen/*.lean from /repo, re-check
// the Lean theorems, audit axioms, run the correspondence between the Lean
// model and the real code, search for failing inputs, write evidence.
package main

import (
	"encoding/json"
	"fmt"
	"os"
	"runtime/debug"
	"strconv"

	"verif/harness/core"
	"verif/harness/props"
)

func main() {
	if len(os.Args) < 2 {
		fmt.Println("usage: vcheck Cxx [quick|thorough] [--replay file]")
		os.Exit(2)
	}
	if os.Args[1] == "--c06-worker" && len(os.Args) > 2 {
		props.C06Worker(os.Args[2])
		return
	}
	if os.Args[1] == "--c13-worker" && len(os.Args) > 3 {
		from, _ := strconv.Atoi(os.Args[3])
		props.C13Worker(os.Args[2], from)
		return
	}
	if os.Args[1] == "--c14-worker" && len(os.Args) > 3 {
		from, _ := strconv.Atoi(os.Args[3])
		props.C14Worker(os.Args[2], from)
		return
	}
	prop := os.Args[1]
	tier := os.Getenv("VERIF_TIER")
	replay := ""
	for i := 2; i < len(os.Args); i++ {
		switch os.Args[i] {
		case "quick", "thorough":
			tier = os.Args[i]
		case "--replay":
			if i+1 < len(os.Args) {
				replay = os.Args[i+1]
				i++
			}
		}
	}
	if tier == "" {
		tier = "quick"
	}
	seed := uint64(1)
	if s := os.Getenv("VERIF_SEED"); s != "" {
		if v, err := strconv.ParseUint(s, 10, 64); err == nil {
			seed = v
		}
	}
	if replay != "" {
		// a replay file carries the seed and tier of the run that produced it; every
		// random choice derives from the seed, so re-running reproduces the case.
		var r core.Replay
		if b, err := os.ReadFile(replay); err == nil && json.Unmarshal(b, &r) == nil {
			if r.Seed != 0 {
				seed = r.Seed
			}
			if r.Tier != "" {
				tier = r.Tier
			}
			fmt.Printf("replaying %s (seed=%d tier=%s): %s\n", replay, seed, tier, r.Summary)
		}
	}
	f, ok := props.Registry[prop]
	if !ok {
		fmt.Printf("unknown property %s\n", prop)
		os.Exit(2)
	}
	ctx := core.NewCtx(prop, tier, seed)
	ctx.Replay = replay
	ctx.TrustedBase = append(ctx.TrustedBase, core.BaseTrusted...)
	func() {
		defer func() {
			if r := recover(); r != nil {
				ctx.Violation(core.Replay{Kind: "harness-panic", Summary: fmt.Sprintf("harness panicked: %v", r), Input: string(debug.Stack()), NoInputFound: true})
			}
		}()
		f(ctx)
	}()
	os.Exit(ctx.Finish())
}
