package main

import (
	"fmt"

	"github.com/freeconf/yang/node"
	"github.com/freeconf/yang/nodeutil"
	"github.com/freeconf/yang/parser"
)

var y = `module x { namespace "urn:x"; prefix x; revision 2020-01-01;
  grouping g { leaf gl { type string; } container gc { leaf q { type string; } } }
  container u { uses g { when "mode=7"; } leaf mode { type int32; } leaf x { type string; } }
  container cfg { leaf level { type int32; } }
  augment "/cfg" { when "level!=0"; leaf aug { type string; } container ac { leaf z { type string; } } }
  list items { key id; leaf id { type int32; } leaf tag { type string; } container sub { leaf w { type int32; } } }
  leaf f3 { when "items/id=2"; type string; }
  leaf f4 { when "items/tag='t2'"; type string; }
  leaf f5 { when "items/sub/w>5"; type string; }
  leaf f6 { when "items"; type string; }
  leaf f7 { when "cfg"; type string; }
  leaf f8 { when "cfg/level"; type string; }
}`

func main() {
	m, err := parser.LoadModuleFromString(nil, y)
	if err != nil {
		panic(err)
	}
	for _, d := range []string{
		`{"u":{"mode":7,"gl":"GL","gc":{"q":"Q"},"x":"X"},"cfg":{"level":1,"aug":"A","ac":{"z":"Z"}}}`,
		`{"u":{"mode":1,"gl":"GL","gc":{"q":"Q"},"x":"X"},"cfg":{"level":0,"aug":"A","ac":{"z":"Z"}}}`,
		`{"items":[{"id":1,"tag":"t1","sub":{"w":9}},{"id":2,"tag":"t2"}],"f3":"3","f4":"4","f5":"5","f6":"6","f7":"7","f8":"8"}`,
		`{"items":[{"id":1,"tag":"t2","sub":{"w":1}}],"f3":"3","f4":"4","f5":"5","f6":"6","f7":"7","f8":"8","cfg":{"level":2}}`,
		`{"f3":"3","f4":"4","f5":"5","f6":"6","f7":"7","f8":"8","cfg":{}}`,
	} {
		func() {
			defer func() {
				if r := recover(); r != nil {
					fmt.Println("PANIC", r)
				}
			}()
			n, _ := nodeutil.ReadJSON(d)
			s, err := nodeutil.WriteJSON(node.NewBrowser(m, n).Root())
			fmt.Println(d, "\n   ->", s, err)
		}()
	}
}
