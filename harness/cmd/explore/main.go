package main

import (
	"fmt"
	"os"

	"github.com/freeconf/yang/node"
	"github.com/freeconf/yang/nodeutil"
	"github.com/freeconf/yang/parser"
)

var y = `module x { namespace "urn:x"; prefix x; revision 2020-01-01;
  leaf top { type string; }
  leaf dl { type int32; default 7; }
  container a {
    leaf a { type string; }
    leaf b { type string; default "bee"; }
    leaf st { config false; type string; }
    container c { leaf d { type string; } container e { leaf f { type string; } } }
    container op { config false; leaf g { type string; } }
  }
  list l { key id; leaf id { type string; } leaf v { type string; }
     list m { key k; leaf k { type string; } leaf w { type int32; default 3; } } }
}`
var data = `{"top":"T","dl":7,"a":{"a":"A","b":"bee","st":"S","c":{"d":"D","e":{"f":"F"}},"op":{"g":"G"}},
 "l":[{"id":"1","v":"v1","m":[{"k":"a","w":3},{"k":"b","w":4},{"k":"c","w":5}]},{"id":"2","v":"v2"},{"id":"3","v":"v3"},{"id":"4","v":"v4"}]}`

func try(b *node.Browser, path string) {
	defer func() {
		if r := recover(); r != nil {
			fmt.Printf("%-40s PANIC %v\n", path, r)
		}
	}()
	sel, err := b.Root().Find(path)
	if err != nil {
		fmt.Printf("%-40s find-err %v\n", path, err)
		return
	}
	if sel == nil {
		fmt.Printf("%-40s nil\n", path)
		return
	}
	s, err := nodeutil.WriteJSON(sel)
	fmt.Printf("%-40s %s err=%v\n", path, s, err)
}

func main() {
	m, err := parser.LoadModuleFromString(nil, y)
	if err != nil {
		panic(err)
	}
	n, _ := nodeutil.ReadJSON(data)
	b := node.NewBrowser(m, n)
	for _, p := range os.Args[1:] {
		try(b, p)
	}
}
