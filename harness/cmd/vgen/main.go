// vgen regenerates every lean/YangVerif/Gen/*.lean file from /repo (used by setup).
package main

import (
	"fmt"
	"os"

	"verif/harness/extract"
)

func main() {
	if err := extract.All(); err != nil {
		fmt.Println("vgen:", err)
		os.Exit(1)
	}
}
