// c20race runs the C20 scenario: every task alone first (the sequential result), then all tasks concurrently for
// a number of rounds with a seeded start order and yield pattern.  Built with -race; a race report goes to stderr
// (GORACE=halt_on_error=0) and is counted by the caller.  Output: one line per disagreement
//   DIFF <round> <task> <sha-seq> <sha-conc>
// and a last line  DONE rounds=<n> tasks=<n> diffs=<n>
package main

import (
	"crypto/sha256"
	"flag"
	"fmt"
	"os"
	"runtime"
	"sync"

	"verif/harness/scn"
)

func sha(s string) string { return fmt.Sprintf("%x", sha256.Sum256([]byte(s)))[:16] }

func main() {
	rounds := flag.Int("rounds", 5, "concurrent rounds")
	nLoad := flag.Int("loads", 9, "load tasks")
	nUse := flag.Int("uses", 8, "use tasks")
	seed := flag.Uint64("seed", 1, "start-order seed")
	dump := flag.String("dump", "", "write the sequential and differing transcripts here")
	flag.Parse()
	shared, fcYang, err := scn.Shared("/repo/yang")
	if err != nil {
		fmt.Println("SETUP-ERR", err)
		os.Exit(3)
	}
	tasks := scn.Tasks(shared, fcYang, *nLoad, *nUse)
	seq := make([]string, len(tasks))
	for i, t := range tasks {
		seq[i] = t.Run()
	}
	// a second sequential pass: the result of a task must not depend on what ran before it
	diffs := 0
	for i, t := range tasks {
		if again := t.Run(); again != seq[i] {
			diffs++
			fmt.Printf("DIFF seq %s %s %s\n", t.Name, sha(seq[i]), sha(again))
			if *dump != "" {
				os.WriteFile(*dump+"."+t.Name+".first", []byte(seq[i]), 0644)
				os.WriteFile(*dump+"."+t.Name+".again", []byte(again), 0644)
			}
		}
	}
	x := *seed*0x9E3779B97F4A7C15 + 1
	next := func() uint64 { x ^= x << 13; x ^= x >> 7; x ^= x << 17; return x }
	for r := 0; r < *rounds; r++ {
		order := make([]int, len(tasks))
		for i := range order {
			order[i] = i
		}
		for i := len(order) - 1; i > 0; i-- {
			j := int(next() % uint64(i+1))
			order[i], order[j] = order[j], order[i]
		}
		got := make([]string, len(tasks))
		var wg sync.WaitGroup
		start := make(chan struct{})
		for _, i := range order {
			wg.Add(1)
			y := int(next() % 4)
			go func(i, y int) {
				defer wg.Done()
				<-start
				for k := 0; k < y; k++ {
					runtime.Gosched()
				}
				got[i] = tasks[i].Run()
			}(i, y)
		}
		close(start)
		wg.Wait()
		for i, t := range tasks {
			if got[i] != seq[i] {
				diffs++
				fmt.Printf("DIFF %d %s %s %s\n", r, t.Name, sha(seq[i]), sha(got[i]))
				if *dump != "" {
					os.WriteFile(*dump+"."+t.Name+".seq", []byte(seq[i]), 0644)
					os.WriteFile(*dump+"."+t.Name+".conc", []byte(got[i]), 0644)
				}
			}
		}
	}
	if *dump != "" {
		for i, t := range tasks {
			os.WriteFile(*dump+"."+t.Name+".out", []byte(seq[i]), 0644)
		}
	}
	fmt.Printf("DONE rounds=%d tasks=%d diffs=%d\n", *rounds, len(tasks), diffs)
}
