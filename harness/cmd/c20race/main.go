// c20race runs the C20 scenario: every task alone first (the sequential result), then all tasks concurrently for
// a number of rounds with a seeded start order and yield pattern.  Built with -race; a race report goes to stderr
// (GORACE=halt_on_error=0) and is counted by the caller.  Output: one line per disagreement
//   DIFF <round> <task> <sha-seq> <sha-conc>
//   MUTATED <when> <which module> <first differing fact of the deep fingerprint>
// and a last line  DONE rounds=<n> tasks=<n> diffs=<n>
package main

import (
	"crypto/sha256"
	"flag"
	"fmt"
	"os"
	"runtime"
	"sync"

	"verif/harness/scn"
)

func sha(s string) string { return fmt.Sprintf("%x", sha256.Sum256([]byte(s)))[:16] }

func main() {
	rounds := flag.Int("rounds", 5, "concurrent rounds")
	nLoad := flag.Int("loads", 9, "load tasks")
	nUse := flag.Int("uses", 8, "use tasks")
	seed := flag.Uint64("seed", 1, "start-order seed")
	dump := flag.String("dump", "", "write the sequential and differing transcripts here")
	flag.Parse()
	// a cold start: the very first loads of the process run concurrently (lazily initialised process-wide state
	// would be written here), and are compared with the sequential results below
	coldTasks := scn.Tasks(nil, nil, *nLoad, 0)
	cold := make([]string, len(coldTasks))
	{
		var wg sync.WaitGroup
		for i := range coldTasks {
			wg.Add(1)
			go func(i int) { defer wg.Done(); cold[i] = coldTasks[i].Run() }(i)
		}
		wg.Wait()
	}
	shared, fcYang, err := scn.Shared("/repo/yang")
	if err != nil {
		fmt.Println("SETUP-ERR", err)
		os.Exit(3)
	}
	tasks := scn.Tasks(shared, fcYang, *nLoad, *nUse)
	diffs := 0
	// "using a compiled module never mutates it": every field of everything reachable from the shared module
	fpBefore := scn.Fingerprint(shared)
	fpYangBefore := scn.Fingerprint(fcYang)
	mutated := func(when string) {
		if d := scn.FirstDiff(fpBefore, scn.Fingerprint(shared)); d != "" {
			diffs++
			fmt.Printf("MUTATED %s shared-module %s\n", when, d)
		}
		if d := scn.FirstDiff(fpYangBefore, scn.Fingerprint(fcYang)); d != "" {
			diffs++
			fmt.Printf("MUTATED %s fc-yang %s\n", when, d)
		}
	}
	seq := make([]string, len(tasks))
	for i, t := range tasks {
		seq[i] = t.Run()
	}
	mutated("after-sequential-use")
	// cold concurrent use: a second, untouched copy of the same module is used by all use tasks at once before
	// anything else has touched it (lazily filled caches inside the schema would be written here)
	if shared2, fcYang2, err := scn.Shared("/repo/yang"); err == nil {
		fp2 := scn.Fingerprint(shared2)
		t2 := scn.Tasks(shared2, fcYang2, 0, *nUse)
		got := make([]string, len(t2))
		var wg sync.WaitGroup
		for i := range t2 {
			wg.Add(1)
			go func(i int) { defer wg.Done(); got[i] = t2[i].Run() }(i)
		}
		wg.Wait()
		for i := range t2 {
			if got[i] != seq[*nLoad+i] {
				diffs++
				fmt.Printf("DIFF colduse %s %s %s\n", t2[i].Name, sha(seq[*nLoad+i]), sha(got[i]))
				if *dump != "" {
					os.WriteFile(*dump+"."+t2[i].Name+".seq", []byte(seq[*nLoad+i]), 0644)
					os.WriteFile(*dump+"."+t2[i].Name+".colduse", []byte(got[i]), 0644)
				}
			}
		}
		if d := scn.FirstDiff(fp2, scn.Fingerprint(shared2)); d != "" {
			diffs++
			fmt.Printf("MUTATED after-cold-concurrent-use shared-module-copy %s\n", d)
		}
	}
	for i := range coldTasks {
		if cold[i] != seq[i] {
			diffs++
			fmt.Printf("DIFF cold %s %s %s\n", tasks[i].Name, sha(seq[i]), sha(cold[i]))
			if *dump != "" {
				os.WriteFile(*dump+"."+tasks[i].Name+".seq", []byte(seq[i]), 0644)
				os.WriteFile(*dump+"."+tasks[i].Name+".cold", []byte(cold[i]), 0644)
			}
		}
	}
	// a second sequential pass: the result of a task must not depend on what ran before it
	for i, t := range tasks {
		if again := t.Run(); again != seq[i] {
			diffs++
			fmt.Printf("DIFF seq %s %s %s\n", t.Name, sha(seq[i]), sha(again))
			if *dump != "" {
				os.WriteFile(*dump+"."+t.Name+".first", []byte(seq[i]), 0644)
				os.WriteFile(*dump+"."+t.Name+".again", []byte(again), 0644)
			}
		}
	}
	x := *seed*0x9E3779B97F4A7C15 + 1
	next := func() uint64 { x ^= x << 13; x ^= x >> 7; x ^= x << 17; return x }
	for r := 0; r < *rounds; r++ {
		order := make([]int, len(tasks))
		for i := range order {
			order[i] = i
		}
		for i := len(order) - 1; i > 0; i-- {
			j := int(next() % uint64(i+1))
			order[i], order[j] = order[j], order[i]
		}
		got := make([]string, len(tasks))
		var wg sync.WaitGroup
		start := make(chan struct{})
		for _, i := range order {
			wg.Add(1)
			y := int(next() % 4)
			go func(i, y int) {
				defer wg.Done()
				<-start
				for k := 0; k < y; k++ {
					runtime.Gosched()
				}
				got[i] = tasks[i].Run()
			}(i, y)
		}
		close(start)
		wg.Wait()
		for i, t := range tasks {
			if got[i] != seq[i] {
				diffs++
				fmt.Printf("DIFF %d %s %s %s\n", r, t.Name, sha(seq[i]), sha(got[i]))
				if *dump != "" {
					os.WriteFile(*dump+"."+t.Name+".seq", []byte(seq[i]), 0644)
					os.WriteFile(*dump+"."+t.Name+".conc", []byte(got[i]), 0644)
				}
			}
		}
	}
	mutated("after-concurrent-use")
	fmt.Printf("FINGERPRINT facts=%d\n", len(fpBefore)+len(fpYangBefore))
	if *dump != "" {
		for i, t := range tasks {
			os.WriteFile(*dump+"."+t.Name+".out", []byte(seq[i]), 0644)
		}
	}
	fmt.Printf("DONE rounds=%d tasks=%d diffs=%d\n", *rounds, len(tasks), diffs)
}
