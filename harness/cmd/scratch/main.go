package main

import (
	"fmt"
	"io"
	"strings"

	"github.com/freeconf/yang/meta"
	"github.com/freeconf/yang/parser"
)

func try(name string, f func() string) {
	defer func() {
		if r := recover(); r != nil {
			fmt.Printf("%-20s PANIC %v\n", name, r)
		}
	}()
	fmt.Printf("%-20s %s\n", name, f())
}

func main() {
	files := map[string]string{
		"main": `module main { namespace "m"; prefix m; include s1; include s2; }`,
		"s1":   `submodule s1 { belongs-to main { prefix m; } import x { prefix p; } leaf a { type p:t; } }`,
		"s2":   `submodule s2 { belongs-to main { prefix m; } import x { prefix p2; } leaf b { type p2:t; } uses p2:g; }`,
		"x":    `module x { namespace "x"; prefix x; typedef t { type string; } grouping g { leaf gg { type string; } } }`,
	}
	op := func(n, e string) (io.Reader, error) {
		if y, ok := files[n]; ok {
			return strings.NewReader(y), nil
		}
		return nil, nil
	}
	try("D1", func() string { m, err := parser.LoadModule(op, "main"); return fmt.Sprint(m != nil, err) })
	try("D4", func() string {
		m, err := parser.LoadModuleFromString(nil, `module main { namespace "m"; prefix m; extension e { argument a; } leaf a { type string; must "1" { m:e "q"; } } }`)
		if err != nil {
			return err.Error()
		}
		ext := m.DataDefinitions()[0].(*meta.Leaf).Musts()[0].Extensions()[0]
		return meta.SchemaPath(ext)
	})
	try("D5", func() string {
		m, _ := parser.LoadModuleFromString(nil, `module main { namespace "m"; prefix m; anydata a; }`)
		return fmt.Sprint(m.DataDefinitions()[0].(meta.HasDefault).DefaultValue())
	})
	try("D7", func() string {
		m, err := parser.LoadModuleFromString(nil, `module main { namespace "m"; prefix m; import x { prefix x; } }`)
		return fmt.Sprint(m != nil, err)
	})
	try("D8", func() string {
		m, err := parser.LoadModuleFromString(nil, `module main { namespace "m"; prefix m; leaf a { type nosuch; } }`)
		return fmt.Sprint(m != nil, err)
	})
}
