package main

import (
	"fmt"

	"github.com/freeconf/yang/meta"
	"github.com/freeconf/yang/node"
	"github.com/freeconf/yang/nodeutil"
	"github.com/freeconf/yang/parser"
)

func main() {
	y := `module m { namespace "urn:m"; prefix m; revision 0; typedef r { type leafref { path "../name"; } } typedef r2 { type r; }
	container c { leaf name { type int32; } leaf ref { type r; } leaf-list refs { type r2; } } container d { leaf name { type string; } leaf ref { type r; } } }`
	m, err := parser.LoadModuleFromString(nil, y)
	fmt.Println(err)
	if err != nil {
		return
	}
	for _, p := range []string{"c/ref", "c/refs", "d/ref"} {
		t := meta.Find(m, p).(meta.HasType).Type()
		fmt.Println(p, t.Format(), t.Path(), t.Resolve().Format())
	}
	n, _ := nodeutil.ReadJSON(`{"c":{"name":5,"ref":5,"refs":[1,2]},"d":{"name":"x","ref":"x"}}`)
	fmt.Println(nodeutil.WriteJSON(node.NewBrowser(m, n).Root()))
	n2, _ := nodeutil.ReadJSON(`{"c":{"ref":"notanumber"}}`)
	fmt.Println(nodeutil.WriteJSON(node.NewBrowser(m, n2).Root()))
}
