package main

import (
	"fmt"

	"github.com/freeconf/yang/node"
	"github.com/freeconf/yang/nodeutil"
	"github.com/freeconf/yang/parser"
)

func main() {
	y := `module k { namespace "urn:k"; prefix k; revision 0;
	container y { when "z>10"; leaf z {type int32;} leaf q {type string;} }
	grouping gr { leaf ga {type string;} container gc { leaf gx {type string;} } } container u { leaf sw {type boolean;} uses gr { when "sw='true'"; } }
	leaf late { when "flag='true'"; type string; } leaf flag {type boolean;}
	}`
	m, err := parser.LoadModuleFromString(nil, y)
	if err != nil {
		panic(err)
	}
	for _, doc := range []string{`{"y":{"z":99,"q":"hi"}}`, `{"y":{"z":1,"q":"hi"}}`, `{"u":{"ga":"1","gc":{"gx":"2"}}}`, `{"u":{"sw":true,"ga":"1","gc":{"gx":"2"}}}`, `{"late":"L","flag":true}`} {
		data := map[string]interface{}{}
		b := node.NewBrowser(m, nodeutil.ReflectChild(data))
		src, _ := nodeutil.ReadJSON(doc)
		err := b.Root().UpsertFrom(src)
		fmt.Println(doc, "->", err, data)
	}
}
