package main

import (
	"fmt"

	"github.com/freeconf/yang/node"
	"github.com/freeconf/yang/nodeutil"
	"github.com/freeconf/yang/parser"
)

func main() {
	y := `module k { namespace "urn:k"; prefix k; revision 0; container box { list l { key k; leaf k { type binary; } leaf v { type string; } } } }`
	m, _ := parser.LoadModuleFromString(nil, y)
	for _, be := range []string{"node", "reflect"} {
		d := map[string]interface{}{}
		var root node.Node = nodeutil.ReflectChild(d)
		if be == "node" {
			root = &nodeutil.Node{Object: d}
		}
		b := node.NewBrowser(m, root)
		src, _ := nodeutil.ReadJSON(`{"box":{"l":[{"k":"aGk=","v":"v0"},{"k":"AA==","v":"v1"},{"k":"+//+","v":"v2"}]}}`)
		err := b.Root().UpsertFrom(src)
		fmt.Printf("%s %v %q\n", be, err, fmt.Sprint(d))
		out, err := nodeutil.WriteJSON(b.Root())
		fmt.Println(out, err)
	}
}
