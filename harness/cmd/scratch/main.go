package main

import (
	"fmt"

	"github.com/freeconf/yang/node"
	"github.com/freeconf/yang/nodeutil"
	"github.com/freeconf/yang/parser"
	"github.com/freeconf/yang/val"
)

func main() {
	y := `module k { namespace "urn:k"; prefix k; revision 0; identity b0; identity i1 { base b0; } identity other;
	leaf e { type enumeration { enum a; enum b; } } leaf-list el { type enumeration { enum a; enum b; } }
	leaf bo { type boolean; } leaf i { type int32 { range "1..10"; } } leaf s { type string { length "1..3"; } }
	leaf bt { type bits { bit a; bit b; } } leaf-list idl { type identityref { base b0; } } leaf id { type identityref { base b0; } }
	leaf u { type union { type int8 { range "1..5"; } type string { length "3"; } } } leaf d { type decimal64 { fraction-digits 2; } }
	}`
	m, err := parser.LoadModuleFromString(nil, y)
	if err != nil {
		panic(err)
	}
	try := func(name string, leaf string, v val.Value) {
		data := map[string]interface{}{}
		b := node.NewBrowser(m, nodeutil.ReflectChild(data))
		func() {
			defer func() {
				if r := recover(); r != nil {
					fmt.Printf("%-45s PANIC %v\n", name, r)
				}
			}()
			s, err := b.Root().Find(leaf)
			if err != nil || s == nil {
				fmt.Println(name, "find", err)
				return
			}
			err = s.Set(v)
			fmt.Printf("%-45s err=%v store=%v\n", name, err, data)
		}()
	}
	try("enum Id 9 zz", "e", val.Enum{Id: 9, Label: "zz"})
	try("enum ok", "e", val.Enum{Id: 1, Label: "b"})
	try("enum label right id wrong", "e", val.Enum{Id: 7, Label: "b"})
	try("enumlist zz", "el", val.EnumList{{Id: 7, Label: "zz"}})
	try("string on boolean", "bo", val.String("abc"))
	try("decimal on int32", "i", val.Decimal64(5.5))
	try("int32list on leaf", "i", val.Int32List{1, 2})
	try("int64 on int32 in range", "i", val.Int64(5))
	try("int32 out of range", "i", val.Int32(50))
	try("string on leaf-list", "idl", val.String("i1"))
	try("bits zz", "bt", val.Bits{Positions: 64, Labels: []string{"zz"}})
	try("identref bogus", "id", val.IdentRef{Label: "bogus"})
	try("identref other", "id", val.IdentRef{Label: "other"})
	try("identref list bogus", "idl", val.IdentRefList{{Label: "bogus"}})
	try("union int32 9", "u", val.Int32(9))
	try("union string abcdef", "u", val.String("abcdef"))
	try("union bool", "u", val.Bool(true))
	try("string on decimal", "d", val.String("x"))
	try("nil", "i", nil)
}
