package main

import (
	"fmt"

	"github.com/freeconf/yang/node"
	"github.com/freeconf/yang/nodeutil"
	"github.com/freeconf/yang/parser"
	"github.com/freeconf/yang/xpath"
)

func main() {
	y := `module k { namespace "urn:k"; prefix k; revision 0;
	leaf u8 {type uint8;} leaf i8 {type int8;} leaf i32 {type int32;} leaf u32 { type uint32; } leaf u64 { type uint64; } leaf i64 { type int64; }
	leaf d1 { type decimal64 { fraction-digits 1; } } leaf e { type enumeration { enum a; enum b; enum c { value 10; } } } leaf s { type string; } leaf bo { type boolean; } }`
	m, err := parser.LoadModuleFromString(nil, y)
	if err != nil {
		panic(err)
	}
	n, _ := nodeutil.ReadJSON(`{"u8":200,"i8":-5,"i32":2,"u32":7,"u64":9,"i64":-3,"d1":2.5,"e":"c","s":"abc","bo":true}`)
	b := node.NewBrowser(m, n)
	for _, e := range []string{"u8<300", "u8<256", "u8>-1", "u8=256", "u8!=256", "i8>-129", "i32<3000000000", "u32>-1", "u32<4294967296", "u64>-1", "i64<9223372036854775808", "i64>-9223372036854775809", "u64<18446744073709551616",
		"i32<2.5", "i32>1.5", "i32=2.0", "i32=2.5", "u8>199.5", "d1>2", "d1<3", "d1=2.5", "d1=2.50", "e='10'", "e='zz'", "e='c'", "e!='zz'", "e=10", "s=5", "s='abc'", "bo='true'", "bo=1", "bo='yes'", "i32='2'", "i32='x'"} {
		p, err := xpath.Parse(e)
		if err != nil {
			fmt.Printf("%-30s parse error %v\n", e, err)
			continue
		}
		func() {
			defer func() {
				if r := recover(); r != nil {
					fmt.Printf("%-30s PANIC %v\n", e, r)
				}
			}()
			ok, err := b.Root().XPredicate(p)
			fmt.Printf("%-30s %v %v\n", e, ok, err)
		}()
	}
}
