package main

import (
	"fmt"

	"github.com/freeconf/yang/node"
	"github.com/freeconf/yang/nodeutil"
	"github.com/freeconf/yang/parser"
)

func main() {
	y := `module k { namespace "urn:k"; prefix k; revision 0;
	list l { when "v>10"; key k; leaf k {type string;} leaf v {type int32;} leaf o {type string;} }
	leaf sw {type boolean;} choice ch { case a { leaf x { when "sw='true'"; type string; } } case b { leaf y {type string;} } }
	container c { when "z>10"; leaf z { type int32; } leaf q { type string; } }
	}`
	m, err := parser.LoadModuleFromString(nil, y)
	if err != nil {
		panic(err)
	}
	data := map[string]interface{}{"sw": false, "y": "Y", "l": []map[string]interface{}{{"k": "a", "v": 11, "o": "x"}, {"k": "b", "v": 1, "o": "y"}}, "c": map[string]interface{}{"z": 5, "q": "Q"}}
	b := node.NewBrowser(m, nodeutil.ReflectChild(data))
	for _, doc := range []string{`{"l":[{"k":"b","o":"changed"}]}`, `{"x":"X"}`, `{"c":{"q":"changed"}}`, `{"l":[{"k":"b","v":50,"o":"changed2"}]}`} {
		src, _ := nodeutil.ReadJSON(doc)
		err := b.Root().UpsertFrom(src)
		fmt.Println(doc, "->", err, data)
	}
	s, err := b.Root().Find("l=b")
	fmt.Println(s, err)
}
