package main

import (
	"fmt"

	"github.com/freeconf/yang/meta"
	"github.com/freeconf/yang/parser"
)

const H = `namespace "urn:m"; prefix m; revision 0; `

func main() {
	for name, y := range map[string]string{
		"7 refine max":     `module m { ` + H + ` grouping g { list l { key k; max-elements 5; leaf k { type string; } } list l2 { key k; max-elements unbounded; leaf k { type string; } } leaf-list ll { type string; max-elements unbounded; } } container x { uses g { refine l { max-elements unbounded; } refine l2 { max-elements 3; } refine ll { max-elements 3; } } } }`,
		"12 augment order": `module m { ` + H + ` container c { }  augment /c/d { leaf x { type string; } }  augment /c { container d { } } }`,
		"13 rpc grouping":  `module m { ` + H + ` rpc r { grouping g { leaf a { type string; } } input { uses g; } } }`,
		"13 rpc typedef":   `module m { ` + H + ` rpc r { typedef t { type int32; } input { leaf a { type t; } } } }`,
		"14 refine {}":     `module m { ` + H + ` grouping g { leaf a { type string; } } container x { uses g { refine a { } } } }`,
		"15 typedef rel":   `module m { ` + H + ` typedef r { type leafref { path "../name"; } }  container c { leaf name { type int32; } leaf ref { type r; } } }`,
		"C02-5 mandatory":  `module m { ` + H + ` typedef d { type int32; default 5; } leaf mm { type d; mandatory true; } leaf-list ll { type d; min-elements 1; } leaf ok { type d; } }`,
	} {
		func() {
			defer func() {
				if r := recover(); r != nil {
					fmt.Println(name, "PANIC", r)
				}
			}()
			m, err := parser.LoadModuleFromString(nil, y)
			fmt.Println(name, "->", err)
			if err != nil {
				return
			}
			switch name {
			case "7 refine max":
				x := meta.Find(m, "x").(*meta.Container)
				for _, n := range []string{"l", "l2", "ll"} {
					d := meta.Find(x, n).(meta.HasListDetails)
					fmt.Println("   ", n, d.MaxElements(), d.Unbounded())
				}
			case "C02-5 mandatory":
				for _, n := range []string{"mm", "ll", "ok"} {
					l := meta.Find(m, n).(meta.Leafable)
					fmt.Println("   ", n, l.HasDefault(), l.DefaultValue())
				}
			}
		}()
	}
}
