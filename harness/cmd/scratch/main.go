package main

import (
	"fmt"

	"github.com/freeconf/yang/node"
	"github.com/freeconf/yang/nodeutil"
	"github.com/freeconf/yang/parser"
)

func try(name string, f func() string) {
	defer func() {
		if r := recover(); r != nil {
			fmt.Printf("%-50s PANIC %v\n", name, r)
		}
	}()
	fmt.Printf("%-50s %s\n", name, f())
}

type Row struct {
	K string
	V string
	L []*Row
	C *Row
}
type Root struct {
	L []*Row
	C *Row
	X string
	N int
}

func main() {
	y := `module k { namespace "urn:k"; prefix k; revision 0;
	 grouping g { list l { key k; leaf k { type string; } leaf v { type string; } uses g; } }
	 grouping h { container c { leaf k { type string; } leaf v { type string; } uses h; } }
	 uses g; uses h; leaf x { type string; } leaf n { type int32; } }`
	m, err := parser.LoadModuleFromString(nil, y)
	if err != nil {
		panic(err)
	}
	doc := `{"l":[{"k":"a","v":"1","l":[{"k":"b","v":"2","l":[{"k":"c"}]}]}],"c":{"k":"1","c":{"k":"2","c":{"k":"3"}}},"x":"X","n":5}`
	for _, be := range []string{"node-map", "reflect-map", "node-struct", "reflect-struct"} {
		mk := func() *node.Browser {
			var root node.Node
			switch be {
			case "node-map":
				root = &nodeutil.Node{Object: map[string]interface{}{}}
			case "reflect-map":
				root = nodeutil.ReflectChild(map[string]interface{}{})
			case "node-struct":
				root = &nodeutil.Node{Object: &Root{}}
			case "reflect-struct":
				root = nodeutil.ReflectChild(&Root{})
			}
			b := node.NewBrowser(m, root)
			src, _ := nodeutil.ReadJSON(doc)
			if err := b.Root().UpsertFrom(src); err != nil {
				fmt.Println(be, "load:", err)
			}
			return b
		}
		try(be+" read", func() string { return fmt.Sprint(nodeutil.WriteJSON(mk().Root())) })
		for _, del := range []string{"x", "n", "l=a/l=b", "l=a/l=b/v", "c/c", "c/c/k", "l=a/l=b/l=c", "l"} {
			try(be+" delete "+del, func() string {
				b := mk()
				s, err := b.Root().Find(del)
				if err != nil || s == nil {
					return fmt.Sprint("find ", s, err)
				}
				if err := s.Delete(); err != nil {
					return "delete: " + err.Error()
				}
				return fmt.Sprint(nodeutil.WriteJSON(b.Root()))
			})
		}
	}
}
