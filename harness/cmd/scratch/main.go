package main

import (
	"fmt"
	"io"
	"strings"

	"github.com/freeconf/yang/node"
	"github.com/freeconf/yang/nodeutil"
	"github.com/freeconf/yang/parser"
	"github.com/freeconf/yang/source"
)

func stringSource(ms map[string]string) source.Opener {
	return func(n, e string) (io.Reader, error) {
		if y, ok := ms[n]; ok {
			return strings.NewReader(y), nil
		}
		return nil, nil
	}
}

func try(name string, f func() string) {
	defer func() {
		if r := recover(); r != nil {
			fmt.Printf("%-40s PANIC %v\n", name, r)
		}
	}()
	fmt.Printf("%-40s %s\n", name, f())
}

func main() {
	b := `module b { namespace "urn:b"; prefix bp; revision 0; grouping g { container gc { leaf gl {type string;} } } container c { leaf x {type string;} } }`
	a := `module a { namespace "urn:a"; prefix ap; revision 0; import b {prefix bp;} uses bp:g; container c { leaf z {type string;} }
	 container fruit { leaf apple { type string; } leaf pear { type string; } }
	 container top { container gc { leaf q { type string; } } }
	 list country { key name; leaf name { type string; } container detail { leaf ally { type string; } } list city { key "n i"; leaf n { type string; } leaf i { type int32; } leaf pop { type int32; } } }
	 list fruits { key name; leaf name{type string;} choice shipment { case water { container boat {leaf n{type string;}} } case air { container plane {leaf n{type string;}} } } }
	 list nokey { config false; leaf a {type string;} } }`
	ms := map[string]string{"a": a, "b": b}
	m, err := parser.LoadModule(stringSource(ms), "a")
	if err != nil {
		panic(err)
	}
	data := `{"gc":{"gl":"GL"},"c":{"z":"Z"},"fruit":{"apple":"A","pear":"P"},"top":{"gc":{"q":"Q"}},"country":[{"name":"US","detail":{"ally":"UK"},"city":[{"n":"NY","i":1,"pop":8}]}],"fruits":[{"name":"apple","boat":{"n":"B"}}],"nokey":[{"a":"one"},{"a":"two"}]}`
	root := func() *node.Selection {
		n, _ := nodeutil.ReadJSON(data)
		return node.NewBrowser(m, n).Root()
	}
	show := func(s *node.Selection, err error) string {
		if err != nil {
			return "error " + err.Error()
		}
		if s == nil {
			return "nil"
		}
		return "path=" + s.Path.String() + " meta=" + s.Meta().Ident()
	}
	try("1 detail.Find(ally)", func() string { d, _ := root().Find("country=US/detail"); return show(d.Find("ally")) })
	try("1 detail.Find(../city=NY,1/pop)", func() string { d, _ := root().Find("country=US/detail"); return show(d.Find("../city=NY,1/pop")) })
	try("4 fruit/bogus:apple", func() string { return show(root().Find("fruit/bogus:apple")) })
	try("4 ap:fruit", func() string { return show(root().Find("ap:fruit")) })
	try("4 a:fruit", func() string { return show(root().Find("a:fruit")) })
	try("5 bp:c", func() string { return show(root().Find("bp:c")) })
	try("5 b:c", func() string { return show(root().Find("b:c")) })
	try("6 a:gc", func() string { return show(root().Find("a:gc")) })
	try("6 b:gc", func() string { return show(root().Find("b:gc")) })
	try("7 fruits=apple/shipment", func() string { return show(root().Find("fruits=apple/shipment")) })
	try("8 top%2Fgc", func() string { return show(root().Find("top%2Fgc")) })
	try("8 top/..%2Fc", func() string { return show(root().Find("top/..%2Fc")) })
	try("9 Path.Equal", func() string {
		x, _ := root().Find("fruit/apple")
		y, _ := root().Find("fruit/pear")
		return fmt.Sprint(x.Path.Equal(y.Path))
	})
	for _, d := range []string{`{"a:gc":{"gl":"GL"}}`, `{"b:gc":{"gl":"GL"}}`, `{"gc":{"gl":"GL"}}`} {
		try("read "+d, func() string {
			n, _ := nodeutil.ReadJSON(d)
			w := nodeutil.JSONWtr{QualifyNamespace: true}
			o, err := w.JSON(node.NewBrowser(m, n).Root())
			return fmt.Sprint(o, err)
		})
	}
	try("xml", func() string {
		n, _ := nodeutil.ReadJSON(`{"gc":{"gl":"GL"}}`)
		o, err := nodeutil.WriteXML(func() *node.Selection { s, _ := node.NewBrowser(m, n).Root().Find("gc"); return s }())
		return fmt.Sprint(o, err)
	})
	try("10 nokey=zzz", func() string { return show(root().Find("nokey=zzz")) })
}
