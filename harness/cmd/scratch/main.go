package main

import (
	"fmt"

	"github.com/freeconf/yang/meta"
	"github.com/freeconf/yang/parser"
)

func main() {
	H := `namespace "urn:m"; prefix m; revision 0; `
	for name, y := range map[string]string{
		"9 two deviate add": `module m { ` + H + ` leaf l { type string; } deviation /l { deviate add { units "u"; } deviate add { default "d"; } } }`,
		"9 two replace":     `module m { ` + H + ` leaf l { type string; units a; default b; } deviation /l { deviate replace { units "u"; } deviate replace { default "d"; } } }`,
		"9 add+replace":     `module m { ` + H + ` leaf l { type string; default b; } deviation /l { deviate add { units "u"; } deviate replace { default "d"; } } }`,
	} {
		m, err := parser.LoadModuleFromString(nil, y)
		fmt.Println(name, "->", err)
		if err == nil {
			l := meta.Find(m, "l").(*meta.Leaf)
			fmt.Println("   units", l.Units(), "default", l.Default())
		}
	}
	for _, on := range []bool{true, false} {
		fs := meta.AllFeaturesOn()
		if !on {
			fs = meta.FeaturesOff([]string{"a"})
		}
		for name, y := range map[string]string{
			"5 nested":  `module m { ` + H + ` feature a; container c { if-feature a; leaf l { if-feature "a or"; type string; } } }`,
			"5 short":   `module m { ` + H + ` feature a; leaf l { if-feature a; if-feature "a or"; type string; } }`,
			"5 unused":  `module m { ` + H + ` feature a; grouping g { leaf l { if-feature "a or"; type string; } } }`,
			"6 unknown": `module m { ` + H + ` feature a; leaf l { if-feature nosuch; type string; } }`,
		} {
			_, err := parser.LoadModuleFromStringWithOptions(nil, y, parser.Options{Features: fs})
			fmt.Println(on, name, "->", err)
		}
	}
}
