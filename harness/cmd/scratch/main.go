package main

import (
	"fmt"
	"io"
	"strings"

	"github.com/freeconf/yang/parser"
)

func main() {
	sets := map[string]map[string]string{
		"8 sub identity base": {"a": `module a { namespace "a"; prefix a; include s; identity root; }`, "s": `submodule s { belongs-to a { prefix a; } identity subid { base root; } leaf l { type identityref { base root; } } }`},
		"8b sibling submodule": {"a": `module a { namespace "a"; prefix a; include s; include s2; }`, "s": `submodule s { belongs-to a { prefix a; } identity subid { base root; } }`, "s2": `submodule s2 { belongs-to a { prefix a; } identity root; }`},
		"11 name equals prefix": {"a": `module a { namespace "a"; prefix a; import m1 { prefix m2; } import m2 { prefix x; } leaf l1 { type m2:foo; } leaf l2 { type x:foo; } }`, "m1": `module m1 { namespace "m1"; prefix m1; typedef foo { type int8; } }`, "m2": `module m2 { namespace "m2"; prefix m2; typedef foo { type string; } }`},
		"12 if-feature under bit": {"a": `module a { yang-version 1.1; namespace "a"; prefix a; feature f; leaf b { type bits { bit x { if-feature f; } bit y; } } }`},
		"12 quoted type": {"a": `module a { namespace "a"; prefix a; leaf x { type "int8"; } }`},
	}
	for name, files := range sets {
		files := files
		op := func(n, e string) (io.Reader, error) {
			if y, ok := files[n]; ok {
				return strings.NewReader(y), nil
			}
			return nil, nil
		}
		func() {
			defer func() {
				if r := recover(); r != nil {
					fmt.Println(name, "PANIC", r)
				}
			}()
			m, err := parser.LoadModule(op, "a")
			fmt.Println(name, "->", m != nil, err)
		}()
	}
}
