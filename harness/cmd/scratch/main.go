package main

import (
	"fmt"

	"github.com/freeconf/yang/node"
	"github.com/freeconf/yang/nodeutil"
	"github.com/freeconf/yang/parser"
)

func try(name string, f func() string) {
	defer func() {
		if r := recover(); r != nil {
			fmt.Printf("%-30s PANIC %v\n", name, r)
		}
	}()
	fmt.Printf("%-30s %s\n", name, f())
}

func main() {
	y := `module k { namespace "urn:k"; prefix k; revision 0;
	choice top { leaf t1 {type string;} leaf t2 {type string;} }
	container k { choice ch { case a { leaf x {type string;} choice in { leaf p {type string;} leaf q {type string;} } } case b { leaf y {type string;} } } }
	container s { config false; choice sc { leaf s1 { type string; } leaf s2 { type string; } } } }`
	m, err := parser.LoadModuleFromString(nil, y)
	if err != nil {
		panic(err)
	}
	mk := func() *node.Browser {
		local := nodeutil.ReflectChild(map[string]interface{}{"t2": "T", "k": map[string]interface{}{"x": "1", "p": "2"}})
		remote := nodeutil.ReflectChild(map[string]interface{}{"s": map[string]interface{}{"s2": "S"}})
		return node.NewBrowser(m, nodeutil.ConfigProxy{}.Node(local, remote))
	}
	try("root", func() string { return fmt.Sprint(nodeutil.WriteJSON(mk().Root())) })
	try("k", func() string { s, _ := mk().Root().Find("k"); return fmt.Sprint(nodeutil.WriteJSON(s)) })
	try("s", func() string { s, _ := mk().Root().Find("s"); return fmt.Sprint(nodeutil.WriteJSON(s)) })
}
