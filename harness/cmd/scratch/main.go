package main

import (
	"fmt"

	"github.com/freeconf/yang/node"
	"github.com/freeconf/yang/nodeutil"
	"github.com/freeconf/yang/parser"
)

func main() {
	y := `module k { namespace "urn:k"; prefix k; revision 0;
	leaf big { type string { length "0..18446744073709551615"; } } leaf hi { type bits { bit lo; bit top { position 64; } } }
	leaf u { type uint64 { range "0..18446744073709551615"; } } leaf b2 { type bits { bit a { position 63; } bit b; } }
	}`
	m, err := parser.LoadModuleFromString(nil, y)
	fmt.Println("load", err)
	if err != nil {
		return
	}
	for _, doc := range []string{`{"big":"abc"}`, `{"hi":"lo top"}`, `{"hi":"top"}`, `{"u":5}`, `{"u":18446744073709551615}`, `{"b2":"a"}`} {
		data := map[string]interface{}{}
		b := node.NewBrowser(m, nodeutil.ReflectChild(data))
		src, _ := nodeutil.ReadJSON(doc)
		err := b.Root().UpsertFrom(src)
		out, _ := nodeutil.WriteJSON(b.Root())
		fmt.Println(doc, "->", err, data, out)
	}
}
