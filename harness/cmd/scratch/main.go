package main

import (
	"fmt"

	"github.com/freeconf/yang/node"
	"github.com/freeconf/yang/nodeutil"
	"github.com/freeconf/yang/parser"
)

func try(name string, f func() string) {
	defer func() {
		if r := recover(); r != nil {
			fmt.Printf("%-30s PANIC %v\n", name, r)
		}
	}()
	fmt.Printf("%-30s %s\n", name, f())
}

func main() {
	y := `module k { yang-version 1.1; namespace "urn:k"; prefix k; revision 0; identity b; identity i1 { base b; }
	leaf u { type union { type enumeration { enum red; enum blue; } type int32; } }
	leaf-list ul { type union { type int32; type string; } }
	leaf ue { type union { type empty; type string; } }
	typedef t { type union { type int8; type string; } } leaf uu { type union { type boolean; type t; } }
	leaf on { type empty; } leaf e2 { type empty; }
	leaf ui { type union { type identityref { base b; } type int32; } }
	leaf ub { type union { type bits { bit x; bit y; } type int32; } }
	container c { leaf d { type int32; default 5; } container in { leaf d2 { type int32; default 6; } } } leaf td { type int32; default 7; }
	}`
	m, err := parser.LoadModuleFromString(nil, y)
	if err != nil {
		panic(err)
	}
	rd := func(doc string, find string) string {
		n, err := nodeutil.ReadJSON(doc)
		if err != nil {
			return err.Error()
		}
		s, err := node.NewBrowser(m, n).Root().Find(find)
		if err != nil || s == nil {
			return fmt.Sprint("find ", err)
		}
		j, err := nodeutil.WriteJSON(s)
		x, err2 := nodeutil.WriteXML(s)
		return fmt.Sprint(j, " ", err, " | ", x, " ", err2)
	}
	for _, d := range []string{`{"u":"red"}`, `{"u":5}`, `{"ul":[1,"a"]}`, `{"ue":"abc"}`, `{"ue":[null]}`, `{"uu":"abc"}`, `{"uu":true}`, `{"uu":5}`, `{"on":[null]}`, `{"ui":"i1"}`, `{"ui":7}`, `{"ub":"x y"}`, `{"ub":3}`} {
		try(d, func() string { return rd(d, "") })
	}
	try("empty false map", func() string {
		j, err := nodeutil.WriteJSON(node.NewBrowser(m, nodeutil.ReflectChild(map[string]interface{}{"on": false, "e2": true})).Root())
		return fmt.Sprint(j, err)
	})
	try("defaults root", func() string { return rd(`{"c":{"in":{}}}`, "") })
	try("defaults c", func() string { return rd(`{"c":{"in":{}}}`, "c") })
	try("defaults c/in", func() string { return rd(`{"c":{"in":{}}}`, "c/in") })
}
