package main

import (
	"fmt"

	"github.com/freeconf/yang/node"
	"github.com/freeconf/yang/nodeutil"
	"github.com/freeconf/yang/parser"
)

func try(name string, f func() string) {
	defer func() {
		if r := recover(); r != nil {
			fmt.Printf("%-50s PANIC %v\n", name, r)
		}
	}()
	fmt.Printf("%-50s %s\n", name, f())
}

func semi(t string) string {
	if t[len(t)-1] == '}' {
		return t
	}
	return t + ";"
}

type Row struct {
	K interface{}
	V string
}
type Root struct {
	L []*Row
}

func main() {
	for _, kt := range []struct{ typ, k1, k2, find string }{
		{"union { type int32; type string; }", `1`, `"x"`, "l=x"},
		{"bits { bit a; bit b; }", `"a"`, `"a b"`, "l=a%20b"},
		{"binary", `"AQI="`, `"AwQ="`, "l=AwQ%3D"},
		{"enumeration { enum one; enum two; }", `"one"`, `"two"`, "l=two"},
		{"boolean", `true`, `false`, "l=false"},
		{"decimal64 { fraction-digits 2; }", `1.5`, `2.25`, "l=2.25"},
		{"identityref { base b; }", `"i1"`, `"i2"`, "l=i2"},
		{"uint64", `1`, `18446744073709551615`, "l=18446744073709551615"},
	} {
		y := `module k { namespace "urn:k"; prefix k; revision 0; identity b; identity i1 { base b; } identity i2 { base b; } list l { key k; leaf k { type ` + semi(kt.typ) + ` } leaf v { type string; } } }`
		m, err := parser.LoadModuleFromString(nil, y)
		if err != nil {
			fmt.Println("load", kt.typ, err)
			continue
		}
		doc := `{"l":[{"k":` + kt.k1 + `,"v":"1"},{"k":` + kt.k2 + `,"v":"2"}]}`
		for _, be := range []string{"node-map", "reflect-map", "node-struct", "reflect-struct"} {
			try(be+" "+(kt.typ+"        ")[:8], func() string {
				var root node.Node
				switch be {
				case "node-map":
					root = &nodeutil.Node{Object: map[string]interface{}{}}
				case "reflect-map":
					root = nodeutil.ReflectChild(map[string]interface{}{})
				case "node-struct":
					root = &nodeutil.Node{Object: &Root{}}
				case "reflect-struct":
					root = nodeutil.ReflectChild(&Root{})
				}
				b := node.NewBrowser(m, root)
				src, _ := nodeutil.ReadJSON(doc)
				if err := b.Root().UpsertFrom(src); err != nil {
					return "load: " + err.Error()
				}
				s, err := b.Root().Find(kt.find)
				if err != nil || s == nil {
					return fmt.Sprint("find: ", s, err)
				}
				one, err := nodeutil.WriteJSON(s)
				if err != nil {
					return "read: " + err.Error()
				}
				if err := s.Delete(); err != nil {
					return "delete: " + err.Error()
				}
				all, err := nodeutil.WriteJSON(b.Root())
				return fmt.Sprint(one, " ; after delete ", all, err)
			})
		}
	}
}
