package main

import (
	"fmt"

	"github.com/freeconf/yang/node"
	"github.com/freeconf/yang/nodeutil"
	"github.com/freeconf/yang/parser"
)

func main() {
	y := `module k { yang-version 1.1; namespace "urn:k"; prefix k; revision 0; identity base1; identity base2; identity d1 {base base1;} identity d2 { base base2; } identity d12 {base base1; base base2;} identity dd { base d12; }
	leaf id1 { type identityref { base base1; } } leaf id12 { type identityref { base base1; base base2; } }
	}`
	m, err := parser.LoadModuleFromString(nil, y)
	if err != nil {
		panic(err)
	}
	for _, doc := range []string{`{"id1":"base1"}`, `{"id1":"d1"}`, `{"id1":"bogus:d1"}`, `{"id1":"k:d1"}`, `{"id1":"d2"}`, `{"id12":"d1"}`, `{"id12":"d2"}`, `{"id12":"d12"}`, `{"id12":"dd"}`, `{"id12":"base1"}`} {
		data := map[string]interface{}{}
		b := node.NewBrowser(m, nodeutil.ReflectChild(data))
		src, _ := nodeutil.ReadJSON(doc)
		err := b.Root().UpsertFrom(src)
		fmt.Println(doc, "->", err, data)
	}
}
