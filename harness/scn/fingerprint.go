package scn

import (
	"fmt"
	"reflect"
	"sort"
	"strings"
)

// Fingerprint walks everything reachable from v - exported and unexported fields, through pointers, slices, maps
// and interfaces - and returns one line per scalar/shape fact, keyed by the access path.  Pointers are numbered in
// walk order, so the result does not depend on addresses.  Two fingerprints of a compiled module taken before and
// after it was used differ exactly when the use wrote to it.
func Fingerprint(v interface{}) []string {
	f := &fper{ids: map[uintptr]int{}}
	f.walk(reflect.ValueOf(v), "m", 0)
	return f.out
}

type fper struct {
	ids map[uintptr]int
	out []string
}

func (f *fper) say(path, what string) { f.out = append(f.out, path+" = "+what) }

func (f *fper) walk(v reflect.Value, path string, depth int) {
	if depth > 200 {
		f.say(path, "<deep>")
		return
	}
	if !v.IsValid() {
		f.say(path, "<invalid>")
		return
	}
	switch v.Kind() {
	case reflect.Bool:
		f.say(path, fmt.Sprint(v.Bool()))
	case reflect.Int, reflect.Int8, reflect.Int16, reflect.Int32, reflect.Int64:
		f.say(path, fmt.Sprint(v.Int()))
	case reflect.Uint, reflect.Uint8, reflect.Uint16, reflect.Uint32, reflect.Uint64, reflect.Uintptr:
		f.say(path, fmt.Sprint(v.Uint()))
	case reflect.Float32, reflect.Float64:
		f.say(path, fmt.Sprint(v.Float()))
	case reflect.Complex64, reflect.Complex128:
		f.say(path, fmt.Sprint(v.Complex()))
	case reflect.String:
		f.say(path, fmt.Sprintf("%q", v.String()))
	case reflect.Func, reflect.Chan, reflect.UnsafePointer:
		if v.IsNil() {
			f.say(path, "nil")
		} else {
			f.say(path, "<"+v.Kind().String()+">")
		}
	case reflect.Ptr:
		if v.IsNil() {
			f.say(path, "nil")
			return
		}
		p := v.Pointer()
		if id, seen := f.ids[p]; seen {
			f.say(path, fmt.Sprintf("->#%d", id))
			return
		}
		id := len(f.ids) + 1
		f.ids[p] = id
		f.say(path, fmt.Sprintf("&#%d %s", id, v.Type().Elem().String()))
		f.walk(v.Elem(), path+"*", depth+1)
	case reflect.Interface:
		if v.IsNil() {
			f.say(path, "nil")
			return
		}
		f.walk(v.Elem(), path+"("+v.Elem().Type().String()+")", depth+1)
	case reflect.Struct:
		t := v.Type()
		if strings.HasPrefix(t.String(), "sync.") || strings.HasPrefix(t.String(), "atomic.") || strings.HasPrefix(t.String(), "regexp.") {
			f.say(path, "<"+t.String()+">")
			return
		}
		for i := 0; i < v.NumField(); i++ {
			f.walk(v.Field(i), path+"."+t.Field(i).Name, depth+1)
		}
	case reflect.Slice:
		if v.IsNil() {
			f.say(path, "nil")
			return
		}
		f.say(path, fmt.Sprintf("len %d cap-spare %v", v.Len(), v.Cap() > v.Len()))
		for i := 0; i < v.Len(); i++ {
			f.walk(v.Index(i), fmt.Sprintf("%s[%d]", path, i), depth+1)
		}
		// the spare capacity behind the length belongs to the shared object too: an append to it by a user of the
		// schema writes there
		if v.Cap() > v.Len() && v.Cap()-v.Len() <= 64 {
			full := v.Slice(0, v.Cap())
			for i := v.Len(); i < v.Cap(); i++ {
				e := full.Index(i)
				switch e.Kind() {
				case reflect.Ptr, reflect.Interface, reflect.Map, reflect.Slice, reflect.Func, reflect.Chan:
					f.say(fmt.Sprintf("%s[+%d]", path, i), fmt.Sprint("nil=", e.IsNil()))
				default:
					f.say(fmt.Sprintf("%s[+%d]", path, i), fmt.Sprint("zero=", e.IsZero()))
				}
			}
		}
	case reflect.Array:
		for i := 0; i < v.Len(); i++ {
			f.walk(v.Index(i), fmt.Sprintf("%s[%d]", path, i), depth+1)
		}
	case reflect.Map:
		if v.IsNil() {
			f.say(path, "nil")
			return
		}
		f.say(path, fmt.Sprintf("map len %d", v.Len()))
		type kv struct {
			k string
			v reflect.Value
		}
		var kvs []kv
		it := v.MapRange()
		for it.Next() {
			kvs = append(kvs, kv{keyText(it.Key()), it.Value()})
		}
		sort.Slice(kvs, func(i, j int) bool { return kvs[i].k < kvs[j].k })
		for _, e := range kvs {
			f.walk(e.v, path+"["+e.k+"]", depth+1)
		}
	default:
		f.say(path, "<"+v.Kind().String()+">")
	}
}

func keyText(k reflect.Value) string {
	switch k.Kind() {
	case reflect.String:
		return fmt.Sprintf("%q", k.String())
	case reflect.Int, reflect.Int8, reflect.Int16, reflect.Int32, reflect.Int64:
		return fmt.Sprint(k.Int())
	case reflect.Uint, reflect.Uint8, reflect.Uint16, reflect.Uint32, reflect.Uint64:
		return fmt.Sprint(k.Uint())
	case reflect.Bool:
		return fmt.Sprint(k.Bool())
	case reflect.Ptr, reflect.Interface:
		// keyed by identity: the walk cannot order these canonically; use the pointee's type and its Ident if any
		if k.IsNil() {
			return "nil"
		}
		e := k
		for e.Kind() == reflect.Interface || e.Kind() == reflect.Ptr {
			if e.IsNil() {
				break
			}
			e = e.Elem()
		}
		if e.Kind() == reflect.Struct {
			if id := e.FieldByName("ident"); id.IsValid() && id.Kind() == reflect.String {
				return e.Type().String() + ":" + id.String()
			}
		}
		return e.Type().String()
	}
	return "<" + k.Kind().String() + ">"
}

// FirstDiff returns the first line that differs between two fingerprints ("" when equal).
func FirstDiff(a, b []string) string {
	n := len(a)
	if len(b) < n {
		n = len(b)
	}
	for i := 0; i < n; i++ {
		if a[i] != b[i] {
			return fmt.Sprintf("before: %s | after: %s", a[i], b[i])
		}
	}
	if len(a) != len(b) {
		return fmt.Sprintf("fingerprint has %d facts before and %d after", len(a), len(b))
	}
	return ""
}
