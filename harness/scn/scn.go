// Package scn is the concurrent scenario of property C20: a fixed set of load tasks and use tasks whose inputs
// are prepared sequentially and whose bodies call only the library.  The same bodies are (a) run one after the
// other and concurrently (under the race detector) by cmd/c20race and (b) the roots of the call graph from which
// the effect table lean/YangVerif/Gen/EffectTable.lean is extracted by /verif/effects/cmd/vfx.
package scn

import (
	"fmt"
	"io"
	"sort"
	"strings"

	"github.com/freeconf/yang/fc"
	"github.com/freeconf/yang/meta"
	"github.com/freeconf/yang/node"
	"github.com/freeconf/yang/nodeutil"
	"github.com/freeconf/yang/parser"
	"github.com/freeconf/yang/source"
	"github.com/freeconf/yang/val"
)

// Lib is imported by the main module: typedefs, a grouping, an identity, an extension.
const Lib = `module lib { namespace "urn:lib"; prefix l; revision 2020-01-01;
  extension note { argument text; }
  typedef pct { type uint8 { range "0..100"; } units percent; default 50; }
  typedef name { type string { length "1..20"; pattern "[a-z][a-z0-9]*"; } }
  identity base-id;
  identity left { base base-id; }
  identity right { base base-id; }
  grouping stamp { leaf at { type int64; } leaf by { type name; } }
}
`

// Main returns the main module text; v varies names and values a little so that concurrent loads differ.
func Main(v int) string {
	return fmt.Sprintf(`module main%[1]d { namespace "urn:main%[1]d"; prefix m; yang-version 1.1;
  import lib { prefix l; }
  revision 2021-02-0%[2]d { description "rev"; }
  feature extra;
  typedef level { type enumeration { enum low; enum mid { value 5; } enum high; } default mid; }
  typedef flags { type bits { bit a; bit b { position 4; } bit c; } }
  typedef notname { type string { pattern "[a-z][a-z0-9]*"%[3]s; } }
  identity local-id { base l:base-id; }
  identity kind; identity kz { base kind; } identity ka { base kind; } identity km { base kind; } identity kb { base kind; }
  identity sub-kind { base kz; } identity sub-kind2 { base kz; base ka; }
  grouping addr { leaf host { type string; default "h%[1]d"; } leaf port { type uint16 { range "1..65535"; } default 80; }
    uses l:stamp; }
  grouping deep { container d1 { container d2 { uses addr; leaf-list tags { type string; } } } }
  container sys {
    l:note "system";
    leaf name { type l:name; mandatory true; }
    leaf load { type l:pct; }
    leaf lvl { type level; }
    leaf nn { type notname; }
    leaf fl { type flags; }
    leaf ratio { type decimal64 { fraction-digits 3; range "-10.0..10.0"; } }
    leaf big { type uint64; }
    leaf neg { type int64; }
    leaf on { type boolean; default true; }
    leaf mark { type empty; }
    leaf cond { type int32; when "on='true'"; }
    leaf side { type identityref { base l:base-id; } }
    leaf knd { type identityref { base kind; } }
    leaf knd3 { type identityref { base ka; base kz; base l:base-id; } }
    leaf-list knds { type identityref { base kind; base l:base-id; base kb; base km; base kz; } }
    leaf un { type union { type int32; type enumeration { enum auto; } type string; } }
    leaf ref { type leafref { path "../name"; } }
    leaf bin { type binary; }
    leaf-list nums { type int32; }
    leaf-list words { type string; ordered-by user; }
    leaf-list dtags { type string; default "alpha"; default "beta"; default "gamma"; }
    anydata blob;
    uses deep;
    container opt { presence "set"; leaf x { type int32; must ". < 1000" { error-message "too big"; } } }
    choice how { case one { leaf a1 { type string; } leaf a2 { type int32; } } case two { container b1 { leaf z { type string; } } } leaf solo { type string; } }
    container st { config false; leaf cnt { type uint32; } leaf up { type boolean; } }
    action reset { input { leaf hard { type boolean; } } output { leaf took { type int32; } } }
    notification changed { leaf what { type string; } leaf n { type int32; } }
  }
  list item { key "id"; unique "label"; min-elements 0; max-elements 50;
    leaf id { type int32; } leaf label { type string; } leaf w { type l:pct; }
    uses addr;
    container in { leaf q { type int32; } leaf seen { config false; type int32; } }
    list sub { key "k1"; leaf k1 { type string; } leaf k2 { type uint8; } leaf v { type string; }
      leaf big { type int32; when "v"; } }
  }
  list log { config false; leaf msg { type string; } leaf sev { type level; } }
  augment "/m:sys/m:d1" { leaf extra%[1]d { type string; } }
  augment "/m:sys/m:how" { case three { leaf a3 { type string; } container b3 { leaf z3 { type string; } } } }
  rpc ping { input { leaf msg { type string; } } output { leaf reply { type string; } } }
  notification beat { leaf seq { type int32; } }
}
`, v, 1+v%8, []string{"", " { modifier invert-match; }"}[(v/3)%2])
}

// Sub is a module with a submodule, loaded through include.
func WithSub(v int) (string, string) {
	return fmt.Sprintf(`module top%[1]d { namespace "urn:top%[1]d"; prefix t; include part%[1]d; revision 2020-01-01;
  container c { uses g; leaf own { type st; } }
}
`, v), fmt.Sprintf(`submodule part%[1]d { belongs-to top%[1]d { prefix t; } revision 2020-01-01;
  typedef st { type string { length "0..%[1]d0"; } }
  grouping g { leaf a { type st; } list l { key k; leaf k { type int32; } } }
  container fromsub { leaf z { type int32; } }
}
`, v)
}

// writer configurations an application sets up once
var SharedXMLOptions = nodeutil.XMLWtr{EnumAsIds: true}
var SharedJSONOptions = nodeutil.JSONWtr{EnumAsIds: true, Pretty: true}

type Task struct {
	Name string
	Run  func() string
}

func opener(files map[string]string) source.Opener {
	return func(name, ext string) (io.Reader, error) {
		if s, ok := files[name]; ok {
			return strings.NewReader(s), nil
		}
		return nil, fmt.Errorf("%w. %s", fc.NotFoundError, name)
	}
}

// yangPath is the one long-lived search path of the process (what source.Path("d1:d2") is for an application): two
// places, the main modules with an odd number only in the second one, and an older lib in the second place that
// the first place shadows.  Every load goes through it; what a load finds must not depend on the loads before it.
var yangPath = func() source.Opener {
	first := map[string]string{"lib": Lib}
	second := map[string]string{"lib": strings.Replace(Lib, `default 50;`, `default 49;`, 1)}
	for v := 0; v < 64; v++ {
		if v%2 == 0 {
			first[fmt.Sprintf("main%d", v)] = Main(v)
		} else {
			second[fmt.Sprintf("main%d", v)] = Main(v)
		}
	}
	return source.Any(opener(first), opener(second))
}()

// LoadMain loads main<v> with its import and returns the canonical dump of the compiled schema.
func LoadMain(v int) string {
	m, err := parser.LoadModule(yangPath, fmt.Sprintf("main%d", v%64))
	if err != nil {
		return "ERR " + err.Error()
	}
	return DumpMeta(m)
}

func LoadSub(v int) string {
	a, b := WithSub(v)
	files := map[string]string{fmt.Sprintf("top%d", v): a, fmt.Sprintf("part%d", v): b}
	m, err := parser.LoadModule(opener(files), fmt.Sprintf("top%d", v))
	if err != nil {
		return "ERR " + err.Error()
	}
	return DumpMeta(m)
}

// LoadBad loads texts that are refused; the error must be the same alone and in company.
func LoadBad(v int) string {
	texts := []string{
		`module bad { namespace "urn:b"; prefix b; revision 2020-01-01; leaf x { type nosuch; } }`,
		`module bad { namespace "urn:b"; prefix b; revision 2020-01-01; container c { uses missing; } }`,
		`module bad { namespace "urn:b"; prefix b; revision 2020-01-01; import bad { prefix x; } }`,
		`module bad { namespace "urn:b"; prefix b; revision 2020-01-01; typedef a { type a; } leaf x { type a; } }`,
		`module bad { namespace "urn:b"; prefix b; revision 2020-01-01; leaf x { type string`,
	}
	t := texts[v%len(texts)]
	_, err := parser.LoadModule(opener(map[string]string{"bad": t}), "bad")
	if err == nil {
		return "LOADED"
	}
	return "ERR " + err.Error()
}

// DumpMeta walks the public accessors of a compiled module.
func DumpMeta(m *meta.Module) string {
	var b strings.Builder
	fmt.Fprintf(&b, "module %s ns=%s prefix=%s ver=%s\n", m.Ident(), m.Namespace(), m.Prefix(), m.Version())
	for _, r := range m.Revisions() {
		fmt.Fprintf(&b, "rev %s\n", r.Ident())
	}
	ids := []string{}
	for n, id := range m.Identities() {
		d := id.DerivedDirectIds()
		ids = append(ids, n+"<"+strings.Join(d, ",")+">")
	}
	sort.Strings(ids)
	fmt.Fprintf(&b, "identities %v\n", ids)
	ft := []string{}
	for n := range m.Features() {
		ft = append(ft, n)
	}
	sort.Strings(ft)
	fmt.Fprintf(&b, "features %v\n", ft)
	dumpDefs(&b, m, "")
	for _, r := range sortedRpcs(m.Actions()) {
		fmt.Fprintf(&b, "rpc %s\n", r.Ident())
		if r.Input() != nil {
			dumpDefs(&b, r.Input(), "  in ")
		}
		if r.Output() != nil {
			dumpDefs(&b, r.Output(), "  out ")
		}
	}
	for _, n := range sortedNotifs(m.Notifications()) {
		fmt.Fprintf(&b, "notification %s\n", n.Ident())
		dumpDefs(&b, n, "  ")
	}
	return b.String()
}

func sortedRpcs(in map[string]*meta.Rpc) []*meta.Rpc {
	out := []*meta.Rpc{}
	for _, r := range in {
		out = append(out, r)
	}
	sort.Slice(out, func(i, j int) bool { return out[i].Ident() < out[j].Ident() })
	return out
}

func sortedNotifs(in map[string]*meta.Notification) []*meta.Notification {
	out := []*meta.Notification{}
	for _, r := range in {
		out = append(out, r)
	}
	sort.Slice(out, func(i, j int) bool { return out[i].Ident() < out[j].Ident() })
	return out
}

func dumpDefs(b *strings.Builder, p meta.HasDataDefinitions, ind string) {
	for _, d := range p.DataDefinitions() {
		fmt.Fprintf(b, "%s%T %s", ind, d, d.Ident())
		if c, ok := d.(meta.HasDetails); ok {
			fmt.Fprintf(b, " config=%v mandatory=%v", c.Config(), c.Mandatory())
		}
		if w, ok := d.(meta.HasWhen); ok && w.When() != nil {
			fmt.Fprintf(b, " when=%q", w.When().Expression())
		}
		if l, ok := d.(meta.Leafable); ok {
			t := l.Type()
			fmt.Fprintf(b, " type=%s fmt=%s units=%q", t.Ident(), t.Format(), l.Units())
			if l.HasDefault() {
				fmt.Fprintf(b, " default=%v", l.DefaultValue())
			}
			for _, r := range t.Range() {
				fmt.Fprintf(b, " range=%s", r.String())
			}
			for _, r := range t.Length() {
				fmt.Fprintf(b, " length=%s", r.String())
			}
			for _, p := range t.Patterns() {
				fmt.Fprintf(b, " pattern=%q inverted=%v", p.Pattern, p.Inverted())
			}
			for _, e := range t.Enum() {
				fmt.Fprintf(b, " enum=%s:%d", e.Label, e.Id)
			}
			for _, e := range t.Bits() {
				fmt.Fprintf(b, " bit=%s:%d", e.Ident(), e.Position)
			}
			for _, u := range t.Union() {
				fmt.Fprintf(b, " member=%s", u.Ident())
			}
			if t.Path() != "" {
				fmt.Fprintf(b, " path=%s", t.Path())
			}
		}
		if l, ok := d.(*meta.List); ok {
			ks := []string{}
			for _, k := range l.KeyMeta() {
				ks = append(ks, k.Ident())
			}
			fmt.Fprintf(b, " key=%v unique=%v min=%d max=%d", ks, l.Unique(), l.MinElements(), l.MaxElements())
		}
		for _, e := range d.Extensions() {
			fmt.Fprintf(b, " ext=%s:%s(%v)", e.Prefix(), e.Ident(), e.Argument())
		}
		b.WriteString("\n")
		if h, ok := d.(meta.HasDataDefinitions); ok {
			dumpDefs(b, h, ind+"  ")
		}
		if h, ok := d.(meta.HasActions); ok {
			for _, r := range sortedRpcs(h.Actions()) {
				fmt.Fprintf(b, "%s  action %s\n", ind, r.Ident())
			}
		}
		if h, ok := d.(meta.HasNotifications); ok {
			for _, r := range sortedNotifs(h.Notifications()) {
				fmt.Fprintf(b, "%s  notification %s\n", ind, r.Ident())
			}
		}
	}
}

// Doc is the JSON document worker w starts from.
func Doc(w int) string {
	items := []string{}
	for i := 0; i < 3+w%4; i++ {
		subs := []string{}
		for j := 0; j < 1+(w+i)%3; j++ {
			subs = append(subs, fmt.Sprintf(`{"k1":"s%d","k2":%d,"v":"v%d-%d","big":%d}`, j, j+w%5, w, j, w*100+j))
		}
		items = append(items, fmt.Sprintf(`{"id":%d,"label":"L%d-%d","w":%d,"host":"host%d","port":%d,"at":%d,"in":{"q":%d},"sub":[%s]}`,
			i, w, i, (w*7+i)%101, i, 1000+i, int64(w)<<40+int64(i), w+i, strings.Join(subs, ",")))
	}
	how := []string{`"a1":"x","a2":3`, `"b1":{"z":"zz"}`, `"solo":"s"`, `"a3":"t","b3":{"z3":"q"}`}[w%4]
	return fmt.Sprintf(`{"sys":{"name":"n%d","load":%d,"lvl":"%s","fl":"a c","ratio":%d.125,"big":%d,"neg":%d,"on":%v,"side":"%s","knd":"%s","knd3":"sub-kind2","un":%s,`+
		`"ref":"n%d","cond":4,"nums":[%d,2,3],"words":["b","a","c"],"blob":{"any":[1,"two",{"three":3}]},`+
		`"d1":{"d2":{"host":"dh","tags":["t1","t2"]}},"opt":{"x":%d},%s},"item":[%s]}`,
		w, w%101, []string{"low", "mid", "high"}[w%3], w%10, uint64(18446744073709551615)-uint64(w), -int64(w)-(1<<40), w%2 == 0,
		[]string{"left", "right", "local-id"}[w%3], []string{"kz", "sub-kind2", "kb", "ka"}[w%4], []string{`7`, `"auto"`, `"text"`}[w%3], w, w, w%900, how, strings.Join(items, ","))
}

// Use runs the operations of worker w against the shared module; every browser, store and writer is its own.
func Use(m *meta.Module, fcYang *meta.Module, w int) string {
	var out strings.Builder
	say := func(what string, s string, err error) {
		if err != nil {
			fmt.Fprintf(&out, "%s: ERR %v\n", what, err)
		} else {
			fmt.Fprintf(&out, "%s: %s\n", what, s)
		}
	}
	store := map[string]interface{}{}
	fired := []string{}
	var b *node.Browser
	n := &nodeutil.Extend{
		Base: nodeutil.ReflectChild(store),
		OnChild: func(p node.Node, r node.ChildRequest) (node.Node, error) {
			if r.Meta.Ident() == "sys" {
				c, err := p.Child(r)
				if c == nil || err != nil {
					return c, err
				}
				return &nodeutil.Extend{Base: c,
					OnAction: func(p node.Node, r node.ActionRequest) (node.Node, error) {
						hard, _ := r.Input.GetValue("hard")
						took := 1
						if hard != nil && hard.Value().(bool) {
							took = 2
						}
						return nodeutil.ReflectChild(map[string]interface{}{"took": took}), nil
					},
					OnNotify: func(p node.Node, r node.NotifyRequest) (node.NotifyCloser, error) {
						for i := 0; i < 3; i++ {
							r.Send(nodeutil.ReflectChild(map[string]interface{}{"what": fmt.Sprintf("w%d", i), "n": i * w}))
						}
						return func() error { return nil }, nil
					},
				}, nil
			}
			return p.Child(r)
		},
	}
	b = node.NewBrowser(m, n)
	root := b.Root()
	doc, err := nodeutil.ReadJSON(Doc(w))
	if err != nil {
		return "ERR " + err.Error()
	}
	say("upsert", "ok", root.UpsertFrom(doc))
	js, err := nodeutil.WriteJSON(b.Root())
	say("export", js, err)
	xs, err := nodeutil.WriteXML(firstSel(b.Root().Find("sys")))
	say("xml", xs, err)
	// writer options kept in one value for the whole process and used by every task: the convenience methods work
	// on a copy of it
	xs, err = SharedXMLOptions.XML(firstSel(b.Root().Find("sys")))
	say("xml-options", xs, err)
	js, err = SharedJSONOptions.JSON(firstSel(b.Root().Find("sys")))
	say("json-options", js, err)
	queries := []string{
		"sys?depth=1", "sys?depth=2&content=config", "sys?content=nonconfig", "sys?fields=name;d1/d2/host", "sys?fc.xfields=blob;d1",
		"sys?with-defaults=trim", "sys?with-defaults=report-all", "item?where=" + fmt.Sprintf("w>%d", w%50), "item=1", "item=1/sub=s0",
		"item?fc.range=!1-2", "item?fields=id;label&depth=1", "item=0/in", "sys/d1/d2?fc.max-node-count=100", "sys/opt", "item=99", "nosuch",
		"sys?depth=x", "sys?fields=(", "item?where=w%3D5",
	}
	for _, q := range queries {
		s, err := b.Root().Find(q)
		if err != nil {
			say("find "+q, "", err)
			continue
		}
		if s == nil {
			say("find "+q, "nil", nil)
			continue
		}
		j, err := nodeutil.WriteJSON(s)
		say("find "+q, j, err)
	}
	// edits
	edit := func(what, path, js string, f func(*node.Selection, node.Node) error) {
		s, err := b.Root().Find(path)
		if err != nil || s == nil {
			say(what, "no selection", err)
			return
		}
		n, err := nodeutil.ReadJSON(js)
		if err != nil {
			say(what, "", err)
			return
		}
		say(what, "ok", f(s, n))
	}
	edit("update", "sys", fmt.Sprintf(`{"load":%d,"lvl":"high"}`, (w+1)%101), (*node.Selection).UpdateFrom)
	edit("insert-dup", "item", `{"item":[{"id":1,"label":"dup"}]}`, (*node.Selection).InsertFrom)
	edit("insert", "item", fmt.Sprintf(`{"item":[{"id":%d,"label":"new%d"}]}`, 20+w, w), (*node.Selection).InsertFrom)
	edit("replace", "item=0", fmt.Sprintf(`{"id":0,"label":"rep%d","port":%d}`, w, 2000+w), (*node.Selection).ReplaceFrom)
	edit("range", "sys", `{"load":101}`, (*node.Selection).UpsertFrom)
	edit("length", "sys", `{"name":"UPPER"}`, (*node.Selection).UpsertFrom)
	edit("enum", "sys", `{"lvl":"nope"}`, (*node.Selection).UpsertFrom)
	edit("must", "sys", `{"opt":{"x":5000}}`, (*node.Selection).UpsertFrom)
	if s, err := b.Root().Find("item=2"); err == nil && s != nil {
		say("delete", "ok", s.Delete())
	}
	if s, err := b.Root().Find("sys/name"); err == nil && s != nil {
		v, err := s.Get()
		if v != nil {
			say("get", v.String(), err)
		}
	}
	if s, err := b.Root().Find("sys"); err == nil && s != nil {
		for _, f := range []string{"load", "lvl", "fl", "ratio", "big", "side", "un", "port"} {
			v, err := s.GetValue(f)
			if err != nil {
				say("value "+f, "", err)
			} else if v == nil {
				say("value "+f, "nil", nil)
			} else {
				say("value "+f, fmt.Sprintf("%s %v", v.Format(), v.Value()), nil)
			}
		}
		if bs, err := s.Find("big"); err == nil && bs != nil {
			say("set", "ok", bs.Set(val.UInt64(uint64(w))))
		}
		if a, err := s.Find("reset"); err == nil && a != nil {
			in, _ := nodeutil.ReadJSON(fmt.Sprintf(`{"hard":%v}`, w%2 == 1))
			o, err := a.Action(in)
			if err == nil && o != nil {
				j, err := nodeutil.WriteJSON(o)
				say("action", j, err)
			} else {
				say("action", "nil", err)
			}
		}
		if nsel, err := s.Find("changed?filter=n>" + fmt.Sprint(w%3)); err == nil && nsel != nil {
			closer, err := nsel.Notifications(func(n node.Notification) {
				j, _ := nodeutil.WriteJSON(n.Event)
				fired = append(fired, j)
			})
			if err == nil && closer != nil {
				closer()
			}
			say("notify", strings.Join(fired, "|"), err)
		}
	}
	js, err = nodeutil.WriteJSON(b.Root())
	say("final", js, err)
	// what a data tree is given as the default of a leaf-list is the tree's own: the task writes into it
	{
		own := map[string]interface{}{}
		ob := node.NewBrowser(m, nodeutil.ReflectChild(own))
		if src, err := nodeutil.ReadJSON(`{"sys":{"name":"own"}}`); err == nil {
			say("defaults-upsert", "ok", ob.Root().UpsertFromSetDefaults(src))
		}
		if v, err := ob.Root().GetValue("sys/dtags"); err == nil && v != nil {
			say("defaults-read", fmt.Sprint(v.Value()), nil)
			if l, ok := v.Value().([]string); ok && len(l) > 0 {
				l[0] = fmt.Sprintf("task-%d", w)
				_ = append(l, fmt.Sprintf("more-%d", w))
			}
		}
		if sys, ok := own["sys"].(map[string]interface{}); ok {
			if l, ok := sys["dtags"].([]string); ok && len(l) > 0 {
				l[len(l)-1] = fmt.Sprintf("stored-%d", w)
				sys["dtags"] = append(l, fmt.Sprintf("stored-more-%d", w))
			}
		}
		if v, err := ob.Root().GetValue("sys/dtags"); err == nil && v != nil {
			say("defaults-after", fmt.Sprint(len(v.Value().([]string))), nil)
		}
	}
	// values through the conversion layer
	for _, p := range []string{"sys/load", "sys/lvl", "sys/ratio", "sys/un", "item/w"} {
		d := meta.Find(m, p)
		if l, ok := d.(meta.Leafable); ok {
			v, err := node.NewValue(l.Type(), "7")
			if err != nil {
				say("conv "+p, "", err)
			} else {
				say("conv "+p, fmt.Sprintf("%s %v", v.Format(), v.Value()), nil)
			}
			_ = val.Equal(v, v)
		}
	}
	// the schema as data
	if fcYang != nil && w%2 == 0 {
		sb := nodeutil.SchemaBrowser(fcYang, m)
		j, err := nodeutil.WriteJSON(sb.Root())
		say("schema", fmt.Sprint(len(j)), err)
	}
	out.WriteString(DumpMeta(m))
	return out.String()
}

func firstSel(s *node.Selection, err error) *node.Selection { return s }

// Tasks builds the task list: nLoad loads and nUse uses of one shared module.
func Tasks(shared, fcYang *meta.Module, nLoad, nUse int) []Task {
	ts := []Task{}
	for i := 0; i < nLoad; i++ {
		v := i
		switch i % 3 {
		case 0:
			ts = append(ts, Task{fmt.Sprintf("load-main-%d", v), func() string { return LoadMain(v) }})
		case 1:
			ts = append(ts, Task{fmt.Sprintf("load-sub-%d", v), func() string { return LoadSub(v) }})
		default:
			ts = append(ts, Task{fmt.Sprintf("load-bad-%d", v), func() string { return LoadBad(v) }})
		}
	}
	for i := 0; i < nUse; i++ {
		w := i
		ts = append(ts, Task{fmt.Sprintf("use-%d", w), func() string { return Use(shared, fcYang, w) }})
	}
	return ts
}

// Shared loads the module the use tasks share, and fc-yang for the schema-as-data view.
func Shared(yangDir string) (*meta.Module, *meta.Module, error) {
	files := map[string]string{"lib": Lib, "main0": Main(0)}
	m, err := parser.LoadModule(opener(files), "main0")
	if err != nil {
		return nil, nil, err
	}
	fy, err := parser.LoadModule(source.Dir(yangDir), "fc-yang")
	if err != nil {
		return m, nil, nil
	}
	return m, fy, nil
}
