package props

import (
	"fmt"
	"math"
	"math/big"
	"net/url"
	"sort"
	"strconv"
	"strings"

	"verif/harness/core"
	"verif/harness/extract"

	"github.com/freeconf/yang/node"
	"github.com/freeconf/yang/nodeutil"
	"github.com/freeconf/yang/parser"
	"github.com/freeconf/yang/val"
)

func init() { Registry["C17"] = C17 }

type numFmt struct {
	recv   string
	bits   int
	signed bool
	yang   string
}

var numFmts = []numFmt{
	{"Int8", 8, true, "int8"}, {"Int16", 16, true, "int16"}, {"Int32", 32, true, "int32"}, {"Int64", 64, true, "int64"},
	{"UInt8", 8, false, "uint8"}, {"UInt16", 16, false, "uint16"}, {"UInt32", 32, false, "uint32"}, {"UInt64", 64, false, "uint64"},
}

func (f numFmt) min() *big.Int {
	if !f.signed {
		return big.NewInt(0)
	}
	return new(big.Int).Neg(new(big.Int).Lsh(big.NewInt(1), uint(f.bits-1)))
}
func (f numFmt) max() *big.Int {
	if f.signed {
		return new(big.Int).Sub(new(big.Int).Lsh(big.NewInt(1), uint(f.bits-1)), big.NewInt(1))
	}
	return new(big.Int).Sub(new(big.Int).Lsh(big.NewInt(1), uint(f.bits)), big.NewInt(1))
}
func (f numFmt) in(v *big.Int) bool { return v.Cmp(f.min()) >= 0 && v.Cmp(f.max()) <= 0 }

func (f numFmt) mk(v *big.Int) val.Value {
	switch f.recv {
	case "Int8":
		return val.Int8(v.Int64())
	case "Int16":
		return val.Int16(v.Int64())
	case "Int32":
		return val.Int32(v.Int64())
	case "Int64":
		return val.Int64(v.Int64())
	case "UInt8":
		return val.UInt8(v.Uint64())
	case "UInt16":
		return val.UInt16(v.Uint64())
	case "UInt32":
		return val.UInt32(v.Uint64())
	case "UInt64":
		return val.UInt64(v.Uint64())
	}
	panic("fmt")
}

// boundary values of a format, clipped to its range
func (f numFmt) boundaries() []*big.Int {
	var out []*big.Int
	add := func(v *big.Int) {
		if f.in(v) {
			for _, o := range out {
				if o.Cmp(v) == 0 {
					return
				}
			}
			out = append(out, v)
		}
	}
	for _, base := range []*big.Int{f.min(), f.max(), big.NewInt(0),
		new(big.Int).Rsh(f.max(), 1), new(big.Int).Rsh(f.min(), 1),
		new(big.Int).Lsh(big.NewInt(1), 7), new(big.Int).Lsh(big.NewInt(1), 8), new(big.Int).Lsh(big.NewInt(1), 15), new(big.Int).Lsh(big.NewInt(1), 16),
		new(big.Int).Lsh(big.NewInt(1), 31), new(big.Int).Lsh(big.NewInt(1), 32), new(big.Int).Lsh(big.NewInt(1), 53), new(big.Int).Lsh(big.NewInt(1), 63),
		new(big.Int).Neg(new(big.Int).Lsh(big.NewInt(1), 31)), new(big.Int).Neg(new(big.Int).Lsh(big.NewInt(1), 7))} {
		for d := int64(-2); d <= 2; d++ {
			add(new(big.Int).Add(base, big.NewInt(d)))
		}
	}
	return out
}

func sign(i int) int {
	if i < 0 {
		return -1
	}
	if i > 0 {
		return 1
	}
	return 0
}

// safeCompare runs the real Compare, mapping a panic to a marker.
func safeCompare(a, b val.Value) (res string) {
	defer func() {
		if r := recover(); r != nil {
			res = "PANIC"
		}
	}()
	return fmt.Sprint(sign(a.(val.Comparable).Compare(b.(val.Comparable))))
}

func safeEqual(a, b val.Value) (res string) {
	defer func() {
		if r := recover(); r != nil {
			res = "PANIC"
		}
	}()
	if val.Equal(a, b) {
		return "1"
	}
	return "0"
}

type c17case struct {
	line string // driver line
	impl string // sign from the real code
	eq   string // val.Equal from the real code
	desc string
}

func C17(c *core.Ctx) {
	c.Rule = "pairs (format, x, y): all 65 536 pairs of each 8-bit type, boundary-set squares for wider types, random byte strings (prefixes, high bytes), bools, enums, identityrefs, decimal64; triples over samples for the order laws; keyed lookups on slice/map backed lists; decimal64 keys (fraction-digits 8 and 2, neighbours in the last digit) in the keyed lookups. non-trivial = x≠y or a boundary operand; distinct by canonical (format,x,y)"
	c.Assumptions = append(c.Assumptions,
		"sort.Sort leaves a permutation sorted w.r.t. Less (standard library contract); Decimal64 is a Go float64 and its comparison follows IEEE-754 (x<y) — not proved in Lean",
		"enum ids lie in the int32 range (RFC 7950 9.6.4.2) so Enum.Compare's subtraction in 64-bit int is exact")
	if err := extract.GenCompareTable(); err != nil {
		c.ProofBroken = append(c.ProofBroken, "extractor: "+err.Error())
	}
	c.ProofStep()
	if c.Thorough() {
		c.LeanChecker("YangVerif.Props.C17")
	}

	var cases []c17case
	rng := core.NewRng(c.Seed)
	addNum := func(f numFmt, x, y *big.Int) {
		a, b := f.mk(x), f.mk(y)
		cases = append(cases, c17case{
			line: fmt.Sprintf("c17 cmp %s %s %s", f.recv, x, y),
			impl: safeCompare(a, b), eq: safeEqual(a, b),
			desc: fmt.Sprintf("%s(%s).Compare(%s)", f.recv, x, y)})
	}
	for _, f := range numFmts {
		if f.bits == 8 {
			lo, hi := f.min().Int64(), f.max().Int64()
			for x := lo; x <= hi; x++ {
				for y := lo; y <= hi; y++ {
					addNum(f, big.NewInt(x), big.NewInt(y))
				}
			}
			c.ExhaustiveOf = append(c.ExhaustiveOf, f.recv+" all 65536 pairs")
			continue
		}
		bs := f.boundaries()
		for _, x := range bs {
			for _, y := range bs {
				addNum(f, x, y)
			}
		}
		n := c.N(300, 20000)
		span := new(big.Int).Add(new(big.Int).Sub(f.max(), f.min()), big.NewInt(1))
		for i := 0; i < n; i++ {
			x := new(big.Int).Add(f.min(), new(big.Int).Mod(new(big.Int).SetUint64(rng.U64()), span))
			y := new(big.Int).Add(f.min(), new(big.Int).Mod(new(big.Int).SetUint64(rng.U64()), span))
			if rng.Chance(30) {
				y = new(big.Int).Add(x, big.NewInt(int64(rng.Intn(5)-2)))
				if !f.in(y) {
					y = x
				}
			}
			addNum(f, x, y)
		}
	}
	// strings / binary / identityref
	alphabet := []string{"", "a", "b", "ab", "abc", "a\x00", "\x7f", "\x80", "\xff", "é", "z", "aa", "A", "日本", "a b", "\U0001F600"}
	randStr := func() string {
		n := rng.Intn(4)
		var sb strings.Builder
		for i := 0; i < n; i++ {
			sb.WriteString(core.Pick(rng, alphabet))
		}
		return sb.String()
	}
	nstr := c.N(400, 20000)
	for i := 0; i < nstr; i++ {
		x, y := randStr(), randStr()
		if rng.Chance(25) {
			y = x + core.Pick(rng, alphabet)
		}
		for _, recv := range []string{"String", "Binary", "IdentRef"} {
			var a, b val.Value
			switch recv {
			case "String":
				a, b = val.String(x), val.String(y)
			case "Binary":
				a, b = val.Binary([]byte(x)), val.Binary([]byte(y))
			case "IdentRef":
				a, b = val.IdentRef{Label: x}, val.IdentRef{Label: y}
			}
			eq := safeEqual(a, b)
			cases = append(cases, c17case{line: fmt.Sprintf("c17 lex %s %s %s", recv, core.Hex(x), core.Hex(y)),
				impl: safeCompare(a, b), eq: eq, desc: fmt.Sprintf("%s(%q).Compare(%q)", recv, x, y)})
		}
	}
	for _, x := range []bool{false, true} {
		for _, y := range []bool{false, true} {
			b2s := map[bool]string{false: "0", true: "1"}
			cases = append(cases, c17case{line: "c17 bool " + b2s[x] + " " + b2s[y], impl: safeCompare(val.Bool(x), val.Bool(y)),
				eq: safeEqual(val.Bool(x), val.Bool(y)), desc: fmt.Sprintf("Bool(%v).Compare(%v)", x, y)})
		}
	}
	// enums: ordered by id
	enumIds := []int64{math.MinInt32, -1, 0, 1, 2, 7, math.MaxInt32}
	for _, x := range enumIds {
		for _, y := range enumIds {
			a, b := val.Enum{Id: int(x), Label: fmt.Sprint("e", x)}, val.Enum{Id: int(y), Label: fmt.Sprint("e", y)}
			cases = append(cases, c17case{line: fmt.Sprintf("c17 cmp Enum %d %d", x, y), impl: safeCompare(a, b), eq: safeEqual(a, b),
				desc: fmt.Sprintf("Enum(%d).Compare(%d)", x, y)})
		}
	}

	// run the model
	lines := make([]string, len(cases))
	for i := range cases {
		lines[i] = cases[i].line
	}
	outs, err := core.RunDriver(lines)
	if err != nil {
		c.ProofBroken = append(c.ProofBroken, err.Error())
		outs = make([]string, len(cases))
	}
	for i, cs := range cases {
		c.Evaluations++
		parts := strings.Fields(outs[i])
		model, spec := "?", "?"
		if len(parts) == 2 {
			model, spec = parts[0], parts[1]
		}
		toks := strings.Fields(cs.line)
		c.Count("format", toks[2])
		c.Count("spec_sign", spec)
		if spec != "0" {
			c.Distinct(cs.line)
		}
		if i%9973 == 0 {
			c.Sample(map[string]string{"case": cs.desc, "impl": cs.impl, "model": model, "spec": spec})
		}
		wantEq := "0"
		if spec == "0" {
			wantEq = "1"
		}
		if len(parts) == 2 && (cs.impl != spec || cs.eq != wantEq) {
			c.Violation(core.Replay{Kind: "property-failure", Class: "cmp-" + toks[2], Summary: fmt.Sprintf("%s: sign %s, Equal %s; mathematical order gives sign %s", cs.desc, cs.impl, cs.eq, spec),
				Input: cs.line, Impl: cs.impl, Model: model, Spec: spec})
		} else if len(parts) == 2 && cs.impl != model {
			c.Disagree++
			c.Count("disagreement", toks[2])
		}
	}
	if c.Disagree > 0 && c.Violations() == 0 {
		c.Violation(core.Replay{Kind: "correspondence", Summary: "model (shape from extractor) and implementation disagree although the order property holds on every explored pair",
			Broken: "correspondence C17/cmp", NoInputFound: true})
	}

	// decimal64: compared directly with float order (IEEE contract, not in Lean)
	decs := []float64{-1e18, -2.5, -1, -0.0, 0, 0.1, 0.5, 1, 2.5, 3.14, 1e18, math.MaxFloat64, -math.MaxFloat64, math.SmallestNonzeroFloat64}
	for _, x := range decs {
		for _, y := range decs {
			c.Evaluations++
			want := 0
			if x < y {
				want = -1
			} else if x > y {
				want = 1
			}
			got := safeCompare(val.Decimal64(x), val.Decimal64(y))
			if got != fmt.Sprint(want) {
				c.Violation(core.Replay{Kind: "property-failure", Summary: fmt.Sprintf("Decimal64(%v).Compare(%v) = %s want %d", x, y, got, want), Input: []float64{x, y}})
			}
		}
	}
	c.Count("format", "Decimal64")

	// order laws on triples, checked on the implementation directly
	c17triples(c, rng)
	// CompareVals lexicographic on tuples
	c17tuples(c, rng)
	// keyed lookups on real list nodes
	c17lookups(c, rng)
}

func c17triples(c *core.Ctx, rng *core.Rng) {
	for _, f := range numFmts {
		vals := f.boundaries()
		if len(vals) > 24 {
			vals = vals[:24]
		}
		for _, x := range vals {
			for _, y := range vals {
				for _, z := range vals {
					c.Evaluations++
					a, b, d := f.mk(x).(val.Comparable), f.mk(y).(val.Comparable), f.mk(z).(val.Comparable)
					ab, bd, ad := a.Compare(b), b.Compare(d), a.Compare(d)
					if ab < 0 && bd < 0 && !(ad < 0) {
						c.Violation(core.Replay{Kind: "property-failure", Class: "trans-" + f.recv, Summary: fmt.Sprintf("%s: %s<%s and %s<%s but not %s<%s", f.recv, x, y, y, z, x, z), Input: []string{f.recv, x.String(), y.String(), z.String()}})
					}
					if ab == 0 && bd == 0 && ad != 0 {
						c.Violation(core.Replay{Kind: "property-failure", Class: "eqtrans-" + f.recv, Summary: fmt.Sprintf("%s: equality not transitive on %s %s %s", f.recv, x, y, z), Input: []string{f.recv, x.String(), y.String(), z.String()}})
					}
					if sign(ab) != -sign(b.Compare(a)) {
						c.Violation(core.Replay{Kind: "property-failure", Class: "antisym-" + f.recv, Summary: fmt.Sprintf("%s: Compare(%s,%s) not antisymmetric", f.recv, x, y), Input: []string{f.recv, x.String(), y.String()}})
					}
				}
			}
		}
	}
	c.Count("laws", "triples")
}

func c17tuples(c *core.Ctx, rng *core.Rng) {
	n := c.N(2000, 100000)
	for i := 0; i < n; i++ {
		c.Evaluations++
		k := 1 + rng.Intn(3)
		a, b := make([]val.Value, k), make([]val.Value, k)
		ai, bi := make([]int64, k), make([]int64, k)
		for j := 0; j < k; j++ {
			ai[j] = int64(rng.Intn(4)) - 1
			bi[j] = int64(rng.Intn(4)) - 1
			if j%2 == 0 {
				a[j], b[j] = val.Int32(ai[j]), val.Int32(bi[j])
			} else {
				ai[j] += 1
				bi[j] += 1
				a[j], b[j] = val.UInt16(ai[j]), val.UInt16(bi[j])
			}
		}
		want := 0
		for j := 0; j < k && want == 0; j++ {
			if ai[j] < bi[j] {
				want = -1
			} else if ai[j] > bi[j] {
				want = 1
			}
		}
		got := sign(val.CompareVals(a, b))
		eq := val.EqualVals(a, b)
		if got != want || eq != (want == 0) {
			c.Violation(core.Replay{Kind: "property-failure", Class: "tuples", Summary: fmt.Sprintf("CompareVals(%v,%v)=%d EqualVals=%v; lexicographic order gives %d", ai, bi, got, eq, want), Input: [][]int64{ai, bi}})
		}
		if want != 0 {
			c.Distinct(fmt.Sprint("tuple", ai, bi))
		}
	}
	c.Count("laws", "tuples")
	// tuples of different lengths and with components of different formats (a union key): the comparison is total,
	// antisymmetric, 0 exactly for equal tuples, and a proper prefix comes first
	pool := [][]val.Value{{}, {val.Int32(1)}, {val.Int32(1), val.Int32(2)}, {val.Int32(1), val.String("a")}, {val.String("a")}, {val.String("a"), val.Int32(1)},
		{val.Int32(2)}, {val.String("b"), val.String("a")}, {val.Int32(1), val.Int32(2), val.Int32(3)}, {val.Bool(true)}, {val.Bool(false), val.Int32(0)},
		{val.Bits{Positions: 1, Labels: []string{"x"}}}, {val.Bits{Positions: 2, Labels: []string{"y"}}}, {val.Int32(1), nil}}
	cmp := func(a, b []val.Value) (r int, err error) {
		defer func() {
			if p := recover(); p != nil {
				err = fmt.Errorf("PANIC: %v", p)
			}
		}()
		return sign(val.CompareVals(a, b)), nil
	}
	for i, a := range pool {
		for j, b := range pool {
			c.Evaluations++
			c.Distinct(fmt.Sprint("mixed-tuples", i, j))
			ab, e1 := cmp(a, b)
			ba, e2 := cmp(b, a)
			eq := func() (r bool) { defer func() { recover() }(); return val.EqualVals(a, b) }()
			problem := ""
			switch {
			case e1 != nil:
				problem = e1.Error()
			case e2 != nil:
				problem = e2.Error()
			case ab != -ba:
				problem = fmt.Sprintf("CompareVals(a,b)=%d but CompareVals(b,a)=%d", ab, ba)
			case (ab == 0) != eq:
				problem = fmt.Sprintf("CompareVals=%d but EqualVals=%v", ab, eq)
			case len(a) < len(b) && func() bool { return val.EqualVals(a, b[:len(a)]) }() && ab != -1:
				problem = fmt.Sprintf("a is a proper prefix of b but CompareVals=%d", ab)
			}
			if problem != "" {
				c.Violation(core.Replay{Kind: "property-failure", Class: "tuples-mixed", Summary: fmt.Sprintf("key tuples %v and %v: %s", a, b, problem), Input: fmt.Sprint(a, b)})
			}
		}
	}
	// transitivity over the pool
	for _, a := range pool {
		for _, b := range pool {
			for _, d := range pool {
				ab, e1 := cmp(a, b)
				bd, e2 := cmp(b, d)
				ad, e3 := cmp(a, d)
				c.Evaluations++
				if e1 == nil && e2 == nil && e3 == nil && ab <= 0 && bd <= 0 && ad > 0 {
					c.Violation(core.Replay{Kind: "property-failure", Class: "tuples-mixed-transitive", Summary: fmt.Sprintf("%v ≤ %v ≤ %v but CompareVals(first, last) = %d", a, b, d, ad), Input: fmt.Sprint(a, b, d)})
				}
			}
		}
	}
}

const c17module = `module m { namespace "urn:m"; prefix m; revision 2020-01-01;
%s
}`

// list entries that are Go structs, one of them the zero value of its type (key 0, nothing else set)
type c17Entry struct {
	K int
	D string
}
type c17BoolEntry struct {
	K bool
	D string
}
type c17Root struct {
	Zs []*c17Entry
	Bs []*c17BoolEntry
}

func c17zeroEntries(c *core.Ctx) {
	m, err := parser.LoadModuleFromString(nil, `module ze { namespace "urn:ze"; prefix ze; revision 2020-01-01;
  list zs { key k; leaf k { type int32; } leaf d { type string; } } list bs { key k; leaf k { type boolean; } leaf d { type string; } } }`)
	if err != nil {
		c.Violation(core.Replay{Kind: "harness", Summary: "c17zero module: " + err.Error(), NoInputFound: true})
		return
	}
	for _, order := range [][]int{{0, 1, 2}, {1, 0, 2}, {2, 1, 0}, {0}} {
		root := &c17Root{}
		var want []string
		for _, k := range order {
			e := &c17Entry{K: k}
			if k == 1 {
				e.D = "one"
			}
			root.Zs = append(root.Zs, e)
			want = append(want, fmt.Sprint(k))
		}
		root.Bs = []*c17BoolEntry{{K: true, D: "t"}, {K: false}}
		b := node.NewBrowser(m, &nodeutil.Node{Object: root})
		for _, k := range append(append([]int{}, order...), 7) {
			c.Evaluations++
			c.Count("lookup_backend", "node-struct-zero-entry")
			c.Distinct(fmt.Sprint("zero", order, k))
			var got string
			e := safeDo(func() error {
				sel, err := b.Root().Find(fmt.Sprintf("zs=%d", k))
				if err != nil {
					return err
				}
				if sel == nil {
					got = "none"
					return nil
				}
				v, err := sel.GetValue("k")
				got = fmt.Sprint(v)
				return err
			})
			if e != nil {
				got = "error " + short(e.Error())
			}
			wantK := fmt.Sprint(k)
			if k == 7 {
				wantK = "none"
			}
			if got != wantK {
				c.Violation(core.Replay{Kind: "property-failure", Class: "lookup-zero-entry", Summary: fmt.Sprintf("[]*struct list with keys %v (the entry with key 0 is the zero value of its type): Find(zs=%d) gave %s, want %s", order, k, got, wantK), Input: fmt.Sprint(order, " ", k)})
			}
		}
		// walking the list shows every entry
		var rows []string
		e := safeDo(func() error {
			sel, err := b.Root().Find("zs")
			if err != nil || sel == nil {
				return fmt.Errorf("list: %v", err)
			}
			for item, err := sel.First(); item.Selection != nil; item, err = item.Next() {
				if err != nil {
					return err
				}
				rows = append(rows, item.Key[0].String())
				if len(rows) > 10 {
					break
				}
			}
			return nil
		})
		c.Evaluations++
		if e != nil || fmt.Sprint(rows) != fmt.Sprint(want) {
			c.Violation(core.Replay{Kind: "property-failure", Class: "walk-zero-entry", Summary: fmt.Sprintf("[]*struct list with keys %v: walking visits %v (%v)", order, rows, e), Input: fmt.Sprint(order)})
		}
		for _, k := range []string{"true", "false"} {
			c.Evaluations++
			sel, err := b.Root().Find("bs=" + k)
			if err != nil || sel == nil {
				c.Violation(core.Replay{Kind: "property-failure", Class: "lookup-zero-entry-bool", Summary: fmt.Sprintf("[]*struct list keyed by a boolean: Find(bs=%s) gives (%v, %v)", k, sel != nil, err), Input: k})
			}
		}
	}
}

func c17lookups(c *core.Ctx, rng *core.Rng) {
	c17zeroEntries(c)
	type keyType struct {
		yang string
		gen  func() (goVal interface{}, url string)
	}
	mkInt := func(f numFmt) func() (interface{}, string) {
		return func() (interface{}, string) {
			bs := f.boundaries()
			var v *big.Int
			if rng.Chance(60) {
				v = core.Pick(rng, bs)
			} else {
				span := new(big.Int).Add(new(big.Int).Sub(f.max(), f.min()), big.NewInt(1))
				v = new(big.Int).Add(f.min(), new(big.Int).Mod(new(big.Int).SetUint64(rng.U64()), span))
			}
			var g interface{}
			switch f.recv {
			case "Int8":
				g = int8(v.Int64())
			case "Int16":
				g = int16(v.Int64())
			case "Int32":
				g = int32(v.Int64())
			case "Int64":
				g = v.Int64()
			case "UInt8":
				g = uint8(v.Uint64())
			case "UInt16":
				g = uint16(v.Uint64())
			case "UInt32":
				g = uint32(v.Uint64())
			case "UInt64":
				g = v.Uint64()
			}
			return g, v.String()
		}
	}
	var kts []keyType
	for _, f := range numFmts {
		kts = append(kts, keyType{f.yang, mkInt(f)})
	}
	kts = append(kts, keyType{"string", func() (interface{}, string) {
		s := core.Pick(rng, []string{"a", "b", "ab", "abc", "B", "z", "aa", "a0", "0", "10", "9", "a,b", "a,", ",a", "a/b", "a%2Cb", "a b", "a=b"}) + fmt.Sprint(rng.Intn(3))
		return s, url.QueryEscape(s)
	}})
	// decimal64 keys that differ only in their last fraction digits, and far apart
	kts = append(kts, keyType{"d8", func() (interface{}, string) {
		s := core.Pick(rng, []string{"1.00000001", "1.00000002", "1.00000003", "0.99999999", "1", "1.5", "-1.00000001", "-1.00000002", "0.00000001", "0", "9007199.25474099", "9007199.25474098"})
		f, _ := strconv.ParseFloat(s, 64)
		return f, s
	}})
	kts = append(kts, keyType{"d2", func() (interface{}, string) {
		s := core.Pick(rng, []string{"1.01", "1.02", "1.1", "1", "-0.01", "0.01", "0", "100.25", "100.26"})
		f, _ := strconv.ParseFloat(s, 64)
		return f, s
	}})
	var body strings.Builder
	body.WriteString("typedef d8 { type decimal64 { fraction-digits 8; } } typedef d2 { type decimal64 { fraction-digits 2; } }\n")
	for i, kt := range kts {
		fmt.Fprintf(&body, "list l%d { key k; leaf k { type %s; } leaf d { type string; } }\n", i, kt.yang)
	}
	body.WriteString("list lc { key \"a b\"; leaf a { type string; } leaf b { type int32; } leaf d { type string; } }\n")
	m, err := parser.LoadModuleFromString(nil, fmt.Sprintf(c17module, body.String()))
	if err != nil {
		c.Violation(core.Replay{Kind: "harness", Summary: "cannot load C17 lookup module: " + err.Error(), NoInputFound: true})
		return
	}
	n := c.N(400, 20000)
	var lines []string
	type pend struct {
		desc string
		impl string
	}
	var pends []pend
	for it := 0; it < n; it++ {
		ti := rng.Intn(len(kts))
		kt := kts[ti]
		cnt := rng.Intn(9)
		seen := map[string]bool{}
		var entries []interface{}
		var urls []string
		for len(entries) < cnt {
			g, u := kt.gen()
			if seen[u] {
				cnt--
				continue
			}
			seen[u] = true
			urls = append(urls, u)
			entries = append(entries, map[string]interface{}{"k": g, "d": "d" + u})
		}
		listName := fmt.Sprintf("l%d", ti)
		// lookup keys: every present key and two probably-absent ones
		lookups := append([]string{}, urls...)
		for j := 0; j < 2; j++ {
			_, u := kt.gen()
			lookups = append(lookups, u)
		}
		for _, backend := range []string{"reflect-slice", "node-slice", "json-doc", "xml-doc"} {
			data := map[string]interface{}{listName: append([]interface{}{}, entries...)}
			var root node.Node
			switch backend {
			case "reflect-slice":
				root = nodeutil.ReflectChild(data)
			case "node-slice":
				root = &nodeutil.Node{Object: data}
			default:
				// the same list as a document, read by the library's readers (keys are matched there too)
				if kt.yang == "string" {
					continue // (the hostile string keys are C08's and C19's)
				}
				js, err := nodeutil.WriteJSON(node.NewBrowser(m, nodeutil.ReflectChild(data)).Root())
				if err != nil {
					continue
				}
				if backend == "json-doc" {
					root, err = nodeutil.ReadJSON(js)
				} else {
					var xs string
					if xs, err = nodeutil.WriteXMLDoc(node.NewBrowser(m, nodeutil.ReflectChild(data)).Root(), false); err == nil {
						root, err = nodeutil.ReadXMLDoc(strings.NewReader(xs))
					}
				}
				if err != nil || root == nil {
					continue
				}
			}
			b := node.NewBrowser(m, root)
			for _, u := range lookups {
				c.Evaluations++
				c.Count("lookup_backend", backend)
				c.Count("lookup_keytype", kt.yang)
				got := c17find(b, listName, u)
				want := "none"
				if seen[u] {
					want = "d" + u
				}
				if len(entries) > 1 {
					c.Distinct(fmt.Sprint("lookup", backend, listName, urls, u))
				}
				if got != want {
					c.Violation(core.Replay{Kind: "property-failure", Class: "lookup-" + backend + "-" + kt.yang,
						Summary: fmt.Sprintf("%s list keyed by %s with keys %v: Find(%s=%s) gave %s, want %s", backend, kt.yang, urls, listName, u, got, want),
						Input:   map[string]interface{}{"backend": backend, "keytype": kt.yang, "keys": urls, "lookup": u}, Impl: got, Spec: want})
				}
				recv := ""
				for _, f := range numFmts {
					if f.yang == kt.yang {
						recv = f.recv
					}
				}
				if backend == "reflect-slice" && recv != "" {
					lines = append(lines, fmt.Sprintf("c17 find %s %s %s", recv, u, strings.Join(urls, " ")))
					pends = append(pends, pend{fmt.Sprintf("%s keys=%v lookup=%s", recv, urls, u), strings.TrimPrefix(got, "d")})
				}
			}
		}
	}
	// compound keys (string, int32): components shared between entries
	for it := 0; it < c.N(150, 6000); it++ {
		as := []string{"alpha", "beta", "gamma", "a"}
		bs := []int32{80, 81, -1, 0, 443}
		seen := map[string]bool{}
		var entries []interface{}
		var keys []string
		cnt := 1 + rng.Intn(7)
		for i := 0; i < cnt; i++ {
			a, b := core.Pick(rng, as), core.Pick(rng, bs)
			k := fmt.Sprintf("%s,%d", a, b)
			if seen[k] {
				continue
			}
			seen[k] = true
			keys = append(keys, k)
			entries = append(entries, map[string]interface{}{"a": a, "b": b, "d": "d" + k})
		}
		for _, backend := range []string{"reflect-slice", "node-slice"} {
			data := map[string]interface{}{"lc": append([]interface{}{}, entries...)}
			var root node.Node
			if backend == "reflect-slice" {
				root = nodeutil.ReflectChild(data)
			} else {
				root = &nodeutil.Node{Object: data}
			}
			b := node.NewBrowser(m, root)
			for _, a := range as {
				for _, bv := range bs {
					k := fmt.Sprintf("%s,%d", a, bv)
					c.Evaluations++
					c.Count("lookup_backend", backend+"-compound")
					got := c17find(b, "lc", k)
					want := "none"
					if seen[k] {
						want = "d" + k
					}
					c.Distinct(fmt.Sprint("lookupc", backend, keys, k))
					if got != want {
						c.Violation(core.Replay{Kind: "property-failure", Class: "lookup-compound-" + backend,
							Summary: fmt.Sprintf("%s list keyed by (string,int32) with keys %v: Find(lc=%s) gave %s, want %s", backend, keys, k, got, want),
							Input:   map[string]interface{}{"backend": backend, "keys": keys, "lookup": k}, Impl: got, Spec: want})
					}
				}
			}
		}
	}
	outs, err := core.RunDriver(lines)
	if err != nil {
		c.ProofBroken = append(c.ProofBroken, err.Error())
		return
	}
	dis := 0
	for i, o := range outs {
		parts := strings.Fields(o)
		if len(parts) != 2 {
			dis++
			continue
		}
		if parts[0] != pends[i].impl {
			dis++
		}
		if i%997 == 0 {
			c.Sample(map[string]string{"lookup": pends[i].desc, "impl": pends[i].impl, "model": parts[0], "spec": parts[1]})
		}
	}
	if dis > 0 {
		c.Disagree += dis
		if c.Violations() == 0 {
			c.Violation(core.Replay{Kind: "correspondence", Summary: fmt.Sprintf("sorted-index lookup: model and implementation disagree on %d lookups although every lookup met the property", dis),
				Broken: "correspondence C17/find", NoInputFound: true})
		}
	}
	_ = sort.Strings
}

func c17find(b *node.Browser, list, key string) (res string) {
	defer func() {
		if r := recover(); r != nil {
			res = fmt.Sprintf("PANIC:%v", r)
		}
	}()
	sel, err := b.Root().Find(list + "=" + key)
	if err != nil {
		return "error:" + err.Error()
	}
	if sel == nil {
		return "none"
	}
	v, err := sel.GetValue("d")
	if err != nil {
		return "error:" + err.Error()
	}
	if v == nil {
		return "nil-d"
	}
	// the path the selection prints for itself leads to the same entry
	again, err := b.Root().Find(sel.Path.StringNoModule())
	if err != nil || again == nil {
		return fmt.Sprintf("found, but its own path %q finds (%v, %v)", sel.Path.StringNoModule(), again != nil, err)
	}
	if v2, _ := again.GetValue("d"); v2 == nil || v2.String() != v.String() {
		return fmt.Sprintf("found, but its own path %q finds the entry %v", sel.Path.StringNoModule(), v2)
	}
	return v.String()
}
