package props

import (
	"encoding/json"
	"fmt"
	"reflect"
	"strings"

	"verif/harness/core"
	"verif/harness/gen"
	"verif/harness/refstore"

	"github.com/freeconf/yang/node"
	"github.com/freeconf/yang/nodeutil"
	"github.com/freeconf/yang/parser"
)

func init() { Registry["C18"] = C18 }

type c18op struct {
	kind string // U I P DC DR R
	doc  []*gen.DNode
	i    int
	key  []string
	data *gen.DNode
	sel  *node.Selection // DR: a selection obtained before the preceding operation ran (a handle the caller kept)
	iter bool            // … obtained by iterating the list (First/Next): both selections hang on one list node
}

func (o c18op) tokens(kids []*gen.SNode) string {
	switch o.kind {
	case "U", "I", "P":
		return o.kind + " " + strings.Join(gen.BodyTokens(kids, o.doc), " ")
	case "DC":
		return fmt.Sprintf("DC %d", o.i)
	case "DR":
		ks := []string{}
		for _, k := range o.key {
			ks = append(ks, "h"+core.Hex(k))
		}
		return fmt.Sprintf("DR %d %d %s", o.i, len(o.key), strings.Join(ks, " "))
	case "R":
		return fmt.Sprintf("R %d %s", o.i, strings.Join(gen.DataTokens(kids[o.i], o.data), " "))
	case "RR":
		ks := []string{}
		for _, k := range o.key {
			ks = append(ks, "h"+core.Hex(k))
		}
		return fmt.Sprintf("RR %d %d %s %s", o.i, len(o.key), strings.Join(ks, " "), strings.Join(gen.BodyTokens(kids[o.i].Kids, o.doc), " "))
	}
	return ""
}

func (o c18op) describe(kids []*gen.SNode) string {
	switch o.kind {
	case "U", "I", "P":
		return map[string]string{"U": "upsert ", "I": "insert ", "P": "update "}[o.kind] + gen.Canon(kids, o.doc, false)
	case "DC":
		return "delete " + kids[o.i].Name
	case "DR":
		return fmt.Sprintf("delete %s=%q", kids[o.i].Name, o.key)
	case "R":
		body := gen.EmptyBody(kids)
		body[o.i] = o.data
		return "replace " + kids[o.i].Name + " with " + gen.Canon(kids, body, false)
	case "RR":
		return fmt.Sprintf("replace entry %s=%q with %s", kids[o.i].Name, o.key, gen.Canon(kids[o.i].Kids, o.doc, false))
	}
	return "?"
}

func keyPath(name string, key []string) string {
	var ks []string
	for _, k := range key {
		ks = append(ks, escapeKey(k))
	}
	return name + "=" + strings.Join(ks, ",")
}

func safeDo(f func() error) (err error) {
	defer func() {
		if r := recover(); r != nil {
			err = fmt.Errorf("PANIC: %v", r)
		}
	}()
	return f()
}

// an application struct whose container and one leaf are reached through accessor methods only
type c18Child struct{ X string }
type c18Parent struct {
	Name string
	c    *c18Child
	tag  string
}

func (p *c18Parent) GetC() *c18Child  { return p.c }
func (p *c18Parent) SetC(c *c18Child) { p.c = c }
func (p *c18Parent) GetTag() string   { return p.tag }
func (p *c18Parent) SetTag(s string)  { p.tag = s }

type c18Root struct{ Top *c18Parent }

// deleting a node removes that node: what is next to it stays, also when the node is served by Get/Set methods
func c18accessors(c *core.Ctx) {
	y := `module acc { namespace "urn:acc"; prefix acc; revision 2020-01-01;
  container top { leaf name { type string; } leaf tag { type string; } container c { leaf x { type string; } } } }`
	m, err := parser.LoadModuleFromString(nil, y)
	if err != nil {
		c.Violation(core.Replay{Kind: "harness", Summary: "c18accessors module: " + err.Error(), NoInputFound: true})
		return
	}
	for _, tc := range []struct{ del, want string }{
		{"top/c", `{"top":{"name":"n","tag":"t"}}`},
		{"top/tag", `{"top":{"name":"n","tag":"","c":{"x":"v"}}}`},
		{"top/name", `{"top":{"name":"","tag":"t","c":{"x":"v"}}}`},
		{"top/c/x", `{"top":{"name":"n","tag":"t","c":{"x":""}}}`},
	} {
		root := &c18Root{Top: &c18Parent{Name: "n", tag: "t", c: &c18Child{X: "v"}}}
		var got string
		e := safeDo(func() error {
			b := node.NewBrowser(m, &nodeutil.Node{Object: root})
			sel, err := b.Root().Find(tc.del)
			if err != nil || sel == nil {
				return fmt.Errorf("find: %v", err)
			}
			if err := sel.Delete(); err != nil {
				return err
			}
			got, err = nodeutil.WriteJSON(b.Root())
			return err
		})
		if e != nil {
			got = "error " + short(e.Error())
		}
		c.Evaluations++
		c.Count("accessor_struct", "delete "+tc.del)
		c.Distinct("acc " + tc.del)
		if got != tc.want {
			c.Violation(core.Replay{Kind: "property-failure", Class: "accessor-delete", Summary: fmt.Sprintf("struct served through Get/Set methods: Delete of %s leaves %s, want %s", tc.del, got, tc.want),
				Input: map[string]interface{}{"yang": y, "delete": tc.del, "before": `{"top":{"name":"n","tag":"t","c":{"x":"v"}}}`}, Impl: got, Spec: tc.want})
		}
	}
}

type c18KRow struct {
	Id string
	N  int
}
type c18KRow2 struct {
	A string
	B int
	D string
}
type c18KRoot struct {
	L  []*c18KRow
	M2 []*c18KRow2
}

// an edit addressed at a list entry whose document names another key: whatever the library answers, afterwards
// no two entries share a key and every entry is found under the key its key leaf holds
func c18keyRewrite(c *core.Ctx) {
	y := `module kr { namespace "urn:kr"; prefix kr; revision 2020-01-01;
  list l { key id; leaf id { type string; } leaf n { type int32; } }
  list m2 { key "a b"; leaf a { type string; } leaf b { type int32; } leaf d { type string; } } }`
	m, err := parser.LoadModuleFromString(nil, y)
	if err != nil {
		c.Violation(core.Replay{Kind: "harness", Summary: "c18keyRewrite module: " + err.Error(), NoInputFound: true})
		return
	}
	before := `{"l":[{"id":"a","n":1},{"id":"b","n":2}],"m2":[{"a":"east","b":1,"d":"e1"},{"a":"west","b":2,"d":"w2"}]}`
	type tcase struct{ at, op, doc string }
	var cases []tcase
	for _, op := range []string{"upsert", "update", "replace", "insert"} {
		for _, d := range []string{`{"id":"b"}`, `{"id":"b","n":9}`, `{"id":"zz","n":9}`, `{"id":"a","n":9}`, `{"n":9}`} {
			cases = append(cases, tcase{"l=a", op, d})
		}
		for _, d := range []string{`{"b":2}`, `{"a":"west","b":2,"d":"x"}`, `{"a":"west"}`, `{"a":"east","b":1,"d":"x"}`} {
			cases = append(cases, tcase{"m2=east,1", op, d})
		}
	}
	backends := []string{"node-map", "reflect-map", "node-struct", "reflect-struct"}
	// the same request on the model (Model/EntryKey.editEntry): refused exactly when a key leaf of the document
	// differs from the key addressed, otherwise the merge
	bodyToks := func(fields []string, js string) string {
		var v map[string]interface{}
		json.Unmarshal([]byte(js), &v)
		t := []string{fmt.Sprint(len(fields))}
		for _, f := range fields {
			if x, has := v[f]; has {
				t = append(t, "l", "h"+core.Hex(fmt.Sprint(x)))
			} else {
				t = append(t, "l", "~")
			}
		}
		return strings.Join(t, " ")
	}
	type krPend struct {
		be     string
		tc     tcase
		status string
		entry  string
		fields []string
	}
	_ = krPend{}
	var lines []string
	var pends []krPend
	for _, be := range backends {
		for _, tc := range cases {
			if be == "node-map" || be == "reflect-map" {
				if strings.HasPrefix(tc.at, "m2") {
					continue // compound keys on map-backed lists: known finding map-list-compound-key
				}
			}
			var after, entryAfter string
			var status string
			var problems []string
			e := safeDo(func() error {
				var root node.Node
				switch be {
				case "node-map":
					root = &nodeutil.Node{Object: map[string]interface{}{}}
				case "reflect-map":
					root = nodeutil.ReflectChild(map[string]interface{}{})
				case "node-struct":
					root = &nodeutil.Node{Object: &c18KRoot{}}
				case "reflect-struct":
					root = nodeutil.ReflectChild(&c18KRoot{})
				}
				b := node.NewBrowser(m, root)
				init := before
				if strings.HasSuffix(be, "-map") {
					init = `{"l":[{"id":"a","n":1},{"id":"b","n":2}]}`
				}
				src, err := nodeutil.ReadJSON(init)
				if err != nil {
					return err
				}
				if err := b.Root().UpsertFrom(src); err != nil {
					return fmt.Errorf("load: %v", err)
				}
				sel, err := b.Root().Find(tc.at)
				if err != nil || sel == nil {
					return fmt.Errorf("find %s: %v", tc.at, err)
				}
				doc, err := nodeutil.ReadJSON(tc.doc)
				if err != nil {
					return err
				}
				switch tc.op {
				case "upsert":
					err = sel.UpsertFrom(doc)
				case "update":
					err = sel.UpdateFrom(doc)
				case "replace":
					err = sel.ReplaceFrom(doc)
				case "insert":
					err = sel.InsertFrom(doc)
				}
				status = "ok"
				if err != nil {
					status = "error " + short(err.Error())
				}
				after, err = nodeutil.WriteJSON(b.Root())
				if err != nil {
					return fmt.Errorf("read after the edit: %v", err)
				}
				if es, err := b.Root().Find(tc.at); err == nil && es != nil {
					entryAfter, _ = nodeutil.WriteJSON(es)
				}
				var v map[string][]map[string]interface{}
				if err := json.Unmarshal([]byte(after), &v); err != nil {
					return fmt.Errorf("read after the edit: %v", err)
				}
				for _, ln := range []string{"l", "m2"} {
					seen := map[string]bool{}
					for _, row := range v[ln] {
						var k string
						if ln == "l" {
							k = fmt.Sprint(row["id"])
						} else {
							k = fmt.Sprint(row["a"]) + "," + fmt.Sprint(row["b"])
						}
						if seen[k] {
							problems = append(problems, fmt.Sprintf("two entries of %s have the key %s", ln, k))
						}
						seen[k] = true
						fs, err := b.Root().Find(ln + "=" + k)
						if err != nil || fs == nil {
							problems = append(problems, fmt.Sprintf("the entry that shows the key %s is not found by Find(%s=%s) (%v)", k, ln, k, err))
							continue
						}
						one, err := nodeutil.WriteJSON(fs)
						if err != nil {
							problems = append(problems, fmt.Sprintf("Find(%s=%s) cannot be read: %v", ln, k, err))
							continue
						}
						var got map[string]interface{}
						json.Unmarshal([]byte(one), &got)
						for f, want := range row {
							if fmt.Sprint(got[f]) != fmt.Sprint(want) {
								problems = append(problems, fmt.Sprintf("Find(%s=%s) shows %s, the list shows %v under that key", ln, k, short(one), row))
								break
							}
						}
					}
				}
				return nil
			})
			if e != nil {
				problems = append(problems, e.Error())
			}
			if (tc.op == "upsert" || tc.op == "update") && e == nil {
				fields, key, was := []string{"id", "n"}, "1 h"+core.Hex("a"), `{"id":"a","n":1}`
				if strings.HasPrefix(tc.at, "m2") {
					fields, key, was = []string{"a", "b", "d"}, "2 h"+core.Hex("east")+" h"+core.Hex("1"), `{"a":"east","b":1,"d":"e1"}`
				}
				sch := fmt.Sprint(len(fields)) + strings.Repeat(" L ~", len(fields))
				lines = append(lines, "data entry ; "+sch+" ; "+key+" ; "+bodyToks(fields, tc.doc)+" ; "+bodyToks(fields, was))
				pends = append(pends, krPend{be, tc, status, entryAfter, fields})
			}
			c.Evaluations++
			c.Count("key_rewrite", be+" "+tc.op)
			c.Distinct("keyrw " + be + tc.op + tc.at + tc.doc)
			if len(problems) > 0 {
				c.Violation(core.Replay{Kind: "property-failure", Class: "key-rewrite-" + be, Summary: fmt.Sprintf("%s: %s of %s at %s (%s): %s; content %s", be, tc.op, tc.doc, tc.at, status, strings.Join(problems, "; "), short(after)),
					Input: map[string]interface{}{"yang": y, "before": before, "backend": be, "at": tc.at, "op": tc.op, "doc": tc.doc}, Impl: after, Spec: "keys unique, every entry found under the key it shows"})
			}
		}
	}
	outs, err := core.RunDriver(lines)
	if err != nil {
		c.ProofBroken = append(c.ProofBroken, err.Error())
		return
	}
	for i, o := range outs {
		p := pends[i]
		impl := "err conflict"
		if p.status == "ok" {
			impl = "ok " + bodyToks(p.fields, p.entry)
		} else if !strings.Contains(p.status, "conflict") {
			impl = p.status
		}
		c.Count("key_rewrite_model", strings.SplitN(o, " ", 3)[0]+" "+strings.SplitN(o+" -", " ", 3)[1][:1])
		if impl != o {
			c.Violation(core.Replay{Kind: "correspondence", Class: "key-rewrite-model-" + p.be, Summary: fmt.Sprintf("%s: %s of %s at %s: library %s (entry then %s), model (editEntry) %s", p.be, p.tc.op, p.tc.doc, p.tc.at, impl, short(p.entry), o),
				Input: map[string]interface{}{"yang": y, "before": before, "backend": p.be, "at": p.tc.at, "op": p.tc.op, "doc": p.tc.doc}, Impl: impl, Spec: o})
		}
	}
}

// a list whose entries were all deleted does not exist any more: inserting it again is not a conflict, and a read
// does not show it
func c18emptied(c *core.Ctx) {
	y := `module em { namespace "urn:em"; prefix em; revision 2020-01-01;
  list l { key id; leaf id { type string; } leaf n { type int32; } } leaf other { type string; } }`
	m, err := parser.LoadModuleFromString(nil, y)
	if err != nil {
		c.Violation(core.Replay{Kind: "harness", Summary: "c18emptied module: " + err.Error(), NoInputFound: true})
		return
	}
	for _, be := range []string{"node-map", "reflect-map", "node-struct", "reflect-struct"} {
		for _, dels := range [][]string{{"l=a", "l=b"}, {"l=b", "l=a"}, {"l"}, {"l=a", "l"}} {
			for _, op := range []string{"insert", "upsert", "read"} {
				var got, want string
				e := safeDo(func() error {
					var root node.Node
					switch be {
					case "node-map":
						root = &nodeutil.Node{Object: map[string]interface{}{}}
					case "reflect-map":
						root = nodeutil.ReflectChild(map[string]interface{}{})
					case "node-struct":
						root = &nodeutil.Node{Object: &c18ERoot{}}
					case "reflect-struct":
						root = nodeutil.ReflectChild(&c18ERoot{})
					}
					b := node.NewBrowser(m, root)
					src, _ := nodeutil.ReadJSON(`{"l":[{"id":"a","n":1},{"id":"b","n":2}],"other":"o"}`)
					if err := b.Root().UpsertFrom(src); err != nil {
						return fmt.Errorf("load: %v", err)
					}
					for _, d := range dels {
						sel, err := b.Root().Find(d)
						if err != nil || sel == nil {
							return fmt.Errorf("find %s: %v", d, err)
						}
						if err := sel.Delete(); err != nil {
							return fmt.Errorf("delete %s: %v", d, err)
						}
					}
					want = `{"other":"o"}`
					if op != "read" {
						want = `{"l":[{"id":"c","n":3}],"other":"o"}`
						doc, _ := nodeutil.ReadJSON(`{"l":[{"id":"c","n":3}]}`)
						var err error
						if op == "insert" {
							err = b.Root().InsertFrom(doc)
						} else {
							err = b.Root().UpsertFrom(doc)
						}
						if err != nil {
							return fmt.Errorf("%s of the list again: %v", op, err)
						}
					}
					var err error
					got, err = nodeutil.WriteJSON(b.Root())
					return err
				})
				if e != nil {
					got = "error " + short(e.Error())
				}
				c.Evaluations++
				c.Count("emptied_list", be+" "+op)
				c.Distinct("emptied " + be + op + strings.Join(dels, ","))
				if got != want {
					c.Violation(core.Replay{Kind: "property-failure", Class: "emptied-list-" + be, Summary: fmt.Sprintf("%s: after the deletes %v and %s: %s, want %s", be, dels, op, got, want),
						Input: map[string]interface{}{"yang": y, "backend": be, "deletes": dels, "then": op}, Impl: got, Spec: want})
				}
			}
		}
	}
}

type c18ERoot struct {
	L     []*c18KRow
	Other string
}

type c18LRoot struct {
	X string
	N int
	C *c18LRoot
}

// Delete of a leaf: afterwards the leaf shows no value (absent, or the zero value of a struct field) and nothing
// else changed, on every backend
func c18leafDelete(c *core.Ctx) {
	y := `module ld { namespace "urn:ld"; prefix ld; revision 2020-01-01;
  grouping g { leaf x { type string; } leaf n { type int32; } } uses g; container c { uses g; } }`
	m, err := parser.LoadModuleFromString(nil, y)
	if err != nil {
		c.Violation(core.Replay{Kind: "harness", Summary: "c18leafDelete module: " + err.Error(), NoInputFound: true})
		return
	}
	before := `{"x":"X","n":5,"c":{"x":"Y","n":6}}`
	for _, be := range []string{"node-map", "reflect-map", "node-struct", "reflect-struct"} {
		for _, del := range []string{"x", "n", "c/x", "c/n"} {
			var got string
			var problems []string
			e := safeDo(func() error {
				var root node.Node
				switch be {
				case "node-map":
					root = &nodeutil.Node{Object: map[string]interface{}{}}
				case "reflect-map":
					root = nodeutil.ReflectChild(map[string]interface{}{})
				case "node-struct":
					root = &nodeutil.Node{Object: &c18LRoot{}}
				case "reflect-struct":
					root = nodeutil.ReflectChild(&c18LRoot{})
				}
				b := node.NewBrowser(m, root)
				src, _ := nodeutil.ReadJSON(before)
				if err := b.Root().UpsertFrom(src); err != nil {
					return fmt.Errorf("load: %v", err)
				}
				sel, err := b.Root().Find(del)
				if err != nil || sel == nil {
					return fmt.Errorf("find %s: %v", del, err)
				}
				if err := sel.Delete(); err != nil {
					return fmt.Errorf("delete: %v", err)
				}
				if got, err = nodeutil.WriteJSON(b.Root()); err != nil {
					return err
				}
				var was, is map[string]interface{}
				json.Unmarshal([]byte(before), &was)
				json.Unmarshal([]byte(got), &is)
				var cmp func(path string, w, i map[string]interface{})
				cmp = func(path string, w, i map[string]interface{}) {
					for k, wv := range w {
						p := strings.TrimPrefix(path+"/"+k, "/")
						iv, has := i[k]
						if p == del {
							if has && fmt.Sprint(iv) != "" && fmt.Sprint(iv) != "0" {
								problems = append(problems, fmt.Sprintf("%s still shows %v", p, iv))
							}
							continue
						}
						if wm, isMap := wv.(map[string]interface{}); isMap {
							im, _ := iv.(map[string]interface{})
							cmp(p, wm, im)
						} else if !has || fmt.Sprint(iv) != fmt.Sprint(wv) {
							problems = append(problems, fmt.Sprintf("%s was %v and is %v", p, wv, iv))
						}
					}
				}
				cmp("", was, is)
				return nil
			})
			if e != nil {
				problems = append(problems, e.Error())
			}
			c.Evaluations++
			c.Count("leaf_delete", be)
			c.Distinct("leafdel " + be + del)
			if len(problems) > 0 {
				c.Violation(core.Replay{Kind: "property-failure", Class: "leaf-delete-" + be, Summary: fmt.Sprintf("%s: Delete of the leaf %s: %s; content %s", be, del, strings.Join(problems, "; "), short(got)),
					Input: map[string]interface{}{"yang": y, "backend": be, "before": before, "delete": del}, Impl: got, Spec: "the leaf shows no value, nothing else changed"})
			}
		}
	}
}

func C18(c *core.Ctx) {
	c18accessors(c)
	c18leafDelete(c)
	c18keyRewrite(c)
	c18emptied(c)
	c.Rule = "operation sequences of length 1–12 (upsert / insert / update documents, delete of a container, of a list entry (present or absent key), of a whole list, replace of a container or list) at a random location (root, container, list entry) of generated trees, on the reference store and on reflection over maps; after every operation the status, the complete store content re-read independently of the library, Find of the deleted key and of every remaining entry are compared with the Lean model; directed: edits addressed at a list entry (upsert, update, replace, insert) whose document names the same, another existing or a new key or none, on map-, slice- and struct-backed nodes: keys stay unique, every entry is found under the key it shows, and the verdict and resulting entry are those of Model/EntryKey.editEntry; lists emptied by deletes (entry by entry, as a whole) on the same four backends are gone for a read and can be inserted again; Delete of a leaf (top level, in a container) on the four backends clears that leaf only. non-trivial = sequence with ≥1 delete/replace that hits existing data; distinct by (schema, initial tree, sequence, target)"
	c.Assumptions = append(c.Assumptions,
		"replace of a single list entry (ReplaceFrom on an entry) is exercised only through delete + upsert sequences, the model has no separate operation for it",
		"map-backed targets are compared with list entry order ignored")
	c.ProofStep("YangVerif.Props.C18")
	if c.Thorough() {
		c.LeanChecker("YangVerif.Props.C18")
	}
	rng := core.NewRng(c.Seed)
	nSchemas := c.N(30, 500)
	perSchema := c.N(25, 120)
	o := gen.Opts{MaxDepth: 3, MaxKids: 4, Defaults: true, MultiKeys: true, LeafLists: true, NoZero: true}
	type pend struct {
		desc    string
		impl    string
		loc     editLoc
		unord   bool
		input   map[string]interface{}
		target  string
		history []string
	}
	var lines []string
	var pends []pend
	for si := 0; si < nSchemas; si++ {
		dc, err := newDataCase(rng.Fork(), o)
		if err != nil {
			c.Violation(core.Replay{Kind: "harness", Summary: err.Error(), NoInputFound: true})
			return
		}
		for ci := 0; ci < perSchema; ci++ {
			r := rng.Fork()
			tgtKind := core.Pick(r, []string{"refstore", "refstore", "reflect-map", "node-map", "reflect-struct", "reflect-struct-ptr", "node-struct-ptr"})
			init := gen.GenBody(r, dc.kids, 40+r.Intn(55), o)
			locs := []editLoc{{"", dc.kids, init, "root", 0}}
			findLocs(dc.kids, init, "", 0, &locs)
			loc := locs[0]
			if r.Chance(40) {
				loc = core.Pick(r, locs)
			}
			initLocBody := gen.Clone(loc.body)
			var root node.Node
			var tgtMap map[string]interface{}
			var tgtStruct reflect.Value
			tree := init
			if strings.Contains(tgtKind, "-struct") {
				so := c03structOpts(tgtKind, r)
				tgtStruct = gen.ToStruct(dc.kids, tree, gen.StructType(dc.kids, 0, so), so)
				if strings.HasPrefix(tgtKind, "reflect-") {
					root = nodeutil.ReflectChild(tgtStruct.Interface())
				} else {
					root = &nodeutil.Node{Object: tgtStruct.Interface()}
				}
			} else if tgtKind == "refstore" {
				root = refstore.NewBody(nil, dc.kids, tree, "")
			} else if tgtKind == "reflect-map" {
				tgtMap = gen.ToMap(dc.kids, tree)
				root = nodeutil.ReflectChild(tgtMap)
			} else {
				tgtMap = gen.ToMap(dc.kids, tree)
				root = &nodeutil.Node{Object: tgtMap}
			}
			b := node.NewBrowser(dc.m, root)
			selAt := func(path string) (*node.Selection, error) {
				p := loc.path
				if path != "" {
					if p != "" {
						p += "/"
					}
					p += path
				}
				if p == "" {
					return b.Root(), nil
				}
				var s *node.Selection
				err := safeDo(func() error {
					var e error
					s, e = b.Root().Find(p)
					return e
				})
				return s, err
			}
			nops := 1 + r.Intn(12)
			var ops []c18op
			var hist []string
			keptEver := false          // a delete through a selection obtained before the preceding delete, on a reflection backend (known finding)
			compoundEver := false      // once a compound-key list was held in a Go map the known defect may have struck: later steps of the history inherit it
			cur := gen.Clone(loc.body) // harness-side view, refreshed from the store after each op
			var pending *c18op
			for k := 0; k < nops; k++ {
				// choose an op that makes sense for the current content
				var op c18op
				if pending != nil {
					op = *pending
					pending = nil
					goto chosen
				}
				{
					var structural []int
					for i, s := range loc.kids {
						if s.Kind != "leaf" {
							structural = append(structural, i)
						}
					}
					choice := r.Intn(100)
					switch {
					case choice < 30 || len(structural) == 0:
						doc := gen.GenBody(r, loc.kids, 20+r.Intn(60), o)
						gen.Overlap(r, loc.kids, doc, cur)
						if loc.kind == "entry" {
							keepEntryKeys(dc.kids, loc, doc)
						}
						op = c18op{kind: core.Pick(r, []string{"U", "U", "I", "P"}), doc: doc}
						if op.kind == "U" && r.Chance(25) {
							// one payload naming a key twice: the second mention merges into the entry the first one made
							for i, s := range loc.kids {
								if s.Kind == "list" && len(doc[i].Rows) > 0 {
									row := core.Pick(r, doc[i].Rows)
									nb := gen.GenBody(r, s.Kids, 70, o)
									for j := 0; j < s.NKeys; j++ {
										kv := row.Key[j]
										nb[j] = &gen.DNode{Leaf: &kv}
									}
									doc[i].Rows = append(doc[i].Rows, &gen.DRow{Key: append([]string{}, row.Key...), Kids: nb})
									c.Count("payload", "key named twice")
									break
								}
							}
						}
					case choice < 50:
						op = c18op{kind: "DC", i: core.Pick(r, structural)}
					case choice < 80:
						var lists []int
						for _, i := range structural {
							if loc.kids[i].Kind == "list" {
								lists = append(lists, i)
							}
						}
						if len(lists) == 0 {
							op = c18op{kind: "DC", i: core.Pick(r, structural)}
							break
						}
						i := core.Pick(r, lists)
						var key []string
						if len(cur[i].Rows) > 0 && r.Chance(80) {
							key = core.Pick(r, cur[i].Rows).Key
						} else {
							for j := 0; j < loc.kids[i].NKeys; j++ {
								if loc.kids[i].Kids[j].Type == "int32" {
									key = append(key, fmt.Sprint(90+r.Intn(5)))
								} else {
									key = append(key, "nokey")
								}
							}
						}
						op = c18op{kind: "DR", i: i, key: key}
						if len(cur[i].Rows) > 0 && r.Chance(35) {
							// replace an existing entry by a fresh one with the same key
							row := core.Pick(r, cur[i].Rows)
							nb := gen.GenBody(r, loc.kids[i].Kids, 60, o)
							for j := 0; j < loc.kids[i].NKeys; j++ {
								kv := row.Key[j]
								nb[j] = &gen.DNode{Leaf: &kv}
							}
							op = c18op{kind: "RR", i: i, key: row.Key, doc: nb}
						}
					default:
						i := core.Pick(r, structural)
						d := gen.GenData(r, loc.kids[i], 100, o)
						if loc.kids[i].Kind == "cont" {
							d.Present = true
							if d.Kids == nil {
								d.Kids = gen.GenBody(r, loc.kids[i].Kids, 60, o)
							}
						}
						op = c18op{kind: "R", i: i, data: d}
					}
				}
			chosen:
				if op.kind == "DR" && op.sel == nil && len(cur[op.i].Rows) >= 2 && r.Chance(25) {
					// walk the list once (First/Next), keep the entry selections, delete two of them one after the other
					want1 := strings.Join(op.key, "\x00")
					var s1, s2 *node.Selection
					var key2 []string
					if ls, err := selAt(loc.kids[op.i].Name); err == nil && ls != nil {
						safeDo(func() error {
							li, err := ls.First()
							for err == nil && li.Selection != nil {
								var ks []string
								for _, kv := range li.Key {
									ks = append(ks, kv.String())
								}
								if strings.Join(ks, "\x00") == want1 {
									s1 = li.Selection
								} else if s2 == nil || r.Chance(40) {
									s2, key2 = li.Selection, ks
								}
								li, err = li.Next()
							}
							return err
						})
					}
					if s1 != nil && s2 != nil {
						op.sel, op.iter = s1, true
						pending = &c18op{kind: "DR", i: op.i, key: key2, sel: s2, iter: true}
						c.Count("op", "DR-of-iterated-selections")
					}
				}
				if op.kind == "DR" && op.sel == nil && len(cur[op.i].Rows) >= 2 && r.Chance(35) {
					// the caller holds selections of two entries and deletes one after the other
					for _, row := range cur[op.i].Rows {
						if strings.Join(row.Key, "\x00") != strings.Join(op.key, "\x00") {
							if s2, err := selAt(keyPath(loc.kids[op.i].Name, row.Key)); err == nil && s2 != nil {
								pending = &c18op{kind: "DR", i: op.i, key: row.Key, sel: s2}
								c.Count("op", "DR-with-kept-selection")
							}
							break
						}
					}
				}
				ops = append(ops, op)
				hist = append(hist, op.describe(loc.kids))
				// run it on the real code
				var opErr error
				switch op.kind {
				case "U", "I", "P":
					sel, err := selAt("")
					if err != nil || sel == nil {
						opErr = fmt.Errorf("entry point lost: %v", err)
						break
					}
					strategy := map[string]string{"U": "upsert", "I": "insert", "P": "update"}[op.kind]
					opErr = applyEdit(sel, strategy, refstore.NewBody(nil, loc.kids, gen.Clone(op.doc), "src"))
				case "DC":
					sel, err := selAt(loc.kids[op.i].Name)
					if err != nil {
						opErr = err
					} else if sel != nil {
						opErr = safeDo(sel.Delete)
					}
				case "DR":
					sel, err := selAt(keyPath(loc.kids[op.i].Name, op.key))
					if op.sel != nil {
						sel, err = op.sel, nil
					}
					if err != nil {
						opErr = err
					} else if sel != nil {
						opErr = safeDo(sel.Delete)
					}
				case "RR":
					sel, err := selAt(keyPath(loc.kids[op.i].Name, op.key))
					doc := gen.EmptyBody(loc.kids)
					doc[op.i] = &gen.DNode{Rows: []*gen.DRow{{Key: op.key, Kids: gen.Clone(op.doc)}}}
					if err != nil {
						opErr = err
					} else if sel != nil {
						var src node.Node = refstore.NewBody(nil, loc.kids, doc, "src")
						if r.Chance(50) {
							jb, _ := json.Marshal(gen.ToMap(loc.kids, doc))
							src, _ = nodeutil.ReadJSON(string(jb))
						}
						opErr = safeDo(func() error { return sel.ReplaceFrom(src) })
					} else {
						opErr = fmt.Errorf("entry to replace not found")
					}
				case "R":
					sel, err := selAt(loc.kids[op.i].Name)
					doc := gen.EmptyBody(loc.kids)
					doc[op.i] = op.data
					src := refstore.NewBody(nil, loc.kids, gen.Clone(doc), "src")
					if err != nil {
						opErr = err
					} else if sel != nil {
						opErr = safeDo(func() error { return sel.ReplaceFrom(src) })
					} else {
						// nothing to replace: ReplaceFrom needs a selection; the model inserts at the parent
						psel, _ := selAt("")
						opErr = applyEdit(psel, "insert", src)
					}
				}
				// re-read the store
				unord := false
				var after []*gen.DNode
				gen.CompoundInMap = 0
				if tgtKind == "refstore" {
					after = tree
				} else if tgtStruct.IsValid() {
					after = gen.FromStruct(dc.kids, tgtStruct, 0)
				} else {
					after = gen.FromMap(dc.kids, tgtMap, &unord)
				}
				compoundEver = compoundEver || gen.CompoundInMap > 0
				compoundMap := compoundEver
				keptEver = keptEver || (op.sel != nil && !op.iter && tgtKind != "refstore")
				locAfter := locateBody(dc.kids, after, loc)
				status := errClass(opErr)
				canon := "<entry point vanished>"
				if locAfter != nil {
					canon = gen.Canon(loc.kids, locAfter, unord)
					cur = gen.Clone(locAfter)
				}
				// lookups after the operation
				lookups := ""
				if locAfter != nil {
					if op.kind == "DR" {
						s, err := selAt(keyPath(loc.kids[op.i].Name, op.key))
						if err != nil || s != nil {
							lookups = fmt.Sprintf("deleted entry %q still found (err=%v)", op.key, err)
						}
					}
					for i, sk := range loc.kids {
						if sk.Kind != "list" || lookups != "" {
							continue
						}
						for _, row := range locAfter[i].Rows {
							s, err := selAt(keyPath(sk.Name, row.Key))
							if err != nil || s == nil {
								lookups = fmt.Sprintf("entry %s=%q is in the store but Find gives (%v, %v)", sk.Name, row.Key, s != nil, err)
								break
							}
						}
					}
				}
				c.Evaluations++
				c.Count("op", op.kind)
				c.Count("target", tgtKind)
				var optoks []string
				for _, o2 := range ops {
					optoks = append(optoks, o2.tokens(loc.kids))
				}
				lines = append(lines, "data ops ; "+strings.Join(gen.SchemaTokens(loc.kids), " ")+" ; "+
					strings.Join(gen.BodyTokens(loc.kids, initLocBody), " ")+" ; "+strings.Join(optoks, " ; "))
				input := map[string]interface{}{"yang": dc.yang, "target_impl": tgtKind, "location": loc.path,
					"initial": gen.Canon(loc.kids, initLocBody, false), "history": append([]string{}, hist...), "error": fmt.Sprint(opErr), "after": canon, "lookups": lookups, "compound_list_in_go_map": compoundMap, "kept_selection_on_slice_list": keptEver}
				pends = append(pends, pend{fmt.Sprintf("%s at %q step %d: %s", tgtKind, loc.path, k+1, hist[len(hist)-1]), status + " " + canon + " " + lookups, loc, unord, input, tgtKind, hist})
				if op.kind != "U" && op.kind != "I" && op.kind != "P" {
					c.Distinct(fmt.Sprint(si, ci, k))
				}
				if locAfter == nil || opErr != nil {
					// the editor is not atomic: after a failed request the partial effects are unspecified,
					// so a history ends at its first failing operation (only its status is compared)
					break
				}
			}
		}
	}
	outs, err := core.RunDriver(lines)
	if err != nil {
		c.ProofBroken = append(c.ProofBroken, err.Error())
		return
	}
	for i, o := range outs {
		p := pends[i]
		// "<statuses> ok <body> | uniq=.. conf=.."
		parts := strings.SplitN(o, " | ", 2)
		f := strings.SplitN(parts[0], " ok ", 2)
		if len(parts) != 2 || len(f) != 2 {
			c.Count("driver", "bad:"+short(o))
			continue
		}
		statuses := strings.Split(f[0], ",")
		mStatus := statuses[len(statuses)-1]
		body, perr := gen.ParseBody(p.loc.kids, strings.Fields(f[1]))
		if perr != nil {
			c.Count("driver", "parse:"+perr.Error())
			continue
		}
		mCanon := gen.Canon(p.loc.kids, body, p.unord)
		want := mStatus + " " + mCanon + " "
		if !strings.Contains(parts[1], "uniq=true") {
			c.Violation(core.Replay{Kind: "proof-broken", Class: "model-inv", Summary: "model state violates unique keys: " + p.desc, Input: p.input})
		}
		if i%997 == 0 {
			c.Sample(map[string]interface{}{"case": p.desc, "impl": short(p.impl), "model": short(want)})
		}
		implStatus := strings.SplitN(p.impl, " ", 2)[0]
		if implStatus != "ok" && implStatus == mStatus {
			c.Count("failed_op_status_only", implStatus)
			continue
		}
		if p.impl != want {
			if p.input["kept_selection_on_slice_list"] == true && c.IsKnown("kept-selection-slice-list", p.desc) {
				continue
			}
			if p.target != "refstore" && p.input["compound_list_in_go_map"] == true && c.IsKnown("map-list-compound-key", p.desc) {
				continue
			}
			c.Violation(core.Replay{Kind: "property-failure", Class: "ops-" + p.target + "-" + strings.Fields(p.history[len(p.history)-1])[0],
				Summary: fmt.Sprintf("%s: library gives %s; the model (delete/replace/merge semantics) gives %s", p.desc, short(p.impl), short(want)),
				Input:   p.input, Impl: p.impl, Model: want})
		}
	}
}

// keepEntryKeys makes a document for a list entry carry the entry's own key leaves.
func keepEntryKeys(root []*gen.SNode, loc editLoc, doc []*gen.DNode) {
	for j, k := range loc.kids {
		if j < len(loc.body) && loc.body[j].Leaf != nil && k.Kind == "leaf" && isKeyPos(root, loc, j) {
			v := *loc.body[j].Leaf
			doc[j] = &gen.DNode{Leaf: &v}
		}
	}
}
