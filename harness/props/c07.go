package props

import (
	"encoding/json"
	"fmt"
	"net/url"
	"strings"

	"verif/harness/core"
	"verif/harness/gen"
	"verif/harness/refstore"

	"github.com/freeconf/yang/meta"
	"github.com/freeconf/yang/node"
	"github.com/freeconf/yang/nodeutil"
	"github.com/freeconf/yang/parser"
)

func init() { Registry["C07"] = C07 }

// canonical text of a (projected) body in schema order; unset leaves, absent containers and empty lists are left out
func c07canon(kids []*gen.SNode, body []*gen.DNode) string {
	var b strings.Builder
	b.WriteString("{")
	for i, s := range kids {
		if i >= len(body) || body[i] == nil {
			continue
		}
		d := body[i]
		switch s.Kind {
		case "leaf":
			if d.Leaf != nil {
				fmt.Fprintf(&b, "%s=%q ", s.Name, *d.Leaf)
			}
		case "cont":
			if d.Present {
				b.WriteString(s.Name + c07canon(s.Kids, d.Kids) + " ")
			}
		case "list":
			if len(d.Rows) > 0 {
				b.WriteString(s.Name + c07canonRows(s.Kids, d.Rows) + " ")
			}
		}
	}
	b.WriteString("}")
	return b.String()
}

func c07canonRows(kids []*gen.SNode, rows []*gen.DRow) string {
	var b strings.Builder
	b.WriteString("[")
	for _, row := range rows {
		b.WriteString(c07canon(kids, row.Kids))
	}
	b.WriteString("]")
	return b.String()
}

func c07jsonLeaf(v interface{}) string {
	switch x := v.(type) {
	case string:
		return x
	case json.Number:
		return x.String()
	}
	return fmt.Sprintf("<%T %v>", v, v)
}

// the same canonical text from a decoded JSON object
func c07canonJSON(kids []*gen.SNode, m map[string]interface{}) string {
	var b strings.Builder
	b.WriteString("{")
	seen := 0
	for _, s := range kids {
		v, ok := m[s.Name]
		if !ok {
			continue
		}
		seen++
		switch s.Kind {
		case "leaf":
			fmt.Fprintf(&b, "%s=%q ", s.Name, c07jsonLeaf(v))
		case "cont":
			sub, isMap := v.(map[string]interface{})
			if !isMap {
				fmt.Fprintf(&b, "%s<not-an-object> ", s.Name)
				continue
			}
			b.WriteString(s.Name + c07canonJSON(s.Kids, sub) + " ")
		case "list":
			arr, isArr := v.([]interface{})
			if !isArr {
				fmt.Fprintf(&b, "%s<not-an-array> ", s.Name)
				continue
			}
			if len(arr) > 0 {
				b.WriteString(s.Name + c07canonJSONRows(s.Kids, arr) + " ")
			}
		}
	}
	if seen != len(m) {
		b.WriteString("<unknown-members> ")
	}
	b.WriteString("}")
	return b.String()
}

func c07canonJSONRows(kids []*gen.SNode, arr []interface{}) string {
	var b strings.Builder
	b.WriteString("[")
	for _, it := range arr {
		if sub, ok := it.(map[string]interface{}); ok {
			b.WriteString(c07canonJSON(kids, sub))
		} else {
			b.WriteString("<not-an-object>")
		}
	}
	b.WriteString("]")
	return b.String()
}

// schema tokens with the effective config flag
func c07schemaToks(kids []*gen.SNode, inheritedConfig bool) []string {
	out := []string{fmt.Sprint(len(kids))}
	for _, s := range kids {
		cfg := inheritedConfig && !s.NonConfig
		c := map[bool]string{true: "1", false: "0"}[cfg]
		switch s.Kind {
		case "leaf":
			d := "-"
			if s.Default != nil {
				d = "h" + core.Hex(*s.Default)
			}
			out = append(out, "L", core.Hex(s.Name), c, d)
		case "cont":
			out = append(append(out, "C", core.Hex(s.Name), c), c07schemaToks(s.Kids, cfg)...)
		case "list":
			out = append(append(out, "K", core.Hex(s.Name), c), c07schemaToks(s.Kids, cfg)...)
		}
	}
	return out
}

func c07dataToks(kids []*gen.SNode, body []*gen.DNode) []string {
	out := []string{fmt.Sprint(len(kids))}
	for i, s := range kids {
		d := body[i]
		switch s.Kind {
		case "leaf":
			if d.Leaf == nil {
				out = append(out, "-")
			} else {
				out = append(out, "v", core.Hex(*d.Leaf))
			}
		case "cont":
			if d.Present {
				out = append(append(out, "c"), c07dataToks(s.Kids, d.Kids)...)
			} else {
				out = append(out, "c-")
			}
		case "list":
			out = append(out, "r", fmt.Sprint(len(d.Rows)))
			for _, row := range d.Rows {
				out = append(out, c07dataToks(s.Kids, row.Kids)...)
			}
		}
	}
	return out
}

// the library's lexer, ported: split at ( ; ) /
func c07lex(expr string) []string {
	var out []string
	cur := ""
	flush := func() {
		if cur != "" {
			out = append(out, "s"+core.Hex(cur))
			cur = ""
		}
	}
	for _, ch := range expr {
		switch ch {
		case '(', ')', ';', '/':
			flush()
			out = append(out, string(ch))
		default:
			cur += string(ch)
		}
	}
	flush()
	return out
}

func c07exprToks(expr *string) string {
	if expr == nil {
		return "-"
	}
	t := c07lex(*expr)
	return strings.TrimSpace(fmt.Sprint(len(t)) + " " + strings.Join(t, " "))
}

// a random path expression over the schema below kids
func c07genExpr(r *core.Rng, kids []*gen.SNode, depth int) string {
	var alts []string
	for i, n := 0, 1+r.Intn(3); i < n; i++ {
		alts = append(alts, c07genTerm(r, kids, depth))
	}
	return strings.Join(alts, ";")
}

func c07genTerm(r *core.Rng, kids []*gen.SNode, depth int) string {
	var b strings.Builder
	cur := kids
	steps := 1 + r.Intn(3)
	for i := 0; i < steps; i++ {
		if len(cur) == 0 || r.Chance(8) {
			if b.Len() > 0 {
				b.WriteString("/")
			}
			b.WriteString(core.Pick(r, []string{"nosuch", "f1", "zz"}))
			cur = nil
			continue
		}
		s := core.Pick(r, cur)
		if b.Len() > 0 {
			b.WriteString("/")
		}
		b.WriteString(s.Name)
		cur = s.Kids
		if depth > 0 && len(cur) > 0 && r.Chance(30) {
			if r.Chance(50) {
				b.WriteString("/")
			}
			b.WriteString("(" + c07genExpr(r, cur, depth-1) + ")")
			if r.Chance(25) {
				// a second group right after the first: every combination
				var names []string
				for _, k := range cur {
					for _, kk := range k.Kids {
						names = append(names, kk.Name)
					}
				}
				if len(names) > 0 {
					g := []string{}
					for i, n := 0, 1+r.Intn(3); i < n; i++ {
						g = append(g, core.Pick(r, names))
					}
					b.WriteString("(" + strings.Join(g, ";") + ")")
				}
			} else if r.Chance(25) {
				// something after the group: the same child of every alternative
				if r.Chance(50) {
					b.WriteString("/")
				}
				b.WriteString(core.Pick(r, []string{"nosuch", cur[0].Name}))
			}
			break
		}
	}
	if b.Len() == 0 && depth > 0 && len(kids) > 0 && r.Chance(50) {
		return "(" + c07genExpr(r, kids, depth-1) + ")"
	}
	return b.String()
}

// relative paths of the lists below kids
func c07listPaths(kids []*gen.SNode, prefix string, out *[]string) {
	for _, s := range kids {
		switch s.Kind {
		case "cont":
			c07listPaths(s.Kids, prefix+s.Name+"/", out)
		case "list":
			*out = append(*out, prefix+s.Name)
			c07listPaths(s.Kids, prefix+s.Name+"/", out)
		}
	}
}

type c07query struct {
	depth           string // "-" or n
	content         string
	fields, xfields *string
	trim            bool
	rangeSel        *string
	start           int
	end             string // "-" or n
}

func (q c07query) model() string {
	t := "0"
	if q.trim {
		t = "1"
	}
	rg := "-"
	if q.rangeSel != nil {
		rg = c07exprToks(q.rangeSel) + " " + fmt.Sprint(q.start) + " " + q.end
	}
	return "d " + q.depth + " c " + q.content + " f " + c07exprToks(q.fields) + " x " + c07exprToks(q.xfields) + " t " + t + " r " + rg
}

func (q c07query) url(r *core.Rng) string {
	esc := func(s string) string {
		if r.Chance(50) {
			return url.QueryEscape(s)
		}
		// raw, but what a URL cannot hold literally
		return strings.NewReplacer("%", "%25", "&", "%26", "#", "%23", "+", "%2B", " ", "%20").Replace(s)
	}
	var ps []string
	if q.depth != "-" {
		ps = append(ps, "depth="+q.depth)
	}
	if q.content != "all" || r.Chance(10) {
		ps = append(ps, "content="+q.content)
	}
	if q.fields != nil {
		ps = append(ps, "fields="+esc(*q.fields))
	}
	if q.xfields != nil {
		ps = append(ps, "fc.xfields="+esc(*q.xfields))
	}
	if q.trim {
		ps = append(ps, "with-defaults=trim")
	} else if r.Chance(10) {
		ps = append(ps, "with-defaults=report-all")
	}
	if q.rangeSel != nil {
		e := q.end
		if e == "-" {
			e = ""
		}
		ps = append(ps, "fc.range="+esc(fmt.Sprintf("%s!%d-%s", *q.rangeSel, q.start, e)))
	}
	for i := len(ps) - 1; i > 0; i-- {
		j := r.Intn(i + 1)
		ps[i], ps[j] = ps[j], ps[i]
	}
	return strings.Join(ps, "&")
}

func c07genQuery(r *core.Rng, kids []*gen.SNode, targetIsList bool, single bool) c07query {
	q := c07query{depth: "-", content: "all", end: "-"}
	params := []string{"depth", "content", "fields", "xfields", "trim", "range"}
	var chosen []string
	if single {
		chosen = []string{core.Pick(r, params)}
	} else {
		for _, p := range params {
			if r.Chance(40) {
				chosen = append(chosen, p)
			}
		}
	}
	for _, p := range chosen {
		switch p {
		case "depth":
			q.depth = fmt.Sprint(1 + r.Intn(5))
		case "content":
			q.content = core.Pick(r, []string{"config", "nonconfig", "all"})
		case "fields":
			e := c07genExpr(r, kids, 2)
			q.fields = &e
		case "xfields":
			e := c07genExpr(r, kids, 2)
			q.xfields = &e
		case "trim":
			q.trim = true
		case "range":
			var lists []string
			c07listPaths(kids, "", &lists)
			sel := ""
			switch {
			case targetIsList && r.Chance(60):
				sel = ""
			case len(lists) > 0 && r.Chance(85):
				sel = core.Pick(r, lists)
				if r.Chance(15) {
					sel += ";" + core.Pick(r, lists)
				}
			default:
				sel = c07genTerm(r, kids, 0)
			}
			q.rangeSel = &sel
			q.start = r.Intn(4)
			if r.Chance(70) {
				q.end = fmt.Sprint(r.Intn(5))
			}
		}
	}
	return q
}

var c07invalid = []string{"depth=0", "depth=-1", "depth=x", "depth=1.5", "depth=", "content=bogus", "content=", "content=Config",
	"with-defaults=bogus", "with-defaults=explicit", "with-defaults=report-all-tagged", "with-defaults=",
	"fc.range=LIST", "fc.range=LIST!x", "fc.range=LIST!1-y", "fc.range=LIST!", "fc.range=!-", "fc.range=LIST!-1-2",
	"fields=a(b", "fields=a)b", "fields=(a;b", "fc.xfields=a(b;(c)", "fc.range=(LIST!0-1",
	"fc.max-node-count=x", "fc.max-node-count=-1", "fc.max-node-count=", "depth=2&content=bogus", "fields=%zz"}

// conditions that hold take nothing away: a constrained read of a module whose 'when' statements are all true in the
// data equals the same read of the same module written without them.  The operands are leaves the parameters
// themselves filter (config false, at the default value, below the depth limit, not among the fields).
const c07whenBody = `
  leaf seen { config false; type int32; }
  leaf mode { type string; default "auto"; }
  leaf name { type string; }
  leaf tail { %s type string; }
  leaf tail2 { %s type string; }
  container auto { %s leaf amode { type string; default "auto"; } leaf a1 { type string; } leaf a2 { type int32; default 7; }
    container deep { %s leaf dd { config false; type int32; } leaf d1 { type string; } } }
  container live { %s leaf oper { config false; type string; } leaf l1 { type string; } leaf l2 { config false; type string; } }
  grouping g { leaf g1 { type string; } container gc { leaf g2 { type string; } } }
  container us { leaf on { config false; type boolean; } leaf lim { type int32; default 3; } uses g { %s description "u"; } }
  list row { key k; %s leaf k { type string; } leaf st { config false; type int32; } leaf kind { type string; default "std"; }
    leaf note { %s type string; }
    container ext { %s leaf ek { type string; default "std"; } leaf e1 { type string; } } }
  container st { config false; leaf cnt { type int32; } container more { %s leaf mc { type int32; default 1; } leaf m1 { type string; } } }
`

var c07whenConds = []interface{}{`when "seen = 5";`, `when "mode = 'auto'";`, `when "amode = 'auto'";`, `when "dd = 1";`, `when "oper = 'up'";`, `when "on = 'true'";`,
	`when "st > 0";`, `when "kind = 'std'";`, `when "ek = 'std'";`, `when "mc > 0";`}

const c07whenData = `{"seen":5,"name":"n","tail":"t","tail2":"t2","auto":{"a1":"p","a2":7,"deep":{"dd":1,"d1":"q"}},"live":{"oper":"up","l1":"r","l2":"s"},
 "us":{"on":true,"g1":"gg","gc":{"g2":"hh"}},
 "row":[{"k":"r1","st":2,"kind":"std","ext":{"ek":"std","e1":"u"},"note":"n1"},{"k":"r2","st":9,"ext":{"e1":"w"},"note":"n2"}],"st":{"cnt":4,"more":{"mc":1,"m1":"z"}}}`

func c07whenProbe(c *core.Ctx) {
	none := make([]interface{}, len(c07whenConds))
	for i := range none {
		none[i] = ""
	}
	head := "module w { namespace \"urn:w\"; prefix w; revision 2020-01-01;"
	yW := head + fmt.Sprintf(c07whenBody, c07whenConds...) + "}"
	yN := head + fmt.Sprintf(c07whenBody, none...) + "}"
	mW, err := parser.LoadModuleFromString(nil, yW)
	if err != nil {
		c.Violation(core.Replay{Kind: "property-failure", Class: "when-probe-load", Summary: "module with conditions does not load: " + err.Error(), Input: yW})
		return
	}
	mN, err := parser.LoadModuleFromString(nil, yN)
	if err != nil {
		c.Violation(core.Replay{Kind: "property-failure", Class: "when-probe-load", Summary: "module without conditions does not load: " + err.Error(), Input: yN})
		return
	}
	read := func(m *meta.Module, find string) string {
		var o string
		e := safeDo(func() error {
			src, err := nodeutil.ReadJSON(c07whenData)
			if err != nil {
				return err
			}
			sel, err := node.NewBrowser(m, src).Root().Find(find)
			if err != nil {
				return err
			}
			if sel == nil {
				o = "nil"
				return nil
			}
			o, err = nodeutil.WriteJSON(sel)
			return err
		})
		if e != nil {
			return "error " + short(e.Error())
		}
		return o
	}
	params := []string{"", "content=config", "content=nonconfig", "content=all", "with-defaults=trim", "depth=1", "depth=2", "depth=3",
		"fields=auto%3Btail", "fields=row%2Fext%3Blive%3Bus", "fc.xfields=mode%3Bseen%3Bus%2Fon", "fc.xfields=row%2Fkind%3Brow%2Fst%3Bauto%2Famode", "fc.range=row!1-1",
		"content=config&with-defaults=trim", "content=config&depth=2", "with-defaults=trim&fields=auto%3Bus%3Brow", "content=nonconfig&depth=3", "fc.xfields=name&content=config"}
	for _, target := range []string{"", "auto", "auto/deep", "live", "us", "us/gc", "row", "row=r1", "row=r2/ext", "st", "st/more"} {
		for _, q := range params {
			find := target
			if q != "" {
				find += "?" + q
			}
			if find == "" {
				find = "?depth=99"
			}
			w, n := read(mW, find), read(mN, find)
			c.Evaluations++
			c.Count("when_probe_parameter", strings.SplitN(q, "=", 2)[0])
			c.Distinct("whenprobe " + find)
			if w != n {
				c.Violation(core.Replay{Kind: "property-failure", Class: "when-transparent-" + strings.SplitN(q, "=", 2)[0],
					Summary: fmt.Sprintf("Find(%q) on a module whose conditions all hold gives %s; the same module without the conditions gives %s", find, short(w), short(n)),
					Input:   map[string]interface{}{"yang": yW, "yang_without_when": yN, "data": c07whenData, "find": find}, Impl: w, Spec: n})
			}
		}
	}
}

// a grouping that uses itself compiles into a schema whose levels share their definitions; the parameters
// mean what they mean on the same tree written out level by level
func c07recursiveProbe(c *core.Ctx) {
	head := `module rc { namespace "urn:rc"; prefix rc; revision 2020-01-01;`
	yR := head + `
  grouping g { container c { leaf x { type string; } leaf s { config false; type string; } uses g; } }
  grouping h { list l { key k; leaf k { type string; } leaf v { type int32; default 7; } uses h; } }
  uses g; uses h; container o { uses g; uses h; } }`
	yU := head + `
  container c { leaf x { type string; } leaf s { config false; type string; } container c { leaf x { type string; } leaf s { config false; type string; } container c { leaf x { type string; } leaf s { config false; type string; } container c { leaf x { type string; } leaf s { config false; type string; } } } } }
  list l { key k; leaf k { type string; } leaf v { type int32; default 7; } list l { key k; leaf k { type string; } leaf v { type int32; default 7; } list l { key k; leaf k { type string; } leaf v { type int32; default 7; } list l { key k; leaf k { type string; } leaf v { type int32; default 7; } } } } }
  container o {
  container c { leaf x { type string; } leaf s { config false; type string; } container c { leaf x { type string; } leaf s { config false; type string; } container c { leaf x { type string; } leaf s { config false; type string; } container c { leaf x { type string; } leaf s { config false; type string; } } } } }
  list l { key k; leaf k { type string; } leaf v { type int32; default 7; } list l { key k; leaf k { type string; } leaf v { type int32; default 7; } list l { key k; leaf k { type string; } leaf v { type int32; default 7; } list l { key k; leaf k { type string; } leaf v { type int32; default 7; } } } } }
  } }`
	doc := `{"c":{"x":"1","s":"a","c":{"x":"2","c":{"x":"3","s":"c","c":{"x":"4"}}}},
 "l":[{"k":"a","v":7,"l":[{"k":"b","v":1,"l":[{"k":"c","l":[{"k":"d","v":7}]},{"k":"c2"}]},{"k":"b2","v":7}]},{"k":"a2"}],
 "o":{"c":{"x":"1","c":{"x":"2","s":"b","c":{"x":"3","c":{"x":"4","s":"d"}}}},"l":[{"k":"a","l":[{"k":"b","v":7,"l":[{"k":"c","v":3}]}]}]}}`
	mR, err := parser.LoadModuleFromString(nil, yR)
	if err != nil {
		c.Violation(core.Replay{Kind: "property-failure", Class: "recursive-probe-load", Summary: "module with self-using groupings does not load: " + err.Error(), Input: yR})
		return
	}
	mU, err := parser.LoadModuleFromString(nil, yU)
	if err != nil {
		c.Violation(core.Replay{Kind: "harness", Summary: "c07recursive module: " + err.Error(), NoInputFound: true})
		return
	}
	read := func(m *meta.Module, find string) string {
		var o string
		e := safeDo(func() error {
			src, err := nodeutil.ReadJSON(doc)
			if err != nil {
				return err
			}
			sel, err := node.NewBrowser(m, src).Root().Find(find)
			if err != nil {
				return err
			}
			if sel == nil {
				o = "nil"
				return nil
			}
			o, err = nodeutil.WriteJSON(sel)
			return err
		})
		if e != nil {
			return "error " + short(e.Error())
		}
		return o
	}
	params := []string{"", "depth=1", "depth=2", "depth=3", "depth=4", "depth=5", "content=config", "content=nonconfig", "with-defaults=trim", "depth=2&content=config", "depth=3&with-defaults=trim",
		"fields=c%2Fx", "fields=c%2Fc%2Fx%3Bx", "fc.xfields=c%2Fc", "fc.xfields=l%2Fl%2Fv", "fc.range=l!1-1", "fc.range=l%2Fl!0-0", "depth=2&fc.range=l!0-0", "fields=l%2Fk%3Bc&depth=2"}
	for _, target := range []string{"", "c", "c/c", "c/c/c", "o", "o/c", "o/c/c", "l", "l=a", "l=a/l", "l=a/l=b", "l=a/l=b/l", "o/l", "o/l=a", "o/l=a/l=b"} {
		for _, q := range params {
			find := target
			if q != "" {
				find += "?" + q
			}
			if find == "" {
				find = "?depth=99"
			}
			r, u := read(mR, find), read(mU, find)
			c.Evaluations++
			c.Count("recursive_probe_parameter", strings.SplitN(q, "=", 2)[0])
			c.Distinct("recprobe " + find)
			if r != u {
				c.Violation(core.Replay{Kind: "property-failure", Class: "recursive-grouping-" + strings.SplitN(q, "=", 2)[0],
					Summary: fmt.Sprintf("Find(%q) on a schema of self-using groupings gives %s; the same schema written out level by level gives %s", find, short(r), short(u)),
					Input:   map[string]interface{}{"yang": yR, "yang_unrolled": yU, "data": doc, "find": find}, Impl: r, Spec: u})
			}
		}
	}
}

// the rows a constrained list selection yields when it is walked entry by entry (First / Next) are the rows its
// whole read shows
func c07iterProbe(c *core.Ctx) {
	y := `module it { namespace "urn:it"; prefix it; revision 2020-01-01;
  container a { list l { key k; leaf k { type string; } leaf n { type int32; } list in { key i; leaf i { type int32; } } } }
  list top { key "x y"; leaf x { type string; } leaf y { type int32; } }
  typedef kt { type string; default "r1"; } typedef nt { type int32; default 5; }
  list tk { key "k n"; leaf k { type kt; } leaf n { type nt; } leaf v { type kt; } }
}`
	m, err := parser.LoadModuleFromString(nil, y)
	if err != nil {
		c.Violation(core.Replay{Kind: "harness", Summary: "c07iter module: " + err.Error(), NoInputFound: true})
		return
	}
	doc := `{"a":{"l":[{"k":"r0","n":0,"in":[{"i":1},{"i":2},{"i":3}]},{"k":"r1","n":10},{"k":"r2","n":20,"in":[{"i":7}]},{"k":"r3","n":30},{"k":"r4","n":40}]},"top":[{"x":"p","y":1},{"x":"p","y":2},{"x":"q","y":1}],"tk":[{"k":"r1","n":5,"v":"r1"},{"k":"r2","n":5,"v":"x"},{"k":"r1","n":6}]}`
	for _, find := range []string{"a/l", "a/l?fc.range=!1-2", "a/l?fc.range=!2-", "a/l?fc.range=!0-0", "a/l?fc.range=!7-9", "a/l?fc.range=!3-1", "a/l?fc.range=!4-4", "a/l?where=n>15", "a/l?where=n<0", "a/l?where=n>5&fc.range=!1-2",
		"a/l=r0/in?fc.range=!1-1", "a/l=r0/in?where=i>1", "top?fc.range=!1-2", "top?where=y%3D1", "tk?with-defaults=trim", "tk", "tk?with-defaults=trim&fc.range=!1-2", "a/l?depth=1", "a/l?content=config"} {
		var walked, read []string
		e := safeDo(func() error {
			src, err := nodeutil.ReadJSON(doc)
			if err != nil {
				return err
			}
			sel, err := node.NewBrowser(m, src).Root().Find(find)
			if err != nil || sel == nil {
				return fmt.Errorf("find: %v", err)
			}
			item, err := sel.First()
			for ; err == nil && item.Selection != nil; item, err = item.Next() {
				var ks []string
				for _, k := range item.Key {
					ks = append(ks, k.String())
				}
				walked = append(walked, strings.Join(ks, ","))
				if len(walked) > 100 {
					return fmt.Errorf("walk does not end")
				}
			}
			if err != nil {
				return err
			}
			src2, _ := nodeutil.ReadJSON(doc)
			sel2, err := node.NewBrowser(m, src2).Root().Find(find)
			if err != nil || sel2 == nil {
				return fmt.Errorf("find: %v", err)
			}
			js, err := nodeutil.WriteJSON(sel2)
			if err != nil {
				return err
			}
			var v map[string][]map[string]interface{}
			if err := json.Unmarshal([]byte(js), &v); err != nil {
				return fmt.Errorf("read is not a list document: %s", js)
			}
			for _, rows := range v {
				for _, row := range rows {
					var ks []string
					for _, kn := range sel2.Meta().(*meta.List).KeyMeta() {
						ks = append(ks, fmt.Sprint(row[kn.Ident()]))
					}
					read = append(read, strings.Join(ks, ","))
				}
			}
			return nil
		})
		c.Evaluations++
		c.Count("walk_vs_read", strings.SplitN(strings.SplitN(find+"?plain", "?", 2)[1], "=", 2)[0])
		c.Distinct("iter " + find)
		if e != nil || fmt.Sprint(walked) != fmt.Sprint(read) {
			c.Violation(core.Replay{Kind: "property-failure", Class: "walk-vs-read", Summary: fmt.Sprintf("Find(%q): First/Next visits %v, the read of the same selection shows %v (%v)", find, walked, read, e),
				Input: map[string]interface{}{"yang": y, "data": doc, "find": find}, Impl: fmt.Sprint(walked), Spec: fmt.Sprint(read)})
		}
	}
}

func C07(c *core.Ctx) {
	c07whenProbe(c)
	c07iterProbe(c)
	c07windowText(c)
	c07recursiveProbe(c)
	c.Rule = "generated schemas (containers, keyed lists nested up to 3 levels, config-false containers/lists/leaves, defaults) × trees (values equal to their default, unset leaves with defaults, lists of 0–4 entries) × targets (module, container, list, list entry) × queries: every parameter alone and random combinations of depth (1–5), content (config/nonconfig/all), fields and fc.xfields (random expressions over the schema: nested paths, alternatives, groups, something after a group, unknown names), with-defaults=trim, fc.range (windows incl. empty, reversed, out of range, on nested lists, several lists, the target list itself), raw and percent-encoded; result (WriteJSON of the constrained selection) compared with the Lean projection model; source store compared before/after; ParsePathExpression compared with the Lean parser on every generated and on malformed expressions; a stream of invalid parameter values must be refused; directed: a module whose ten when conditions all hold against the same module without them, 11 targets × 18 parameter sets (content, with-defaults, depth, fields, fc.xfields, fc.range and combinations); a schema of self-using groupings (container, keyed list) against the same schema written out level by level, 15 targets × 19 parameter sets. non-trivial = query that removes something but not everything; distinct by (schema, tree, target, query)"
	c.Assumptions = append(c.Assumptions,
		"the result is observed through the JSON writer (C15) and decoded by encoding/json; an empty array and an absent list are not distinguished",
		"fc.range windows are rows start..end, both included (the reading under which '!0-0' is the first row, as the library answers)")
	c.ProofStep("YangVerif.Props.C07")
	if c.Thorough() {
		c.LeanChecker("YangVerif.Props.C07")
	}
	rng := core.NewRng(c.Seed)
	var lines []string
	type pend struct {
		kind, desc, impl string
		input            map[string]interface{}
		kids             []*gen.SNode
		isList           bool
	}
	var pends []pend
	// malformed and odd expressions for the parser
	exprs := []string{"", "a", "a/b", "a;b", "a/(b;c)", "(a;b)c", "a;(b;c)", "a/b/c/(x;y)", "a/b/c/d/(x;y)/z", "(a;b)", "a//b", "a;", ";a", "a(b", "a)b", "((a;b)c;d)e", "()", "a/()", "(;)", "a(;)b", ")", "(", "a;;b", "/", "(a)(b)(c;d)", "a/(b/(c;d);e)f", "(a;b)(x)", "(a;b;c)(x;y)", "(a;b)(x;y;z)", "(a;b)(c;d)(e)", "(a;b;c)(d)(e;f)", "a(b;c;d)(e;f)g", "(a;b)c(d;e;f)"}
	for i := 0; i < c.N(200, 5000); i++ {
		n := rng.Intn(9)
		var b strings.Builder
		for j := 0; j < n; j++ {
			b.WriteString(core.Pick(rng, []string{"a", "b", "cc", "/", "/", ";", "(", ")", "(", ")"}))
		}
		exprs = append(exprs, b.String())
	}
	// expressions of the grammar: sequences of names and groups, groups of 1–4 alternatives, nested
	var genAlts func(depth int) string
	genTerm := func(depth int) string {
		var b strings.Builder
		for i, n := 0, 1+rng.Intn(3); i < n; i++ {
			if depth > 0 && rng.Chance(45) {
				if b.Len() > 0 && rng.Chance(50) {
					b.WriteString("/")
				}
				b.WriteString("(" + genAlts(depth-1) + ")")
			} else {
				if b.Len() > 0 {
					b.WriteString("/")
				}
				b.WriteString(core.Pick(rng, []string{"a", "b", "cc", "d1", "e-e"}))
			}
		}
		return b.String()
	}
	genAlts = func(depth int) string {
		var alts []string
		for i, n := 0, 1+rng.Intn(4); i < n; i++ {
			alts = append(alts, genTerm(depth))
		}
		return strings.Join(alts, ";")
	}
	for i := 0; i < c.N(300, 6000); i++ {
		exprs = append(exprs, genAlts(2))
	}
	addParse := func(e string) {
		got := "error"
		if perr := safeDo(func() error {
			if pe, err := node.ParsePathExpression(e); err == nil {
				got = strings.TrimSpace("ok " + pe.String())
			}
			return nil
		}); perr != nil {
			got = short(perr.Error())
		}
		lines = append(lines, "c07 parse "+strings.Join(c07lex(e), " "))
		pends = append(pends, pend{kind: "parse", desc: "ParsePathExpression", impl: got, input: map[string]interface{}{"expression": e}})
		c.Evaluations++
		c.Count("parse", map[bool]string{true: "accepted", false: "rejected"}[got != "error"])
	}
	for _, e := range exprs {
		addParse(e)
	}
	nSchemas := c.N(30, 800)
	for si := 0; si < nSchemas; si++ {
		r := rng.Fork()
		kids := gen.GenSchema(r, gen.Opts{MaxDepth: 3, MaxKids: 4, Defaults: true, NonConfig: true, LeafNonConfig: true})
		y := gen.Module("m", kids)
		m, err := parser.LoadModuleFromString(nil, y)
		if err != nil {
			c.Violation(core.Replay{Kind: "harness", Summary: "C07 module does not load: " + err.Error(), Input: y, NoInputFound: true})
			return
		}
		for di := 0; di < c.N(3, 6); di++ {
			tree := gen.GenBody(r, kids, 60+r.Intn(35), gen.Opts{})
			c07defaults(r, kids, tree)
			full := gen.Canon(kids, tree, false)
			store := refstore.NewBody(nil, kids, tree, "")
			b := node.NewBrowser(m, store)
			// targets
			type target struct {
				path   string
				kids   []*gen.SNode
				body   []*gen.DNode
				rows   []*gen.DRow
				isList bool
				name   string
				config bool
			}
			targets := []target{{path: "", kids: kids, body: tree, config: true}}
			var locs []editLoc
			findLocs(kids, tree, "", 0, &locs)
			for _, l := range locs {
				targets = append(targets, target{path: l.path, kids: l.kids, body: l.body, config: c07configAt(kids, l.path)})
			}
			c07listTargets(kids, tree, "", true, func(path string, s *gen.SNode, rows []*gen.DRow, cfg bool) {
				targets = append(targets, target{path: path, kids: s.Kids, rows: rows, isList: true, name: s.Name, config: cfg})
			})
			if len(targets) > 5 {
				keep := []target{targets[0]}
				for i := 0; i < 4; i++ {
					keep = append(keep, targets[1+r.Intn(len(targets)-1)])
				}
				targets = keep
			}
			for _, tg := range targets {
				// the unconstrained read of the target, to tell what a query removed
				fullT := ""
				if sel, err := b.Root().Find(tg.path); err == nil && sel != nil {
					if js, err := nodeutil.WriteJSON(sel); err == nil {
						dec := json.NewDecoder(strings.NewReader(js))
						dec.UseNumber()
						var v map[string]interface{}
						if dec.Decode(&v) == nil {
							if tg.isList {
								arr, _ := v[tg.name].([]interface{})
								fullT = "ok " + c07canonJSONRows(tg.kids, arr)
							} else {
								fullT = "ok " + c07canonJSON(tg.kids, v)
							}
						}
					}
				}
				for qi := 0; qi < c.N(6, 14); qi++ {
					q := c07genQuery(r, tg.kids, tg.isList, qi < 3)
					qs := q.url(r)
					path := tg.path
					if qs != "" {
						path += "?" + qs
					}
					var out string
					rerr := safeDo(func() error {
						sel, err := b.Root().Find(path)
						if err != nil {
							return err
						}
						if sel == nil {
							return fmt.Errorf("no selection")
						}
						out, err = nodeutil.WriteJSON(sel)
						return err
					})
					c.Evaluations++
					for _, p := range strings.Split(qs, "&") {
						c.Count("param", strings.SplitN(p, "=", 2)[0])
					}
					c.Count("target", map[bool]string{true: "list", false: "body"}[tg.isList])
					input := map[string]interface{}{"yang": y, "tree": full, "find": path}
					if after := gen.Canon(kids, tree, false); after != full {
						c.Violation(core.Replay{Kind: "property-failure", Class: "store-modified", Summary: fmt.Sprintf("Find(%q) + read modified the data: %s → %s", path, short(full), short(after)), Input: input})
						full = after
					}
					got := errClass(rerr)
					if rerr == nil {
						dec := json.NewDecoder(strings.NewReader(out))
						dec.UseNumber()
						var v map[string]interface{}
						if derr := dec.Decode(&v); derr != nil {
							got = "bad-json " + out
						} else if tg.isList {
							arr, _ := v[tg.name].([]interface{})
							if len(v) > 1 || (len(v) == 1 && v[tg.name] == nil) {
								got = "bad-shape " + out
							} else {
								got = "ok " + c07canonJSONRows(tg.kids, arr)
							}
						} else {
							got = "ok " + c07canonJSON(tg.kids, v)
						}
					} else if strings.HasPrefix(rerr.Error(), "PANIC") {
						got = short(rerr.Error())
					}
					// the same parameters given in two steps (Find with some, Constrain with the rest) select the same:
					// visibility is the conjunction of the single-parameter conditions, however they arrive
					if parts := strings.Split(qs, "&"); rerr == nil && len(parts) >= 2 {
						k := 1 + r.Intn(len(parts)-1)
						first, second := strings.Join(parts[:k], "&"), strings.Join(parts[k:], "&")
						var out2 string
						err2 := safeDo(func() error {
							sel, err := b.Root().Find(tg.path + "?" + first)
							if err != nil || sel == nil {
								return fmt.Errorf("first step: %v", err)
							}
							sel2, err := sel.Constrain(second)
							if err != nil || sel2 == nil {
								return fmt.Errorf("second step: %v", err)
							}
							out2, err = nodeutil.WriteJSON(sel2)
							return err
						})
						c.Evaluations++
						c.Count("two_step", fmt.Sprint(err2 == nil))
						if err2 != nil || out2 != out {
							c.Violation(core.Replay{Kind: "property-failure", Class: "two-step", Summary: fmt.Sprintf("Find(%q) then Constrain(%q) gives %s; all parameters in one step give %s", tg.path+"?"+first, second, short(out2+fmt.Sprint(err2)), short(out)),
								Input: map[string]interface{}{"yang": y, "tree": full, "find": tg.path + "?" + first, "constrain": second, "one_step": path}, Impl: out2, Spec: out})
						}
					}
					// sibling selections: two selections derived from one constrained parent by parameter-only Finds do not
					// disturb each other - the first still answers as if its parameters had been given with the parent's
					if parts := strings.Split(qs, "&"); rerr == nil && len(parts) >= 3 {
						parentQ, firstQ, secondQ := parts[0], parts[1], strings.Join(parts[2:], "&")
						var outFirst, oneStep string
						errS := safeDo(func() error {
							parent, err := b.Root().Find(tg.path + "?" + parentQ)
							if err != nil || parent == nil {
								return fmt.Errorf("parent: %v", err)
							}
							s1, err := parent.Find("?" + firstQ)
							if err != nil || s1 == nil {
								return fmt.Errorf("first sibling: %v", err)
							}
							s2, err := parent.Find("?" + secondQ)
							if err != nil || s2 == nil {
								return fmt.Errorf("second sibling: %v", err)
							}
							if _, err = nodeutil.WriteJSON(s2); err != nil {
								return nil // the second sibling's own parameters may be refused; not the point here
							}
							if outFirst, err = nodeutil.WriteJSON(s1); err != nil {
								return err
							}
							ref, err := b.Root().Find(tg.path + "?" + parentQ + "&" + firstQ)
							if err != nil || ref == nil {
								return fmt.Errorf("one step: %v", err)
							}
							oneStep, err = nodeutil.WriteJSON(ref)
							return err
						})
						c.Evaluations++
						c.Count("siblings", fmt.Sprint(errS == nil))
						if errS == nil && oneStep != "" && outFirst != oneStep {
							c.Violation(core.Replay{Kind: "property-failure", Class: "siblings", Summary: fmt.Sprintf("Find(%q) then sibling Finds %q and %q: the first sibling reads %s; the same parameters in one step read %s", tg.path+"?"+parentQ, "?"+firstQ, "?"+secondQ, short(outFirst), short(oneStep)),
								Input: map[string]interface{}{"yang": y, "tree": full, "parent": tg.path + "?" + parentQ, "first": firstQ, "second": secondQ}, Impl: outFirst, Spec: oneStep})
						}
					}
					line := "c07 proj " + q.model()
					if tg.isList {
						rowsToks := []string{fmt.Sprint(len(tg.rows))}
						for _, row := range tg.rows {
							rowsToks = append(rowsToks, c07dataToks(tg.kids, row.Kids)...)
						}
						line += " list " + strings.Join(c07schemaToks(tg.kids, tg.config), " ") + " " + strings.Join(rowsToks, " ")
					} else {
						line += " body " + strings.Join(c07schemaToks(tg.kids, tg.config), " ") + " " + strings.Join(c07dataToks(tg.kids, tg.body), " ")
					}
					lines = append(lines, line)
					input["json"] = out
					input["unconstrained"] = fullT
					pends = append(pends, pend{kind: "proj", desc: fmt.Sprintf("Find(%q)", path), impl: got, input: input, kids: tg.kids, isList: tg.isList})
					for _, e := range []*string{q.fields, q.xfields, q.rangeSel} {
						if e != nil && r.Chance(30) {
							addParse(*e)
						}
					}
				}
			}
			// invalid parameter values must be refused
			var lists []string
			c07listPaths(kids, "", &lists)
			ln := "nolist"
			if len(lists) > 0 {
				ln = lists[0]
			}
			for i := 0; i < 4; i++ {
				qs := strings.ReplaceAll(core.Pick(r, c07invalid), "LIST", ln)
				var out string
				rerr := safeDo(func() error {
					sel, err := b.Root().Find("?" + qs)
					if err != nil {
						return err
					}
					out, err = nodeutil.WriteJSON(sel)
					return err
				})
				c.Evaluations++
				c.Count("invalid", strings.SplitN(qs, "=", 2)[0])
				if rerr == nil || strings.HasPrefix(rerr.Error(), "PANIC") {
					c.Violation(core.Replay{Kind: "property-failure", Class: "invalid-accepted-" + strings.SplitN(qs, "=", 2)[0],
						Summary: fmt.Sprintf("Find(%q): an invalid parameter value is answered with %s instead of an error", "?"+qs, short(out+fmt.Sprint(rerr))), Input: map[string]interface{}{"yang": y, "tree": full, "find": "?" + qs}})
				}
			}
			// fc.max-node-count: fewer containers allowed than the read visits
			nCont := strings.Count(full, "{") - 1
			if nCont >= 2 {
				var out string
				rerr := safeDo(func() error {
					sel, err := b.Root().Find("?fc.max-node-count=1")
					if err != nil {
						return err
					}
					out, err = nodeutil.WriteJSON(sel)
					return err
				})
				c.Evaluations++
				c.Count("param", "fc.max-node-count")
				if rerr == nil {
					what := fmt.Sprintf("Find(\"?fc.max-node-count=1\") on a tree with %d containers/entries returns all of it without an error", nCont)
					if !c.IsKnown("max-node-count-unenforced", what) {
						c.Violation(core.Replay{Kind: "property-failure", Class: "max-node-count", Summary: what + ": " + short(out), Input: map[string]interface{}{"yang": y, "tree": full, "find": "?fc.max-node-count=1"}})
					}
				}
			}
		}
	}
	outs, err := core.RunDriver(lines)
	if err != nil {
		c.ProofBroken = append(c.ProofBroken, err.Error())
		return
	}
	for i, o := range outs {
		p := pends[i]
		switch p.kind {
		case "parse":
			if i%53 == 0 {
				c.Sample(map[string]interface{}{"case": "parse", "expression": p.input["expression"], "library": p.impl, "model": o})
			}
			if strings.TrimSpace(o) != p.impl {
				c.Violation(core.Replay{Kind: "correspondence", Class: "parse", Summary: fmt.Sprintf("ParsePathExpression(%q): library %s; model %s", p.input["expression"], p.impl, o), Input: p.input, Impl: p.impl, Model: o})
			}
		case "proj":
			want := o
			if strings.HasPrefix(o, "ok ") {
				tr := &c19tokReader{toks: strings.Fields(strings.TrimPrefix(o, "ok "))}
				if p.isList {
					n := 0
					fmt.Sscan(tr.next(), &n)
					var rows []*gen.DRow
					for j := 0; j < n; j++ {
						rows = append(rows, &gen.DRow{Kids: tr.body(nil, p.kids)})
					}
					want = "ok " + c07canonRows(p.kids, rows)
				} else {
					want = "ok " + c07canon(p.kids, tr.body(nil, p.kids))
				}
				if tr.err != nil || len(tr.toks) != 0 {
					c.Count("driver", "proj-parse:"+short(o))
					continue
				}
			} else if o != "error" {
				c.Count("driver", "proj:"+short(o))
				continue
			}
			impl := p.impl
			if impl != "ok" && !strings.HasPrefix(impl, "ok ") && !strings.HasPrefix(impl, "PANIC") && !strings.HasPrefix(impl, "bad-") {
				impl = "error"
			}
			if i%401 == 0 {
				c.Sample(map[string]interface{}{"case": p.desc, "library": short(impl), "model": short(want)})
			}
			fullT, _ := p.input["unconstrained"].(string)
			effect := "partial"
			switch {
			case want == "error":
				effect = "rejected"
			case want == fullT:
				effect = "nothing-removed"
			case want == "ok {}" || want == "ok []":
				effect = "everything-removed"
			}
			c.Count("effect", effect)
			if impl != want {
				c.Violation(core.Replay{Kind: "property-failure", Class: "projection",
					Summary: fmt.Sprintf("%s: library returns %s; the projection the parameters define is %s", p.desc, short(impl), short(want)), Input: p.input, Impl: impl, Model: want})
			} else if effect == "partial" {
				c.Distinct(p.desc + fmt.Sprint(i))
			}
		}
	}
}

// some leaves hold exactly their default, some leaves with a default are unset
func c07defaults(r *core.Rng, kids []*gen.SNode, body []*gen.DNode) {
	for i, s := range kids {
		d := body[i]
		switch s.Kind {
		case "leaf":
			if s.Default != nil && r.Chance(40) {
				v := *s.Default
				d.Leaf = &v
			} else if s.Default != nil && r.Chance(30) {
				d.Leaf = nil
			}
		case "cont":
			if d.Present {
				c07defaults(r, s.Kids, d.Kids)
			}
		case "list":
			for _, row := range d.Rows {
				c07defaults(r, s.Kids[s.NKeys:], row.Kids[s.NKeys:])
			}
		}
	}
}

// effective config of the node a path (as findLocs builds it) leads to
func c07configAt(kids []*gen.SNode, path string) bool {
	cfg := true
	cur := kids
	for _, seg := range strings.Split(path, "/") {
		name := strings.SplitN(seg, "=", 2)[0]
		for _, s := range cur {
			if s.Name == name {
				cfg = cfg && !s.NonConfig
				cur = s.Kids
				break
			}
		}
	}
	return cfg
}

func c07listTargets(kids []*gen.SNode, body []*gen.DNode, prefix string, cfg bool, f func(path string, s *gen.SNode, rows []*gen.DRow, cfg bool)) {
	for i, s := range kids {
		d := body[i]
		c2 := cfg && !s.NonConfig
		switch s.Kind {
		case "cont":
			if d.Present {
				c07listTargets(s.Kids, d.Kids, prefix+s.Name+"/", c2, f)
			}
		case "list":
			if len(d.Rows) > 0 {
				f(prefix+s.Name, s, d.Rows, c2)
				for _, row := range d.Rows {
					var ks []string
					for _, k := range row.Key {
						ks = append(ks, escapeKey(k))
					}
					c07listTargets(s.Kids, row.Kids, prefix+s.Name+"="+strings.Join(ks, ",")+"/", c2, f)
				}
			}
		}
	}
}

// the text of an fc.range value against the Lean reader (Model/Window.lean parseRange) and the rows a window lets
// through against Model/Window rowsOf: NewListRange's StartRow / EndRow / error on every combination of up to three
// pieces from a pool (numbers, signs, 64-bit limits, blanks, letters, other digits) joined by '-', with and without '!';
// and a list of six entries read through every window 0..7 x -1..7
func c07windowText(c *core.Ctx) {
	pool := []string{"", "0", "1", "3", "007", "+4", "9223372036854775807", "9223372036854775808", "99999999999999999999", "x", "1x", " 1", "1 ", "+", "++1", "\u0663", "1_0", "0x10", "1e1"}
	var exprs []string
	for _, sel := range []string{"l", "a/l", ""} {
		for _, a := range pool {
			exprs = append(exprs, sel+"!"+a)
			for _, b := range pool {
				exprs = append(exprs, sel+"!"+a+"-"+b)
				if sel == "l" {
					for _, d := range []string{"", "2", "x"} {
						exprs = append(exprs, sel+"!"+a+"-"+b+"-"+d)
					}
				}
			}
		}
	}
	exprs = append(exprs, "", "l", "1-2", "l!1-2!3", "l!!1-2", "!", "!-", "!--", "l!-1", "l!-1-", "l!1-2-", "a;b!0-1", "a/(b;c)!2-")
	var lines, lib []string
	for _, e := range exprs {
		c.Evaluations++
		var res string
		if perr := safeDo(func() error {
			lr, err := node.NewListRange(e)
			if err != nil {
				res = "error"
			} else {
				res = fmt.Sprintf("%d %d", lr.StartRow, lr.EndRow)
			}
			return nil
		}); perr != nil {
			res = perr.Error()
		}
		switch {
		case res == "error":
			c.Count("window-text", "refused")
		case strings.HasSuffix(res, " -1"):
			c.Count("window-text", "open")
		default:
			c.Count("window-text", "closed")
		}
		lines = append(lines, "c07 window h"+core.Hex(e))
		lib = append(lib, res)
	}
	// the rows
	y := `module wr { namespace "urn:wr"; prefix wr; revision 2020-01-01; list l { key k; leaf k { type int32; } } }`
	m, err := parser.LoadModuleFromString(nil, y)
	if err != nil {
		c.Violation(core.Replay{Kind: "harness", Summary: "c07windowText module: " + err.Error(), NoInputFound: true})
		return
	}
	doc := `{"l":[{"k":0},{"k":1},{"k":2},{"k":3},{"k":4},{"k":5}]}`
	nText := len(lines)
	for st := 0; st <= 7; st++ {
		for en := -1; en <= 7; en++ {
			c.Evaluations++
			c.Count("window-text", "rows")
			w := fmt.Sprintf("!%d-%d", st, en)
			if en < 0 {
				w = fmt.Sprintf("!%d-", st)
			}
			var walked []string
			perr := safeDo(func() error {
				src, err := nodeutil.ReadJSON(doc)
				if err != nil {
					return err
				}
				sel, err := node.NewBrowser(m, src).Root().Find("l?fc.range=" + url.QueryEscape(w))
				if err != nil || sel == nil {
					return fmt.Errorf("find: %v", err)
				}
				item, err := sel.First()
				for ; err == nil && item.Selection != nil; item, err = item.Next() {
					walked = append(walked, item.Key[0].String())
					if len(walked) > 50 {
						return fmt.Errorf("walk does not end")
					}
				}
				return err
			})
			res := strings.TrimSpace("rows " + strings.Join(walked, " "))
			if perr != nil {
				res = perr.Error()
			}
			lines = append(lines, fmt.Sprintf("c07 rows %d %d 6", st, en))
			lib = append(lib, res)
		}
	}
	outs, derr := core.RunDriver(lines)
	if derr != nil {
		c.ProofBroken = append(c.ProofBroken, derr.Error())
		return
	}
	for i, o := range outs {
		model := strings.TrimSpace(o)
		if i < nText && strings.HasPrefix(model, "ok ") {
			f := strings.Fields(model)
			model = f[len(f)-2] + " " + f[len(f)-1]
		}
		if i%701 == 0 {
			c.Sample(map[string]string{"case": lines[i], "library": lib[i], "model": model})
		}
		if model != lib[i] {
			what := "rows visited through the window"
			in := interface{}(lines[i])
			if i < nText {
				what = fmt.Sprintf("NewListRange(%q) (start row, end row)", exprs[i])
				in = exprs[i]
			}
			c.Violation(core.Replay{Kind: "property-failure", Class: "window-text", Summary: fmt.Sprintf("%s: the library gives %q, the model of the window text (Model/Window) gives %q", what, lib[i], model), Input: in, Impl: lib[i], Model: model})
		}
	}
}
