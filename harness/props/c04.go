package props

import (
	"regexp"
	"bytes"
	"fmt"
	"strings"

	"verif/harness/core"
	"verif/harness/gen"
	"verif/harness/refstore"

	"github.com/freeconf/yang/meta"
	"github.com/freeconf/yang/node"
	"github.com/freeconf/yang/nodeutil"
	"github.com/freeconf/yang/val"
)

func init() { Registry["C04"] = C04 }

// canonical text of a leaf value as the library prints it
func c04canonLeaf(m *meta.Module, path []string, name string, isList bool, text string) (string, interface{}) {
	var cur meta.Definition
	var parent meta.Meta = m
	for _, p := range append(append([]string{}, path...), name) {
		cur = meta.Find(parent, p)
		if cur == nil {
			return text, text
		}
		parent = cur
	}
	lf, ok := cur.(meta.Leafable)
	if !ok {
		return text, text
	}
	var raw interface{} = text
	if isList {
		raw = strings.Split(text, "\x1e")
	}
	v, err := node.NewValue(lf.Type(), raw)
	if err != nil || v == nil {
		return "<unconvertible:" + text + ">", text
	}
	if l, isL := v.(val.Listable); isL {
		var parts []string
		for i := 0; i < l.Len(); i++ {
			parts = append(parts, refstore.ValText(l.Item(i)))
		}
		return strings.Join(parts, "\x1e"), v.Value()
	}
	if canon := refstore.ValText(v); c04intText.MatchString(text) && canon != text {
		// an integer literal is its own canonical text: the conversion on the way in turned it into another number
		c04canonIssues = append(c04canonIssues, fmt.Sprintf("leaf %s/%s of type %s: the value %s is taken in as %s", strings.Join(path, "/"), name, lf.Type().Ident(), text, canon))
	}
	return refstore.ValText(v), v.Value()
}

var c04intText = regexp.MustCompile(`^-?(0|[1-9][0-9]*)$`)
var c04canonIssues []string

func c04canonBody(m *meta.Module, sc *c15schema, kids []*gen.SNode, body []*gen.DNode, path []string) {
	for i, s := range kids {
		d := body[i]
		switch s.Kind {
		case "leaf":
			if d.Leaf != nil {
				t, _ := c04canonLeaf(m, path, s.Name, sc.lists[s.Name], *d.Leaf)
				d.Leaf = &t
			}
		case "cont":
			if d.Present {
				c04canonBody(m, sc, s.Kids, d.Kids, append(path, s.Name))
			}
		case "choice":
			for ci, cs := range s.Cases {
				c04canonBody(m, sc, cs.Kids, d.Cases[ci], path)
			}
		case "list":
			for _, row := range d.Rows {
				c04canonBody(m, sc, s.Kids, row.Kids, append(path, s.Name))
				if row.Kids[0].Leaf != nil {
					row.Key = []string{*row.Kids[0].Leaf}
				}
			}
		}
	}
}

// typed Go values for the reflection-backed sources
func c04toMap(m *meta.Module, sc *c15schema, kids []*gen.SNode, body []*gen.DNode, path []string) map[string]interface{} {
	out := map[string]interface{}{}
	for i, s := range kids {
		d := body[i]
		switch s.Kind {
		case "leaf":
			if d.Leaf != nil {
				_, gv := c04canonLeaf(m, path, s.Name, sc.lists[s.Name], *d.Leaf)
				out[s.Name] = gv
			}
		case "cont":
			if d.Present {
				out[s.Name] = c04toMap(m, sc, s.Kids, d.Kids, append(path, s.Name))
			}
		case "choice":
			for ci, cs := range s.Cases {
				for k, v := range c04toMap(m, sc, cs.Kids, d.Cases[ci], path) {
					out[k] = v
				}
			}
		case "list":
			if len(d.Rows) > 0 {
				var l []interface{}
				for _, row := range d.Rows {
					l = append(l, c04toMap(m, sc, s.Kids, row.Kids, append(path, s.Name)))
				}
				out[s.Name] = l
			}
		}
	}
	return out
}

func C04(c *core.Ctx) {
	c.Rule = "generated schemas with every built-in leaf type (incl. 64-bit extremes, decimal64, empty, enum, bits, identityref, union, leaf-lists), defaults, containers, keyed lists, nodes of an imported module × conforming trees; (a) export of the tree from the reference store, from reflection over maps and from nodeutil.Node into a fresh reference store, compared with the Lean editor model and the Spec 'data + defaults of created nodes'; (b) WriteJSON in 4 configurations (compact/pretty × qualified/unqualified) → the library's own JSON reader → upsert into a fresh store, compared with the original; the typed schemas contain leafrefs (to an enumeration, union, bits, identityref and string leaf; as leaves and leaf-lists), enumerations with names that need escaping or look like numbers; the first schema of every run holds every type once as leaf and once as leaf-list. non-trivial = tree with ≥1 list entry or nested container; distinct by (schema, tree, source, configuration)"
	c.Assumptions = append(c.Assumptions,
		"leaf values are compared in the canonical text the library prints for them (val.Value.String()), per element for leaf-lists",
		"reflection-backed sources hold the Go values the library itself stores (Value() of the typed value)")
	c.ProofStep("YangVerif.Props.C04")
	if c.Thorough() {
		c.LeanChecker("YangVerif.Props.C04")
	}
	rng := core.NewRng(c.Seed)
	ts := c15types()
	c15withDefaults = true
	defer func() { c15withDefaults = false }()
	var lines []string
	type pend struct {
		desc, impl string
		kids       []*gen.SNode
		input      map[string]interface{}
	}
	var pends []pend
	nSchemas := c.N(40, 1500)
	for si := 0; si < nSchemas; si++ {
		r := rng.Fork()
		c15seq = 0
		sc := &c15schema{types: map[string]c15type{}, lists: map[string]bool{}, mod: map[string]string{}}
		sc.kids = c15genKids(r, sc, ts, 0, 2+r.Intn(4), "m")
		if si == 0 {
			sc.kids = c15allTypesKids(sc, ts)
		}
		m, y, err := c15module(sc, ts)
		if err != nil {
			c.Violation(core.Replay{Kind: "harness", Summary: "C04 module does not load: " + err.Error(), Input: y, NoInputFound: true})
			return
		}
		for di := 0; di < c.N(5, 15)+map[bool]int{true: 25}[si == 0]; di++ {
			tree := c15data(r, sc, sc.kids, 45+r.Intn(50))
			c04canonIssues = nil
			c04canonBody(m, sc, sc.kids, tree, nil)
			for _, is := range c04canonIssues {
				c.Violation(core.Replay{Kind: "property-failure", Class: "value-changed-on-input", Summary: is, Input: map[string]interface{}{"yang": y}})
			}
			want := gen.Canon(sc.kids, tree, false)
			fkids, ftree := gen.Flatten(sc.kids, tree)
			modelLine := "data kids upsert ; " + strings.Join(gen.SchemaTokens(fkids), " ") + " ; " + strings.Join(gen.BodyTokens(fkids, ftree), " ") + " ; " + strings.Join(gen.BodyTokens(fkids, gen.EmptyBody(fkids)), " ")
			input := func(extra map[string]interface{}) map[string]interface{} {
				o := map[string]interface{}{"yang": y, "tree": want}
				for k, v := range extra {
					o[k] = v
				}
				return o
			}
			nontrivial := strings.Contains(want, "[") || strings.Count(want, "{") > 2
			// (a) export from each source implementation
			for _, srcKind := range []string{"refstore", "reflect-map", "node-map"} {
				var src node.Node
				switch srcKind {
				case "refstore":
					st := refstore.NewBody(nil, sc.kids, gen.Clone(tree), "")
					st.ListSep = "\x1e"
					src = st
				case "reflect-map":
					src = nodeutil.ReflectChild(c04toMap(m, sc, sc.kids, tree, nil))
				case "node-map":
					src = &nodeutil.Node{Object: c04toMap(m, sc, sc.kids, tree, nil)}
				}
				out := gen.EmptyBody(sc.kids)
				dst := refstore.NewBody(nil, sc.kids, out, "")
				dst.ListSep = "\x1e"
				err := safeDo(func() error { return node.NewBrowser(m, src).Root().UpsertInto(dst) })
				c.Evaluations++
				c.Count("export_source", srcKind)
				if nontrivial {
					c.Distinct(fmt.Sprint("export", si, di, srcKind))
				}
				got := errClass(err) + " " + gen.Canon(sc.kids, out, false)
				lines = append(lines, modelLine)
				pends = append(pends, pend{"export from " + srcKind, got, fkids, input(map[string]interface{}{"source_impl": srcKind, "exported": got})})
			}
			// (b) JSON round trip through the library's own writer and reader
			for cfg := 0; cfg < 4; cfg++ {
				pretty, qual := cfg&1 != 0, cfg&2 != 0
				st := refstore.NewBody(nil, sc.kids, gen.Clone(tree), "")
				st.ListSep = "\x1e"
				var buf bytes.Buffer
				w := &nodeutil.JSONWtr{Out: &buf, Pretty: pretty, QualifyNamespace: qual}
				werr := safeDo(func() error { return node.NewBrowser(m, st).Root().UpsertInto(w.Node()) })
				c.Evaluations++
				c.Count("json_config", fmt.Sprintf("pretty=%v qualified=%v", pretty, qual))
				desc := fmt.Sprintf("JSON round trip pretty=%v qualified=%v", pretty, qual)
				if werr != nil {
					c.Violation(core.Replay{Kind: "property-failure", Class: "json-write", Summary: desc + ": write failed: " + werr.Error(), Input: input(nil)})
					continue
				}
				out := gen.EmptyBody(sc.kids)
				dst := refstore.NewBody(nil, sc.kids, out, "")
				dst.ListSep = "\x1e"
				rerr := safeDo(func() error {
					n, err := nodeutil.ReadJSON(buf.String())
					if err != nil {
						return err
					}
					return node.NewBrowser(m, dst).Root().UpsertFrom(n)
				})
				got := errClass(rerr) + " " + gen.Canon(sc.kids, out, false)
				if nontrivial {
					c.Distinct(fmt.Sprint("json", si, di, cfg))
				}
				lines = append(lines, modelLine)
				pends = append(pends, pend{desc, got, fkids, input(map[string]interface{}{"json": buf.String(), "read_back": got})})
			}
		}
	}
	outs, err := core.RunDriver(lines)
	if err != nil {
		c.ProofBroken = append(c.ProofBroken, err.Error())
		return
	}
	for i, o := range outs {
		p := pends[i]
		parts := strings.SplitN(o, " | ", 2)
		if len(parts) != 2 || !strings.HasPrefix(parts[0], "ok ") {
			c.Count("driver", "bad:"+short(o))
			continue
		}
		body, perr := gen.ParseBody(p.kids, strings.Fields(strings.TrimPrefix(parts[0], "ok ")))
		if perr != nil {
			c.Count("driver", "parse:"+perr.Error())
			continue
		}
		want := "ok " + gen.Canon(p.kids, body, false)
		if i%311 == 0 {
			c.Sample(map[string]interface{}{"case": p.desc, "library": short(p.impl), "model": short(want)})
		}
		if p.impl != want {
			id := c04known(p.desc, p.impl, want)
			if id != "" && c.IsKnown(id, p.desc) {
				continue
			}
			c.Violation(core.Replay{Kind: "property-failure", Class: strings.Join(strings.Fields(p.desc)[:3], "-"),
				Summary: fmt.Sprintf("%s: library yields %s; the data present (with defaults of created nodes) is %s", p.desc, short(p.impl), short(want)),
				Input:   p.input, Impl: p.impl, Model: want})
		}
	}
}

func c04known(desc, impl, want string) string {
	return ""
}
