package props

import (
	"fmt"
	"sort"
	"strings"

	"github.com/freeconf/yang/meta"
	"github.com/freeconf/yang/val"
)

// DumpNode is the compiled schema as a user sees it through the public accessors.
type DumpNode struct {
	Path  string
	Kind  string
	Props map[string]string
	Kids  []*DumpNode
}

func (d *DumpNode) Lines() []string {
	var out []string
	var rec func(n *DumpNode)
	rec = func(n *DumpNode) {
		keys := make([]string, 0, len(n.Props))
		for k := range n.Props {
			keys = append(keys, k)
		}
		sort.Strings(keys)
		var sb strings.Builder
		fmt.Fprintf(&sb, "%s [%s]", n.Path, n.Kind)
		for _, k := range keys {
			fmt.Fprintf(&sb, " %s=%q", k, n.Props[k])
		}
		out = append(out, sb.String())
		for _, k := range n.Kids {
			rec(k)
		}
	}
	rec(d)
	return out
}

// Find returns the dumped node with the given path.
func (d *DumpNode) Find(path string) *DumpNode {
	if d.Path == path {
		return d
	}
	for _, k := range d.Kids {
		if f := k.Find(path); f != nil {
			return f
		}
	}
	return nil
}

type dumpOpts struct {
	types bool // include the effective type of leaves
	depth int
}

func dumpType(t *meta.Type, props map[string]string, prefix string, depth int) {
	if t == nil || depth > 4 {
		return
	}
	props[prefix+"type"] = t.Ident()
	props[prefix+"format"] = t.Format().String()
	var rs []string
	for _, r := range t.Range() {
		rs = append(rs, r.String())
	}
	if len(rs) > 0 {
		props[prefix+"range"] = strings.Join(rs, " & ")
	}
	rs = nil
	for _, r := range t.Length() {
		rs = append(rs, r.String())
	}
	if len(rs) > 0 {
		props[prefix+"length"] = strings.Join(rs, " & ")
	}
	rs = nil
	for _, p := range t.Patterns() {
		s := p.Pattern
		if p.Inverted() {
			s = "!" + s
		}
		rs = append(rs, s)
	}
	if len(rs) > 0 {
		props[prefix+"patterns"] = strings.Join(rs, " & ")
	}
	if f := t.Format().Single(); f == val.FmtEnum {
		rs = nil
		for _, e := range t.Enum() {
			rs = append(rs, fmt.Sprintf("%s=%d", e.Label, e.Id))
		}
		props[prefix+"enum"] = strings.Join(rs, ",")
	}
	if len(t.Bits()) > 0 {
		rs = nil
		for _, b := range t.Bits() {
			rs = append(rs, fmt.Sprintf("%s@%d", b.Ident(), b.Position))
		}
		props[prefix+"bits"] = strings.Join(rs, ",")
	}
	if len(t.Base()) > 0 {
		rs = nil
		for _, b := range t.Base() {
			rs = append(rs, b.Ident())
		}
		props[prefix+"base"] = strings.Join(rs, ",")
	}
	if t.FractionDigits() != 0 {
		props[prefix+"fraction-digits"] = fmt.Sprint(t.FractionDigits())
	}
	if t.Path() != "" {
		props[prefix+"path"] = t.Path()
	}
	for i, u := range t.Union() {
		dumpType(u, props, fmt.Sprintf("%su%d.", prefix, i), depth+1)
	}
	if f := t.Format().Single(); f == val.FmtLeafRef {
		func() {
			defer func() { recover() }()
			dumpType(t.Resolve(), props, prefix+"ref.", depth+1)
		}()
	}
}

// DumpModule walks the compiled module through the public accessors.
func DumpModule(m *meta.Module, types bool) *DumpNode {
	root := &DumpNode{Path: "/", Kind: "module", Props: map[string]string{"ident": m.Ident()}}
	dumpChildren(root, m, "", types, 0)
	return root
}

func dumpChildren(into *DumpNode, parent meta.Meta, path string, types bool, depth int) {
	if depth > 12 {
		return
	}
	if hd, ok := parent.(meta.HasDataDefinitions); ok {
		for _, d := range hd.DataDefinitions() {
			into.Kids = append(into.Kids, dumpDef(d, path, types, depth))
		}
	}
	if ha, ok := parent.(meta.HasActions); ok {
		var names []string
		for n := range ha.Actions() {
			names = append(names, n)
		}
		sort.Strings(names)
		for _, n := range names {
			a := ha.Actions()[n]
			an := &DumpNode{Path: path + "/" + n, Kind: "rpc", Props: map[string]string{}}
			if a.Input() != nil {
				in := &DumpNode{Path: path + "/" + n + "/input", Kind: "input", Props: map[string]string{}}
				dumpChildren(in, a.Input(), in.Path, types, depth+1)
				an.Kids = append(an.Kids, in)
			}
			if a.Output() != nil {
				out := &DumpNode{Path: path + "/" + n + "/output", Kind: "output", Props: map[string]string{}}
				dumpChildren(out, a.Output(), out.Path, types, depth+1)
				an.Kids = append(an.Kids, out)
			}
			into.Kids = append(into.Kids, an)
		}
	}
	if hn, ok := parent.(meta.HasNotifications); ok {
		var names []string
		for n := range hn.Notifications() {
			names = append(names, n)
		}
		sort.Strings(names)
		for _, n := range names {
			nn := &DumpNode{Path: path + "/" + n, Kind: "notification", Props: map[string]string{}}
			dumpChildren(nn, hn.Notifications()[n], nn.Path, types, depth+1)
			into.Kids = append(into.Kids, nn)
		}
	}
}

func dumpDef(d meta.Definition, path string, types bool, depth int) *DumpNode {
	n := &DumpNode{Path: path + "/" + d.Ident(), Props: map[string]string{}}
	switch x := d.(type) {
	case *meta.Container:
		n.Kind = "container"
	case *meta.List:
		n.Kind = "list"
		var ks []string
		for _, k := range x.KeyMeta() {
			ks = append(ks, k.Ident())
		}
		n.Props["key"] = strings.Join(ks, " ")
		if len(x.Unique()) > 0 {
			var us []string
			for _, u := range x.Unique() {
				us = append(us, strings.Join(u, " "))
			}
			n.Props["unique"] = strings.Join(us, "|")
		}
	case *meta.Leaf:
		n.Kind = "leaf"
	case *meta.LeafList:
		n.Kind = "leaf-list"
	case *meta.Choice:
		n.Kind = "choice"
	case *meta.Any:
		n.Kind = "any"
	default:
		n.Kind = fmt.Sprintf("%T", d)
	}
	if x, ok := d.(meta.Describable); ok {
		if x.Description() != "" {
			n.Props["description"] = x.Description()
		}
		if x.Reference() != "" {
			n.Props["reference"] = x.Reference()
		}
	}
	if x, ok := d.(meta.HasConfig); ok {
		n.Props["config"] = fmt.Sprint(x.Config())
	}
	if x, ok := d.(meta.HasMandatory); ok && x.Mandatory() {
		n.Props["mandatory"] = "true"
	}
	if x, ok := d.(meta.HasMinMax); ok {
		if x.IsMinElementsSet() {
			n.Props["min-elements"] = fmt.Sprint(x.MinElements())
		}
		if x.IsMaxElementsSet() {
			n.Props["max-elements"] = fmt.Sprint(x.MaxElements())
		}
	}
	if x, ok := d.(meta.HasMusts); ok && len(x.Musts()) > 0 {
		var ms []string
		for _, m := range x.Musts() {
			ms = append(ms, m.Expression())
		}
		n.Props["must"] = strings.Join(ms, " ;; ")
	}
	if x, ok := d.(meta.HasWhen); ok && x.When() != nil {
		n.Props["when"] = x.When().Expression()
	}
	if x, ok := d.(meta.HasPresence); ok && x.Presence() != "" {
		n.Props["presence"] = x.Presence()
	}
	if x, ok := d.(meta.HasUnits); ok && x.Units() != "" {
		n.Props["units"] = x.Units()
	}
	if x, ok := d.(meta.HasDefault); ok && x.HasDefault() {
		n.Props["default"] = fmt.Sprint(x.DefaultValue())
	}
	if x, ok := d.(meta.HasStatus); ok && x.Status() != meta.Current {
		n.Props["status"] = fmt.Sprint(x.Status())
	}
	if x, ok := d.(meta.HasOrderedBy); ok && x.OrderedBy() != 0 {
		n.Props["ordered-by"] = fmt.Sprint(x.OrderedBy())
	}
	if types {
		if x, ok := d.(meta.HasType); ok {
			dumpType(x.Type(), n.Props, "", 0)
		}
	}
	if ch, ok := d.(*meta.Choice); ok {
		for _, cid := range ch.CaseIdents() {
			c := ch.Cases()[cid]
			cn := &DumpNode{Path: n.Path + "/" + cid, Kind: "case", Props: map[string]string{}}
			dumpChildren(cn, c, cn.Path, types, depth+1)
			n.Kids = append(n.Kids, cn)
		}
		return n
	}
	dumpChildren(n, d, n.Path, types, depth+1)
	return n
}
