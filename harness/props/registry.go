package props

import "verif/harness/core"

// Registry maps a property id to its check.
var Registry = map[string]func(*core.Ctx){}
