package props

import (
	"fmt"
	"sort"
	"strings"

	"github.com/freeconf/yang/source"

	"verif/harness/core"

	"github.com/freeconf/yang/meta"
	"github.com/freeconf/yang/parser"
)

func init() { Registry["C11"] = C11 }

type fexpr struct {
	op   byte // 'f' '!' '&' '|'
	name string
	a, b *fexpr
}

func (e *fexpr) prefix() string {
	switch e.op {
	case 'f':
		return e.name
	case '!':
		return "! " + e.a.prefix()
	case '&':
		return "& " + e.a.prefix() + " " + e.b.prefix()
	}
	return "| " + e.a.prefix() + " " + e.b.prefix()
}

func (e *fexpr) eval(on map[string]bool) bool {
	switch e.op {
	case 'f':
		return on[e.name]
	case '!':
		return !e.a.eval(on)
	case '&':
		return e.a.eval(on) && e.b.eval(on)
	}
	return e.a.eval(on) || e.b.eval(on)
}

func prec(e *fexpr) int {
	switch e.op {
	case '|':
		return 1
	case '&':
		return 2
	case '!':
		return 3
	}
	return 4
}

// render with the parentheses precedence requires (style 0) or with every operand
// parenthesised and irregular blanks (style 1)
func (e *fexpr) render(style int) string {
	wrap := func(c *fexpr, need bool) string {
		s := c.render(style)
		if style == 1 && c.op != 'f' {
			need = true
		}
		if need {
			if style == 1 {
				return "( " + s + "  )"
			}
			return "(" + s + ")"
		}
		return s
	}
	switch e.op {
	case 'f':
		return e.name
	case '!':
		return "not " + wrap(e.a, prec(e.a) < 3)
	case '&':
		sep := " and "
		if style == 1 {
			sep = "  and "
		}
		// the RFC grammar is right-nested: a left operand that is itself an 'and' needs no parentheses semantically,
		// but we keep them out only where the textual form stays inside the grammar
		return wrap(e.a, prec(e.a) < 2) + sep + wrap(e.b, prec(e.b) < 2)
	}
	sep := " or "
	if style == 1 {
		sep = " or   "
	}
	return wrap(e.a, false) + sep + wrap(e.b, false)
}

func genExprs(k int, feats []string, memo map[int][]*fexpr) []*fexpr {
	if v, ok := memo[k]; ok {
		return v
	}
	var out []*fexpr
	if k == 0 {
		for _, f := range feats {
			out = append(out, &fexpr{op: 'f', name: f})
		}
	} else {
		for _, a := range genExprs(k-1, feats, memo) {
			out = append(out, &fexpr{op: '!', a: a})
		}
		for i := 0; i <= k-1; i++ {
			for _, a := range genExprs(i, feats, memo) {
				for _, b := range genExprs(k-1-i, feats, memo) {
					out = append(out, &fexpr{op: '&', a: a, b: b}, &fexpr{op: '|', a: a, b: b})
				}
			}
		}
	}
	memo[k] = out
	return out
}

func featureSetFor(on map[string]bool, all []string, style int) meta.FeatureSet {
	var onl, offl []string
	for _, f := range all {
		if on[f] {
			onl = append(onl, f)
		} else {
			offl = append(offl, f)
		}
	}
	switch style {
	case 0:
		return meta.FeaturesOn(onl)
	case 1:
		return meta.FeaturesOff(offl)
	}
	return meta.AllFeaturesOn()
}

// "a malformed expression is an error": wherever it stands and whether or not the configuration gets to evaluate it
func c11malformedAnywhere(c *core.Ctx) {
	hdr := "module mf { namespace \"urn:mf\"; prefix mf; revision 2020-01-01; feature a; feature b;\n"
	places := map[string]string{
		"below a node that is left out":       `container c { if-feature a; leaf l { if-feature "%s"; type string; } }`,
		"after an if-feature that is false":   `leaf l { if-feature a; if-feature "%s"; type string; }`,
		"in a grouping that is not used":      `grouping g { leaf l { if-feature "%s"; type string; } }`,
		"in a grouping used under a left-out": `grouping g { leaf l { if-feature "%s"; type string; } } container c { if-feature a; uses g; }`,
		"on a leaf":                           `leaf l { if-feature "%s"; type string; }`,
		"on a case":                           `choice ch { case k { if-feature "%s"; leaf kl { type string; } } leaf other { type string; } }`,
		"on a refine":                         `grouping g { leaf l { type string; } } uses g { refine l { if-feature "%s"; description "d"; } }`,
	}
	for place, tmpl := range places {
		for _, expr := range []string{"a or", "and b", "a b", "(a or b", "a or b)", "not", "a or or b", "()", "a and not"} {
			for cfg, fs := range map[string]meta.FeatureSet{"all on": meta.AllFeaturesOn(), "a off": meta.FeaturesOff([]string{"a"}), "all off": meta.FeaturesOff([]string{"a", "b"})} {
				y := hdr + fmt.Sprintf(tmpl, expr) + "\n}"
				var lerr error
				e := safeDo(func() error {
					_, lerr = parser.LoadModuleFromStringWithOptions(nil, y, parser.Options{Features: fs})
					return nil
				})
				c.Evaluations++
				c.Count("malformed_anywhere", place)
				c.Distinct("malformed " + place + expr + cfg)
				if e != nil || lerr == nil {
					c.Violation(core.Replay{Kind: "property-failure", Class: "malformed-not-an-error", Summary: fmt.Sprintf("if-feature %q %s, features %s: %v - a malformed expression is an error", expr, place, cfg, map[bool]interface{}{true: "the module loads", false: e}[e == nil]),
						Input: map[string]interface{}{"yang": y, "features": cfg}})
				}
			}
		}
	}
	// and the well-formed ones in the same places load
	for place, tmpl := range places {
		for _, expr := range []string{"a or b", "not a", "(a and b) or not b", "b"} {
			y := hdr + fmt.Sprintf(tmpl, expr) + "\n}"
			_, lerr := parser.LoadModuleFromStringWithOptions(nil, y, parser.Options{Features: meta.FeaturesOff([]string{"a"})})
			c.Evaluations++
			if lerr != nil {
				c.Violation(core.Replay{Kind: "property-failure", Class: "wellformed-refused", Summary: fmt.Sprintf("if-feature %q %s: %v", expr, place, lerr), Input: map[string]interface{}{"yang": y}})
			}
		}
	}
}

func C11(c *core.Ctx) {
	c11malformedAnywhere(c)
	c.Rule = "complete enumeration of if-feature ASTs with ≤K operators (K=3 quick, K=4 thorough) over features {a,b,c} × 2 renderings × all 8 assignments (allow-list and deny-list configurations alternating, all-on for the all-true assignment), packed 400 guarded leaves per module; every token sequence up to length L over {a,b,(,),and,or,not} as a malformed stream (L=4 quick sample, L=5 thorough); every guardable statement kind; one deviation of every kind, on nodes written in place and on one of two expansions of a grouping (the other expansion must not move); the statement-kind module imports a module with a feature of its own (which imports a third) and includes a submodule that declares a feature; refines/augments of feature-disabled targets; cases and shorthand cases added by an augment inside a uses; lookup by name of the nodes of removed cases; deviations of a choice's default and of cases. non-trivial = expression with ≥1 operator; distinct by (rendering, assignment); deviations with several deviate statements of one kind and of different kinds; nine malformed expressions in seven places (below a left-out node, after a false if-feature, in unused groupings, on a case, on a refine) under three configurations: always an error"
	c.Assumptions = append(c.Assumptions,
		"the Lean tokenizer model (blanks separate, parentheses are single tokens) is tied to the Go tokenizer only through the renderings generated here (regular and irregular blanks, parentheses with and without blanks)",
		"parseRFC (recursive-descent recogniser, Lean, not proved complete) labels token sequences as inside/outside the RFC 7950 grammar")
	c.ProofStep()
	if c.Thorough() {
		c.LeanChecker("YangVerif.Props.C11")
	}
	feats := []string{"a", "b", "c"}
	K := c.N(3, 4)
	memo := map[int][]*fexpr{}
	var exprs []*fexpr
	for k := 0; k <= K; k++ {
		exprs = append(exprs, genExprs(k, feats, memo)...)
	}
	c.Exhaustive = true
	c.ExhaustiveOf = append(c.ExhaustiveOf, fmt.Sprintf("all %d expressions with ≤%d operators over 3 features × 2 renderings × 8 assignments", len(exprs), K))
	type item struct {
		e     *fexpr
		style int
		text  string
	}
	var items []item
	for _, e := range exprs {
		for style := 0; style < 2; style++ {
			items = append(items, item{e, style, e.render(style)})
		}
	}
	const per = 400
	var lines []string
	type pend struct {
		text, prefix, impl string
		on                 string
	}
	var pends []pend
	for lo := 0; lo < len(items); lo += per {
		hi := lo + per
		if hi > len(items) {
			hi = len(items)
		}
		var y strings.Builder
		y.WriteString("module f { namespace \"urn:f\"; prefix f; revision 2020-01-01; feature a; feature b; feature c;\n")
		for i := lo; i < hi; i++ {
			fmt.Fprintf(&y, "leaf l%d { if-feature \"%s\"; type string; }\n", i, items[i].text)
		}
		y.WriteString("}\n")
		for mask := 0; mask < 8; mask++ {
			on := map[string]bool{"a": mask&1 != 0, "b": mask&2 != 0, "c": mask&4 != 0}
			style := (mask + lo/per) % 2
			if mask == 7 && (lo/per)%2 == 0 {
				style = 2
			}
			var onl []string
			for _, f := range feats {
				if on[f] {
					onl = append(onl, f)
				}
			}
			ons := strings.Join(onl, ",")
			if ons == "" {
				ons = "-"
			}
			m, err := parser.LoadModuleFromStringWithOptions(nil, y.String(), parser.Options{Features: featureSetFor(on, feats, style)})
			c.Count("feature_config", []string{"allow-list", "deny-list", "all-on"}[style])
			for i := lo; i < hi; i++ {
				impl := "err"
				if err == nil {
					if meta.Find(m, fmt.Sprintf("l%d", i)) != nil {
						impl = "1"
					} else {
						impl = "0"
					}
				}
				lines = append(lines, fmt.Sprintf("c11 ast %s ; %s %s", items[i].e.prefix(), core.Hex(items[i].text), ons))
				pends = append(pends, pend{items[i].text, items[i].e.prefix(), impl, ons})
			}
			if err != nil {
				c.Extra["load_error"] = err.Error()
			}
		}
	}
	outs, err := core.RunDriver(lines)
	if err != nil {
		c.ProofBroken = append(c.ProofBroken, err.Error())
		outs = nil
	}
	for i, o := range outs {
		c.Evaluations++
		parts := strings.Fields(o)
		if len(parts) != 2 {
			continue
		}
		model, spec := parts[0], parts[1]
		p := pends[i]
		if strings.ContainsAny(p.prefix, "!&|") {
			c.Distinct(p.text + "@" + p.on)
		}
		c.Count("spec", spec)
		if i%60011 == 0 {
			c.Sample(map[string]string{"if-feature": p.text, "enabled": p.on, "impl": p.impl, "model": model, "spec": spec})
		}
		if p.impl != spec {
			c.Violation(core.Replay{Kind: "property-failure", Class: "eval", Summary: fmt.Sprintf("if-feature %q with enabled {%s}: node present=%s, RFC 7950 meaning is %s", p.text, p.on, p.impl, spec),
				Input: map[string]string{"expr": p.text, "enabled": p.on}, Impl: p.impl, Model: model, Spec: spec})
		} else if p.impl != model {
			c.Disagree++
		}
	}
	if c.Disagree > 0 && c.Violations() == 0 {
		c.Violation(core.Replay{Kind: "correspondence", Summary: fmt.Sprintf("evaluator model and implementation disagree on %d evaluations", c.Disagree), Broken: "correspondence C11/eval", NoInputFound: true})
	}
	c11malformed(c)
	c11kinds(c)
	c11caseIndex(c)
	c11deviations(c)
}

func c11malformed(c *core.Ctx) {
	alphabet := []string{"a", "b", "(", ")", "and", "or", "not"}
	L := c.N(4, 5)
	var seqs [][]string
	var rec func(cur []string)
	rec = func(cur []string) {
		if len(cur) > 0 {
			seqs = append(seqs, append([]string{}, cur...))
		}
		if len(cur) == L {
			return
		}
		for _, t := range alphabet {
			rec(append(cur, t))
		}
	}
	rec(nil)
	rng := core.NewRng(c.Seed + 11)
	limit := c.N(1500, len(seqs))
	if limit < len(seqs) {
		// deterministic sample
		for i := len(seqs) - 1; i > 0; i-- {
			j := rng.Intn(i + 1)
			seqs[i], seqs[j] = seqs[j], seqs[i]
		}
		seqs = seqs[:limit]
	} else {
		c.ExhaustiveOf = append(c.ExhaustiveOf, fmt.Sprintf("all %d token sequences up to length %d", len(seqs), L))
	}
	var lines []string
	var impls, texts []string
	for _, s := range seqs {
		text := strings.Join(s, " ")
		if rng.Chance(30) {
			text = strings.ReplaceAll(strings.ReplaceAll(text, "( ", "("), " )", ")")
		}
		y := fmt.Sprintf("module f { namespace \"urn:f\"; prefix f; revision 2020-01-01; feature a; feature b; leaf l { if-feature \"%s\"; type string; } }", text)
		impl := func() (res string) {
			defer func() {
				if r := recover(); r != nil {
					res = "PANIC"
				}
			}()
			m, err := parser.LoadModuleFromStringWithOptions(nil, y, parser.Options{Features: meta.FeaturesOn([]string{"a"})})
			if err != nil {
				return "err"
			}
			if meta.Find(m, "l") != nil {
				return "1"
			}
			return "0"
		}()
		lines = append(lines, fmt.Sprintf("c11 eval %s a", core.Hex(text)))
		impls = append(impls, impl)
		texts = append(texts, text)
	}
	outs, err := core.RunDriver(lines)
	if err != nil {
		c.ProofBroken = append(c.ProofBroken, err.Error())
		return
	}
	dis := 0
	for i, o := range outs {
		c.Evaluations++
		parts := strings.Fields(o)
		if len(parts) != 2 {
			continue
		}
		model, spec := parts[0], parts[1]
		c.Count("malformed_stream_spec", spec)
		c.Distinct("tok:" + texts[i])
		if impls[i] != spec {
			c.Violation(core.Replay{Kind: "property-failure", Class: "malformed-" + spec + "-" + impls[i], Summary: fmt.Sprintf("if-feature %q (a enabled): library says %s, RFC 7950 grammar says %s", texts[i], impls[i], spec),
				Input: texts[i], Impl: impls[i], Model: model, Spec: spec})
		} else if impls[i] != model {
			dis++
		}
	}
	if dis > 0 {
		c.Disagree += dis
		if c.Violations() == 0 {
			c.Violation(core.Replay{Kind: "correspondence", Summary: fmt.Sprintf("malformed stream: model and implementation disagree on %d sequences", dis), Broken: "correspondence C11/malformed", NoInputFound: true})
		}
	}
}

// the modules the one below imports: features are declared in three modules of one load
const c11kindsGi = `module gi { namespace "urn:gi"; prefix gi; import gj { prefix gj; } revision 2020-01-01;
 feature k;
 grouping igrp { leaf il { if-feature k; type gj:t; } leaf im { type string; } leaf in { if-feature "k and f"; type string; } }
}`
const c11kindsGj = `module gj { namespace "urn:gj"; prefix gj; revision 2020-01-01;
 feature z;
 typedef t { type string; }
}`

const c11kindsGs = `submodule gs { belongs-to g { prefix g; }
 feature sf;
 leaf subl { if-feature sf; type string; } leaf subf { if-feature f; type string; }
}`

const c11kindsModule = `module g { namespace "urn:g"; prefix g; import gi { prefix gi; } include gs; revision 2020-01-01;
 feature f; feature h;
 leaf mainl { if-feature "sf and h"; type string; }
 grouping grp3 { leaf r1 { if-feature "not f"; type string; } leaf r2 { type string; } container rc { if-feature h; leaf in { type string; } } }
 container rr { uses grp3 { refine r1 { description "r1d"; } refine r2 { description "r2d"; } augment rc { leaf added { type string; } } } }
 grouping grpch { choice ch { leaf base { type string; } } }
 container ua { uses grpch { augment ch { case k { if-feature f; leaf kl { type string; } } leaf sh { if-feature f; type string; } leaf keep { type string; } case kh { leaf khl { if-feature h; type string; } leaf khk { type string; } } } } }
 container hc { if-feature h; leaf hl { type string; } }
 augment "/hc" { leaf ha { type string; } }
 container ig { uses gi:igrp; }
 grouping grp { leaf gl { type string; } leaf gl2 { type string; description "orig2"; } leaf gl3 { type string; description "orig3"; } }
 container c { if-feature f; leaf x { type string; } }
 list li { if-feature f; key k; leaf k { type string; } }
 leaf lf { if-feature f; type string; }
 leaf-list ll { if-feature f; type string; }
 choice ch { if-feature f; case c1 { leaf c1l { type string; } } }
 choice ch2 { case k1 { if-feature f; leaf k1l { type string; } } case k2 { leaf k2l { type string; } } }
 container u { uses grp { if-feature f; } }
 container r { uses grp { refine gl2 { if-feature f; description "refined2"; } refine gl3 { description "refined3"; } } }
 container t { leaf keep { type string; } }
 augment "/t" { if-feature f; leaf al { type string; } }
 container two { if-feature f; if-feature h; }
 leaf pf1 { if-feature "g:f"; type string; } leaf pf2 { if-feature "gi:k and g:h"; type string; } leaf pf3 { if-feature "not gi:k"; type string; }
 leaf ws1 { if-feature "f	and
   h"; type string; } leaf ws2 { if-feature "(f
 or h)	and not sf"; type string; }
 container two2 { if-feature "f or h"; if-feature "sf"; } leaf two3 { if-feature "sf"; if-feature "f or h"; type string; } leaf two4 { if-feature "not f or h"; if-feature "sf or f"; if-feature "not (sf and h)"; type string; }
 choice ch3 { case a3 { leaf a3l { type string; } } case b3 { if-feature f; leaf b3l { type string; } } case z3 { uses grp; container z3c { leaf zz { if-feature h; type string; } leaf zk { type string; } } } }
 grouping grp2 { container gc { leaf in { type string; } } }
 container box { choice kind { case wood { leaf knots { if-feature f; type string; } leaf w { type string; } } leaf short { if-feature h; type string; } case deep { choice inner { leaf il { if-feature f; type string; } leaf ik { type string; } } } } }
 choice ch4 { case a4 { leaf a4g { if-feature f; type string; } leaf a4k { type string; } } }
 container ub { uses grp2 { augment "gc" { if-feature f; leaf ubl { type string; } } augment "gc" { if-feature "not f"; leaf ubn { type string; } } augment "gc" { leaf ubk { type string; } } } }
}`

// every guardable statement kind, feature on and off
func c11kinds(c *core.Ctx) {
	for cfg := 0; cfg < 16; cfg++ {
		{
			fOn, hOn, kOn, sOn := cfg&1 == 0, cfg&2 == 0, cfg&4 == 0, cfg&8 == 0
			var on []string
			if fOn {
				on = append(on, "f")
			}
			if hOn {
				on = append(on, "h")
			}
			if kOn {
				on = append(on, "k")
			}
			if sOn {
				on = append(on, "sf")
			}
			opener := source.Any(source.Named("g", strings.NewReader(c11kindsModule)), source.Named("gi", strings.NewReader(c11kindsGi)), source.Named("gj", strings.NewReader(c11kindsGj)), source.Named("gs", strings.NewReader(c11kindsGs)))
			m, err := parser.LoadModuleWithOptions(opener, "g", parser.Options{Features: meta.FeaturesOn(on)})
			if err != nil {
				c.Violation(core.Replay{Kind: "property-failure", Class: "kinds-load", Summary: fmt.Sprintf("module with if-feature on every statement kind fails to load with features %v: %v", on, err), Input: c11kindsModule})
				return
			}
			d := DumpModule(m, false)
			expect := map[string]bool{ // path -> present
				"/c": fOn, "/li": fOn, "/lf": fOn, "/ll": fOn, "/ch": fOn, "/ch2/k1": fOn, "/ch2/k2": true,
				"/u/gl": fOn, "/r/gl2": true, "/r/gl3": true, "/t/keep": true, "/t/al": fOn, "/two": fOn && hOn,
				// several if-feature statements on one node: each is an expression of its own, all must hold
				// names with the prefix of the module itself or of an imported module; tabs and line breaks between the words
				"/pf1": fOn, "/pf2": kOn && hOn, "/pf3": !kOn, "/ws1": fOn && hOn, "/ws2": (fOn || hOn) && !sOn,
				"/two2": (fOn || hOn) && sOn, "/two3": sOn && (fOn || hOn), "/two4": (!fOn || hOn) && (sOn || fOn) && !(sOn && hOn),
				// a case behind a feature-disabled case is still resolved: its uses is expanded, its own guards apply
				"/ch3/a3/a3l": true, "/ch3/b3": fOn, "/ch3/z3/gl": true, "/ch3/z3/gl2": true, "/ch3/z3/z3c/zz": hOn, "/ch3/z3/z3c/zk": true,
				// if-feature on an augment inside a uses
				"/ub/gc/in": true, "/ub/gc/ubl": fOn, "/ub/gc/ubn": !fOn, "/ub/gc/ubk": true,
				// a grouping of an imported module guarded by that module's feature
				"/ig/il": kOn, "/ig/im": true, "/ig/in": kOn && fOn,
				// a feature declared in a submodule is a feature of the module
				"/subl": sOn, "/subf": fOn, "/mainl": sOn && hOn,
				// refines and augments whose target a false feature left out have nothing to do; the others still apply
				// cases and shorthand cases that an augment inside a uses adds to a choice
				"/ua/ch/base/base": true, "/ua/ch/k": fOn, "/ua/ch/k/kl": fOn, "/ua/ch/sh": fOn, "/ua/ch/sh/sh": fOn, "/ua/ch/keep/keep": true, "/ua/ch/kh/khl": hOn, "/ua/ch/kh/khk": true,
				// a guarded node inside a case that is written in place, a guarded shorthand case, a choice in a case
				"/box/kind/wood/knots": fOn, "/box/kind/wood/w": true, "/box/kind/short": hOn, "/box/kind/short/short": hOn,
				"/box/kind/deep/inner/il/il": fOn, "/box/kind/deep/inner/ik/ik": true, "/ch4/a4/a4g": fOn, "/ch4/a4/a4k": true,
				"/rr/r1": !fOn, "/rr/r2": true, "/rr/rc": hOn, "/rr/rc/added": hOn, "/hc": hOn, "/hc/ha": hOn,
			}
			paths := make([]string, 0, len(expect))
			for p := range expect {
				paths = append(paths, p)
			}
			sort.Strings(paths)
			for _, p := range paths {
				c.Evaluations++
				c.Count("statement_kind", p)
				c.Distinct(fmt.Sprint("kind", p, on))
				got := d.Find(p) != nil
				if got != expect[p] {
					c.Violation(core.Replay{Kind: "property-failure", Class: "kind-" + p, Summary: fmt.Sprintf("features %v: node %s present=%v, want %v", on, p, got, expect[p]), Input: map[string]interface{}{"module": c11kindsModule, "features": on}})
				}
			}
			// the nodes of a case are found by name from the node that holds the choice - exactly when they are there
			for data, present := range map[string]bool{"k1l": fOn, "k2l": true, "b3l": fOn, "a3l": true, "zz": false, "ua/kl": fOn, "ua/sh": fOn, "ua/keep": true, "ua/khl": hOn, "ua/khk": true, "ua/base": true, "c1l": fOn,
				"box/knots": fOn, "box/w": true, "box/short": hOn, "box/il": fOn, "box/ik": true, "a4g": fOn, "a4k": true} {
				c.Evaluations++
				var got bool
				if perr := safeDo(func() error { got = meta.Find(m, data) != nil; return nil }); perr != nil {
					c.Violation(core.Replay{Kind: "property-failure", Class: "find-in-case", Summary: fmt.Sprintf("features %v: meta.Find(%q): %v", on, data, perr), Input: c11kindsModule})
				} else if got != present {
					c.Violation(core.Replay{Kind: "property-failure", Class: "find-in-case-" + data, Summary: fmt.Sprintf("features %v: meta.Find(%q) found=%v, the node is present=%v", on, data, got, present), Input: map[string]interface{}{"module": c11kindsModule, "features": on}})
				}
			}
			// refine guarded by a false feature leaves the description, the refine after it still applies
			if n := d.Find("/r/gl2"); n != nil {
				want := "orig2"
				if fOn {
					want = "refined2"
				}
				c.Evaluations++
				if n.Props["description"] != want {
					c.Violation(core.Replay{Kind: "property-failure", Class: "refine-guard", Summary: fmt.Sprintf("features %v: refine gl2 description %q, want %q", on, n.Props["description"], want), Input: c11kindsModule})
				}
			}
			if n := d.Find("/rr/r2"); n != nil {
				c.Evaluations++
				if n.Props["description"] != "r2d" {
					c.Violation(core.Replay{Kind: "property-failure", Class: "refine-after-missing", Summary: fmt.Sprintf("features %v: refine r2 (after a refine of a node a feature left out) description %q, want \"r2d\"", on, n.Props["description"]), Input: c11kindsModule})
				}
			}
			if n := d.Find("/r/gl3"); n != nil {
				c.Evaluations++
				if n.Props["description"] != "refined3" {
					c.Violation(core.Replay{Kind: "property-failure", Class: "refine-after-guard", Summary: fmt.Sprintf("features %v: refine gl3 (after a guarded refine) description %q, want \"refined3\"", on, n.Props["description"]), Input: c11kindsModule})
				}
			}
		}
	}
}

const c11devBase = `module d { namespace "urn:d"; prefix d; revision 2020-01-01;
 container top {
   leaf a { type string; units "kg"; default "x"; must "../b"; must "../c"; must "../ll"; }
   leaf b { type int32; config true; mandatory false; }
   leaf c { type string; }
   leaf-list ll { type string; min-elements 1; max-elements 5; }
   list li { key k; unique "u1"; unique "u3"; leaf k { type string; } leaf u1 { type string; } leaf u2 { type string; } leaf u3 { type string; } }
   container sub { leaf z { type string; } }
 }
 rpc op { input { leaf i { type string; } } }
 notification ev { leaf n { type string; } }
 grouping g {
   leaf ga { type string; units "kg"; default "x"; must "../gb"; must "../gc"; must "../gl"; }
   leaf gb { type int32; }
   leaf gc { type string; }
   leaf-list gll { type string; min-elements 1; max-elements 5; }
   list gl { key k; unique "u1"; unique "u2 u3"; unique "u4"; leaf k { type string; } leaf u1 { type string; } leaf u2 { type string; } leaf u3 { type string; } leaf u4 { type string; } }
 }
 container one { uses g; }
 container two { uses g; }
 container uu { list gu { key k; unique "b a"; unique "c"; unique "d b"; leaf k { type string; } leaf a { type string; } leaf b { type string; } leaf c { type string; } leaf d { type string; } } }
 choice pick { default p1; case p1 { leaf pl1 { type string; } } case p2 { leaf pl2 { type string; } container pc2 { leaf in { type string; } } } }
 choice nodef { case n1 { leaf nl1 { type string; } } leaf nl2 { type string; } }
 container mm { leaf-list onlymin { type string; min-elements 1; } leaf-list onlymax { type string; max-elements 5; } list lmin { key k; min-elements 1; leaf k { type string; } } list lmax { key k; max-elements 5; leaf k { type string; } } }
 %s
}`

// one deviation of every kind; only the named property of the target may change
func c11deviations(c *core.Ctx) {
	base, err := parser.LoadModuleFromString(nil, fmt.Sprintf(c11devBase, ""))
	if err != nil {
		c.Violation(core.Replay{Kind: "harness", Summary: "deviation base module: " + err.Error(), NoInputFound: true})
		return
	}
	baseLines := DumpModule(base, true).Lines()
	type dev struct {
		stmt    string
		target  string            // dump path
		removed bool              // not-supported
		change  map[string]string // prop -> expected value ("" = absent)
	}
	devs := []dev{
		// targets that are one of two expansions of a grouping: the other expansion (and the grouping's other uses) must not move
		{`deviation /one/gl { deviate delete { unique "u1"; } }`, "/one/gl", false, map[string]string{"unique": "u2 u3|u4"}},
		{`deviation /one/gl { deviate delete { unique "u2 u3"; } }`, "/one/gl", false, map[string]string{"unique": "u1|u4"}},
		{`deviation /two/gl { deviate delete { unique "u4"; } }`, "/two/gl", false, map[string]string{"unique": "u1|u2 u3"}},
		{`deviation /one/gl { deviate add { unique "k u4"; } }`, "/one/gl", false, map[string]string{"unique": "u1|u2 u3|u4|k u4"}},
		{`deviation /one/gl { deviate add { max-elements 3; } }`, "/one/gl", false, map[string]string{"max-elements": "3"}},
		{`deviation /two/ga { deviate delete { must "../gb"; } }`, "/two/ga", false, map[string]string{"must": "../gc ;; ../gl"}},
		{`deviation /one/ga { deviate delete { must "../gc"; must "../gl"; } }`, "/one/ga", false, map[string]string{"must": "../gb"}},
		{`deviation /one/ga { deviate add { must "../gll"; } }`, "/one/ga", false, map[string]string{"must": "../gb ;; ../gc ;; ../gl ;; ../gll"}},
		{`deviation /one/ga { deviate replace { units "g"; } }`, "/one/ga", false, map[string]string{"units": "g"}},
		{`deviation /two/ga { deviate delete { default "x"; } }`, "/two/ga", false, map[string]string{"default": ""}},
		{`deviation /one/ga { deviate replace { type int8; } }`, "/one/ga", false, map[string]string{"type": "int8", "format": "int8"}},
		{`deviation /two/gll { deviate replace { max-elements 9; } }`, "/two/gll", false, map[string]string{"max-elements": "9"}},
		{`deviation /one/gb { deviate add { default "4"; } }`, "/one/gb", false, map[string]string{"default": "4"}},
		{`deviation /one/gl { deviate not-supported; }`, "/one/gl", true, nil},
		// add is legal for the property the target does not state yet, whatever else it states
		{`deviation /mm/onlymin { deviate add { max-elements 4; } }`, "/mm/onlymin", false, map[string]string{"max-elements": "4"}},
		{`deviation /mm/onlymax { deviate add { min-elements 2; } }`, "/mm/onlymax", false, map[string]string{"min-elements": "2"}},
		{`deviation /mm/lmin { deviate add { max-elements 4; } }`, "/mm/lmin", false, map[string]string{"max-elements": "4"}},
		{`deviation /mm/lmax { deviate add { min-elements 2; } }`, "/mm/lmax", false, map[string]string{"min-elements": "2"}},
		{`deviation /mm/onlymax { deviate replace { max-elements 9; } }`, "/mm/onlymax", false, map[string]string{"max-elements": "9"}},
		{`deviation /mm/lmin { deviate replace { min-elements 3; } }`, "/mm/lmin", false, map[string]string{"min-elements": "3"}},
		{`deviation /top/c { deviate not-supported; }`, "/top/c", true, nil},
		{`deviation /top/sub { deviate not-supported; }`, "/top/sub", true, nil},
		{`deviation /op { deviate not-supported; }`, "/op", true, nil},
		{`deviation /ev { deviate not-supported; }`, "/ev", true, nil},
		{`deviation /top/c { deviate add { units "m"; } }`, "/top/c", false, map[string]string{"units": "m"}},
		{`deviation /top/c { deviate add { default "dd"; } }`, "/top/c", false, map[string]string{"default": "dd"}},
		{`deviation /top/c { deviate add { must "../a"; } }`, "/top/c", false, map[string]string{"must": "../a"}},
		{`deviation /top/c { deviate add { config false; } }`, "/top/c", false, map[string]string{"config": "false"}},
		{`deviation /top/c { deviate add { mandatory true; } }`, "/top/c", false, map[string]string{"mandatory": "true"}},
		{`deviation /top/li { deviate add { unique "u2"; } }`, "/top/li", false, map[string]string{"unique": "u1|u3|u2"}},
		{`deviation /top/li { deviate add { max-elements 7; } }`, "/top/li", false, map[string]string{"max-elements": "7"}},
		{`deviation /top/li { deviate add { min-elements 2; } }`, "/top/li", false, map[string]string{"min-elements": "2"}},
		{`deviation /top/a { deviate replace { units "g"; } }`, "/top/a", false, map[string]string{"units": "g"}},
		{`deviation /top/a { deviate replace { default "y"; } }`, "/top/a", false, map[string]string{"default": "y"}},
		{`deviation /top/a { deviate replace { type int8; } }`, "/top/a", false, map[string]string{"type": "int8", "format": "int8"}},
		{`deviation /top/b { deviate replace { config false; } }`, "/top/b", false, map[string]string{"config": "false"}},
		{`deviation /top/b { deviate replace { mandatory true; } }`, "/top/b", false, map[string]string{"mandatory": "true"}},
		{`deviation /top/ll { deviate replace { max-elements 9; } }`, "/top/ll", false, map[string]string{"max-elements": "9"}},
		{`deviation /top/ll { deviate replace { min-elements 2; } }`, "/top/ll", false, map[string]string{"min-elements": "2"}},
		{`deviation /top/a { deviate delete { units "kg"; } }`, "/top/a", false, map[string]string{"units": ""}},
		{`deviation /top/a { deviate delete { default "x"; } }`, "/top/a", false, map[string]string{"default": ""}},
		{`deviation /top/a { deviate delete { must "../b"; } }`, "/top/a", false, map[string]string{"must": "../c ;; ../ll"}},
		{`deviation /top/a { deviate delete { must "../c"; } }`, "/top/a", false, map[string]string{"must": "../b ;; ../ll"}},
		{`deviation /top/a { deviate delete { must "../ll"; } }`, "/top/a", false, map[string]string{"must": "../b ;; ../c"}},
		{`deviation /top/a { deviate delete { must "../b"; must "../ll"; } }`, "/top/a", false, map[string]string{"must": "../c"}},
		{`deviation /top/a { deviate add { must "../sub"; } }`, "/top/a", false, map[string]string{"must": "../b ;; ../c ;; ../ll ;; ../sub"}},
		{`deviation /top/li { deviate delete { unique "u1"; } }`, "/top/li", false, map[string]string{"unique": "u3"}},
		{`deviation /top/li { deviate delete { unique "u3"; } }`, "/top/li", false, map[string]string{"unique": "u1"}},
		// the unique statements that stay keep the order of their leaves
		{`deviation /uu/gu { deviate delete { unique "c"; } }`, "/uu/gu", false, map[string]string{"unique": "b a|d b"}},
		{`deviation /uu/gu { deviate delete { unique "a b"; } }`, "/uu/gu", false, map[string]string{"unique": "c|d b"}},
		// two deviations in one module, one on each copy of a grouping's list: each copy gets its own
		{`deviation /one/gl { deviate add { unique "k u4"; } } deviation /two/gl { deviate add { unique "k u1"; } }`, "/one/gl", false, map[string]string{"unique": "u1|u2 u3|u4|k u4"}},
		{`deviation /two/gl { deviate add { unique "k u1"; } } deviation /one/gl { deviate add { unique "k u4"; } }`, "/one/gl", false, map[string]string{"unique": "u1|u2 u3|u4|k u4"}},
		{`deviation /one/gl { deviate add { unique "k u4"; } } deviation /two/gl { deviate add { unique "k u1"; } }`, "/two/gl", false, map[string]string{"unique": "u1|u2 u3|u4|k u1"}},
		// several deviate statements of one kind in one deviation: each of them counts
		{`deviation /top/c { deviate add { units "m"; } deviate add { default "dd"; } }`, "/top/c", false, map[string]string{"units": "m", "default": "dd"}},
		{`deviation /top/c { deviate add { default "dd"; } deviate add { units "m"; } deviate add { must "../a"; } }`, "/top/c", false, map[string]string{"units": "m", "default": "dd", "must": "../a"}},
		{`deviation /top/a { deviate replace { units "g"; } deviate replace { default "y"; } }`, "/top/a", false, map[string]string{"units": "g", "default": "y"}},
		{`deviation /top/a { deviate delete { must "../b"; } deviate delete { must "../ll"; } }`, "/top/a", false, map[string]string{"must": "../c"}},
		{`deviation /top/a { deviate delete { units "kg"; } deviate replace { default "y"; } deviate add { must "../sub"; } }`, "/top/a", false, map[string]string{"units": "", "default": "y", "must": "../b ;; ../c ;; ../ll ;; ../sub"}},
		// the default of a choice; a case as the target of not-supported
		{`deviation /pick { deviate replace { default p2; } }`, "/pick", false, map[string]string{"default": "p2"}},
		{`deviation /pick { deviate delete { default p1; } }`, "/pick", false, map[string]string{"default": ""}},
		{`deviation /nodef { deviate add { default nl2; } }`, "/nodef", false, map[string]string{"default": "nl2"}},
		{`deviation /pick/p2 { deviate not-supported; }`, "/pick/p2", true, nil},
		{`deviation /nodef/nl2 { deviate not-supported; }`, "/nodef/nl2", true, nil},
		{`deviation /pick/p2/pl2 { deviate not-supported; }`, "/pick/p2/pl2", true, nil},
	}
	baseDump := DumpModule(base, true)
	for _, dv := range devs {
		c.Evaluations++
		c.Count("deviation", strings.Fields(dv.stmt)[4])
		c.Distinct("dev:" + dv.stmt)
		res := func() (res string) {
			defer func() {
				if r := recover(); r != nil {
					res = fmt.Sprintf("PANIC: %v", r)
				}
			}()
			m, err := parser.LoadModuleFromString(nil, fmt.Sprintf(c11devBase, dv.stmt))
			if err != nil {
				return "load error: " + err.Error()
			}
			d := DumpModule(m, true)
			// frame: every line of the base dump that is not the target (or below it) is unchanged
			got := map[string]bool{}
			for _, l := range d.Lines() {
				got[l] = true
			}
			for _, l := range baseLines {
				path := strings.SplitN(l, " ", 2)[0]
				if path == dv.target || strings.HasPrefix(path, dv.target+"/") {
					continue
				}
				// a statement with two deviations names a second target
				second := false
				for _, f := range strings.Split(dv.stmt, "deviation ")[1:] {
					if t := strings.Fields(f)[0]; path == t || strings.HasPrefix(path, t+"/") {
						second = true
					}
				}
				if second {
					continue
				}
				if !got[l] {
					return "frame violated: base line changed or lost: " + l
				}
			}
			t := d.Find(dv.target)
			if dv.removed {
				if t != nil {
					return "target still present"
				}
				// ... and not found by name from the node that holds it either
				for _, name := range map[string][]string{"/pick/p2": {"pl2", "pc2"}, "/nodef/nl2": {"nl2"}, "/pick/p2/pl2": {"pl2"}, "/top/c": {"top/c"}, "/top/sub": {"top/sub"}, "/one/gl": {"one/gl"}}[dv.target] {
					if meta.Find(m, name) != nil {
						return fmt.Sprintf("target removed from the tree, but meta.Find(%q) still finds it", name)
					}
				}
				return ""
			}
			if t == nil {
				return "target disappeared"
			}
			bt := baseDump.Find(dv.target)
			for k, v := range t.Props {
				want, changed := dv.change[k]
				if !changed {
					want = bt.Props[k]
				}
				if v != want {
					return fmt.Sprintf("property %s = %q, want %q", k, v, want)
				}
			}
			for k, want := range dv.change {
				if want != "" && t.Props[k] != want {
					return fmt.Sprintf("property %s = %q, want %q", k, t.Props[k], want)
				}
			}
			for k := range bt.Props {
				if _, ok := t.Props[k]; !ok {
					if want, changed := dv.change[k]; !(changed && want == "") {
						return fmt.Sprintf("property %s lost", k)
					}
				}
			}
			return ""
		}()
		if res != "" {
			id := "dev-" + strings.Join(strings.Fields(dv.stmt)[4:6], "-")
			if c.IsKnown(id, dv.stmt+": "+res) {
				continue
			}
			c.Violation(core.Replay{Kind: "property-failure", Class: id, Summary: fmt.Sprintf("%s: %s", dv.stmt, res), Input: fmt.Sprintf(c11devBase, dv.stmt)})
		}
	}
}

// generated choices whose cases (explicit and shorthand) hold nodes guarded by f, h, "not f" or nothing, under the four
// configurations of f and h: the cases that remain and the names by which the holder of the choice reaches their nodes,
// against Model/CaseIndex.lean (enterChoice, holderIndex)
func c11caseIndex(c *core.Ctx) {
	rng := core.NewRng(c.Seed + 1111)
	guards := []string{"", "f", "h", "not f", "f and h", "f or h"}
	holds := func(g string, f, h bool) bool {
		switch g {
		case "f":
			return f
		case "h":
			return h
		case "not f":
			return !f
		case "f and h":
			return f && h
		case "f or h":
			return f || h
		}
		return true
	}
	type cnode struct{ name, guard string }
	type ccase struct {
		name    string
		implied bool
		nodes   []cnode
	}
	var lines, lib, descs []string
	var inputs []interface{}
	for ci := 0; ci < c.N(30, 400); ci++ {
		r := rng.Fork()
		var cases []ccase
		seq := 0
		for k := 0; k < 1+r.Intn(4); k++ {
			seq++
			if r.Chance(40) {
				n := fmt.Sprintf("s%d", seq)
				cases = append(cases, ccase{n, true, []cnode{{n, core.Pick(r, guards)}}})
				continue
			}
			cs := ccase{name: fmt.Sprintf("k%d", seq)}
			for j, nn := 0, 1+r.Intn(3); j < nn; j++ {
				seq++
				cs.nodes = append(cs.nodes, cnode{fmt.Sprintf("n%d", seq), core.Pick(r, guards)})
			}
			cases = append(cases, cs)
		}
		var y strings.Builder
		holder := core.Pick(r, []string{"container", "list", "module"})
		y.WriteString("module ci { namespace \"urn:ci\"; prefix ci; revision 2020-01-01; feature f; feature h;\n")
		switch holder {
		case "container":
			y.WriteString(" container box { leaf before { type string; }\n")
		case "list":
			y.WriteString(" list box { key before; leaf before { type string; }\n")
		default:
			y.WriteString(" leaf before { type string; }\n")
		}
		y.WriteString("  choice kind {\n")
		for _, cs := range cases {
			wr := func(n cnode) {
				g := ""
				if n.guard != "" {
					g = fmt.Sprintf("if-feature %q; ", n.guard)
				}
				fmt.Fprintf(&y, "    leaf %s { %stype string; }\n", n.name, g)
			}
			if cs.implied {
				wr(cs.nodes[0])
				continue
			}
			fmt.Fprintf(&y, "   case %s {\n", cs.name)
			for _, n := range cs.nodes {
				wr(n)
			}
			y.WriteString("   }\n")
		}
		y.WriteString("  }\n leaf after { type string; }\n")
		if holder != "module" {
			y.WriteString(" }\n")
		}
		y.WriteString("}\n")
		for cfg := 0; cfg < 4; cfg++ {
			fOn, hOn := cfg&1 == 1, cfg&2 == 2
			var on []string
			if fOn {
				on = append(on, "f")
			}
			if hOn {
				on = append(on, "h")
			}
			c.Evaluations++
			c.Count("case-index", holder)
			c.Distinct(fmt.Sprint("caseindex", ci, cfg))
			line := []string{"c11", "caseindex", fmt.Sprint(len(cases))}
			for _, cs := range cases {
				line = append(line, cs.name, map[bool]string{true: "1", false: "0"}[cs.implied], fmt.Sprint(len(cs.nodes)))
				for _, n := range cs.nodes {
					line = append(line, n.name, map[bool]string{true: "1", false: "0"}[holds(n.guard, fOn, hOn)])
				}
			}
			var res string
			perr := safeDo(func() error {
				m, err := parser.LoadModuleFromStringWithOptions(nil, y.String(), parser.Options{Features: meta.FeaturesOn(on)})
				if err != nil {
					return fmt.Errorf("valid module does not load: %v", err)
				}
				var h meta.HasDataDefinitions = m
				if holder != "module" {
					h = meta.Find(m, "box").(meta.HasDataDefinitions)
				}
				var ch *meta.Choice
				for _, d := range h.DataDefinitions() {
					if x, ok := d.(*meta.Choice); ok {
						ch = x
					}
				}
				if ch == nil {
					return fmt.Errorf("the choice is gone")
				}
				// cases in the order they are written
				have := map[string]bool{}
				for _, id := range ch.CaseIdents() {
					have[id] = true
				}
				var cn, idx []string
				for _, cs := range cases {
					if have[cs.name] {
						cn = append(cn, cs.name)
					}
				}
				if len(cn) != len(have) {
					return fmt.Errorf("cases %v, some of which the module does not write", ch.CaseIdents())
				}
				for _, cs := range cases {
					for _, n := range cs.nodes {
						byName := h.(meta.HasDefinitions).Definition(n.name) != nil
						inCase := have[cs.name] && ch.Cases()[cs.name].DataDefinition(n.name) != nil
						byFind := meta.Find(h.(meta.HasDefinitions), n.name) != nil
						if byName != inCase || byName != byFind {
							return fmt.Errorf("node %s: by name from the holder %v, by meta.Find %v, in its case %v", n.name, byName, byFind, inCase)
						}
						if byName {
							idx = append(idx, n.name)
						}
					}
				}
				if h.(meta.HasDefinitions).Definition("before") == nil || h.(meta.HasDefinitions).Definition("after") == nil {
					return fmt.Errorf("the siblings of the choice are not reachable by name")
				}
				res = "cases " + strings.Join(cn, ",") + " index " + strings.Join(idx, ",")
				return nil
			})
			if perr != nil {
				res = perr.Error()
			}
			lines = append(lines, strings.Join(line, " "))
			lib = append(lib, res)
			descs = append(descs, fmt.Sprintf("choice in a %s, features %v", holder, on))
			inputs = append(inputs, map[string]interface{}{"module": y.String(), "features": on})
		}
	}
	outs, err := core.RunDriver(lines)
	if err != nil {
		c.ProofBroken = append(c.ProofBroken, err.Error())
		return
	}
	for i, o := range outs {
		model := strings.Join(strings.Fields(o), " ")
		lib[i] = strings.Join(strings.Fields(lib[i]), " ")
		if i%97 == 0 {
			c.Sample(map[string]string{"case": descs[i], "library": lib[i], "model": model})
		}
		if model != lib[i] {
			c.Violation(core.Replay{Kind: "property-failure", Class: "case-index", Summary: fmt.Sprintf("%s: the library has %q; the model (Model/CaseIndex: nodes and shorthand cases that if-features leave) has %q", descs[i], lib[i], model), Input: inputs[i], Impl: lib[i], Model: model})
		}
	}
}
