package props

import (
	"encoding/json"
	"fmt"
	"github.com/freeconf/yang/meta"
	"reflect"
	"sort"
	"strings"

	"verif/harness/core"
	"verif/harness/gen"
	"verif/harness/refstore"

	"github.com/freeconf/yang/node"
	"github.com/freeconf/yang/nodeutil"
	"github.com/freeconf/yang/parser"
)

func init() { Registry["C09"] = C09 }

func c09hook(n *nodeutil.Node, r node.ChildRequest) (node.Node, error) {
	m, isMap := n.Object.(map[string]interface{})
	if !isMap || !meta.IsContainer(r.Meta) || meta.IsList(r.Meta) {
		return n.DoChild(r)
	}
	key := "x-" + r.Meta.Ident()
	if r.Delete {
		delete(m, key)
		return nil, nil
	}
	if r.New {
		m[key] = map[string]interface{}{}
	}
	child, found := m[key]
	if !found {
		return nil, nil
	}
	return n.New(r.Meta, child)
}

func c09qualify(v interface{}) interface{} {
	switch x := v.(type) {
	case map[string]interface{}:
		out := map[string]interface{}{}
		for k, e := range x {
			out["m:"+k] = c09qualify(e)
		}
		return out
	case []interface{}:
		out := make([]interface{}, len(x))
		for i, e := range x {
			out[i] = c09qualify(e)
		}
		return out
	}
	return v
}

// the hooked store with its containers back under their schema names
func c09unhook(v interface{}) interface{} {
	switch x := v.(type) {
	case map[string]interface{}:
		out := map[string]interface{}{}
		for k, e := range x {
			out[strings.TrimPrefix(k, "x-")] = c09unhook(e)
		}
		return out
	case []interface{}:
		out := make([]interface{}, len(x))
		for i, e := range x {
			out[i] = c09unhook(e)
		}
		return out
	}
	return v
}

// Go-side invariant check, independent of the model
func oneCaseGo(kids []*gen.SNode, body []*gen.DNode) bool {
	for i, s := range kids {
		d := body[i]
		switch s.Kind {
		case "cont":
			if d.Present && !oneCaseGo(s.Kids, d.Kids) {
				return false
			}
		case "choice":
			n := 0
			for ci, c := range s.Cases {
				if caseHasDataGo(c.Kids, d.Cases[ci]) {
					n++
				}
				if !oneCaseGo(c.Kids, d.Cases[ci]) {
					return false
				}
			}
			if n > 1 {
				return false
			}
		}
	}
	return true
}

func caseHasDataGo(kids []*gen.SNode, body []*gen.DNode) bool {
	for i, s := range kids {
		d := body[i]
		switch s.Kind {
		case "choice":
			for ci, c := range s.Cases {
				if caseHasDataGo(c.Kids, d.Cases[ci]) {
					return true
				}
			}
		default:
			if d.Leaf != nil || d.Present {
				return true
			}
		}
	}
	return false
}

// a target whose new containers and list entries are born with data of one case (what the OnNewObject hook of
// nodeutil.Node is for): an upsert that creates such a node and writes another case into it leaves that case alone.
const c09bornYang = `module bn { namespace "urn:bn"; prefix bn; revision 2020-01-01;
  container box { leaf other { type string; }
    choice mode { case a { leaf a1 { type string; } leaf a2 { type string; } } case b { leaf b1 { type string; } container bc { leaf x { type string; } } } case c { leaf c1 { type string; } } } }
  list item { key k; leaf k { type string; }
    choice mode { case a { leaf a1 { type string; } } case b { leaf b1 { type string; } leaf b2 { type string; } } } }
}`

func c09born(c *core.Ctx) {
	m, err := parser.LoadModuleFromString(nil, c09bornYang)
	if err != nil {
		c.Violation(core.Replay{Kind: "harness", Summary: "c09born module: " + err.Error(), NoInputFound: true})
		return
	}
	cases := []struct{ payload, want string }{
		{`{"box":{"b1":"v"}}`, `{"box":{"b1":"v"}}`},
		{`{"box":{"other":"o","b1":"v"}}`, `{"box":{"b1":"v","other":"o"}}`},
		{`{"box":{"c1":"z","other":"o"}}`, `{"box":{"c1":"z","other":"o"}}`},
		{`{"box":{"a2":"w"}}`, `{"box":{"a1":"born","a2":"w"}}`},
		{`{"box":{"other":"o"}}`, `{"box":{"a1":"born","other":"o"}}`},
		{`{"box":{"bc":{"x":"1"}}}`, `{"box":{"bc":{"x":"1"}}}`},
		{`{"item":[{"k":"k1","b1":"v"}]}`, `{"item":[{"b1":"v","k":"k1"}]}`},
		{`{"item":[{"k":"k1","b2":"v"},{"k":"k2"}]}`, `{"item":[{"b2":"v","k":"k1"},{"a1":"born","k":"k2"}]}`},
		{`{"item":[{"k":"k1","a1":"mine"}]}`, `{"item":[{"a1":"mine","k":"k1"}]}`},
	}
	for _, tc := range cases {
		data := map[string]interface{}{}
		n := &nodeutil.Node{Object: data}
		n.OnNewObject = func(t reflect.Type, d meta.Definition, insideList bool) (reflect.Value, error) {
			if d.Ident() == "box" || (d.Ident() == "item" && insideList) {
				return reflect.ValueOf(map[string]interface{}{"a1": "born"}), nil
			}
			if _, isList := d.(*meta.List); !isList {
				return reflect.ValueOf(map[string]interface{}{}), nil
			}
			return n.DoNewObject(t, d, insideList)
		}
		var got string
		e := safeDo(func() error {
			src, err := nodeutil.ReadJSON(tc.payload)
			if err != nil {
				return err
			}
			if err := node.NewBrowser(m, n).Root().UpsertFrom(src); err != nil {
				return err
			}
			// the store itself, independent of the library's reading of it
			if items, ok := data["item"].(map[string]interface{}); ok {
				var keys []string
				for k := range items {
					keys = append(keys, k)
				}
				sort.Strings(keys)
				var arr []interface{}
				for _, k := range keys {
					arr = append(arr, items[k])
				}
				data["item"] = arr
			}
			jb, err := json.Marshal(data)
			got = string(jb)
			return err
		})
		if e != nil {
			got = "error " + short(e.Error())
		}
		c.Evaluations++
		c.Count("born_with_a_case", "upsert creating a pre-populated node")
		c.Distinct("born " + tc.payload)
		if got != tc.want {
			c.Violation(core.Replay{Kind: "property-failure", Class: "born-with-a-case", Summary: fmt.Sprintf("upsert of %s into a target whose new box / item is born with a1: the store holds %s, want %s", tc.payload, got, tc.want),
				Input: map[string]interface{}{"yang": c09bornYang, "payload": tc.payload, "new_nodes_are_born_with": `{"a1":"born"}`}, Impl: got, Spec: tc.want})
		}
	}
}

// a case that held a list (or a container) and lost all of it again holds no data: the next upsert of another case
// shows, on every backend
func c09emptied(c *core.Ctx) {
	y := `module em { namespace "urn:em"; prefix em; revision 2020-01-01;
  container top { choice ch { case a { list la { key k; leaf k { type string; } } container ca { leaf x { type string; } } leaf-list al { type string; } } case b { leaf lb { type string; } } } } }`
	m, err := parser.LoadModuleFromString(nil, y)
	if err != nil {
		c.Violation(core.Replay{Kind: "harness", Summary: "c09emptied module: " + err.Error(), NoInputFound: true})
		return
	}
	type step struct{ op, arg, want string }
	steps := []step{
		{"upsert", `{"top":{"la":[{"k":"1"},{"k":"2"}]}}`, `{"top":{"la":[{"k":"1"},{"k":"2"}]}}`},
		{"delete", "top/la=1", `{"top":{"la":[{"k":"2"}]}}`},
		{"delete", "top/la=2", `{"top":{}}`},
		{"upsert", `{"top":{"lb":"v"}}`, `{"top":{"lb":"v"}}`},
		{"upsert", `{"top":{"ca":{"x":"1"}}}`, `{"top":{"ca":{"x":"1"}}}`},
		{"delete", "top/ca", `{"top":{}}`},
		{"upsert", `{"top":{"lb":"w"}}`, `{"top":{"lb":"w"}}`},
		{"upsert", `{"top":{"la":[{"k":"3"}]}}`, `{"top":{"la":[{"k":"3"}]}}`},
		{"delete", "top/la", `{"top":{}}`},
		{"upsert", `{"top":{"lb":"z"}}`, `{"top":{"lb":"z"}}`},
	}
	for _, backend := range []string{"reflect-map", "node-map", "refstore"} {
		data := map[string]interface{}{}
		var root node.Node
		switch backend {
		case "reflect-map":
			root = nodeutil.ReflectChild(data)
		case "node-map":
			root = &nodeutil.Node{Object: data}
		default:
			kids := []*gen.SNode{{Name: "top", Kind: "cont", Kids: []*gen.SNode{{Name: "ch", Kind: "choice", Cases: []*gen.SCase{
				{Name: "a", Kids: []*gen.SNode{{Name: "la", Kind: "list", NKeys: 1, Kids: []*gen.SNode{{Name: "k", Kind: "leaf", Type: "string"}}}, {Name: "ca", Kind: "cont", Kids: []*gen.SNode{{Name: "x", Kind: "leaf", Type: "string"}}}, {Name: "al", Kind: "leaf", Type: "string", LeafList: true}}},
				{Name: "b", Kids: []*gen.SNode{{Name: "lb", Kind: "leaf", Type: "string"}}}}}}}}
			root = refstore.NewBody(nil, kids, gen.EmptyBody(kids), "")
		}
		b := node.NewBrowser(m, root)
		var hist []string
		for i, st := range steps {
			hist = append(hist, st.op+" "+st.arg)
			var got string
			e := safeDo(func() error {
				if st.op == "upsert" {
					src, err := nodeutil.ReadJSON(st.arg)
					if err != nil {
						return err
					}
					if err := b.Root().UpsertFrom(src); err != nil {
						return err
					}
				} else {
					sel, err := b.Root().Find(st.arg)
					if err != nil || sel == nil {
						return fmt.Errorf("find %s: %v", st.arg, err)
					}
					if err := sel.Delete(); err != nil {
						return err
					}
				}
				var err error
				got, err = nodeutil.WriteJSON(b.Root())
				return err
			})
			if e != nil {
				got = "error " + short(e.Error())
			}
			c.Evaluations++
			c.Count("emptied_case", backend)
			c.Distinct(fmt.Sprint("emptied ", backend, i))
			if got != st.want {
				c.Violation(core.Replay{Kind: "property-failure", Class: "emptied-case-" + backend, Summary: fmt.Sprintf("%s after %v: the store reads %s, want %s", backend, hist, got, st.want),
					Input: map[string]interface{}{"yang": y, "backend": backend, "history": append([]string{}, hist...), "store": fmt.Sprint(data)}, Impl: got, Spec: st.want})
				break
			}
		}
	}
}

func C09(c *core.Ctx) {
	c09born(c)
	c09emptied(c)
	c.Rule = "generated schemas with several choices per container, choices nested in cases, shorthand cases, choices inside containers and inside a list entry; histories of 1–8 upserts that alternate between cases and switch back, from 3 source implementations into the reference store, reflection over maps and nodeutil.Node; after every step the complete target (re-read independently) is compared with the Lean model and the at-most-one-case invariant is checked on the real store; reads of stores that hold two cases are compared with the model's read; steps into the reference store are repeated with one node callback of the target failing (every position for short steps, a sample otherwise): whatever the call returns the store must still satisfy the invariant; directed: a target whose new containers / entries are born with data of one case (OnNewObject); a case emptied by deletes (list entries, container) followed by an upsert of another case on three backends; nodeutil.Tee of two stores as target (both compared after every step). non-trivial = step whose source writes into a choice that already has another case selected; distinct by (schema, history prefix, implementations)"
	c.Assumptions = append(c.Assumptions,
		"the model covers leaves, containers and choices; lists enter only as the entry a history edits",
		"Choose of the reference store = first case in sorted case-ident order holding data (the contract the theorems assume)")
	c.ProofStep("YangVerif.Props.C09")
	if c.Thorough() {
		c.LeanChecker("YangVerif.Props.C09")
	}
	rng := core.NewRng(c.Seed)
	nSchemas := c.N(60, 1500)
	perSchema := c.N(12, 60)
	type pend struct {
		desc, impl string
		kids       []*gen.SNode
		input      map[string]interface{}
		target     string
		switched   bool
		kind       string
	}
	var lines []string
	var pends []pend
	for si := 0; si < nSchemas; si++ {
		r0 := rng.Fork()
		gen.ResetNames()
		kids := gen.GenChoiceSchema(r0, 0, 2+r0.Intn(3))
		inList := r0.Chance(25)
		rootKids := kids
		entryKids := kids
		if inList {
			keyLeaf := &gen.SNode{Name: "kk", Kind: "leaf", Type: "string"}
			entryKids = append([]*gen.SNode{keyLeaf}, kids...)
			rootKids = []*gen.SNode{{Name: "ll", Kind: "list", NKeys: 1, Kids: entryKids}}
		}
		y := gen.Module("m", rootKids)
		if si%20 == 0 {
			// shorthand cases that an augment adds to a choice: each node is a case of its own (RFC 7950 §7.9.2)
			lf := func(n string) *gen.SNode { return &gen.SNode{Name: n, Kind: "leaf", Type: "string"} }
			ch := &gen.SNode{Name: "ch", Kind: "choice", Cases: []*gen.SCase{
				{Name: "ca", Kids: []*gen.SNode{lf("a1"), lf("a2")}},
				{Name: "y1", Kids: []*gen.SNode{lf("y1")}, Shorthand: true},
				{Name: "y2", Kids: []*gen.SNode{{Name: "y2", Kind: "cont", Kids: []*gen.SNode{lf("x2")}}}, Shorthand: true},
				{Name: "y3", Kids: []*gen.SNode{lf("y3")}, Shorthand: true},
				{Name: "z4", Kids: []*gen.SNode{lf("z4"), {Name: "z5", Kind: "cont", Kids: []*gen.SNode{lf("x5")}}}}}}
			kids = []*gen.SNode{lf("other"), {Name: "top", Kind: "cont", Kids: []*gen.SNode{lf("p"), ch, lf("q")}}}
			inList, rootKids, entryKids = false, kids, kids
			y = `module m { namespace "urn:m"; prefix m; revision 2020-01-01;
  leaf other { type string; }
  container top { leaf p { type string; } choice ch { case ca { leaf a1 { type string; } leaf a2 { type string; } } } leaf q { type string; } }
  augment "/top/ch" { leaf y1 { type string; } container y2 { leaf x2 { type string; } } leaf y3 { type string; } }
  augment "/top/ch" { case z4 { leaf z4 { type string; } container z5 { leaf x5 { type string; } } } }
}
`
		}
		m, err := parser.LoadModuleFromString(nil, y)
		if err != nil {
			c.Violation(core.Replay{Kind: "harness", Summary: "generated choice module does not load: " + err.Error(), Input: y, NoInputFound: true})
			return
		}
		hasNested := strings.Count(y, "choice") >= 2
		for hi := 0; hi < perSchema; hi++ {
			r := rng.Fork()
			tgtKind := core.Pick(r, []string{"refstore", "refstore", "reflect-map", "node-map", "node-map-hooked", "tee"})
			// the target starts empty (or with the single list entry)
			tree := gen.EmptyBody(rootKids)
			if inList {
				kv := "e1"
				eb := gen.EmptyBody(entryKids)
				eb[0].Leaf = &kv
				tree[0].Rows = []*gen.DRow{{Key: []string{"e1"}, Kids: eb}}
			}
			var root node.Node
			var tgtMap map[string]interface{}
			var treeB []*gen.DNode
			switch tgtKind {
			case "refstore":
				root = refstore.NewBody(nil, rootKids, tree, "")
			case "tee":
				// two stores written together (nodeutil.Tee): both must hold the result
				treeB = gen.Clone(tree)
				root = nodeutil.Tee{A: refstore.NewBody(nil, rootKids, tree, ""), B: refstore.NewBody(nil, rootKids, treeB, "")}
			case "reflect-map":
				tgtMap = gen.ToMap(rootKids, tree)
				root = nodeutil.ReflectChild(tgtMap)
			case "node-map":
				tgtMap = gen.ToMap(rootKids, tree)
				root = &nodeutil.Node{Object: tgtMap}
			case "node-map-hooked":
				// an application that serves its containers through the OnChild hook (here: kept under another key)
				tgtMap = gen.ToMap(rootKids, tree)
				root = &nodeutil.Node{Object: tgtMap, OnChild: c09hook}
			}
			b := node.NewBrowser(m, root)
			modelTgt := gen.EmptyBody(entryKids)
			if inList {
				kv := "e1"
				modelTgt[0].Leaf = &kv
			}
			steps := 1 + r.Intn(8)
			var hist []string
			for k := 0; k < steps; k++ {
				srcKind := core.Pick(r, []string{"refstore", "refstore", "json", "json-qualified", "reflect-map"})
				doc := gen.GenChoiceBody(r, kids, 25+r.Intn(40))
				edoc := doc
				if inList {
					kv := "e1"
					edoc = append([]*gen.DNode{{Leaf: &kv}}, doc...)
				}
				hist = append(hist, gen.Canon(entryKids, edoc, false))
				var src node.Node
				switch srcKind {
				case "refstore":
					src = refstore.NewBody(nil, entryKids, gen.Clone(edoc), "src")
				case "json":
					jb, _ := json.Marshal(gen.ToMap(entryKids, edoc))
					src, _ = nodeutil.ReadJSON(string(jb))
				case "json-qualified":
					// every member name in its module-qualified form (RFC 7951 §4 allows it everywhere)
					jb, _ := json.Marshal(c09qualify(gen.ToMap(entryKids, edoc)))
					src, _ = nodeutil.ReadJSON(string(jb))
				case "reflect-map":
					src = nodeutil.ReflectChild(gen.ToMap(entryKids, edoc))
				}
				before := gen.Clone(tree) // refstore only: the target as it is before this step
				sel := b.Root()
				var ferr error
				if inList {
					ferr = safeDo(func() error {
						var e error
						sel, e = b.Root().Find("ll=e1")
						return e
					})
				}
				var opErr error
				if ferr != nil || sel == nil {
					opErr = fmt.Errorf("entry not found: %v", ferr)
				} else {
					opErr = applyEdit(sel, "upsert", src)
				}
				// re-read
				var after []*gen.DNode
				un := false
				if tgtKind == "refstore" {
					after = tree
				} else if tgtKind == "tee" {
					after = tree
					if a, bb := gen.Canon(rootKids, tree, false), gen.Canon(rootKids, treeB, false); a != bb && opErr == nil {
						c.Violation(core.Replay{Kind: "property-failure", Class: "tee-stores-differ", Summary: fmt.Sprintf("step %d upsert %s through nodeutil.Tee: the first store holds %s, the second %s", k+1, hist[len(hist)-1], short(a), short(bb)),
							Input: map[string]interface{}{"yang": y, "history": append([]string{}, hist...), "first_store": a, "second_store": bb}})
					}
				} else if tgtKind == "node-map-hooked" {
					after = gen.FromMap(rootKids, c09unhook(tgtMap), &un)
				} else {
					after = gen.FromMap(rootKids, tgtMap, &un)
				}
				ebody := after
				if inList {
					if len(after[0].Rows) == 1 {
						ebody = after[0].Rows[0].Kids
					} else {
						ebody = nil
					}
				}
				status := errClass(opErr)
				canon := "<entry lost>"
				inv := false
				if ebody != nil {
					canon = gen.Canon(entryKids, ebody, false)
					inv = oneCaseGo(entryKids, ebody)
				}
				c.Evaluations++
				c.Count("target", tgtKind)
				c.Count("source", srcKind)
				c.Count("nested_choice_schema", fmt.Sprint(hasNested))
				lines = append(lines, "c09 edit ; "+strings.Join(gen.ChoiceSchemaTokens(entryKids), " ")+" ; "+
					strings.Join(gen.ChoiceBodyTokens(entryKids, edoc), " ")+" ; "+strings.Join(gen.ChoiceBodyTokens(entryKids, modelTgt), " "))
				input := map[string]interface{}{"yang": y, "target_impl": tgtKind, "source_impl": srcKind, "history": append([]string{}, hist...),
					"target_before": gen.Canon(entryKids, modelTgt, false), "target_after": canon, "error": fmt.Sprint(opErr), "invariant_on_store": inv}
				pends = append(pends, pend{fmt.Sprintf("%s<-%s step %d upsert %s", tgtKind, srcKind, k+1, hist[len(hist)-1]), status + " " + canon + fmt.Sprint(" inv=", inv), entryKids, input, tgtKind, false, "edit"})
				// the same step with a node callback failing part-way (reference store as target): whatever the call
				// returns, the target must not end up holding two cases of a choice
				if tgtKind == "refstore" && opErr == nil && ebody != nil && oneCaseGo(rootKids, before) && (k == steps-1 || r.Chance(30)) {
					runFault := func(failAt int) (*refstore.Recorder, []*gen.DNode, error) {
						rec := &refstore.Recorder{FailAt: failAt}
						t := gen.Clone(before)
						fb := node.NewBrowser(m, refstore.NewBody(rec, rootKids, t, "tgt:"))
						var err error
						err = safeDo(func() error {
							fsel := fb.Root()
							if inList {
								saved := *rec
								rec.FailAt = 0
								s2, e := fb.Root().Find("ll=e1")
								*rec = saved
								if e != nil || s2 == nil {
									return fmt.Errorf("entry: %v", e)
								}
								fsel = s2
							}
							return fsel.UpsertFrom(refstore.NewBody(nil, entryKids, gen.Clone(edoc), "src"))
						})
						return rec, t, err
					}
					rec0, _, e0 := runFault(0)
					if e0 == nil {
						K := len(rec0.Events)
						for n, tried := 0, map[int]bool{}; n < c.N(12, 60) && n < K; n++ {
							kf := 1 + r.Intn(K)
							if K <= c.N(12, 60) {
								kf = n + 1
							}
							if tried[kf] {
								continue
							}
							tried[kf] = true
							rec, t, ferr2 := runFault(kf)
							c.Evaluations++
							c.Count("faulted_step", errClass(ferr2))
							if !oneCaseGo(rootKids, t) {
								what := "?"
								if kf-1 < len(rec.Events) {
									what = rec.Events[kf-1].String()
								}
								if strings.HasPrefix(what, "choose tgt:") && ferr2 == nil && c.IsKnown("target-choose-error-swallowed", short(fmt.Sprintf("step %d, target callback %d (%s) failing", k+1, kf, what))) {
									continue
								}
								c.Violation(core.Replay{Kind: "property-failure", Class: "two-cases-after-fault", Summary: fmt.Sprintf("step %d upsert %s with target callback %d/%d (%s) failing: the call returned %v and the target holds two cases of a choice: %s", k+1, hist[len(hist)-1], kf, K, what, ferr2, short(gen.Canon(rootKids, t, false))),
									Input: map[string]interface{}{"yang": y, "history": append([]string{}, hist...), "target_before": gen.Canon(rootKids, before, false), "fail_at": kf, "failing_callback": what, "returned": fmt.Sprint(ferr2), "target_after": gen.Canon(rootKids, t, false)}})
							}
						}
					}
				}
				if ebody == nil || opErr != nil {
					break
				}
				// the next step starts from what the real store holds now (keeps model and store in step)
				modelTgt = gen.Clone(ebody)
			}
		}
		// reads of a store that holds data in two cases of one choice
		for ri := 0; ri < 3; ri++ {
			r := rng.Fork()
			body := gen.GenChoiceBody(r, kids, 50)
			extra := gen.GenChoiceBody(r, kids, 70)
			mergeAll(kids, body, extra) // violates the invariant on purpose
			src := refstore.NewBody(nil, kids, gen.Clone(body), "store")
			m2, err := parser.LoadModuleFromString(nil, gen.Module("m", kids))
			if err != nil {
				continue
			}
			out := gen.EmptyBody(kids)
			err = safeDo(func() error {
				return node.NewBrowser(m2, src).Root().UpsertInto(refstore.NewBody(nil, kids, out, "out"))
			})
			c.Evaluations++
			c.Count("read", "two-case-store")
			lines = append(lines, "c09 read ; "+strings.Join(gen.ChoiceSchemaTokens(kids), " ")+" ; "+strings.Join(gen.ChoiceBodyTokens(kids, body), " "))
			pends = append(pends, pend{"read of " + gen.Canon(kids, body, false), errClass(err) + " " + gen.Canon(kids, out, false) + fmt.Sprint(" inv=", oneCaseGo(kids, out)), kids,
				map[string]interface{}{"yang": gen.Module("m", kids), "store": gen.Canon(kids, body, false)}, "refstore", false, "read"})
		}
	}
	outs, err := core.RunDriver(lines)
	if err != nil {
		c.ProofBroken = append(c.ProofBroken, err.Error())
		return
	}
	for i, o := range outs {
		p := pends[i]
		parts := strings.SplitN(o, " | ", 2)
		if len(parts) != 2 {
			c.Count("driver", "bad:"+short(o))
			continue
		}
		body, perr := gen.ParseChoiceBody(p.kids, strings.Fields(parts[0]))
		if perr != nil {
			c.Count("driver", "parse:"+perr.Error())
			continue
		}
		want := "ok " + gen.Canon(p.kids, body, false) + " inv=true"
		if p.kind == "edit" && !strings.Contains(parts[1], "tgtonecase=true") {
			// the step started from a store that already violated the invariant: the theorem does not apply
			c.Count("skipped", "target already violated invariant")
			continue
		}
		if p.kind == "edit" && !strings.Contains(parts[1], "onecase=true") {
			c.Violation(core.Replay{Kind: "proof-broken", Class: "model-inv", Summary: "model result violates the invariant although the target satisfied it: " + p.desc, Input: p.input})
		}
		if i%409 == 0 {
			c.Sample(map[string]interface{}{"case": p.desc, "impl": short(p.impl), "model": short(want)})
		}
		if strings.Contains(p.desc, "step") && strings.Contains(fmt.Sprint(p.input["target_before"]), "=") {
			c.Distinct(p.desc + fmt.Sprint(p.input["target_before"]))
		} else if p.kind == "read" {
			c.Distinct(p.desc)
		}
		if p.impl != want {
			id := c09known(p.target, p.input, p.impl)
			if id != "" && c.IsKnown(id, p.desc) {
				continue
			}
			c.Violation(core.Replay{Kind: "property-failure", Class: p.kind + "-" + p.target + "-" + fmt.Sprint(p.input["source_impl"]),
				Summary: fmt.Sprintf("%s: library leaves %s; the model (clear every other case, merge into the written one) gives %s", p.desc, short(p.impl), short(want)),
				Input:   p.input, Impl: p.impl, Model: want})
		}
	}
}

// mergeAll copies every set leaf / present container of extra into body (ignoring choices' exclusivity)
func mergeAll(kids []*gen.SNode, body, extra []*gen.DNode) {
	for i, s := range kids {
		switch s.Kind {
		case "leaf":
			if body[i].Leaf == nil {
				body[i].Leaf = extra[i].Leaf
			}
		case "cont":
			if !body[i].Present && extra[i].Present {
				body[i].Present, body[i].Kids = true, extra[i].Kids
			} else if body[i].Present && extra[i].Present {
				mergeAll(s.Kids, body[i].Kids, extra[i].Kids)
			}
		case "choice":
			for ci, cs := range s.Cases {
				mergeAll(cs.Kids, body[i].Cases[ci], extra[i].Cases[ci])
			}
		}
	}
}

func c09known(target string, input map[string]interface{}, impl string) string {
	return ""
}
