package props

import (
	"fmt"
	"io"
	"regexp"
	"sort"
	"strings"

	"verif/harness/core"

	"github.com/freeconf/yang/meta"
	"github.com/freeconf/yang/parser"
	"github.com/freeconf/yang/source"
)

func init() { Registry["C02"] = C02 }

// a type statement as written
type texpr struct {
	name     string
	rng, len *string
	patterns []string
	enums    []tenum
	bits     []tenum
	members  []*texpr
	path     *string
	bases    []string
	fd       *int
}

type tenum struct {
	name string
	val  *int
}

type ttypedef struct {
	name        string
	t           *texpr
	dflt, units *string
	where       string // module | sub | lib | local
}

func osTok(s *string) string {
	if s == nil {
		return "-"
	}
	return "h" + core.Hex(*s)
}

func (t *texpr) toks() []string {
	out := []string{"T", core.Hex(t.name), osTok(t.rng), osTok(t.len), fmt.Sprint(len(t.patterns))}
	for _, p := range t.patterns {
		out = append(out, core.Hex(p))
	}
	for _, l := range [][]tenum{t.enums, t.bits} {
		out = append(out, fmt.Sprint(len(l)))
		for _, e := range l {
			v := "-"
			if e.val != nil {
				v = fmt.Sprint(*e.val)
			}
			out = append(out, core.Hex(e.name), v)
		}
	}
	out = append(out, fmt.Sprint(len(t.members)))
	for _, m := range t.members {
		out = append(out, m.toks()...)
	}
	out = append(out, osTok(t.path), fmt.Sprint(len(t.bases)))
	for _, b := range t.bases {
		out = append(out, core.Hex(b))
	}
	if t.fd == nil {
		out = append(out, "-")
	} else {
		out = append(out, fmt.Sprint(*t.fd))
	}
	return out
}

func (t *texpr) yang() string {
	var b strings.Builder
	if t.fd != nil {
		fmt.Fprintf(&b, " fraction-digits %d;", *t.fd)
	}
	if t.rng != nil {
		fmt.Fprintf(&b, " range %q;", *t.rng)
	}
	if t.len != nil {
		fmt.Fprintf(&b, " length %q;", *t.len)
	}
	for _, p := range t.patterns {
		fmt.Fprintf(&b, " pattern '%s';", p)
	}
	for _, e := range t.enums {
		if e.val != nil {
			fmt.Fprintf(&b, " enum %s { value %d; }", e.name, *e.val)
		} else {
			fmt.Fprintf(&b, " enum %s;", e.name)
		}
	}
	for _, e := range t.bits {
		if e.val != nil {
			fmt.Fprintf(&b, " bit %s { position %d; }", e.name, *e.val)
		} else {
			fmt.Fprintf(&b, " bit %s;", e.name)
		}
	}
	for _, m := range t.members {
		fmt.Fprintf(&b, " type %s", m.yang())
	}
	if t.path != nil {
		fmt.Fprintf(&b, " path %q;", *t.path)
	}
	for _, bs := range t.bases {
		fmt.Fprintf(&b, " base %s;", bs)
	}
	if b.Len() == 0 {
		return t.name + ";"
	}
	return t.name + " {" + b.String() + " }"
}

func (td *ttypedef) toks() []string {
	return append(append([]string{"D", core.Hex(td.name)}, td.t.toks()...), osTok(td.dflt), osTok(td.units))
}

func (td *ttypedef) yang(indent string) string {
	s := fmt.Sprintf("%stypedef %s { type %s", indent, td.name, td.t.yang())
	if td.dflt != nil {
		s += fmt.Sprintf(" default %q;", *td.dflt)
	}
	if td.units != nil {
		s += fmt.Sprintf(" units %q;", *td.units)
	}
	return s + " }\n"
}

type c02gen struct {
	r   *core.Rng
	seq int
	// the enum / bits list of the chain being generated and the values RFC 7950 assigns
	curNames []tenum
	curVals  map[string]int
	// typedefs by placement
	module, sub, lib []*ttypedef
}

func (g *c02gen) name(p string) string { g.seq++; return fmt.Sprintf("%s%d", p, g.seq) }
func sp(s string) *string              { return &s }
func ip(i int) *int                    { return &i }

// families: a base type statement and how a derived level may narrow it; defaults valid at every level
type c02family struct {
	name    string
	base    func(g *c02gen) *texpr
	narrow  func(g *c02gen, level int, t *texpr)
	dflt    []string
	canList bool
}

var c02families = []c02family{
	{"int32", func(g *c02gen) *texpr { return &texpr{name: "int32", rng: sp("0..1000")} },
		func(g *c02gen, lv int, t *texpr) {
			t.rng = sp([]string{"10..500", "20..400", "30..300", "40..200"}[lv%4])
		}, []string{"50", "100"}, true},
	{"uint8", func(g *c02gen) *texpr { return &texpr{name: "uint8"} },
		func(g *c02gen, lv int, t *texpr) { t.rng = sp([]string{"1..200", "2..150 | 160..170", "5..100"}[lv%3]) }, []string{"50", "7"}, true},
	{"int64", func(g *c02gen) *texpr {
		return &texpr{name: "int64", rng: sp("-9223372036854775808..9223372036854775807")}
	},
		func(g *c02gen, lv int, t *texpr) { t.rng = sp([]string{"-100..100", "-50..50"}[lv%2]) }, []string{"0", "-7"}, true},
	{"string", func(g *c02gen) *texpr { return &texpr{name: "string", len: sp("0..64"), patterns: []string{"[a-z]*"}} },
		func(g *c02gen, lv int, t *texpr) {
			if g.r.Chance(60) {
				t.len = sp([]string{"1..32", "2..16", "3..8"}[lv%3])
			}
			if g.r.Chance(40) {
				t.patterns = []string{[]string{"a.*", ".*z", "[a-m]*"}[lv%3]}
			}
		}, []string{"abcz", "amz"}, true},
	{"enumeration", func(g *c02gen) *texpr {
		g.curNames, g.curVals = c02randomNumbered(g.r, "e", -6, 20)
		return &texpr{name: "enumeration", enums: g.curNames}
	}, func(g *c02gen, lv int, t *texpr) {
		// YANG 1.1: a derived type keeps a subset, values as in the base; some restate their value
		t.enums = c02subset(g)
	}, nil, true},
	{"bits", func(g *c02gen) *texpr {
		g.curNames, g.curVals = c02randomNumbered(g.r, "b", 0, 20)
		return &texpr{name: "bits", bits: g.curNames}
	}, func(g *c02gen, lv int, t *texpr) {
		t.bits = c02subset(g)
	}, nil, true},
	{"decimal64", func(g *c02gen) *texpr { return &texpr{name: "decimal64", fd: ip(3)} },
		func(g *c02gen, lv int, t *texpr) { t.rng = sp([]string{"0..100", "1..50.5"}[lv%2]) }, []string{"2.5"}, true},
	{"boolean", func(g *c02gen) *texpr { return &texpr{name: "boolean"} }, func(g *c02gen, lv int, t *texpr) {}, []string{"true"}, false},
	{"identityref", func(g *c02gen) *texpr { return &texpr{name: "identityref", bases: []string{"idbase"}} }, func(g *c02gen, lv int, t *texpr) {}, nil, false},
	{"leafref", func(g *c02gen) *texpr { return &texpr{name: "leafref", path: sp("/target")} }, func(g *c02gen, lv int, t *texpr) {}, nil, false},
}

// a random list of names with stated and missing values whose RFC 7950 numbering has no duplicates
func c02randomNumbered(r *core.Rng, prefix string, lo, hi int) ([]tenum, map[string]int) {
	for {
		n := 2 + r.Intn(5)
		var out []tenum
		vals := map[string]int{}
		seen := map[int]bool{}
		next, ok := 0, true
		for i := 0; i < n; i++ {
			e := tenum{name: fmt.Sprintf("%s%d", prefix, i)}
			v := next
			if r.Chance(45) {
				v = lo + r.Intn(hi-lo+1)
				e.val = ip(v)
			}
			if seen[v] || v < lo {
				ok = false
				break
			}
			seen[v] = true
			vals[e.name] = v
			if i == 0 || v >= next {
				next = v + 1
			}
			out = append(out, e)
		}
		if ok {
			return out, vals
		}
	}
}

// a subset of the current list, in order, some entries restating the value they have in the base
func c02subset(g *c02gen) []tenum {
	var out []tenum
	for _, e := range g.curNames {
		if g.r.Chance(60) {
			k := tenum{name: e.name}
			if g.r.Chance(40) {
				k.val = ip(g.curVals[e.name])
			}
			out = append(out, k)
		}
	}
	if len(out) == 0 {
		out = []tenum{{name: g.curNames[len(g.curNames)-1].name}}
	}
	// a further derived level restricts this subset
	g.curNames = out
	return out
}

// a chain of typedefs of one family in one placement: level 0 refers to the built-in, level i to level i-1
func (g *c02gen) chain(fam c02family, where string, depth int) []*ttypedef {
	var out []*ttypedef
	prev := ""
	for lv := 0; lv < depth; lv++ {
		td := &ttypedef{name: g.name("t"), where: where}
		if lv == 0 {
			td.t = fam.base(g)
		} else {
			td.t = &texpr{name: prev}
			if g.r.Chance(70) {
				fam.narrow(g, lv-1, td.t)
			}
		}
		if len(fam.dflt) > 0 && g.r.Chance(40) {
			td.dflt = sp(core.Pick(g.r, fam.dflt))
		}
		if g.r.Chance(40) {
			td.units = sp(core.Pick(g.r, []string{"u-" + td.name, "ms", "items"}))
		}
		out = append(out, td)
		prev = td.name
	}
	return out
}

type c02leaf struct {
	path        string // schema path in the compiled tree
	name        string
	t           *texpr
	dflt, units *string
	list        bool
	scopes      [][]*ttypedef // innermost first
	fam         string
	// mandatory true / min-elements 1: the default of the type is not the leaf's (RFC 7950 7.6.1, 7.7.2)
	required bool
}

func (l *c02leaf) yang(indent string) string {
	kw := "leaf"
	if l.list {
		kw = "leaf-list"
	}
	s := fmt.Sprintf("%s%s %s { type %s", indent, kw, l.name, l.t.yang())
	if l.dflt != nil {
		s += fmt.Sprintf(" default %q;", *l.dflt)
	}
	if l.units != nil {
		s += fmt.Sprintf(" units %q;", *l.units)
	}
	if l.required && l.list {
		s += " min-elements 1;"
	} else if l.required {
		s += " mandatory true;"
	}
	return s + " }\n"
}

// what the accessors show for a leaf, canonically
func c02dumpType(t *meta.Type, dflt, units string, hasDflt bool) string {
	var b strings.Builder
	fmt.Fprintf(&b, "fmt=%s", t.Format())
	list := func(name string, xs []string) {
		fmt.Fprintf(&b, " %s=[%s]", name, strings.Join(xs, "|"))
	}
	var rs, ls, ps, es, bs, ms, ids []string
	for _, r := range t.Range() {
		rs = append(rs, strings.ReplaceAll(r.String(), "|", " or "))
	}
	for _, r := range t.Length() {
		ls = append(ls, strings.ReplaceAll(r.String(), "|", " or "))
	}
	for _, p := range t.Patterns() {
		ps = append(ps, p.Pattern)
	}
	for _, e := range t.Enums() {
		es = append(es, fmt.Sprintf("%s=%d", e.Ident(), e.Value()))
	}
	for _, x := range t.Bits() {
		bs = append(bs, fmt.Sprintf("%s=%d", x.Ident(), x.Position))
	}
	for _, u := range t.Union() {
		ms = append(ms, "("+c02dumpType(u, "", "", false)+")")
	}
	for _, id := range t.Base() {
		ids = append(ids, id.Ident())
	}
	list("ranges", rs)
	list("lengths", ls)
	fmt.Fprintf(&b, " patterns={{%s}}", strings.Join(ps, "|"))
	list("enums", es)
	list("bits", bs)
	list("members", ms)
	fmt.Fprintf(&b, " path=%q", t.Path())
	list("bases", ids)
	fmt.Fprintf(&b, " fd=%d", t.FractionDigits())
	if hasDflt {
		fmt.Fprintf(&b, " dflt=%q", dflt)
	} else {
		b.WriteString(" dflt=-")
	}
	fmt.Fprintf(&b, " units=%q", units)
	return b.String()
}

// the same canonical text from the model's tokens
type c02tr struct {
	toks []string
	bad  bool
}

func (t *c02tr) next() string {
	if len(t.toks) == 0 {
		t.bad = true
		return ""
	}
	x := t.toks[0]
	t.toks = t.toks[1:]
	return x
}

func (t *c02tr) strs() []string {
	var n int
	fmt.Sscan(t.next(), &n)
	var out []string
	for i := 0; i < n && !t.bad; i++ {
		out = append(out, core.Unhex(t.next()))
	}
	return out
}

func (t *c02tr) pairs() []string {
	var n int
	fmt.Sscan(t.next(), &n)
	var out []string
	for i := 0; i < n && !t.bad; i++ {
		name := core.Unhex(t.next())
		out = append(out, name+"="+t.next())
	}
	return out
}

func (t *c02tr) os() (string, bool) {
	x := t.next()
	if x == "-" {
		return "", false
	}
	return core.Unhex(strings.TrimPrefix(x, "h")), true
}

func normRange(s string) string {
	var parts []string
	for _, p := range strings.Split(s, "|") {
		parts = append(parts, strings.TrimSpace(p))
	}
	return strings.Join(parts, " or ")
}

func (t *c02tr) eff(list bool, top bool) string {
	if t.next() != "E" {
		t.bad = true
		return ""
	}
	f := core.Unhex(t.next())
	if list {
		f += "-list"
	}
	var b strings.Builder
	fmt.Fprintf(&b, "fmt=%s", f)
	lst := func(name string, xs []string) { fmt.Fprintf(&b, " %s=[%s]", name, strings.Join(xs, "|")) }
	var rs, ls []string
	for _, r := range t.strs() {
		rs = append(rs, normRange(r))
	}
	for _, r := range t.strs() {
		ls = append(ls, normRange(r))
	}
	lst("ranges", rs)
	lst("lengths", ls)
	fmt.Fprintf(&b, " patterns={{%s}}", strings.Join(t.strs(), "|"))
	lst("enums", t.pairs())
	lst("bits", t.pairs())
	var n int
	fmt.Sscan(t.next(), &n)
	var ms []string
	for i := 0; i < n && !t.bad; i++ {
		ms = append(ms, "("+t.eff(false, false)+")")
	}
	lst("members", ms)
	p, _ := t.os()
	fmt.Fprintf(&b, " path=%q", p)
	lst("bases", t.strs())
	fd := t.next()
	if fd == "-" {
		fd = "0"
	}
	fmt.Fprintf(&b, " fd=%s", fd)
	d, hasD := t.os()
	u, _ := t.os()
	if !top {
		d, hasD, u = "", false, ""
	}
	if hasD {
		fmt.Fprintf(&b, " dflt=%q", d)
	} else {
		b.WriteString(" dflt=-")
	}
	fmt.Fprintf(&b, " units=%q", u)
	return b.String()
}

// directed module sets for scoping rules that need more than two modules or a second tree of the same shape
func c02probes(c *core.Ctx) {
	load := func(files map[string]string, main string) (*meta.Module, error) {
		var ops []source.Opener
		for n, t := range files {
			ops = append(ops, source.Named(n, strings.NewReader(t)))
		}
		var m *meta.Module
		err := safeDo(func() error {
			var e error
			m, e = parser.LoadModule(source.Any(ops...), main)
			return e
		})
		return m, err
	}
	fail := func(name, what string, files map[string]string) {
		c.Violation(core.Replay{Kind: "property-failure", Class: "probe-" + name, Summary: name + ": " + what, Input: files})
	}
	// (1) a leafref with an absolute path inside a grouping of an imported module points into the tree of the module
	//     that uses the grouping, also when the imported module has a node at the same path with another type
	{
		files := map[string]string{
			"lib": `module lib { yang-version 1.1; namespace "urn:lib"; prefix lib; revision 2020-01-01;
  typedef lvl { type leafref { path "/settings/level"; } }
  container settings { leaf level { type string; } leaf-list levels { type string; } }
  grouping lg { leaf direct { type leafref { path "/settings/level"; } } leaf viatd { type lvl; } leaf-list many { type leafref { path "/settings/levels"; } }
    leaf rel { type leafref { path "../direct"; } } }
}`,
			"app": `module app { yang-version 1.1; namespace "urn:app"; prefix app; import lib { prefix lib; } revision 2020-01-01;
  container settings { leaf level { type enumeration { enum low; enum high; } } leaf-list levels { type int16; } }
  container one { uses lib:lg; }
  container two { container deep { uses lib:lg; } }
}`}
		c.Evaluations++
		m, err := load(files, "app")
		if err != nil {
			fail("absolute leafref in an imported grouping", "valid module set does not load: "+err.Error(), files)
		} else if perr := safeDo(func() error {
			for _, at := range []string{"one", "two/deep"} {
				for leaf, want := range map[string]string{"direct": "enumeration", "viatd": "enumeration", "many": "int16-list", "rel": "enumeration"} {
					d, _ := meta.Find(m, at+"/"+leaf).(meta.Leafable)
					if d == nil {
						fail("absolute leafref in an imported grouping", at+"/"+leaf+" is not in the compiled tree", files)
						continue
					}
					got := d.Type().Resolve().Format().String()
					if leaf == "rel" {
						got = d.Type().Resolve().Resolve().Format().String()
					}
					if got != want {
						fail("absolute leafref in an imported grouping", fmt.Sprintf("%s/%s resolves to a %s, the node its path names in the using module's tree is a %s", at, leaf, got, want), files)
					}
				}
				if d, _ := meta.Find(m, at+"/direct").(meta.Leafable); d != nil {
					var es []string
					for _, e := range d.Type().Resolve().Enum() {
						es = append(es, e.Label)
					}
					if strings.Join(es, ",") != "low,high" {
						fail("absolute leafref in an imported grouping", fmt.Sprintf("%s/direct: the target type offers the enums %v, want [low high]", at, es), files)
					}
				}
			}
			return nil
		}); perr != nil {
			fail("absolute leafref in an imported grouping", perr.Error(), files)
		}
	}
	// (1b) a prefix means what the file it is written in binds it to: a module and two of its submodules bind one prefix
	//      to three modules
	{
		files := map[string]string{
			"x":  `module x { namespace "urn:x"; prefix x; include s1; include s2; import lc { prefix p; } revision 2020-01-01; leaf c { type p:t; } }`,
			"s1": `submodule s1 { belongs-to x { prefix x; } import la { prefix p; } leaf a { type p:t; } container ca { uses p:g; } }`,
			"s2": `submodule s2 { belongs-to x { prefix x; } import lb { prefix p; } leaf b { type p:t; } container cb { uses p:g; } }`,
			"la": `module la { namespace "urn:la"; prefix la; revision 2020-01-01; typedef t { type string; } grouping g { leaf g { type t; } } }`,
			"lb": `module lb { namespace "urn:lb"; prefix lb; revision 2020-01-01; typedef t { type int32; } grouping g { leaf g { type t; } } }`,
			"lc": `module lc { namespace "urn:lc"; prefix lc; revision 2020-01-01; typedef t { type boolean; } }`}
		for round := 0; round < 6; round++ {
			c.Evaluations++
			m, err := load(files, "x")
			if err != nil {
				fail("one prefix bound to three modules by a module and its submodules", "valid module set does not load: "+err.Error(), files)
				break
			}
			bad := false
			for leaf, want := range map[string]string{"a": "string", "b": "int32", "c": "boolean", "ca/g": "string", "cb/g": "int32"} {
				d, _ := meta.Find(m, leaf).(meta.Leafable)
				if d == nil || d.Type().Format().String() != want {
					got := "missing"
					if d != nil {
						got = d.Type().Format().String()
					}
					fail("one prefix bound to three modules by a module and its submodules", fmt.Sprintf("load %d: leaf %s is a %s, the prefix p of the file it is written in names a %s", round+1, leaf, got, want), files)
					bad = true
				}
			}
			if bad {
				break
			}
		}
	}
	// (1c) a relative leafref in a grouping points to another leaf in every place the grouping is used
	{
		files := map[string]string{"r": `module r { namespace "urn:r"; prefix r; revision 2020-01-01;
  grouping g { container in { leaf ref { type leafref { path "../../target"; } } leaf-list refs { type leafref { path "../../target"; } } } }
  container c1 { leaf target { type int32; } uses g; }
  container c2 { leaf target { type string; } uses g; }
  container c3 { leaf target { type enumeration { enum a; enum b; } } uses g; }
}`}
		c.Evaluations++
		m, err := load(files, "r")
		if err != nil {
			fail("relative leafref in a grouping used three times", "valid module does not load: "+err.Error(), files)
		} else if perr := safeDo(func() error {
			for at, want := range map[string]string{"c1": "int32", "c2": "string", "c3": "enumeration"} {
				for _, leaf := range []string{"ref", "refs"} {
					d, _ := meta.Find(m, at+"/in/"+leaf).(meta.Leafable)
					if d == nil {
						fail("relative leafref in a grouping used three times", at+"/in/"+leaf+" is not in the compiled tree", files)
						continue
					}
					if got := d.Type().Resolve().Format().Single().String(); got != want {
						fail("relative leafref in a grouping used three times", fmt.Sprintf("%s/in/%s resolves to a %s, ../../target is a %s there", at, leaf, got, want), files)
					}
				}
			}
			return nil
		}); perr != nil {
			fail("relative leafref in a grouping used three times", perr.Error(), files)
		}
	}
	// (2) identities of a module that is imported by an imported module are linked to their bases, whatever the
	//     module in between defines
	for _, middle := range []string{"", "identity unrelated;"} {
		files := map[string]string{
			"a": `module a { yang-version 1.1; namespace "urn:a"; prefix a; import b { prefix b; } revision 2020-01-01;
  leaf proto { type b:proto; } container c { uses b:bg; }
}`,
			"b": `module b { yang-version 1.1; namespace "urn:b"; prefix b; import c { prefix c; } revision 2020-01-01; ` + middle + `
  typedef proto { type identityref { base c:transport; } }
  grouping bg { leaf p2 { type identityref { base c:transport; } } }
}`,
			"c": `module c { yang-version 1.1; namespace "urn:c"; prefix c; revision 2020-01-01;
  identity transport; identity tcp { base transport; } identity udp { base transport; } identity tls { base tcp; }
}`}
		c.Evaluations++
		name := "identities two imports away (middle module: " + map[bool]string{true: "no identity", false: "one identity"}[middle == ""] + ")"
		m, err := load(files, "a")
		if err != nil {
			fail(name, "valid module set does not load: "+err.Error(), files)
			continue
		}
		if perr := safeDo(func() error {
			for _, lf := range []string{"proto", "c/p2"} {
				d, _ := meta.Find(m, lf).(meta.Leafable)
				if d == nil {
					fail(name, lf+" is not in the compiled tree", files)
					continue
				}
				got := map[string]bool{}
				var below func(id *meta.Identity)
				below = func(id *meta.Identity) {
					for _, x := range id.DerivedDirect() {
						if !got[x.Ident()] {
							got[x.Ident()] = true
							below(x)
						}
					}
				}
				for _, b := range d.Type().Base() {
					below(b)
				}
				var gl []string
				for n := range got {
					gl = append(gl, n)
				}
				sort.Strings(gl)
				if strings.Join(gl, ",") != "tcp,tls,udp" {
					fail(name, fmt.Sprintf("identityref %s accepts the identities %v derived from c:transport, the module c defines [tcp tls udp]", lf, gl), files)
				}
			}
			return nil
		}); perr != nil {
			fail(name, perr.Error(), files)
		}
	}
}

// RFC 7950 9.6.4.2 / 9.7.4.2: an enum without a value is one above the highest value so far (the first one 0), a
// bit without a position likewise - also when the values so far are negative or not in ascending order
func c02numbering(c *core.Ctx) {
	y := `module nu { namespace "urn:nu"; prefix nu; revision 2020-01-01;
  leaf e1 { type enumeration { enum a { value -3; } enum b; enum c { value 10; } enum d; } }
  leaf e2 { type enumeration { enum a; enum b { value -5; } enum c; } }
  leaf e3 { type enumeration { enum a { value -2147483648; } enum b; } }
  leaf e4 { type enumeration { enum a { value 7; } enum b { value 3; } enum c; } }
  typedef te { type enumeration { enum x { value -1; } enum y; enum z; } } leaf e5 { type te; } leaf-list e6 { type te; }
  leaf b1 { type bits { bit p { position 5; } bit q; bit r { position 2; } bit s; } }
  leaf b2 { type bits { bit p; bit q { position 0; } } } }`
	if strings.Contains(y, "b2") {
		// two bits with position 0 would be an error of the module: b2 is left out of the valid set
		y = strings.Replace(y, "\n  leaf b2 { type bits { bit p; bit q { position 0; } } }", "", 1)
	}
	m, err := parser.LoadModuleFromString(nil, y)
	if err != nil {
		c.Violation(core.Replay{Kind: "property-failure", Class: "numbering-load", Summary: "valid module does not load: " + err.Error(), Input: y})
		return
	}
	want := map[string]string{"e1": "a=-3 b=-2 c=10 d=11", "e2": "a=0 b=-5 c=1", "e3": "a=-2147483648 b=-2147483647", "e4": "a=7 b=3 c=8",
		"e5": "x=-1 y=0 z=1", "e6": "x=-1 y=0 z=1", "b1": "p=5 q=6 r=2 s=7"}
	for leaf, w := range want {
		t := meta.Find(m, leaf).(meta.HasType).Type()
		var got []string
		for _, e := range t.Enum() {
			got = append(got, fmt.Sprintf("%s=%d", e.Label, e.Id))
		}
		for _, b := range t.Bits() {
			got = append(got, fmt.Sprintf("%s=%d", b.Ident(), b.Position))
		}
		c.Evaluations++
		c.Count("numbering", leaf[:1])
		c.Distinct("numbering " + leaf)
		if g := strings.Join(got, " "); g != w {
			c.Violation(core.Replay{Kind: "property-failure", Class: "numbering", Summary: fmt.Sprintf("leaf %s: the type has %s, RFC 7950 numbering gives %s", leaf, g, w),
				Input: map[string]interface{}{"yang": y, "leaf": leaf}, Impl: g, Spec: w})
		}
	}
}

// a typedef whose type is a leafref with a relative path: the path means something at the leaves that use the typedef
// (RFC 7950 9.9.2: evaluated in the context of the leaf), and something else at each of them
func c02typedefLeafref(c *core.Ctx) {
	y := `module tl { namespace "urn:tl"; prefix tl; revision 2020-01-01;
  typedef r { type leafref { path "../name"; } } typedef r2 { type r; units u2; }
  container c { leaf name { type int32; } leaf ref { type r; } leaf-list refs { type r2; } }
  container d { leaf name { type string { length "1..3"; } } leaf ref { type r; } container in { leaf name { type boolean; } leaf ref { type r2; } } }
  grouping g { leaf name { type uint8; } leaf gref { type r; } } container e { uses g; } }`
	var m *meta.Module
	var err error
	if e := safeDo(func() error {
		m, err = parser.LoadModuleFromString(nil, y)
		if err == nil {
			DumpModule(m, true).Lines()
		}
		return nil
	}); e != nil {
		err = e
	}
	c.Evaluations++
	c.Count("typedef_leafref", "load")
	if err != nil {
		c.Violation(core.Replay{Kind: "property-failure", Class: "typedef-leafref-load", Summary: "valid module (typedef of a leafref with a relative path) does not load: " + err.Error(), Input: y})
		return
	}
	for path, want := range map[string]string{"c/ref": "leafref→int32", "c/refs": "leafref-list→int32", "d/ref": "leafref→string", "d/in/ref": "leafref→boolean", "e/gref": "leafref→uint8"} {
		t := meta.Find(m, path).(meta.HasType).Type()
		got := "?"
		if e := safeDo(func() error {
			got = fmt.Sprintf("%s→%s", t.Format(), t.Resolve().Format())
			return nil
		}); e != nil {
			got = e.Error()
		}
		c.Evaluations++
		c.Count("typedef_leafref", "leaf")
		c.Distinct("typedefleafref " + path)
		if got != want {
			c.Violation(core.Replay{Kind: "property-failure", Class: "typedef-leafref", Summary: fmt.Sprintf("leaf %s of a typedef'd relative leafref: %s, the path leads to %s from there", path, got, want),
				Input: map[string]interface{}{"yang": y, "leaf": path}, Impl: got, Spec: want})
		}
	}
}

// a module and its submodules share one namespace of identities: a base may be named without a prefix wherever
// in them it is defined (RFC 7950 5.1, 7.18.2)
func c02submoduleIdentity(c *core.Ctx) {
	files := map[string]string{
		"a":  `module a { namespace "urn:a"; prefix a; include s; include s2; revision 2020-01-01; identity root; identity inmain { base sroot; } leaf lm { type identityref { base sroot; } } }`,
		"s":  `submodule s { belongs-to a { prefix a; } identity subid { base root; } identity sub2 { base sroot; } leaf l { type identityref { base root; } } leaf l2 { type identityref { base a:sroot; } } }`,
		"s2": `submodule s2 { belongs-to a { prefix a; } identity sroot; }`,
	}
	opener := func(name, ext string) (io.Reader, error) {
		if y, ok := files[name]; ok {
			return strings.NewReader(y), nil
		}
		return nil, nil
	}
	var m *meta.Module
	var err error
	if e := safeDo(func() error { m, err = parser.LoadModule(opener, "a"); return nil }); e != nil {
		err = e
	}
	c.Evaluations++
	c.Count("submodule_identity", "load")
	if err != nil {
		c.Violation(core.Replay{Kind: "property-failure", Class: "submodule-identity-load", Summary: "valid module set (identities of a module and its submodules, bases without prefix) does not load: " + err.Error(), Input: files})
		return
	}
	for leaf, want := range map[string]string{"l": "subid", "l2": "inmain sub2", "lm": "inmain sub2"} {
		var got []string
		for _, b := range meta.Find(m, leaf).(meta.HasType).Type().Base() {
			for _, d := range b.DerivedDirect() {
				got = append(got, d.Ident())
			}
		}
		sort.Strings(got)
		c.Evaluations++
		c.Distinct("subident " + leaf)
		if g := strings.Join(got, " "); g != want {
			c.Violation(core.Replay{Kind: "property-failure", Class: "submodule-identity", Summary: fmt.Sprintf("leaf %s: the identities derived from its base are [%s], want [%s]", leaf, g, want),
				Input: map[string]interface{}{"files": files, "leaf": leaf}, Impl: g, Spec: want})
		}
	}
}

func C02(c *core.Ctx) {
	c02numbering(c)
	c02submoduleIdentity(c)
	c02typedefLeafref(c)
	c.Rule = "generated module sets (main module + submodule + imported module): typedef chains of depth 1–4 over int32/uint8/int64 (ranges), string (length, pattern), enumeration and bits (explicit, missing, zero and negative values; derived subsets), decimal64 (fraction-digits, range), boolean, identityref, leafref, unions of those, each level optionally stating default and units; typedefs at module level, in the submodule, in the imported module (prefixed) and local to a container (also shadowing a module-level name); leaves and leaf-lists of every level, with and without restrictions, default and units of their own, mandatory / min-elements 1 on a fifth of those without a default (the default of the type is then not the leaf's), at module level, in containers with local typedefs, and in a grouping used 1–3 times; for every leaf of the compiled tree the effective type read through the accessors (format, ranges, lengths, patterns, enum values, bit positions, union members, leafref path and target format, identityref bases, fraction-digits, default, units) compared with the Lean derivation; bits and enumerations written directly on leaf-lists; unions placed in a module-level typedef (member typedefs with default/units). non-trivial = leaf whose type is a typedef chain of depth ≥2 or a union; distinct by (module set, leaf); directed (c02numbering): automatic enum values and bit positions after negative, descending and extreme stated ones; (c02typedefLeafref) a typedef of a leafref with a relative path used by five leaves in different places; (c02submoduleIdentity) bases named without a prefix across a module and two submodules"
	c.Assumptions = append(c.Assumptions,
		"ranges are compared as written, level by level (their meaning for values is C05); identityref acceptance of derived identities is exercised by C05/C15",
		"defaults are chosen inside every restriction of their chain so that every generated module set is valid")
	c.ProofStep("YangVerif.Props.C02")
	if c.Thorough() {
		c.LeanChecker("YangVerif.Props.C02")
	}
	c02probes(c)
	rng := core.NewRng(c.Seed)
	var lines []string
	type pend struct {
		leaf   *c02leaf
		impl   string
		input  map[string]interface{}
		target string // leafref: path of the target leaf
		deep   bool
	}
	var pends []pend
	nSets := c.N(40, 1200)
	for si := 0; si < nSets; si++ {
		r := rng.Fork()
		g := &c02gen{r: r}
		// typedef chains in every placement
		type chainT struct {
			fam c02family
			tds []*ttypedef
		}
		var chains []chainT
		for i, n := 0, 3+r.Intn(4); i < n; i++ {
			fam := core.Pick(r, c02families)
			where := core.Pick(r, []string{"module", "module", "sub", "lib"})
			if fam.name == "leafref" || fam.name == "identityref" {
				where = "module" // their path / base are resolved where the typedef is written
			}
			tds := g.chain(fam, where, 1+r.Intn(4))
			switch where {
			case "module":
				g.module = append(g.module, tds...)
			case "sub":
				g.sub = append(g.sub, tds...)
			case "lib":
				g.lib = append(g.lib, tds...)
			}
			chains = append(chains, chainT{fam, tds})
		}
		ref := func(td *ttypedef) string {
			if td.where == "lib" {
				return "lib:" + td.name
			}
			return td.name
		}
		moduleScope := append(append([]*ttypedef{}, g.module...), g.sub...)
		var leaves []*c02leaf
		mkLeaf := func(path string, scopes [][]*ttypedef, extra []*ttypedef) *c02leaf {
			l := &c02leaf{name: g.name("f"), scopes: scopes}
			// a local typedef of the enclosing scope, a chain level, a built-in, or a union
			switch k := r.Intn(10); {
			case k < 6 || len(chains) == 0:
				ch := core.Pick(r, chains)
				td := core.Pick(r, ch.tds)
				if len(extra) > 0 && r.Chance(40) {
					td = core.Pick(r, extra)
				}
				l.t = &texpr{name: ref(td)}
				l.fam = ch.fam.name
				if len(extra) == 0 || td.where != "local" {
					if r.Chance(30) && ch.fam.name != "enumeration" && ch.fam.name != "bits" {
						ch.fam.narrow(g, 3, l.t)
					}
					if len(ch.fam.dflt) > 0 && r.Chance(25) {
						l.dflt = sp(core.Pick(r, ch.fam.dflt))
					}
					l.list = ch.fam.canList && r.Chance(20)
				}
			case k < 8:
				fam := core.Pick(r, c02families[:8])
				l.t = fam.base(g)
				l.fam = fam.name
				// also written directly on a leaf-list
				l.list = fam.canList && r.Chance(30)
			default:
				l.t = &texpr{name: "union"}
				for i, n := 0, 2+r.Intn(2); i < n; i++ {
					ch := core.Pick(r, chains)
					if ch.fam.name == "leafref" {
						continue
					}
					td := core.Pick(r, ch.tds)
					l.t.members = append(l.t.members, &texpr{name: ref(td)})
				}
				if len(l.t.members) == 0 {
					l.t.members = []*texpr{{name: "string"}}
				}
				l.t.members = append(l.t.members, &texpr{name: "int8", rng: sp("1..5")})
				l.fam = "union"
				if r.Chance(50) {
					// the union is the type of a module-level typedef: what its member typedefs state as default and
					// units stays with the members (RFC 7950 §9.12)
					utd := &ttypedef{name: g.name("tu"), t: l.t, where: "module"}
					if r.Chance(30) {
						utd.units = sp("u-" + utd.name)
					}
					g.module = append(g.module, utd)
					sc := append([][]*ttypedef{}, scopes...)
					last := len(sc) - 1
					sc[last] = append(append([]*ttypedef{}, sc[last]...), utd)
					l.scopes = sc
					l.t = &texpr{name: utd.name}
					c.Count("scenario", "leaf of a typedef whose type is a union of typedefs")
				}
			}
			if r.Chance(25) {
				l.units = sp("own-" + l.name)
			}
			if l.dflt == nil && r.Chance(20) {
				l.required = true
			}
			l.path = path + "/" + l.name
			return l
		}
		var body strings.Builder
		// module-level leaves
		for i, n := 0, 2+r.Intn(3); i < n; i++ {
			l := mkLeaf("", [][]*ttypedef{moduleScope}, nil)
			leaves = append(leaves, l)
			body.WriteString(l.yang("  "))
		}
		// containers with local typedefs, some shadowing a module-level name
		for ci, cn := 0, 1+r.Intn(2); ci < cn; ci++ {
			cname := g.name("c")
			var local []*ttypedef
			if len(g.module) > 0 && r.Chance(60) {
				shadowed := core.Pick(r, g.module)
				local = append(local, &ttypedef{name: shadowed.name, t: &texpr{name: "uint16", rng: sp("7..77")}, dflt: sp("9"), units: sp("shadow"), where: "local"})
			}
			local = append(local, &ttypedef{name: g.name("lt"), t: &texpr{name: "string", len: sp("1..3")}, units: sp("local-units"), where: "local"})
			fmt.Fprintf(&body, "  container %s {\n", cname)
			for _, td := range local {
				body.WriteString(td.yang("    "))
			}
			for i, n := 0, 1+r.Intn(3); i < n; i++ {
				l := mkLeaf("/"+cname, [][]*ttypedef{local, moduleScope}, local)
				// a leaf naming a shadowed typedef gets the local one: that is the point
				leaves = append(leaves, l)
				body.WriteString(l.yang("    "))
			}
			body.WriteString("  }\n")
		}
		// a grouping (written at module level: its leaves see the module scope) used in 1–3 containers
		gname := g.name("g")
		var gleaves []*c02leaf
		var gbody strings.Builder
		for i, n := 0, 1+r.Intn(3); i < n; i++ {
			l := mkLeaf("", [][]*ttypedef{moduleScope}, nil)
			gleaves = append(gleaves, l)
			gbody.WriteString(l.yang("    "))
		}
		fmt.Fprintf(&body, "  grouping %s {\n%s  }\n", gname, gbody.String())
		nUses := 1 + r.Intn(3)
		for u := 0; u < nUses; u++ {
			cname := g.name("u")
			// the using container has its own typedef of the same name as one the grouping's leaves use: must not capture
			capt := ""
			if len(g.module) > 0 {
				capt = core.Pick(r, g.module).name
				fmt.Fprintf(&body, "  container %s { typedef %s { type boolean; default true; units captured; } uses %s; }\n", cname, capt, gname)
			} else {
				fmt.Fprintf(&body, "  container %s { uses %s; }\n", cname, gname)
			}
			for _, gl := range gleaves {
				cp := *gl
				cp.path = "/" + cname + "/" + gl.name
				leaves = append(leaves, &cp)
			}
		}
		c.Count("grouping_uses", fmt.Sprint(nUses))
		var modT, subT, libT strings.Builder
		for _, td := range g.module {
			modT.WriteString(td.yang("  "))
		}
		for _, td := range g.sub {
			subT.WriteString(td.yang("  "))
		}
		for _, td := range g.lib {
			libT.WriteString(td.yang("  "))
		}
		// an identity hierarchy: identities of the imported module, and identities of the main module with one to
		// three bases each, local and imported ones in any order ("the identities an identityref accepts")
		idBases := map[string][]string{"la": nil, "lb": nil, "lc": {"la"}, "ld": {"lb", "lc"}, "idbase": nil, "idmid": {"idbase"}, "idlow": {"idmid"}}
		idOrder := []string{"la", "lb", "lc", "ld", "idbase", "idmid", "idlow"}
		var idText strings.Builder
		for i, n := 0, 2+rng.Intn(5); i < n; i++ {
			name := fmt.Sprintf("x%d", i)
			var bs []string
			for j, nb := 0, 1+rng.Intn(3); j < nb; j++ {
				b := core.Pick(rng, idOrder)
				if !contains(bs, b) {
					bs = append(bs, b)
				}
			}
			idBases[name] = bs
			idOrder = append(idOrder, name)
			fmt.Fprintf(&idText, "  identity %s {", name)
			for _, b := range bs {
				if strings.HasPrefix(b, "l") {
					b = "lib:" + b
				} else if rng.Chance(30) {
					b = "m:" + b
				}
				fmt.Fprintf(&idText, " base %s;", b)
			}
			idText.WriteString(" }\n")
		}
		mainY := "module m { yang-version 1.1; namespace \"urn:m\"; prefix m;\n  import lib { prefix lib; }\n  include m-sub;\n  revision 2020-01-01;\n" +
			"  identity idbase; identity idmid { base idbase; } identity idlow { base idmid; }\n" + idText.String() + "  leaf target { type uint16; }\n" +
			modT.String() + body.String() + "}\n"
		subY := "submodule m-sub { yang-version 1.1; belongs-to m { prefix m; }\n" + subT.String() + "}\n"
		libY := "module lib { yang-version 1.1; namespace \"urn:lib\"; prefix lib;\n  revision 2020-01-01;\n" +
			"  identity la; identity lb; identity lc { base la; } identity ld { base lb; base lc; }\n" + libT.String() + "}\n"
		input := map[string]interface{}{"m.yang": mainY, "m-sub.yang": subY, "lib.yang": libY}
		var m *meta.Module
		lerr := safeDo(func() error {
			opener := source.Any(source.Named("m", strings.NewReader(mainY)), source.Named("m-sub", strings.NewReader(subY)), source.Named("lib", strings.NewReader(libY)))
			var e error
			m, e = parser.LoadModule(opener, "m")
			return e
		})
		c.Evaluations++
		if lerr != nil {
			c.Violation(core.Replay{Kind: "property-failure", Class: "load-" + c06errClass(lerr.Error()), Summary: "valid module set does not load: " + short(lerr.Error()), Input: input})
			continue
		}
		// every identity is derived (directly or not) from exactly the identities its base statements lead to
		if ierr := safeDo(func() error {
			all := map[string]*meta.Identity{}
			for n, id := range m.Identities() {
				all[n] = id
			}
			if im := m.Imports()["lib"]; im != nil && im.Module() != nil {
				for n, id := range im.Module().Identities() {
					all[n] = id
				}
			}
			var below func(id *meta.Identity, out map[string]bool)
			below = func(id *meta.Identity, out map[string]bool) {
				for _, d := range id.DerivedDirect() {
					if !out[d.Ident()] {
						out[d.Ident()] = true
						below(d, out)
					}
				}
			}
			var reaches func(n, base string, seen map[string]bool) bool
			reaches = func(n, base string, seen map[string]bool) bool {
				if seen[n] {
					return false
				}
				seen[n] = true
				for _, b := range idBases[n] {
					if b == base || reaches(b, base, seen) {
						return true
					}
				}
				return false
			}
			for _, base := range idOrder {
				id := all[base]
				if id == nil {
					c.Violation(core.Replay{Kind: "property-failure", Class: "identity-missing", Summary: "identity " + base + " is not in the compiled schema", Input: input})
					continue
				}
				got := map[string]bool{}
				below(id, got)
				var gl, wl []string
				for n := range got {
					gl = append(gl, n)
				}
				for _, n := range idOrder {
					if reaches(n, base, map[string]bool{}) {
						wl = append(wl, n)
					}
				}
				sort.Strings(gl)
				sort.Strings(wl)
				c.Evaluations++
				if strings.Join(gl, " ") != strings.Join(wl, " ") {
					c.Violation(core.Replay{Kind: "property-failure", Class: "identity-derived", Summary: fmt.Sprintf("identities derived from %s: compiled schema says %v, the base statements say %v", base, gl, wl), Input: input})
				}
			}
			return nil
		}); ierr != nil {
			c.Violation(core.Replay{Kind: "property-failure", Class: "identity-panic", Summary: "walking the identities: " + ierr.Error(), Input: input})
		}
		// model query per leaf
		modsTok := []string{"M", "1", core.Hex("lib"), fmt.Sprint(len(g.lib))}
		for _, td := range g.lib {
			modsTok = append(modsTok, td.toks()...)
		}
		for _, l := range leaves {
			var def meta.Definition
			var cur meta.Meta = m
			for _, seg := range strings.Split(strings.TrimPrefix(l.path, "/"), "/") {
				def = nil
				for _, d := range cur.(meta.HasDataDefinitions).DataDefinitions() {
					if d.Ident() == seg {
						def = d
					}
				}
				if def == nil {
					break
				}
				cur = def
			}
			c.Evaluations++
			c.Count("family", l.fam)
			lf, ok := def.(meta.Leafable)
			if !ok {
				c.Violation(core.Replay{Kind: "property-failure", Class: "leaf-missing", Summary: "leaf " + l.path + " is not in the compiled tree", Input: input})
				continue
			}
			var impl string
			if perr := safeDo(func() error {
				d := ""
				if lf.HasDefault() {
					d = fmt.Sprint(lf.DefaultValue())
					if ll, isLL := lf.(*meta.LeafList); isLL {
						d = strings.Join(ll.Default(), ",")
					}
				}
				impl = c02dumpType(lf.Type(), d, lf.Units(), lf.HasDefault())
				if lf.Type().Format().Single().String() == "leafref" {
					impl += " ->" + lf.Type().Resolve().Format().String()
				}
				return nil
			}); perr != nil {
				impl = perr.Error()
			}
			line := append([]string{"c02 leaf"}, modsTok...)
			line = append(line, "S", fmt.Sprint(len(l.scopes)))
			for _, sc := range l.scopes {
				line = append(line, fmt.Sprint(len(sc)))
				for _, td := range sc {
					line = append(line, td.toks()...)
				}
			}
			line = append(append(line, l.t.toks()...), osTok(l.dflt), osTok(l.units))
			if l.required {
				line = append(line, "R")
			}
			lines = append(lines, strings.Join(line, " "))
			deep := l.fam == "union"
			for _, sc := range l.scopes {
				for _, td := range sc {
					if td.name == strings.TrimPrefix(l.t.name, "lib:") && !contains(builtinNames, td.t.name) {
						deep = true
					}
				}
			}
			pends = append(pends, pend{leaf: l, impl: impl, input: input, deep: deep})
		}
	}
	outs, err := core.RunDriver(lines)
	if err != nil {
		c.ProofBroken = append(c.ProofBroken, err.Error())
		return
	}
	for i, o := range outs {
		p := pends[i]
		if o == "none" || strings.HasPrefix(o, "bad-op") {
			c.Count("driver", short(o))
			continue
		}
		tr := &c02tr{toks: strings.Fields(o)}
		want := tr.eff(p.leaf.list, true)
		if tr.bad || len(tr.toks) != 0 {
			c.Count("driver", "parse:"+short(o))
			continue
		}
		if strings.Contains(want, "fmt=leafref") {
			want += " ->uint16"
		}
		if i%101 == 0 {
			c.Sample(map[string]interface{}{"leaf": p.leaf.path, "type": p.leaf.t.yang(), "library": p.impl, "model": want})
		}
		if p.impl != want {
			what := fmt.Sprintf("leaf %s { type %s }: accessors give %s; RFC 7950 derivation gives %s", p.leaf.path, short(p.leaf.t.yang()), p.impl, want)
			if id := c02known(p.impl, want); id != "" && c.IsKnown(id, short(what)) {
				continue
			}
			c.Violation(core.Replay{Kind: "property-failure", Class: "eff-" + p.leaf.fam, Summary: what, Input: p.input, Impl: p.impl, Model: want})
		} else if p.deep {
			c.Distinct(fmt.Sprint(i))
		}
	}
}

var c02patRe = regexp.MustCompile(` patterns=\{\{.*?\}\}`)

var builtinNames = []string{"int8", "int16", "int32", "int64", "uint8", "uint16", "uint32", "uint64", "decimal64", "string", "boolean", "enumeration", "bits", "binary", "leafref", "identityref", "empty", "union"}

func contains(xs []string, x string) bool {
	for _, y := range xs {
		if x == y {
			return true
		}
	}
	return false
}

// a difference confined to patterns= where the library shows only the innermost level's patterns
func c02known(impl, want string) string {
	strip := func(s string) string { return c02patRe.ReplaceAllString(s, "") }
	if strip(impl) == strip(want) {
		return "derived-patterns-replace-base"
	}
	return ""
}
