package props

import (
	"encoding/json"
	"errors"
	"fmt"
	"strings"

	"verif/harness/core"
	"verif/harness/gen"
	"verif/harness/refstore"

	"github.com/freeconf/yang/node"
	"github.com/freeconf/yang/nodeutil"
	"github.com/freeconf/yang/parser"
)

func init() { Registry["C12"] = C12 }

type c12scn struct {
	ids   []string
	steps []c12step
}
type c12step struct {
	call string
	sub  *c12scn
}

// parse the fault-free trace into the bracket tree
func c12parse(evs []refstore.Event, pos *int) (*c12scn, error) {
	s := &c12scn{}
	for *pos < len(evs) && evs[*pos].Op == "begin" {
		s.ids = append(s.ids, evs[*pos].Node)
		*pos++
	}
	if len(s.ids) == 0 {
		return nil, fmt.Errorf("expected begin at %d", *pos)
	}
	for *pos < len(evs) {
		e := evs[*pos]
		switch e.Op {
		case "begin":
			sub, err := c12parse(evs, pos)
			if err != nil {
				return nil, err
			}
			s.steps = append(s.steps, c12step{sub: sub})
		case "end":
			for _, id := range s.ids {
				if *pos >= len(evs) || evs[*pos].Op != "end" || evs[*pos].Node != id {
					return nil, fmt.Errorf("fault-free trace: end of %s expected at %d", id, *pos)
				}
				*pos++
			}
			return s, nil
		default:
			s.steps = append(s.steps, c12step{call: e.String()})
			*pos++
		}
	}
	return nil, fmt.Errorf("fault-free trace ends inside %v", s.ids)
}

func (s *c12scn) tokens() string {
	var b strings.Builder
	fmt.Fprintf(&b, "S %d", len(s.ids))
	for _, id := range s.ids {
		b.WriteString(" " + core.Hex(id))
	}
	fmt.Fprintf(&b, " %d", len(s.steps))
	for _, st := range s.steps {
		if st.sub != nil {
			b.WriteString(" s " + st.sub.tokens())
		} else {
			b.WriteString(" c " + core.Hex(st.call))
		}
	}
	return b.String()
}

func c12events(rec *refstore.Recorder) string {
	var out []string
	for i, e := range rec.Events {
		failed := rec.FailAt != 0 && i+1 == rec.FailAt
		mark := "+"
		if failed {
			mark = "-"
		}
		switch e.Op {
		case "begin":
			out = append(out, "B"+mark+core.Hex(e.Node))
		case "end":
			out = append(out, "E"+mark+core.Hex(e.Node))
		default:
			out = append(out, "C"+mark+core.Hex(e.String()))
		}
	}
	return strings.Join(out, " ")
}

func decodeEvents(s string) string {
	var out []string
	for _, t := range strings.Fields(s) {
		if len(t) > 2 {
			out = append(out, t[:2]+"["+core.Unhex(t[2:])+"]")
		}
	}
	return strings.Join(out, " ")
}

// a schema whose leaves, container and list entries carry conditions: evaluating a condition reads its operand
// through the node's Field callback, and that read can fail like any other
const c12whenYang = `module m { namespace "urn:m"; prefix m; revision 2020-01-01;
  leaf f1 { type int32; } leaf f2 { when "f1>10"; type string; }
  container c3 { leaf f4 { type int32; } leaf f5 { when "f4>0"; type string; } container c6 { when "f7>3"; leaf f7 { type int32; } leaf f8 { type string; } } }
  list l9 { key k10; leaf k10 { type string; } leaf f11 { type int32; } leaf f12 { when "f11>5"; type string; } }
}`

func c12whenCase() (*dataCase, error) {
	lf := func(n, t string) *gen.SNode { return &gen.SNode{Name: n, Kind: "leaf", Type: t} }
	kids := []*gen.SNode{lf("f1", "int32"), lf("f2", "string"),
		{Name: "c3", Kind: "cont", Kids: []*gen.SNode{lf("f4", "int32"), lf("f5", "string"), {Name: "c6", Kind: "cont", Kids: []*gen.SNode{lf("f7", "int32"), lf("f8", "string")}}}},
		{Name: "l9", Kind: "list", NKeys: 1, Kids: []*gen.SNode{lf("k10", "string"), lf("f11", "int32"), lf("f12", "string")}}}
	m, err := parser.LoadModuleFromString(nil, c12whenYang)
	if err != nil {
		return nil, err
	}
	return &dataCase{kids, c12whenYang, m}, nil
}

// directed: an edit the library refuses after the target made a container that a condition then hides - every
// callback of that run failing in turn, the delete that takes the container away again included
func c12refusedProbe(c *core.Ctx) {
	dc, err := c12whenCase()
	if err != nil {
		return
	}
	one, x := "1", "x"
	c6 := gen.EmptyBody(dc.kids[2].Kids[2].Kids)
	c6[0], c6[1] = &gen.DNode{Leaf: &one}, &gen.DNode{Leaf: &x}
	c3 := gen.EmptyBody(dc.kids[2].Kids)
	c3[2] = &gen.DNode{Present: true, Kids: c6}
	src0 := gen.EmptyBody(dc.kids)
	src0[2] = &gen.DNode{Present: true, Kids: c3}
	for _, op := range []string{"upsert", "insert"} {
		runOnce := func(failAt int) (*refstore.Recorder, error) {
			rec := &refstore.Recorder{FailAt: failAt}
			b := node.NewBrowser(dc.m, refstore.NewBody(rec, dc.kids, gen.EmptyBody(dc.kids), "tgt:"))
			return rec, safeDo(func() error {
				return applyEdit(b.Root(), op, refstore.NewBody(rec, dc.kids, gen.Clone(src0), "src:"))
			})
		}
		free, ferr := runOnce(0)
		c.Count("refused_probe", op+" "+errClass(ferr))
		for k := 1; k <= len(free.Events); k++ {
			rec, err := runOnce(k)
			c.Evaluations++
			c.Distinct(fmt.Sprintf("refusedprobe %s %d", op, k))
			var inj *refstore.InjectedError
			if rec.Failed && (err == nil || !errors.As(err, &inj) || inj.K != k) {
				what := "?"
				if k-1 < len(rec.Events) {
					what = rec.Events[k-1].String()
				}
				c.Violation(core.Replay{Kind: "property-failure", Class: "refused-error-not-wrapped-" + op, Summary: fmt.Sprintf("%s of a container whose condition is false once it is made (%v), with callback %d (%s) failing: the returned error does not wrap the callback's error (%v)", op, ferr, k, what, err),
					Input: map[string]interface{}{"yang": dc.yang, "op": op, "source": gen.Canon(dc.kids, src0, false), "fail_at": k, "failing_event": what, "returned_error": fmt.Sprint(err), "trace": decodeEvents(c12events(rec))}})
			}
		}
	}
}

// directed: edits that have to create a node whose condition cannot hold yet - whatever they return, they return
func c12whenProbe(c *core.Ctx) {
	dc, err := c12whenCase()
	if err != nil {
		c.Violation(core.Replay{Kind: "harness", Summary: "c12 when module: " + err.Error(), NoInputFound: true})
		return
	}
	for _, doc := range []string{`{"c3":{"c6":{}}}`, `{"c3":{"c6":{"f7":5,"f8":"x"}}}`, `{"c3":{"c6":{"f7":1}}}`, `{"f2":"x"}`, `{"f1":20,"f2":"x"}`, `{"l9":[{"k10":"a","f12":"x"}]}`, `{"l9":[{"k10":"a","f11":9,"f12":"x"}]}`, `{"c3":{"f5":"x"}}`} {
		for _, op := range []string{"upsert", "insert", "update"} {
			for _, tgt := range []string{`{}`, `{"c3":{}}`, `{"f1":20,"c3":{"f4":1,"c6":{"f7":9}},"l9":[{"k10":"a","f11":9}]}`} {
				c.Evaluations++
				c.Count("when_probe", op)
				err := safeDo(func() error {
					var tm map[string]interface{}
					if e := json.Unmarshal([]byte(tgt), &tm); e != nil {
						return e
					}
					src, e := nodeutil.ReadJSON(doc)
					if e != nil {
						return e
					}
					if e := applyEdit(node.NewBrowser(dc.m, nodeutil.ReflectChild(tm)).Root(), op, src); e != nil && strings.Contains(e.Error(), "PANIC") {
						return e
					}
					return nil
				})
				if err != nil && strings.Contains(err.Error(), "PANIC") {
					c.Violation(core.Replay{Kind: "property-failure", Class: "when-probe-panic-" + op, Summary: fmt.Sprintf("%s of %s into %s: %v", op, doc, tgt, err),
						Input: map[string]interface{}{"yang": dc.yang, "op": op, "document": doc, "target": tgt}})
				}
			}
		}
	}
}

func C12(c *core.Ctx) {
	c12whenProbe(c)
	c12refusedProbe(c)
	c.Rule = "edit scenarios (strategy upsert/insert/update through the From and the Into entry points, replace and delete; generated schema and trees; entry point root / container / list entry so that the edit root has 0–3 ancestors) on recording reference stores for source and target; each scenario runs once fault-free to learn its K node callbacks, then K more times with callback k = 1…K failing (exhaustive per scenario); trace (Begin/End/other with the failing one marked) and result are compared with the Lean bracket model, and errors.As must find the injected error; a quarter of the scenarios start from a selection on a leaf; every eighth runs on a schema with when conditions (their operand reads are callbacks that can fail); 15% of the targets are a nodeutil.Tee of two recording stores (bracket balance per node checked directly). non-trivial = faulted run whose failing callback is not the first; distinct by (scenario, k); directed (c12refusedProbe): upsert / insert of a container that a condition hides once the target has made it, every callback of the refused run failing in turn (the delete that removes it again included): the error comes back wrapped"
	c.Assumptions = append(c.Assumptions,
		"the scenario tree is parsed from the fault-free trace of the real code: consecutive Begin events form one bubbling group",
		"Choose callbacks do not occur in these scenarios (no choices in the generated schemas); the documented swallowing of target Choose errors is outside this check")
	c.ProofStep("YangVerif.Props.C12")
	if c.Thorough() {
		c.LeanChecker("YangVerif.Props.C12")
	}
	rng := core.NewRng(c.Seed)
	nScen := c.N(60, 3000)
	o := gen.Opts{MaxDepth: 3, MaxKids: 3, Defaults: true, MultiKeys: true}
	type pend struct {
		desc, impl string
		input      map[string]interface{}
		k          int
	}
	var lines []string
	var pends []pend
	for si := 0; si < nScen; si++ {
		r := rng.Fork()
		var dc *dataCase
		var err error
		withChoice := r.Chance(30)
		if withChoice {
			gen.ResetNames()
			kids := gen.GenChoiceSchema(r, 0, 2+r.Intn(3))
			y := gen.Module("m", kids)
			m, lerr := parser.LoadModuleFromString(nil, y)
			if lerr != nil {
				c.Violation(core.Replay{Kind: "harness", Summary: lerr.Error(), NoInputFound: true})
				return
			}
			dc = &dataCase{kids, y, m}
		} else if si%8 == 5 {
			dc, err = c12whenCase()
			c.Count("schema", "with conditions")
		} else {
			dc, err = newDataCase(r, o)
		}
		if err != nil {
			c.Violation(core.Replay{Kind: "harness", Summary: err.Error(), NoInputFound: true})
			return
		}
		tgt0 := gen.GenBody(r, dc.kids, 40+r.Intn(50), o)
		if withChoice {
			tgt0 = gen.GenChoiceBody(r, dc.kids, 40+r.Intn(40))
		}
		locs := []editLoc{{"", dc.kids, tgt0, "root", 0}}
		findLocs(dc.kids, tgt0, "", 0, &locs)
		loc := core.Pick(r, locs)
		op := core.Pick(r, []string{"upsert", "upsert", "insert", "update", "delete", "replace", "upsert-into", "insert-into", "update-into"})
		if strings.HasSuffix(op, "-into") && r.Chance(60) {
			// the Into entry points from a list entry: the one place where the source selection has a list above it
			var entries []editLoc
			for _, l := range locs {
				if l.kind == "entry" {
					entries = append(entries, l)
				}
			}
			if len(entries) > 0 {
				loc = core.Pick(r, entries)
			}
		}
		src0 := gen.GenBody(r, loc.kids, 30+r.Intn(50), o)
		if withChoice {
			loc = locs[0]
			op = "upsert"
			src0 = gen.GenChoiceBody(r, dc.kids, 40+r.Intn(40))
		}
		gen.Overlap(r, loc.kids, src0, loc.body)
		if loc.kind == "entry" {
			keepEntryKeys(dc.kids, loc, src0)
		}
		// delete / replace address a child of loc
		var childIdx = -1
		if op == "delete" || op == "replace" {
			var cands []int
			for i, s := range loc.kids {
				if s.Kind == "cont" && loc.body[i].Present {
					cands = append(cands, i)
				}
			}
			if len(cands) == 0 {
				op = "upsert"
			} else {
				childIdx = core.Pick(r, cands)
			}
		}
		// the start selection may be a single leaf of the entry point (Find("a/b/x") then UpsertFrom / UpsertInto ...)
		leafStart := ""
		if !withChoice && childIdx < 0 && r.Chance(25) {
			var cands []int
			for i, s := range loc.kids {
				if s.Kind == "leaf" && strings.HasPrefix(s.Name, "f") && !s.LeafList {
					cands = append(cands, i)
				}
			}
			if len(cands) > 0 {
				li := core.Pick(r, cands)
				leafStart = loc.kids[li].Name
				if src0[li].Leaf == nil {
					v := "7"
					if loc.kids[li].Type != "int32" {
						v = "leafstart"
					}
					src0[li].Leaf = &v
				}
			}
		}
		// the target may be two stores written together (nodeutil.Tee): both are nodes of the edit
		teeTarget := !withChoice && r.Chance(15)
		runOnce := func(failAt int) (*refstore.Recorder, error) {
			rec := &refstore.Recorder{FailAt: failAt}
			tgt := gen.Clone(tgt0)
			var troot node.Node = refstore.NewBody(rec, dc.kids, tgt, "tgt:")
			if teeTarget {
				troot = nodeutil.Tee{A: troot, B: refstore.NewBody(rec, dc.kids, gen.Clone(tgt0), "tgt2:")}
			}
			b := node.NewBrowser(dc.m, troot)
			var opErr error
			opErr = safeDo(func() error {
				sel := b.Root()
				if loc.path != "" {
					// navigation is not part of the edit: do it without recording
					saved := *rec
					rec.FailAt = 0
					s, err := b.Root().Find(loc.path)
					*rec = saved
					if err != nil || s == nil {
						return fmt.Errorf("entry point: %v", err)
					}
					sel = s
				}
				if leafStart != "" {
					saved := *rec
					rec.FailAt = 0
					ls, err := sel.Find(leafStart)
					*rec = saved
					if err != nil || ls == nil {
						return fmt.Errorf("leaf start selection: %v", err)
					}
					sel = ls
				}
				switch op {
				case "delete", "replace":
					saved := *rec
					rec.FailAt = 0
					child, err := sel.Find(loc.kids[childIdx].Name)
					*rec = saved
					if err != nil || child == nil {
						return fmt.Errorf("child: %v", err)
					}
					if op == "delete" {
						return child.Delete()
					}
					doc := gen.EmptyBody(loc.kids)
					doc[childIdx] = src0[childIdx]
					if !doc[childIdx].Present {
						doc[childIdx] = &gen.DNode{Present: true, Kids: gen.EmptyBody(loc.kids[childIdx].Kids)}
					}
					return child.ReplaceFrom(refstore.NewBody(rec, loc.kids, gen.Clone(doc), "src:"))
				}
				if strings.HasSuffix(op, "-into") {
					// the Into entry points: the source selection drives, the target is a bare node at the same place.
					// The source browser holds the target's tree with the source data put in at the entry point
					srcFull := gen.Clone(tgt0)
					lb := locateBody(dc.kids, srcFull, loc)
					if lb == nil {
						return fmt.Errorf("entry point not in the source tree")
					}
					copy(lb, gen.Clone(src0))
					saved := *rec
					rec.FailAt = 0
					sb := node.NewBrowser(dc.m, refstore.NewBody(rec, dc.kids, srcFull, "src:"))
					ssel, err := sb.Root().Find(loc.path)
					if err == nil && ssel != nil && leafStart != "" {
						ssel, err = ssel.Find(leafStart)
					}
					*rec = saved
					if err != nil || ssel == nil {
						return fmt.Errorf("source entry point: %v", err)
					}
					switch op {
					case "upsert-into":
						return ssel.UpsertInto(sel.Node)
					case "insert-into":
						return ssel.InsertInto(sel.Node)
					default:
						return ssel.UpdateInto(sel.Node)
					}
				}
				return applyEdit(sel, op, refstore.NewBody(rec, loc.kids, gen.Clone(src0), "src:"))
			})
			return rec, opErr
		}
		free, ferr := runOnce(0)
		if ferr != nil && strings.Contains(ferr.Error(), "PANIC") {
			c.Violation(core.Replay{Kind: "property-failure", Class: "panic-faultfree", Summary: fmt.Sprintf("%s at %q (leaf start %q): fault-free run panicked: %v", op, loc.path, leafStart, ferr),
				Input: map[string]interface{}{"yang": dc.yang, "op": op, "entry": loc.path, "leaf_start": leafStart, "tee_target": teeTarget, "source": gen.Canon(loc.kids, src0, false), "target": gen.Canon(dc.kids, tgt0, false), "trace": decodeEvents(c12events(free))}})
			continue
		}
		if ferr != nil {
			// conflict / not-found scenarios: the bracket structure still has to hold, but the model is
			// built from a successful run — skip (C03 covers their result)
			c.Count("scenario", "refused-"+errClass(ferr))
			// the bracket model needs a successful baseline; what still has to hold for a request the library refuses
			// on its own: an error of a node callback (the EndEdit calls that follow the refusal included) is wrapped
			// by the error the call returns
			for k := 1; k <= len(free.Events); k++ {
				rec, err := runOnce(k)
				c.Evaluations++
				var inj *refstore.InjectedError
				if rec.Failed && (err == nil || !errors.As(err, &inj) || inj.K != k) {
					what := "?"
					if k-1 < len(rec.Events) {
						what = rec.Events[k-1].String()
					}
					c.Violation(core.Replay{Kind: "property-failure", Class: "refused-error-not-wrapped-" + op, Summary: fmt.Sprintf("%s at %q, a request the library refuses (%v), with callback %d (%s) failing: the returned error does not wrap the callback's error (%v)", op, loc.path, ferr, k, what, err),
						Input: map[string]interface{}{"yang": dc.yang, "op": op, "entry": loc.path, "source": gen.Canon(loc.kids, src0, false), "target": gen.Canon(dc.kids, tgt0, false), "fail_at": k, "failing_event": what, "returned_error": fmt.Sprint(err), "trace": decodeEvents(c12events(rec))}})
				}
			}
			continue
		}
		K := len(free.Events)
		if K == 0 {
			continue
		}
		// "and to no other node": the source of an edit is only read
		onSource := func(rec *refstore.Recorder, when string) {
			for _, e := range rec.Events {
				if (e.Op == "begin" || e.Op == "end") && strings.HasPrefix(e.Node, "src:") {
					c.Violation(core.Replay{Kind: "property-failure", Class: "begin-end-on-source-" + op, Summary: fmt.Sprintf("%s at %q (%s): the source node %s, which is only read, was told %s of an edit", op, loc.path, when, e.Node, e.Op),
						Input: map[string]interface{}{"yang": dc.yang, "op": op, "entry": loc.path, "trace": decodeEvents(c12events(rec))}})
					return
				}
			}
		}
		onSource(free, "fault-free")
		// replace = delete + insert: two API-internal edits, each with its own brackets → parse as a sequence
		var scns []*c12scn
		pos := 0
		okParse := true
		for pos < len(free.Events) {
			s, err := c12parse(free.Events, &pos)
			if err != nil {
				c.Violation(core.Replay{Kind: "property-failure", Class: "faultfree-unbalanced", Summary: fmt.Sprintf("%s at %q: fault-free trace is not balanced: %v", op, loc.path, err),
					Input: map[string]interface{}{"yang": dc.yang, "trace": c12events(free)}})
				okParse = false
				break
			}
			scns = append(scns, s)
		}
		if !okParse {
			continue
		}
		// one scenario with an empty bubbling group wraps the sequence
		top := &c12scn{}
		for _, s := range scns {
			top.steps = append(top.steps, c12step{sub: s})
		}
		if withChoice {
			c.Count("scenario", "choice-upsert")
		}
		if leafStart != "" {
			c.Count("scenario", op+"-leaf-start")
		}
		if teeTarget {
			c.Count("scenario", op+"-tee-target")
		}
		c.Count("scenario", op+"-"+loc.kind)
		c.Count("callbacks", fmt.Sprint((K/20)*20, "+"))
		input := map[string]interface{}{"yang": dc.yang, "op": op, "entry": loc.path, "leaf_start": leafStart, "source": gen.Canon(loc.kids, src0, false), "target": gen.Canon(dc.kids, tgt0, false), "faultfree_trace": decodeEvents(c12events(free))}
		for k := 1; k <= K; k++ {
			rec, err := runOnce(k)
			c.Evaluations++
			onSource(rec, fmt.Sprintf("callback %d failing", k))
			if k > 1 {
				c.Distinct(fmt.Sprint(si, k))
			}
			var inj *refstore.InjectedError
			status := "1"
			if err != nil {
				status = "0"
			}
			surf := "ok"
			if rec.Failed && (err == nil || !errors.As(err, &inj) || inj.K != k) {
				surf = fmt.Sprintf("injected error not wrapped by the returned error (%v)", err)
			}
			if strings.Contains(fmt.Sprint(err), "PANIC") {
				surf = "panic: " + err.Error()
			}
			if teeTarget {
				// two stores behind one node: the order in which the two are told is the Tee's business; what the property
				// says is checked directly - whoever was told Begin (and did not refuse) is told End exactly once, and the
				// error is the callback's
				open := map[string]int{}
				bad := ""
				for i, e := range rec.Events {
					failedHere := rec.Failed && i == k-1
					switch e.Op {
					case "begin":
						if !failedHere {
							open[e.Node]++
						}
					case "end":
						open[e.Node]--
						if open[e.Node] < 0 {
							bad = "End without Begin on " + e.Node
						}
					default:
						if strings.HasPrefix(e.Node, "tgt") && len(open) == 0 {
							bad = "callback outside Begin/End on " + e.Node
						}
					}
				}
				for n, v := range open {
					if v != 0 && bad == "" {
						bad = fmt.Sprintf("%s was told Begin %d time(s) more than End", n, v)
					}
				}
				if bad == "" && surf != "ok" {
					bad = surf
				}
				if bad == "" && rec.Failed && err == nil {
					bad = "the call returned nil although callback " + fmt.Sprint(k) + " failed"
				}
				if bad != "" {
					c.Violation(core.Replay{Kind: "property-failure", Class: "tee-brackets-" + op, Summary: fmt.Sprintf("%s at %q into a nodeutil.Tee of two stores, callback %d/%d failing: %s; trace %s", op, loc.path, k, K, bad, short(decodeEvents(c12events(rec)))),
						Input: map[string]interface{}{"yang": dc.yang, "op": op, "entry": loc.path, "fail_at": k, "trace": decodeEvents(c12events(rec)), "returned_error": fmt.Sprint(err)}})
				}
				continue
			}
			lines = append(lines, fmt.Sprintf("c12 run %d %s", k, top.tokens()))
			inp := map[string]interface{}{}
			for kk, v := range input {
				inp[kk] = v
			}
			inp["fail_at"] = k
			inp["faulted_trace"] = decodeEvents(c12events(rec))
			inp["returned_error"] = fmt.Sprint(err)
			if k-1 < len(rec.Events) {
				inp["failing_event"] = rec.Events[k-1].String()
			}
			pends = append(pends, pend{fmt.Sprintf("%s at %q (%d ancestors) failing callback %d/%d", op, loc.path, loc.depth, k, K), status + " " + c12events(rec) + " | " + surf, inp, k})
		}
	}
	outs, err := core.RunDriver(lines)
	if err != nil {
		c.ProofBroken = append(c.ProofBroken, err.Error())
		return
	}
	for i, o := range outs {
		p := pends[i]
		f := strings.SplitN(o, " ", 3)
		if len(f) < 2 {
			c.Count("driver", "bad:"+short(o))
			continue
		}
		modelTrace := ""
		if len(f) == 3 {
			modelTrace = f[2]
		}
		want := f[0] + " " + modelTrace + " | ok"
		if i%1999 == 0 {
			c.Sample(map[string]interface{}{"case": p.desc, "impl": short(decodeEvents(strings.SplitN(p.impl, " | ", 2)[0][2:])), "model": short(decodeEvents(modelTrace))})
		}
		if p.impl != want {
			// the known finding is the *swallowed* error: the call goes on and returns nil.  A run in which the error of a
			// target Choose does come back is held to the model like every other one
			if strings.Contains(fmt.Sprint(p.input["failing_event"]), "choose tgt:") && strings.HasPrefix(p.impl, "1 ") && c.IsKnown("target-choose-error-swallowed", p.desc) {
				continue
			}
			implParts := strings.SplitN(p.impl, " | ", 2)
			class := "trace"
			if implParts[1] != "ok" {
				class = "error-not-surfaced"
			} else if implParts[0][:1] != f[0] {
				class = "result"
			}
			c.Violation(core.Replay{Kind: "property-failure", Class: class,
				Summary: fmt.Sprintf("%s: library result=%s trace=%s (%s); the bracket model gives result=%s trace=%s", p.desc, implParts[0][:1], short(decodeEvents(implParts[0][2:])), implParts[1], f[0], short(decodeEvents(modelTrace))),
				Input:   p.input, Impl: p.impl, Model: want})
		}
	}
}
