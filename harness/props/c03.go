package props

import (
	"reflect"
	"encoding/json"
	"sort"
	"regexp"
	"errors"
	"fmt"
	"net/url"
	"strings"

	"verif/harness/core"
	"verif/harness/gen"
	"verif/harness/refstore"

	"github.com/freeconf/yang/fc"
	"github.com/freeconf/yang/meta"
	"github.com/freeconf/yang/node"
	"github.com/freeconf/yang/nodeutil"
	"github.com/freeconf/yang/parser"
)

func init() { Registry["C03"] = C03 }

func errClass(err error) string {
	switch {
	case err == nil:
		return "ok"
	case errors.Is(err, fc.ConflictError):
		return "conflict"
	case errors.Is(err, fc.NotFoundError):
		return "notFound"
	case errors.Is(err, fc.BadRequestError):
		return "badRequest"
	}
	var inj *refstore.InjectedError
	if errors.As(err, &inj) {
		return "injected"
	}
	return "other:" + err.Error()
}

// dataCase is one schema with its loaded module.
type dataCase struct {
	kids []*gen.SNode
	yang string
	m    *meta.Module
}

func newDataCase(rng *core.Rng, o gen.Opts) (*dataCase, error) {
	kids := gen.GenSchema(rng, o)
	y := gen.Module("m", kids)
	m, err := parser.LoadModuleFromString(nil, y)
	if err != nil {
		return nil, fmt.Errorf("generated module does not load: %v\n%s", err, y)
	}
	return &dataCase{kids, y, m}, nil
}

// location inside a body where an edit can enter
type editLoc struct {
	path  string
	kids  []*gen.SNode
	body  []*gen.DNode // target body at that location
	kind  string       // root | container | entry
	depth int
}

func escapeKey(k string) string { return url.QueryEscape(k) }

func findLocs(kids []*gen.SNode, body []*gen.DNode, prefix string, depth int, out *[]editLoc) {
	for i, s := range kids {
		d := body[i]
		switch s.Kind {
		case "cont":
			if d.Present {
				p := prefix + s.Name
				*out = append(*out, editLoc{p, s.Kids, d.Kids, "container", depth + 1})
				findLocs(s.Kids, d.Kids, p+"/", depth+1, out)
			}
		case "list":
			for _, row := range d.Rows {
				var ks []string
				for _, k := range row.Key {
					ks = append(ks, escapeKey(k))
				}
				p := prefix + s.Name + "=" + strings.Join(ks, ",")
				*out = append(*out, editLoc{p, s.Kids, row.Kids, "entry", depth + 1})
				findLocs(s.Kids, row.Kids, p+"/", depth+1, out)
			}
		}
	}
}

func srcNode(kind string, kids []*gen.SNode, body []*gen.DNode) (node.Node, error) {
	switch kind {
	case "refstore":
		return refstore.NewBody(nil, kids, gen.Clone(body), "src"), nil
	case "json":
		b, err := json.Marshal(gen.ToMap(kids, body))
		if err != nil {
			return nil, err
		}
		return nodeutil.ReadJSON(string(b))
	case "reflect-map":
		return nodeutil.ReflectChild(gen.ToMap(kids, body)), nil
	case "node-map":
		return &nodeutil.Node{Object: gen.ToMap(kids, body)}, nil
	case "xml", "xml-interleaved":
		// the XML reader; RFC 7950 §7.8.5 lets the entries of a list stand between their sibling elements
		doc := "<src xmlns=\"urn:m\">" + c03xml(kids, body, kind == "xml-interleaved") + "</src>"
		return nodeutil.ReadXMLDoc(strings.NewReader(doc))
	}
	return nil, fmt.Errorf("unknown source %s", kind)
}

var c03xmlRng = core.NewRng(7)

func c03xml(kids []*gen.SNode, body []*gen.DNode, interleave bool) string {
	esc := func(t string) string {
		return strings.NewReplacer("&", "&amp;", "<", "&lt;", ">", "&gt;").Replace(t)
	}
	var groups [][]string // per child: its elements in order
	for i, s := range kids {
		d := body[i]
		var g []string
		switch s.Kind {
		case "leaf":
			if d.Leaf != nil {
				vals := []string{*d.Leaf}
				if s.LeafList {
					vals = strings.Split(*d.Leaf, gen.ListSep)
				}
				for _, v := range vals {
					g = append(g, fmt.Sprintf("<%s>%s</%s>", s.Name, esc(v), s.Name))
				}
			}
		case "cont":
			if d.Present {
				g = append(g, fmt.Sprintf("<%s>%s</%s>", s.Name, c03xml(s.Kids, d.Kids, interleave), s.Name))
			}
		case "list":
			for _, row := range d.Rows {
				g = append(g, fmt.Sprintf("<%s>%s</%s>", s.Name, c03xml(s.Kids, row.Kids, interleave), s.Name))
			}
		}
		if len(g) > 0 {
			groups = append(groups, g)
		}
	}
	var b strings.Builder
	if !interleave {
		for _, g := range groups {
			b.WriteString(strings.Join(g, ""))
		}
		return b.String()
	}
	// a random merge that keeps the order inside every group (same-named elements keep their order)
	for len(groups) > 0 {
		k := c03xmlRng.Intn(len(groups))
		b.WriteString(groups[k][0])
		groups[k] = groups[k][1:]
		if len(groups[k]) == 0 {
			groups = append(groups[:k], groups[k+1:]...)
		}
	}
	return b.String()
}

// the Go types a struct-backed target is given: nodeutil.Reflect converts numbers (int64 fields and []int64 for
// int32 leaves and leaf-lists take its conversion paths) and keeps lists as slices of struct values;
// nodeutil.Node wants the exact Go type (int) and takes slices of values or of pointers; half of the structs reach
// some members through an embedded struct
func c03structOpts(tgtKind string, r *core.Rng) gen.StructOpts {
	o := gen.StructOpts{IntType: reflect.TypeOf(int(0)), LLInt: reflect.TypeOf(int32(0)), Embed: r.Chance(50)}
	switch tgtKind {
	case "reflect-struct":
		o.IntType, o.LLInt = reflect.TypeOf(int64(0)), reflect.TypeOf(int64(0))
	case "reflect-struct-ptr":
		o.IntType, o.LLInt = reflect.TypeOf(int64(0)), reflect.TypeOf(int64(0))
		o.ListPtr = true
	case "node-struct-ptr":
		o.ListPtr = true // nodeutil.Node creates list entries only through pointers; it wants int for int32 and []int32 for its leaf-list
		if r.Chance(35) {
			// fields found by their `yang:"…"` tag (generated names such as f1 / f12 are prefixes of one another)
			o.Tags, o.Embed = true, false
		}
	}
	return o
}

func applyEdit(sel *node.Selection, strategy string, src node.Node) (err error) {
	defer func() {
		if r := recover(); r != nil {
			err = fmt.Errorf("PANIC: %v", r)
		}
	}()
	switch strategy {
	case "upsert":
		return sel.UpsertFrom(src)
	case "insert":
		return sel.InsertFrom(src)
	case "update":
		return sel.UpdateFrom(src)
	}
	return fmt.Errorf("strategy %s", strategy)
}

// lists keyed by every type, created by the library inside an empty Go map (both reflection backends): the entries
// upserted are the entries read, each is found by its key, a second upsert updates in place
func c03keyTypes(c *core.Ctx) {
	type kt struct {
		yang string
		keys []string // JSON texts of three key values
		urls []string // the same as path segments
	}
	kts := []kt{
		{"string", []string{`"b"`, `"a"`, `"c d"`}, []string{"b", "a", "c%20d"}},
		{"enumeration { enum a; enum b; enum c { value 9; } }", []string{`"b"`, `"a"`, `"c"`}, []string{"b", "a", "c"}},
		{"boolean", []string{`true`, `false`}, []string{"true", "false"}},
		{"int8", []string{`5`, `-3`, `127`}, []string{"5", "-3", "127"}},
		{"int16", []string{`5`, `-300`, `32767`}, []string{"5", "-300", "32767"}},
		{"int32", []string{`5`, `-3`, `2147483647`}, []string{"5", "-3", "2147483647"}},
		{"int64", []string{`5`, `-3`, `9007199254740993`}, []string{"5", "-3", "9007199254740993"}},
		{"uint8", []string{`5`, `0`, `255`}, []string{"5", "0", "255"}},
		{"uint16", []string{`5`, `0`, `65535`}, []string{"5", "0", "65535"}},
		{"uint32", []string{`5`, `0`, `4294967295`}, []string{"5", "0", "4294967295"}},
		{"uint64", []string{`18446744073709551615`, `3`, `0`}, []string{"18446744073709551615", "3", "0"}},
		{"decimal64 { fraction-digits 2; }", []string{`1.5`, `0.25`, `-7`}, []string{"1.5", "0.25", "-7"}},
		{"bits { bit x; bit y; }", []string{`"x y"`, `"x"`, `"y"`}, []string{"x%20y", "x", "y"}},
		{"identityref { base idb; }", []string{`"two"`, `"one"`}, []string{"two", "one"}},
		{"union { type int32; type string; }", []string{`"s"`, `4`, `"t"`}, []string{"s", "4", "t"}},
		{"binary", []string{`"aGk="`, `"AA=="`, `"+//+"`}, []string{"aGk%3D", "AA%3D%3D", "%2B%2F%2F%2B"}},
	}
	for _, k := range kts {
		semi := ";"
		if strings.HasSuffix(k.yang, "}") {
			semi = ""
		}
		y := "module kt { namespace \"urn:kt\"; prefix kt; revision 2020-01-01; identity idb; identity one { base idb; } identity two { base idb; }\n  container box { list l { key k; leaf k { type " + k.yang + semi + " } leaf v { type string; } } }\n}"
		m, err := parser.LoadModuleFromString(nil, y)
		if err != nil {
			c.Violation(core.Replay{Kind: "harness", Summary: "c03keyTypes module: " + err.Error(), Input: y, NoInputFound: true})
			continue
		}
		var ents, ents2 []string
		for i, kv := range k.keys {
			ents = append(ents, fmt.Sprintf(`{"k":%s,"v":"v%d"}`, kv, i))
			ents2 = append(ents2, fmt.Sprintf(`{"k":%s,"v":"w%d"}`, kv, i))
		}
		doc := `{"box":{"l":[` + strings.Join(ents, ",") + `]}}`
		doc2 := `{"box":{"l":[` + strings.Join(ents2, ",") + `]}}`
		canon := func(js string) string {
			var v struct {
				Box struct {
					L []map[string]interface{} `json:"l"`
				} `json:"box"`
			}
			dec := json.NewDecoder(strings.NewReader(js))
			dec.UseNumber()
			if err := dec.Decode(&v); err != nil {
				return "not JSON: " + js
			}
			var rows []string
			for _, e := range v.Box.L {
				rows = append(rows, fmt.Sprint(e["v"], "<-", e["k"]))
			}
			sort.Strings(rows)
			return strings.Join(rows, " ")
		}
		for _, backend := range []string{"node-map", "reflect-map"} {
			var got, got2 string
			var finds []string
			e := safeDo(func() error {
				data := map[string]interface{}{}
				var root node.Node = &nodeutil.Node{Object: data}
				if backend == "reflect-map" {
					root = nodeutil.ReflectChild(data)
				}
				b := node.NewBrowser(m, root)
				src, err := nodeutil.ReadJSON(doc)
				if err != nil {
					return err
				}
				if err := b.Root().UpsertFrom(src); err != nil {
					return err
				}
				if got, err = nodeutil.WriteJSON(b.Root()); err != nil {
					return err
				}
				for i, u := range k.urls {
					sel, err := b.Root().Find("box/l=" + u)
					switch {
					case err != nil:
						finds = append(finds, "error "+short(err.Error()))
					case sel == nil:
						finds = append(finds, "nil")
					default:
						v, _ := sel.GetValue("v")
						finds = append(finds, fmt.Sprint(v))
					}
					_ = i
				}
				src2, _ := nodeutil.ReadJSON(doc2)
				if err := b.Root().UpsertFrom(src2); err != nil {
					return err
				}
				got2, err = nodeutil.WriteJSON(b.Root())
				return err
			})
			c.Evaluations++
			c.Count("key_type", strings.Fields(k.yang)[0])
			c.Distinct("keytype " + backend + k.yang)
			var wantFinds []string
			for i := range k.urls {
				wantFinds = append(wantFinds, fmt.Sprintf("v%d", i))
			}
			problem := ""
			switch {
			case e != nil:
				problem = e.Error()
			case canon(got) != canon(doc):
				problem = fmt.Sprintf("reads back %s", short(got))
			case fmt.Sprint(finds) != fmt.Sprint(wantFinds):
				problem = fmt.Sprintf("Find by key gives %v, want %v", finds, wantFinds)
			case canon(got2) != canon(doc2):
				problem = fmt.Sprintf("after the second upsert it reads %s", short(got2))
			}
			if problem != "" {
				c.Violation(core.Replay{Kind: "property-failure", Class: "key-type-" + backend + "-" + strings.Fields(k.yang)[0], Summary: fmt.Sprintf("%s, list keyed by %s, upsert of %s into an empty map: %s", backend, k.yang, doc, problem),
					Input: map[string]interface{}{"yang": y, "backend": backend, "document": doc, "second_document": doc2}})
			}
		}
	}
}

func C03(c *core.Ctx) {
	c03keyTypes(c)
	c.Rule = "generated schemas (leaves with/without defaults, containers, lists with 1–2 keys, depth ≤3) × pairs (source, target) of conforming trees with controlled key overlap × strategy × entry point (root, container, list entry) × source implementation (reference store, JSON reader, XML reader with list entries contiguous and interleaved with their siblings, reflection over maps, nodeutil.Node) × target implementation (reference store, reflection over maps, nodeutil.Node); result tree and error class compared with the Lean editor model and the merge specification; directed: lists keyed by each of 16 types created by the library inside an empty Go map (both reflection backends): read back, found by key, updated in place. non-trivial = both trees non-empty; distinct by (schema, source, target, strategy, entry, implementations)"
	c.Assumptions = append(c.Assumptions,
		"the reference store (harness/refstore) implements the store contract of the model: child/list exists iff it holds data, Next{New} appends, lookups by key text",
		"targets that keep a list in a Go map are compared with entry order ignored (the contract 'otherwise appended' is about ordered stores)")
	c.ProofStep("YangVerif.Props.C03")
	if c.Thorough() {
		c.LeanChecker("YangVerif.Props.C03")
	}
	rng := core.NewRng(c.Seed)
	nSchemas := c.N(40, 600)
	perSchema := c.N(60, 300)
	o := gen.Opts{MaxDepth: 3, MaxKids: 4, Defaults: true, MultiKeys: true, LeafLists: true, NoZero: true}
	type pend struct {
		desc   string
		impl   string // "ok <canon>" or "err <class>"
		dc     *dataCase
		loc    editLoc
		unord  bool
		target string
		input  map[string]interface{}
	}
	var lines []string
	var pends []pend
	for si := 0; si < nSchemas; si++ {
		dc, err := newDataCase(rng.Fork(), o)
		if err != nil {
			c.Violation(core.Replay{Kind: "harness", Summary: err.Error(), NoInputFound: true})
			return
		}
		for ci := 0; ci < perSchema; ci++ {
			r := rng.Fork()
			tgt := gen.GenBody(r, dc.kids, 30+r.Intn(60), o)
			if r.Chance(8) {
				tgt = gen.EmptyBody(dc.kids)
			}
			strategy := core.Pick(r, []string{"upsert", "upsert", "insert", "update"})
			srcKind := core.Pick(r, []string{"refstore", "refstore", "json", "reflect-map", "node-map", "xml", "xml-interleaved"})
			tgtKind := core.Pick(r, []string{"refstore", "refstore", "refstore", "reflect-map", "node-map", "reflect-struct", "reflect-struct-ptr", "node-struct-ptr"})
			// entry point
			locs := []editLoc{{"", dc.kids, tgt, "root", 0}}
			findLocs(dc.kids, tgt, "", 0, &locs)
			loc := locs[0]
			if r.Chance(45) {
				loc = core.Pick(r, locs)
			}
			src := gen.GenBody(r, loc.kids, 20+r.Intn(70), o)
			if r.Chance(5) {
				src = gen.EmptyBody(loc.kids)
			}
			gen.Overlap(r, loc.kids, src, loc.body)
			if loc.kind == "entry" {
				// the document for a list entry carries the entry's own key leaves
				for j, k := range loc.kids {
					if j < len(loc.body) && loc.body[j].Leaf != nil && k.Kind == "leaf" && isKeyPos(dc.kids, loc, j) {
						v := *loc.body[j].Leaf
						src[j] = &gen.DNode{Leaf: &v}
					}
				}
			}
			before := gen.Clone(loc.body)
			// target store
			var root node.Node
			var tgtMap map[string]interface{}
			var tgtStruct reflect.Value
			switch tgtKind {
			case "reflect-struct", "reflect-struct-ptr", "node-struct-ptr":
				so := c03structOpts(tgtKind, r)
				tgtStruct = gen.ToStruct(dc.kids, tgt, gen.StructType(dc.kids, 0, so), so)
				if strings.HasPrefix(tgtKind, "reflect-") {
					root = nodeutil.ReflectChild(tgtStruct.Interface())
				} else {
					root = &nodeutil.Node{Object: tgtStruct.Interface()}
				}
			case "refstore":
				root = refstore.NewBody(nil, dc.kids, tgt, "")
			case "reflect-map":
				tgtMap = gen.ToMap(dc.kids, tgt)
				root = nodeutil.ReflectChild(tgtMap)
			case "node-map":
				tgtMap = gen.ToMap(dc.kids, tgt)
				root = &nodeutil.Node{Object: tgtMap}
			}
			b := node.NewBrowser(dc.m, root)
			sel := b.Root()
			var ferr error
			if loc.path != "" {
				sel, ferr = func() (s *node.Selection, err error) {
					defer func() {
						if rr := recover(); rr != nil {
							err = fmt.Errorf("PANIC in Find: %v", rr)
						}
					}()
					return b.Root().Find(loc.path)
				}()
			}
			c.Evaluations++
			c.Count("strategy", strategy)
			c.Count("entry", loc.kind)
			c.Count("source", srcKind)
			c.Count("target", tgtKind)
			desc := fmt.Sprintf("%s %s at %q src=%s tgt=%s", strategy, loc.kind, loc.path, srcKind, tgtKind)
			input := map[string]interface{}{"yang": dc.yang, "strategy": strategy, "entry": loc.path, "source_impl": srcKind, "target_impl": tgtKind,
				"source": gen.Canon(loc.kids, src, false), "target_before": gen.Canon(loc.kids, before, false),
				"source_json": jsonOf(loc.kids, src), "target_root_json": jsonOf(dc.kids, tgt)}
			if ferr != nil || sel == nil {
				c.Count("find_failed", fmt.Sprint(tgtKind, " ", ferr))
				if tgtKind == "refstore" {
					c.Violation(core.Replay{Kind: "property-failure", Class: "find-entry", Summary: fmt.Sprintf("%s: cannot select the existing entry point: %v", desc, ferr), Input: input})
				}
				continue
			}
			sn, err := srcNode(srcKind, loc.kids, src)
			if err != nil {
				continue
			}
			eerr := applyEdit(sel, strategy, sn)
			// read the target back, independently of the library
			var after []*gen.DNode
			unord := false
			gen.CompoundInMap = 0
			if tgtKind == "refstore" {
				after = tgt
			} else if tgtStruct.IsValid() {
				after = gen.FromStruct(dc.kids, tgtStruct, 0)
			} else {
				after = gen.FromMap(dc.kids, tgtMap, &unord)
			}
			input["compound_list_in_go_map"] = gen.CompoundInMap > 0
			locAfter := locateBody(dc.kids, after, loc)
			impl := "err " + errClass(eerr)
			if eerr == nil {
				impl = "ok"
			}
			afterCanon := "<entry point vanished>"
			if locAfter != nil {
				afterCanon = gen.Canon(loc.kids, locAfter, unord)
			}
			input["error"] = fmt.Sprint(eerr)
			input["target_after"] = afterCanon
			line := "data kids " + strategy + " ; " + strings.Join(gen.SchemaTokens(loc.kids), " ") + " ; " +
				strings.Join(gen.BodyTokens(loc.kids, src), " ") + " ; " + strings.Join(gen.BodyTokens(loc.kids, before), " ")
			lines = append(lines, line)
			pends = append(pends, pend{desc, impl + " " + afterCanon, dc, loc, unord, tgtKind, input})
			if len(src) > 0 && len(before) > 0 {
				c.Distinct(fmt.Sprint(si, ci))
			}
		}
	}
	outs, err := core.RunDriver(lines)
	if err != nil {
		c.ProofBroken = append(c.ProofBroken, err.Error())
		return
	}
	for i, o := range outs {
		p := pends[i]
		parts := strings.SplitN(o, " | ", 2)
		if len(parts) != 2 {
			c.Count("driver", "bad:"+o)
			continue
		}
		canonOf := func(res string) (status string, canon string) {
			if strings.HasPrefix(res, "err ") {
				return res, ""
			}
			body, err := gen.ParseBody(p.loc.kids, strings.Fields(strings.TrimPrefix(res, "ok ")))
			if err != nil {
				return "bad-model-output", err.Error()
			}
			return "ok", gen.Canon(p.loc.kids, body, p.unord)
		}
		mStatus, mCanon := canonOf(parts[0])
		sStatus, sCanon := canonOf(parts[1])
		iStatus := strings.SplitN(p.impl, " ", 3)
		implStatus := iStatus[0]
		implCanon := strings.TrimPrefix(p.impl, "ok ")
		if implStatus == "err" {
			implStatus = "err " + iStatus[1]
			implCanon = strings.TrimPrefix(p.impl, implStatus+" ")
		}
		c.Count("outcome", sStatus)
		if i%701 == 0 {
			c.Sample(map[string]interface{}{"case": p.desc, "impl": implStatus, "spec": sStatus, "input": p.input})
		}
		specOK := implStatus == sStatus && (sStatus != "ok" || implCanon == sCanon)
		// a failed insert/update must not have changed the target: compare with 'before' when spec is an error
		if specOK && sStatus != "ok" {
			if implCanon != gen.Canon(p.loc.kids, mustBody(p.input, p.loc), p.unord) {
				// the editor may have applied earlier siblings before failing; the property text only fixes the error class
				c.Count("partial_apply_on_error", sStatus)
			}
		}
		if !specOK {
			class := fmt.Sprintf("%s-%s-%s", strings.Fields(p.desc)[0], p.target, strings.Fields(p.desc)[1])
			if kf := c03known(p.desc, p.input, implStatus); kf != "" && c.IsKnown(kf, p.desc) {
				continue
			}
			c.Violation(core.Replay{Kind: "property-failure", Class: class,
				Summary: fmt.Sprintf("%s: library gives %s %s; keyed deep merge gives %s %s", p.desc, implStatus, short(implCanon), sStatus, short(sCanon)),
				Input:   p.input, Impl: p.impl, Model: parts[0], Spec: parts[1]})
			continue
		}
		if mStatus != implStatus || (mStatus == "ok" && mCanon != implCanon) {
			c.Disagree++
		}
	}
	if c.Disagree > 0 && c.Violations() == 0 {
		c.Violation(core.Replay{Kind: "correspondence", Summary: fmt.Sprintf("editor model and implementation disagree on %d edits that satisfy the merge specification", c.Disagree), Broken: "correspondence C03/edit", NoInputFound: true})
	}
}

func jsonOf(kids []*gen.SNode, body []*gen.DNode) string {
	b, _ := json.Marshal(gen.ToMap(kids, body))
	return string(b)
}

func short(s string) string {
	if len(s) > 160 {
		return s[:160] + "…"
	}
	return s
}

func mustBody(input map[string]interface{}, loc editLoc) []*gen.DNode { return nil }

// isKeyPos: child j of an entry location is one of the list's key leaves
func isKeyPos(root []*gen.SNode, loc editLoc, j int) bool {
	var find func(kids []*gen.SNode) *gen.SNode
	find = func(kids []*gen.SNode) *gen.SNode {
		for _, s := range kids {
			if s.Kind == "list" && sameKids(s.Kids, loc.kids) {
				return s
			}
			if f := find(s.Kids); f != nil {
				return f
			}
		}
		return nil
	}
	if l := find(root); l != nil {
		return j < l.NKeys
	}
	return false
}

func sameKids(a, b []*gen.SNode) bool {
	return len(a) == len(b) && (len(a) == 0 || a[0] == b[0])
}

// locateBody finds the body at loc.path in a (re-read) tree.
func locateBody(kids []*gen.SNode, body []*gen.DNode, loc editLoc) []*gen.DNode {
	if loc.path == "" {
		return body
	}
	cur, curKids := body, kids
	for _, seg := range strings.Split(loc.path, "/") {
		name, keys := seg, ""
		if i := strings.Index(seg, "="); i >= 0 {
			name, keys = seg[:i], seg[i+1:]
		}
		idx := -1
		for i, s := range curKids {
			if s.Name == name {
				idx = i
			}
		}
		if idx < 0 || idx >= len(cur) {
			return nil
		}
		s, d := curKids[idx], cur[idx]
		if s.Kind == "cont" {
			if !d.Present {
				return nil
			}
			cur, curKids = d.Kids, s.Kids
			continue
		}
		var want []string
		for _, k := range strings.Split(keys, ",") {
			u, _ := url.QueryUnescape(k)
			want = append(want, u)
		}
		var found *gen.DRow
		for _, row := range d.Rows {
			if strings.Join(row.Key, "\x00") == strings.Join(want, "\x00") {
				found = row
				break
			}
		}
		if found == nil {
			return nil
		}
		cur, curKids = found.Kids, s.Kids
	}
	return cur
}

// c03known maps a failing case to a known-finding id ("" = none applies).
func c03known(desc string, input map[string]interface{}, implStatus string) string {
	tgt, _ := input["target_impl"].(string)
	yang, _ := input["yang"].(string)
	mapTarget := tgt == "reflect-map" || tgt == "node-map"
	switch {
	case mapTarget && compoundKeyRe.MatchString(yang) && input["compound_list_in_go_map"] == true:
		return "map-list-compound-key"
	}
	return ""
}

var compoundKeyRe = regexp.MustCompile(`key "[a-z0-9]+ [a-z0-9]+"`)
