package props

import (
	"io"
	"fmt"
	"sort"
	"strings"

	"verif/harness/core"

	"github.com/freeconf/yang/meta"
	"github.com/freeconf/yang/parser"
	"github.com/freeconf/yang/source"
)

func init() { Registry["C01"] = C01 }

type fprops struct {
	config    *bool
	desc      *string
	dflt      *string
	mandatory *bool
	minEl     *int
	presence  *string
	maxEl     *int
}

func (p fprops) patch(q fprops) fprops {
	if q.config != nil {
		p.config = q.config
	}
	if q.desc != nil {
		p.desc = q.desc
	}
	if q.dflt != nil {
		p.dflt = q.dflt
	}
	if q.mandatory != nil {
		p.mandatory = q.mandatory
	}
	if q.minEl != nil {
		p.minEl = q.minEl
	}
	if q.maxEl != nil {
		p.maxEl = q.maxEl
	}
	if q.presence != nil {
		p.presence = q.presence
	}
	return p
}

func (p fprops) toks() []string {
	ob := func(b *bool) string {
		if b == nil {
			return "-"
		}
		if *b {
			return "1"
		}
		return "0"
	}
	os := func(s *string) string {
		if s == nil {
			return "-"
		}
		return "h" + core.Hex(*s)
	}
	on := func(n *int) string {
		if n == nil {
			return "-"
		}
		return fmt.Sprint(*n)
	}
	return []string{ob(p.config), os(p.desc), os(p.dflt), ob(p.mandatory), on(p.minEl), on(p.maxEl), os(p.presence)}
}

func (p fprops) yang(kind string) string {
	var b strings.Builder
	if p.config != nil {
		fmt.Fprintf(&b, " config %v;", *p.config)
	}
	if p.desc != nil {
		fmt.Fprintf(&b, " description %q;", *p.desc)
	}
	if p.dflt != nil {
		fmt.Fprintf(&b, " default %q;", *p.dflt)
	}
	if p.mandatory != nil {
		fmt.Fprintf(&b, " mandatory %v;", *p.mandatory)
	}
	if p.minEl != nil {
		fmt.Fprintf(&b, " min-elements %d;", *p.minEl)
	}
	if p.maxEl != nil && *p.maxEl == c01unbounded {
		b.WriteString(" max-elements unbounded;")
	} else if p.maxEl != nil {
		fmt.Fprintf(&b, " max-elements %d;", *p.maxEl)
	}
	if p.presence != nil {
		fmt.Fprintf(&b, " presence %q;", *p.presence)
	}
	return b.String()
}

// "max-elements unbounded" as a number: above every number max-elements can state (a uint32)
const c01unbounded = 4294967296

type frefine struct {
	path []string
	p    fprops
}

type faug struct {
	path []string
	kids []*fnode
}

type fnode struct {
	kind    string // leaf cont list uses
	name    string
	p       fprops
	kids    []*fnode
	isKey   bool
	g       *fgroup
	refines []frefine
	augs    []faug
}

type fgroup struct {
	yname string // the name written in the YANG text (a local grouping may shadow a module-level one)
	name  string
	body  []*fnode
	where string // module | local | sub | imp
	uses  int
	needsNode bool // holds an action/notification at its top: may be used inside a container or list only
}

// expanded tree (the harness's own expansion, an independent second opinion besides the Lean model)
type tnode struct {
	kind  string
	name  string
	p     fprops
	kids  []*tnode
	isKey bool
}

func c01expand(ns []*fnode) []*tnode {
	var out []*tnode
	for _, n := range ns {
		switch n.kind {
		case "leaf":
			out = append(out, &tnode{kind: "leaf", name: n.name, p: n.p, isKey: n.isKey})
		case "cont", "list":
			out = append(out, &tnode{kind: n.kind, name: n.name, p: n.p, kids: c01expand(n.kids)})
		case "uses":
			copyT := c01expand(n.g.body)
			for _, rf := range n.refines {
				if t := c01at(copyT, rf.path); t != nil {
					t.p = t.p.patch(rf.p)
				}
			}
			for _, a := range n.augs {
				if t := c01at(copyT, a.path); t != nil {
					t.kids = append(t.kids, c01expand(a.kids)...)
				}
			}
			out = append(out, copyT...)
		}
	}
	return out
}

func c01at(ts []*tnode, path []string) *tnode {
	for _, t := range ts {
		if t.name == path[0] {
			if len(path) == 1 {
				return t
			}
			return c01at(t.kids, path[1:])
		}
	}
	return nil
}

func c01inherit(ts []*tnode, cfg bool) {
	for _, t := range ts {
		c := cfg
		if t.p.config != nil {
			c = *t.p.config
		}
		t.p.config = &c
		c01inherit(t.kids, c)
	}
}

func c01tcanon(ts []*tnode) string {
	var b strings.Builder
	b.WriteString("{")
	for _, t := range ts {
		fmt.Fprintf(&b, "%s %s %s", t.kind, t.name, strings.Join(t.p.toks(), ","))
		if t.kind != "leaf" {
			b.WriteString(c01tcanon(t.kids))
		}
		b.WriteString("; ")
	}
	b.WriteString("}")
	return b.String()
}

// ---- generator

type c01gen struct {
	r        *core.Rng
	seq      int
	groups   []*fgroup
	modAugs  []faug
	features bool
	guards   int
}

func (g *c01gen) name(p string) string { g.seq++; return fmt.Sprintf("%s%d", p, g.seq) }

func (g *c01gen) props(kind string, configFalseAbove bool, isKey bool) fprops {
	var p fprops
	if g.r.Chance(35) {
		d := core.Pick(g.r, []string{"first", "second text", "x", "described"})
		p.desc = &d
	}
	if !configFalseAbove && !isKey && g.r.Chance(15) {
		f := false
		p.config = &f
	}
	if kind == "list" {
		switch g.r.Intn(6) {
		case 0:
			n := g.r.Intn(3)
			p.minEl = &n
		case 1:
			n := 1 + g.r.Intn(4)
			p.maxEl = &n
		case 3:
			n := c01unbounded
			p.maxEl = &n
		case 2:
			lo, hi := 1+g.r.Intn(2), 3+g.r.Intn(3)
			p.minEl, p.maxEl = &lo, &hi
		}
	}
	if kind == "cont" && g.r.Chance(15) {
		d := core.Pick(g.r, []string{"present", "means something"})
		p.presence = &d
	}
	if kind == "leaf" && !isKey {
		switch g.r.Intn(5) {
		case 0:
			d := core.Pick(g.r, []string{"a", "bb", "dflt"})
			p.dflt = &d
		case 1:
			t := true
			p.mandatory = &t
		}
	}
	return p
}

func topNames(ns []*fnode) []string {
	var out []string
	for _, t := range c01expand(ns) {
		out = append(out, t.name)
	}
	return out
}

// allowed: which groupings a body may use (by placement of the grouping it is written in)
func (g *c01gen) body(depth int, cfgFalse bool, within string, n int, inNode ...bool) []*fnode {
	parentIsNode := len(inNode) > 0 && inNode[0]
	var out []*fnode
	used := map[string]bool{}
	for i := 0; i < n; i++ {
		k := g.r.Intn(10)
		switch {
		case k < 4 || depth >= 3:
			nm := g.name("f")
			out = append(out, &fnode{kind: "leaf", name: nm, p: g.props("leaf", cfgFalse, false)})
			used[nm] = true
		case k < 6:
			nm := g.name("c")
			p := g.props("cont", cfgFalse, false)
			cf := cfgFalse || (p.config != nil && !*p.config)
			out = append(out, &fnode{kind: "cont", name: nm, p: p, kids: append(g.body(depth+1, cf, within, 1+g.r.Intn(3), true), g.special(depth, within)...)})
			used[nm] = true
		case k < 7:
			nm := g.name("l")
			p := g.props("list", cfgFalse, false)
			cf := cfgFalse || (p.config != nil && !*p.config)
			key := &fnode{kind: "leaf", name: g.name("k"), isKey: true, p: g.props("leaf", cf, true)}
			out = append(out, &fnode{kind: "list", name: nm, p: p, kids: append(append([]*fnode{key}, g.body(depth+1, cf, within, 1+g.r.Intn(2), true)...), g.special(depth, within)...)})
			used[nm] = true
		default:
			u := g.uses(depth, cfgFalse, within, used, parentIsNode)
			if u != nil {
				out = append(out, u)
				for _, nm := range topNames([]*fnode{u}) {
					used[nm] = true
				}
			}
		}
	}
	return out
}

// an action and/or a notification for a container or list: their content is written like any body (it may use
// groupings), never states config
func (g *c01gen) special(depth int, within string) []*fnode {
	var out []*fnode
	if depth >= 2 {
		return nil
	}
	descr := func() fprops {
		var p fprops
		if g.r.Chance(40) {
			d := core.Pick(g.r, []string{"does it", "tells", "x"})
			p.desc = &d
		}
		return p
	}
	if g.r.Chance(22) {
		in := &fnode{kind: "cont", name: "input", kids: g.body(depth+2, true, within, 1+g.r.Intn(2))}
		op := &fnode{kind: "cont", name: "output", kids: g.body(depth+2, true, within, 1+g.r.Intn(2))}
		c01noConfig(in.kids)
		c01noConfig(op.kids)
		out = append(out, &fnode{kind: "cont", name: g.name("act"), p: descr(), kids: []*fnode{in, op}})
	}
	if g.r.Chance(15) {
		ks := g.body(depth+2, true, within, 1+g.r.Intn(2))
		c01noConfig(ks)
		out = append(out, &fnode{kind: "cont", name: g.name("ntf"), p: descr(), kids: ks})
	}
	return out
}

func c01noConfig(ns []*fnode) {
	for _, n := range ns {
		n.p.config = nil
		c01noConfig(n.kids)
	}
}

func (g *c01gen) uses(depth int, cfgFalse bool, within string, siblingNames map[string]bool, parentIsNode bool) *fnode {
	var grp *fgroup
	// reuse an earlier grouping where its names do not collide and its placement is visible from here
	var cands []*fgroup
	for _, c := range g.groups {
		if c.where == "local" {
			continue
		}
		if c.needsNode && !parentIsNode {
			continue // it has an action or notification of its own: usable inside a container or list only
		}
		if within == "imp" && c.where != "imp" {
			continue
		}
		if within == "sub" && c.where != "sub" && c.where != "imp" {
			continue
		}
		clash := false
		for _, nm := range topNames(c.body) {
			if siblingNames[nm] {
				clash = true
			}
		}
		// a grouping that states config on its nodes cannot go below config false ... it only ever states false: fine
		if !clash {
			cands = append(cands, c)
		}
	}
	if len(cands) > 0 && g.r.Chance(50) {
		grp = core.Pick(g.r, cands)
	} else if depth < 3 {
		where := core.Pick(g.r, []string{"module", "module", "local", "sub", "imp"})
		if within == "imp" {
			where = "imp"
		} else if within == "sub" && (where == "module" || where == "local") {
			where = "sub"
		}
		grp = &fgroup{name: g.name("g"), where: where}
		grp.yname = grp.name
		in := within
		if where == "imp" || where == "sub" {
			in = where
		}
		// the grouping is written without knowing where it will be used: nothing above it is config false
		grp.body = g.body(depth+1, false, in, 1+g.r.Intn(3))
		if parentIsNode && g.r.Chance(35) {
			// an action / a notification directly in the grouping (the resolver copies these separately from the data nodes)
			if sp := g.special(0, in); len(sp) > 0 {
				grp.body = append(grp.body, sp...)
				grp.needsNode = true
			}
		}
		g.groups = append(g.groups, grp)
		for _, nm := range topNames(grp.body) {
			if siblingNames[nm] {
				return nil // it reuses a grouping already used here: its names would collide
			}
		}
	}
	if grp == nil {
		return nil
	}
	// a config-true-by-default grouping below config false is fine; explicit config true is never written
	grp.uses++
	u := &fnode{kind: "uses", g: grp}
	exp := c01expand(grp.body)
	// refines
	var paths [][]string
	var walk func(ts []*tnode, prefix []string)
	walk = func(ts []*tnode, prefix []string) {
		for _, t := range ts {
			if c01special(t.name) != "" {
				continue
			}
			p := append(append([]string{}, prefix...), t.name)
			paths = append(paths, p)
			walk(t.kids, p)
		}
	}
	walk(exp, nil)
	for i, n := 0, g.r.Intn(3); i < n && len(paths) > 0; i++ {
		p := core.Pick(g.r, paths)
		t := c01at(exp, p)
		if t == nil {
			panic(fmt.Sprintf("path %v not in %s", p, c01tcanon(exp)))
		}
		var patch fprops
		if g.r.Chance(60) {
			d := core.Pick(g.r, []string{"refined", "other words", "r"})
			patch.desc = &d
		}
		if t.kind == "leaf" && !t.isKey {
			cur := t.p
			for _, rf := range u.refines {
				if strings.Join(rf.path, "/") == strings.Join(p, "/") {
					cur = cur.patch(rf.p)
				}
			}
			switch g.r.Intn(4) {
			case 0:
				if cur.mandatory == nil || !*cur.mandatory {
					d := core.Pick(g.r, []string{"rd", "refined-default"})
					patch.dflt = &d
				}
			case 1:
				if cur.dflt == nil {
					b := g.r.Chance(70)
					patch.mandatory = &b
				}
			}
		}
		if t.kind == "list" && t.p.maxEl != nil && g.r.Chance(70) {
			// a number where the grouping says unbounded, unbounded where it says a number
			n := c01unbounded
			if *t.p.maxEl == c01unbounded {
				n = 2 + g.r.Intn(5)
			}
			patch.maxEl = &n
		} else if t.kind == "list" && g.r.Chance(60) {
			// refining the element bounds, down to 0 and up
			switch g.r.Intn(3) {
			case 0:
				z := 0
				patch.minEl = &z
			case 1:
				n := g.r.Intn(3)
				patch.minEl = &n
			default:
				n := 5 + g.r.Intn(4)
				if g.r.Chance(30) {
					n = c01unbounded
				}
				patch.maxEl = &n
			}
		}
		if t.kind == "cont" && c01special(t.name) == "" && g.r.Chance(30) {
			d := core.Pick(g.r, []string{"refined presence", "rp"})
			patch.presence = &d
		}
		if !t.isKey && g.r.Chance(20) {
			f := false
			patch.config = &f
		}
		if patch == (fprops{}) {
			continue
		}
		u.refines = append(u.refines, frefine{path: p, p: patch})
	}
	// augments inside the uses
	var conts [][]string
	var walk2 func(ts []*tnode, prefix []string)
	walk2 = func(ts []*tnode, prefix []string) {
		for _, t := range ts {
			p := append(append([]string{}, prefix...), t.name)
			if t.kind != "leaf" && c01special(t.name) == "" {
				conts = append(conts, p)
				walk2(t.kids, p)
			}
		}
	}
	walk2(exp, nil)
	for i, n := 0, g.r.Intn(3); i < n && len(conts) > 0 && depth < 3; i++ {
		p := core.Pick(g.r, conts)
		in := within
		u.augs = append(u.augs, faug{path: p, kids: g.body(3, true, in, 1+g.r.Intn(2))})
	}
	// nodes added below something that may be config false must not state config: body(...,cfgFalse=true) sees to it
	return u
}

// an action or a notification is modelled as a container: the expansion rules are the same.  It is recognised by
// its name (act<N>, ntf<N>); an action's children are the containers "input" and "output"
func c01special(name string) string {
	if strings.HasPrefix(name, "act") {
		return "action"
	}
	if strings.HasPrefix(name, "ntf") {
		return "notification"
	}
	return ""
}

// c01norm brings a canonical dump into the form all sides can agree on: actions and notifications (kept in maps by
// the library, so without an order among the siblings) go behind the data nodes, sorted by name; below them config
// is not compared (it does not apply inside rpc/action/notification content)
func c01norm(canon string) string {
	if !strings.HasPrefix(canon, "{") {
		return canon
	}
	type ent struct {
		head string // "kind name props"
		body string // "{...}" or ""
	}
	var parse func(s string, pos int) ([]ent, int)
	parse = func(s string, pos int) ([]ent, int) {
		// s[pos] == '{'
		pos++
		var out []ent
		for pos < len(s) && s[pos] != '}' {
			start := pos
			for pos < len(s) && s[pos] != '{' && s[pos] != ';' {
				pos++
			}
			e := ent{head: s[start:pos]}
			if pos < len(s) && s[pos] == '{' {
				bstart := pos
				depth := 0
				for pos < len(s) {
					if s[pos] == '{' {
						depth++
					} else if s[pos] == '}' {
						depth--
						if depth == 0 {
							pos++
							break
						}
					}
					pos++
				}
				e.body = s[bstart:pos]
			}
			// "; "
			for pos < len(s) && (s[pos] == ';' || s[pos] == ' ') {
				pos++
			}
			out = append(out, e)
		}
		return out, pos + 1
	}
	var render func(s string, blank bool) string
	render = func(s string, blank bool) string {
		ents, _ := parse(s, 0)
		var normal, special []ent
		for _, e := range ents {
			f := strings.Fields(e.head)
			if len(f) >= 2 && c01special(f[1]) != "" {
				special = append(special, e)
			} else {
				normal = append(normal, e)
			}
		}
		sort.SliceStable(special, func(i, j int) bool { return strings.Fields(special[i].head)[1] < strings.Fields(special[j].head)[1] })
		var b strings.Builder
		b.WriteString("{")
		for _, e := range append(normal, special...) {
			f := strings.Fields(e.head)
			bl := blank || (len(f) >= 2 && c01special(f[1]) != "")
			if bl && len(f) >= 3 {
				ps := strings.Split(f[2], ",")
				ps[0] = "-"
				f[2] = strings.Join(ps, ",")
			}
			b.WriteString(strings.Join(f, " "))
			if e.body != "" {
				b.WriteString(render(e.body, bl))
			}
			b.WriteString("; ")
		}
		b.WriteString("}")
		return b.String()
	}
	return render(canon, false)
}

// ---- rendering

func c01pathTok(p []string) []string {
	out := []string{fmt.Sprint(len(p))}
	for _, s := range p {
		out = append(out, core.Hex(s))
	}
	return out
}

func c01nodesToks(ns []*fnode) []string {
	out := []string{fmt.Sprint(len(ns))}
	for _, n := range ns {
		switch n.kind {
		case "leaf":
			out = append(append(out, "L", core.Hex(n.name)), n.p.toks()...)
		case "cont", "list":
			out = append(append(append(out, "C", n.kind[:1], core.Hex(n.name)), n.p.toks()...), c01nodesToks(n.kids)...)
		case "uses":
			out = append(out, "U", core.Hex(n.g.name), fmt.Sprint(len(n.refines)))
			for _, rf := range n.refines {
				out = append(append(out, c01pathTok(rf.path)...), rf.p.toks()...)
			}
			out = append(out, fmt.Sprint(len(n.augs)))
			for _, a := range n.augs {
				out = append(append(out, c01pathTok(a.path)...), c01nodesToks(a.kids)...)
			}
		}
	}
	return out
}

type c01text struct {
	g *c01gen
}

func (t c01text) nodes(ns []*fnode, indent string, from string) string {
	var b strings.Builder
	// local groupings first used in this body are defined here, in random position
	var locals []string
	for _, n := range ns {
		if n.kind == "uses" && n.g.where == "local" {
			locals = append(locals, fmt.Sprintf("%sgrouping %s {\n%s%s}\n", indent, n.g.yname, t.nodes(n.g.body, indent+"  ", from), indent))
		}
	}
	front := t.g.r.Chance(50)
	if front {
		b.WriteString(strings.Join(locals, ""))
	}
	for _, n := range ns {
		switch n.kind {
		case "leaf":
			guard := ""
			if from == "module" && t.g.r.Chance(8) {
				// every feature is enabled in these loads: a guard by a feature of the module changes nothing
				guard = " if-feature fz;"
				t.g.guards++
			}
			fmt.Fprintf(&b, "%sleaf %s {%s type string;%s }\n", indent, n.name, guard, n.p.yang("leaf"))
		case "cont":
			switch c01special(n.name) {
			case "action":
				fmt.Fprintf(&b, "%saction %s {%s\n%s  input {\n%s%s  }\n%s  output {\n%s%s  }\n%s}\n", indent, n.name, n.p.yang("cont"), indent, t.nodes(n.kids[0].kids, indent+"    ", from), indent, indent, t.nodes(n.kids[1].kids, indent+"    ", from), indent, indent)
			case "notification":
				fmt.Fprintf(&b, "%snotification %s {%s\n%s%s}\n", indent, n.name, n.p.yang("cont"), t.nodes(n.kids, indent+"  ", from), indent)
			default:
				fmt.Fprintf(&b, "%scontainer %s {%s\n%s%s}\n", indent, n.name, n.p.yang("cont"), t.nodes(n.kids, indent+"  ", from), indent)
			}
		case "list":
			fmt.Fprintf(&b, "%slist %s { key %s;%s\n%s%s}\n", indent, n.name, n.kids[0].name, n.p.yang("list"), t.nodes(n.kids, indent+"  ", from), indent)
		case "uses":
			ref := n.g.yname
			if n.g.where == "imp" && from != "imp" {
				ref = "lib:" + ref
			} else if t.g.r.Chance(30) {
				// the module's own prefix means the same as no prefix (RFC 7950 §5.1.1 / §7.13)
				if from == "imp" {
					ref = "lib:" + ref
				} else {
					ref = "m:" + ref
				}
			}
			if len(n.refines) == 0 && len(n.augs) == 0 {
				fmt.Fprintf(&b, "%suses %s;\n", indent, ref)
				continue
			}
			fmt.Fprintf(&b, "%suses %s {\n", indent, ref)
			for _, rf := range n.refines {
				fmt.Fprintf(&b, "%s  refine %s {%s }\n", indent, strings.Join(rf.path, "/"), rf.p.yang(""))
			}
			for _, a := range n.augs {
				fmt.Fprintf(&b, "%s  augment %s {\n%s%s  }\n", indent, strings.Join(a.path, "/"), t.nodes(a.kids, indent+"    ", from), indent)
			}
			fmt.Fprintf(&b, "%s}\n", indent)
		}
	}
	if !front {
		b.WriteString(strings.Join(locals, ""))
	}
	return b.String()
}

func c01inline(ts []*tnode, indent string) string {
	var b strings.Builder
	for _, n := range ts {
		switch n.kind {
		case "leaf":
			fmt.Fprintf(&b, "%sleaf %s { type string;%s }\n", indent, n.name, n.p.yang("leaf"))
		case "cont":
			switch c01special(n.name) {
			case "action":
				fmt.Fprintf(&b, "%saction %s {%s\n%s  input {\n%s%s  }\n%s  output {\n%s%s  }\n%s}\n", indent, n.name, n.p.yang("cont"), indent, c01inline(n.kids[0].kids, indent+"    "), indent, indent, c01inline(n.kids[1].kids, indent+"    "), indent, indent)
			case "notification":
				fmt.Fprintf(&b, "%snotification %s {%s\n%s%s}\n", indent, n.name, n.p.yang("cont"), c01inline(n.kids, indent+"  "), indent)
			default:
				fmt.Fprintf(&b, "%scontainer %s {%s\n%s%s}\n", indent, n.name, n.p.yang("cont"), c01inline(n.kids, indent+"  "), indent)
			}
		case "list":
			fmt.Fprintf(&b, "%slist %s { key %s;%s\n%s%s}\n", indent, n.name, n.kids[0].name, n.p.yang("list"), c01inline(n.kids, indent+"  "), indent)
		}
	}
	return b.String()
}

// ---- the compiled tree through the public accessors

// c01depth guards the dump against a compiled tree that contains itself (a stack overflow cannot be recovered,
// a panic can: safeDo turns it into a refused load)
var c01depth int

func c01dump(defs []meta.Definition) string {
	c01depth++
	defer func() { c01depth-- }()
	if c01depth > 200 {
		panic("the compiled tree is more than 200 levels deep: it contains itself")
	}
	var b strings.Builder
	b.WriteString("{")
	for _, d := range defs {
		kind := "?"
		switch d.(type) {
		case *meta.Leaf:
			kind = "leaf"
		case *meta.Container:
			kind = "cont"
		case *meta.List:
			kind = "list"
		}
		var p fprops
		if hd, ok := d.(meta.HasDetails); ok {
			c := hd.Config()
			p.config = &c
		}
		if ds, ok := d.(meta.Describable); ok && ds.Description() != "" {
			s := ds.Description()
			p.desc = &s
		}
		if lf, ok := d.(*meta.Leaf); ok {
			if lf.HasDefault() {
				s := lf.Default()
				p.dflt = &s
			}
			if lf.IsMandatorySet() {
				m := lf.Mandatory()
				p.mandatory = &m
			}
		}
		if co, ok := d.(*meta.Container); ok && co.Presence() != "" {
			s := co.Presence()
			p.presence = &s
		}
		if li, ok := d.(*meta.List); ok {
			if li.IsMinElementsSet() {
				n := li.MinElements()
				p.minEl = &n
			}
			if li.IsUnboundedSet() && li.Unbounded() {
				n := c01unbounded
				p.maxEl = &n
			} else if li.IsMaxElementsSet() {
				n := li.MaxElements()
				p.maxEl = &n
			}
		}
		fmt.Fprintf(&b, "%s %s %s", kind, d.Ident(), strings.Join(p.toks(), ","))
		if hdd, ok := d.(meta.HasDataDefinitions); ok {
			inner := c01dump(hdd.DataDefinitions())
			// actions and notifications of the node, as containers (c01norm orders them)
			extra := ""
			descOf := func(x interface{}) fprops {
				var q fprops
				if ds, ok := x.(meta.Describable); ok && ds.Description() != "" {
					s := ds.Description()
					q.desc = &s
				}
				return q
			}
			if ha, ok := d.(meta.HasActions); ok {
				for _, a := range ha.Actions() {
					in, out := "{}", "{}"
					if a.Input() != nil {
						in = c01dump(a.Input().DataDefinitions())
					}
					if a.Output() != nil {
						out = c01dump(a.Output().DataDefinitions())
					}
					extra += fmt.Sprintf("cont %s %s{cont input %s%s; cont output %s%s; }; ", a.Ident(), strings.Join(descOf(a).toks(), ","), strings.Join(fprops{}.toks(), ","), in, strings.Join(fprops{}.toks(), ","), out)
				}
			}
			if hn, ok := d.(meta.HasNotifications); ok {
				for _, n := range hn.Notifications() {
					extra += fmt.Sprintf("cont %s %s%s; ", n.Ident(), strings.Join(descOf(n).toks(), ","), c01dump(n.DataDefinitions()))
				}
			}
			if extra != "" {
				inner = strings.TrimSuffix(inner, "}") + extra + "}"
			}
			b.WriteString(inner)
		}
		b.WriteString("; ")
	}
	b.WriteString("}")
	return b.String()
}

// tree from the Lean model's tokens
type c01tr struct {
	toks []string
	bad  bool
}

func (t *c01tr) next() string {
	if len(t.toks) == 0 {
		t.bad = true
		return ""
	}
	x := t.toks[0]
	t.toks = t.toks[1:]
	return x
}

func (t *c01tr) canon() string {
	var n int
	fmt.Sscan(t.next(), &n)
	var b strings.Builder
	b.WriteString("{")
	for i := 0; i < n && !t.bad; i++ {
		switch t.next() {
		case "L":
			name := core.Unhex(t.next())
			p := []string{t.next(), t.next(), t.next(), t.next(), t.next(), t.next(), t.next()}
			fmt.Fprintf(&b, "leaf %s %s; ", name, strings.Join(p, ","))
		case "C":
			k := map[string]string{"c": "cont", "l": "list"}[t.next()]
			name := core.Unhex(t.next())
			p := []string{t.next(), t.next(), t.next(), t.next(), t.next(), t.next(), t.next()}
			fmt.Fprintf(&b, "%s %s %s%s; ", k, name, strings.Join(p, ","), t.canon())
		default:
			t.bad = true
		}
	}
	b.WriteString("}")
	return b.String()
}

// every copy of a grouping's node has its own list of musts: a refine that adds a must to one copy does not show in
// another, whatever the number of musts the grouping's node states (a slice with spare capacity is shared memory)
func c01musts(c *core.Ctx) {
	for k := 0; k <= 9; k++ {
		var own []string
		var gm strings.Builder
		for i := 0; i < k; i++ {
			own = append(own, fmt.Sprintf("../p%d", i))
			fmt.Fprintf(&gm, " must \"../p%d\";", i)
		}
		for _, kind := range []string{"leaf", "container", "list", "leaf-list"} {
			node := map[string]string{"leaf": "leaf n { type string;%s }", "container": "container n {%s leaf x { type string; } }", "list": "list n { key x;%s leaf x { type string; } }", "leaf-list": "leaf-list n { type string;%s }"}[kind]
			y := fmt.Sprintf("module mu { namespace \"urn:mu\"; prefix mu; revision 2020-01-01;\n  grouping g { "+node+" }\n  container a { uses g { refine n { must \"../ra\"; } } }\n  container b { uses g { refine n { must \"../rb\"; } } }\n  container c { uses g; }\n  container d { uses g { refine n { must \"../rd1\"; must \"../rd2\"; } } }\n}", gm.String())
			m, err := parser.LoadModuleFromString(nil, y)
			c.Evaluations++
			c.Count("musts_of_grouping_node", fmt.Sprint(k))
			c.Distinct(fmt.Sprint("musts ", kind, k))
			if err != nil {
				c.Violation(core.Replay{Kind: "property-failure", Class: "musts-load", Summary: "module with refined musts does not load: " + err.Error(), Input: y})
				continue
			}
			var bad []string
			for cname, extra := range map[string][]string{"a": {"../ra"}, "b": {"../rb"}, "c": nil, "d": {"../rd1", "../rd2"}} {
				d := meta.Find(m, cname+"/n")
				hm, ok := d.(meta.HasMusts)
				if !ok {
					bad = append(bad, cname+"/n missing")
					continue
				}
				var got []string
				for _, mu := range hm.Musts() {
					got = append(got, mu.Expression())
					if mu.Parent() != meta.Meta(d) {
						bad = append(bad, fmt.Sprintf("%s/n: must %q has another node as its parent", cname, mu.Expression()))
					}
				}
				want := append(append([]string{}, own...), extra...)
				if strings.Join(got, " ; ") != strings.Join(want, " ; ") {
					bad = append(bad, fmt.Sprintf("%s/n has musts [%s], written [%s]", cname, strings.Join(got, " ; "), strings.Join(want, " ; ")))
				}
			}
			sort.Strings(bad)
			if len(bad) > 0 {
				c.Violation(core.Replay{Kind: "property-failure", Class: "musts-of-copies", Summary: fmt.Sprintf("%s with %d musts in a grouping used four times: %s", kind, k, strings.Join(bad, "; ")), Input: y})
			}
		}
	}
}

// the augments of a module in any textual order: an augment may add the target of another one that is written
// before it (RFC 7950 has no rule about the order of statements), the compiled tree is that of the ordered text
func c01augmentOrder(c *core.Ctx) {
	hdr := "module ao { namespace \"urn:ao\"; prefix ao; revision 2020-01-01;\n  grouping g { container gc { leaf gl { type string; } } }\n  container c { }\n"
	augs := []string{
		`  augment "/c" { container d { leaf d1 { type string; } } }`,
		`  augment "/c/d" { container e { uses g; } leaf x { type string; } }`,
		`  augment "/c/d/e" { leaf y { type string; } }`,
		`  augment "/c/d/e/gc" { leaf z { type string; } }`,
	}
	load := func(order []int) (string, string) {
		y := hdr
		for _, i := range order {
			y += augs[i] + "\n"
		}
		y += "}\n"
		var dump string
		e := safeDo(func() error {
			m, err := parser.LoadModuleFromString(nil, y)
			if err != nil {
				return err
			}
			dump = c01dump(m.DataDefinitions())
			return nil
		})
		if e != nil {
			return y, "error " + e.Error()
		}
		return y, dump
	}
	_, want := load([]int{0, 1, 2, 3})
	for _, order := range [][]int{{0, 1, 2, 3}, {1, 0, 2, 3}, {3, 2, 1, 0}, {2, 0, 3, 1}, {0, 3, 1, 2}, {1, 2, 3, 0}} {
		y, got := load(order)
		c.Evaluations++
		c.Count("augment_order", fmt.Sprint(order))
		c.Distinct(fmt.Sprint("augorder ", order))
		if strings.HasPrefix(want, "error") || got != want {
			c.Violation(core.Replay{Kind: "property-failure", Class: "augment-order", Summary: fmt.Sprintf("augments written in the order %v: %s; in the order of their dependencies: %s", order, short(got), short(want)),
				Input: y, Impl: got, Spec: want})
		}
	}
}

func C01(c *core.Ctx) {
	c01musts(c)
	c01scopes(c)
	c01augmentOrder(c)
	c.Rule = "generated module sets: a main module whose body is built from leaves, containers, keyed lists and uses of groupings placed at module level, in the using container (sibling scope), in a submodule and in an imported module (prefixed uses), groupings nested in groupings, a grouping used several times with different refines (description, default, mandatory, config, min-elements incl. 0, max-elements as a number and as 'unbounded', each refined into the other) and uses-augments (into containers and lists of the copy), module-level augments into plain and into grouping-expanded containers in textual order, config false stated on some nodes; the compiled tree (kind, name, order, effective config, description, default, mandatory, min-/max-elements of every node) compared with the Lean expansion of the factored form, with the harness's own expansion, and with the compiled tree of the same schema written inline without any grouping, augment or second file; also: a leaf, container or list named like the grouping used next to it, a uses whose augment uses the same grouping again, a module grouping named like the imported grouping it wraps, presence stated and refined, leaves guarded by an enabled feature of the module (the load has imports); four augments of one module, each adding the target of the next, in six textual orders; directed (c01scopes): a prefix that the module and its submodule bind to different modules which both define the grouping and the typedef that are used, and a grouping whose leaves take default and units from a typedef, used three times - every copy against the same nodes written inline. non-trivial = module set with ≥2 uses, ≥1 refine and ≥1 augment; distinct by module set"
	c.Assumptions = append(c.Assumptions,
		"every leaf is of type string (types are C02); if-feature, choice/case, deviations and rpc/notification content are not generated here (C11 covers feature guards, C09/C06 choices)",
		"explicit 'config true' is never written (only 'config false'), so every generated module set is valid wherever a grouping is used")
	c.ProofStep("YangVerif.Props.C01")
	if c.Thorough() {
		c.LeanChecker("YangVerif.Props.C01")
	}
	rng := core.NewRng(c.Seed)
	var lines []string
	type pend struct {
		factored, inline, ref string
		input                 map[string]interface{}
		nontrivial            bool
	}
	var pends []pend
	nSets := c.N(80, 3000)
	for si := 0; si < nSets; si++ {
		r := rng.Fork()
		g := &c01gen{r: r}
		body := g.body(0, false, "module", 2+r.Intn(4))
		if r.Chance(35) {
			x := &fgroup{name: g.name("g"), where: core.Pick(r, []string{"module", "sub", "imp"})}
			x.yname = x.name
			xc := &fnode{kind: "cont", name: g.name("c"), p: g.props("cont", true, false), kids: []*fnode{{kind: "leaf", name: g.name("f"), p: g.props("leaf", true, false)}}}
			x.body = []*fnode{xc}
			added := &fnode{kind: "leaf", name: g.name("f"), p: fprops{}}
			gg := &fgroup{name: g.name("g"), where: "module"}
			if x.where == "imp" && r.Chance(50) {
				gg.where = "imp"
			}
			gg.yname = gg.name
			gg.body = []*fnode{{kind: "uses", g: x, augs: []faug{{path: []string{xc.name}, kids: []*fnode{added}}}}}
			x.uses++
			g.groups = append(g.groups, x, gg)
			f := false
			d := "refined in one use only"
			p1 := &fnode{kind: "cont", name: g.name("c"), p: fprops{config: &f}, kids: []*fnode{{kind: "uses", g: gg}}}
			p2 := &fnode{kind: "cont", name: g.name("c"), kids: []*fnode{{kind: "uses", g: gg, refines: []frefine{{path: []string{xc.name, added.name}, p: fprops{desc: &d}}}}}}
			p3 := &fnode{kind: "cont", name: g.name("c"), kids: []*fnode{{kind: "uses", g: gg}}}
			gg.uses += 3
			extra := []*fnode{p1, p2, p3}
			for i := len(extra) - 1; i > 0; i-- {
				j := r.Intn(i + 1)
				extra[i], extra[j] = extra[j], extra[i]
			}
			body = append(body, extra...)
			c.Count("scenario", "reused grouping that augments what it uses")
		}
		// a grouping of this module that has the name of an imported grouping and wraps it: two groupings, one name
		if r.Chance(30) {
			inner := &fgroup{name: g.name("g"), where: "imp"}
			inner.yname = inner.name
			inner.body = []*fnode{{kind: "leaf", name: g.name("f"), p: g.props("leaf", true, false)},
				{kind: "cont", name: g.name("c"), p: g.props("cont", true, false), kids: []*fnode{{kind: "leaf", name: g.name("f"), p: g.props("leaf", true, false)}}}}
			wrap := &fgroup{name: g.name("g"), yname: inner.yname, where: "module"}
			wrap.body = []*fnode{{kind: "cont", name: g.name("c"), kids: []*fnode{{kind: "uses", g: inner}}}, {kind: "leaf", name: g.name("f"), p: g.props("leaf", true, false)}}
			inner.uses++
			wrap.uses += 2
			g.groups = append(g.groups, inner, wrap)
			body = append(body, &fnode{kind: "cont", name: g.name("c"), kids: []*fnode{{kind: "uses", g: wrap}}}, &fnode{kind: "cont", name: g.name("c"), kids: []*fnode{{kind: "uses", g: wrap}}})
			c.Count("scenario", "grouping named like the imported grouping it wraps")
		}
		// a container that holds nothing but an action and a notification whose bodies use a grouping
		if r.Chance(30) {
			gg := &fgroup{name: g.name("g"), where: core.Pick(r, []string{"module", "sub", "imp"}), uses: 3}
			gg.yname = gg.name
			gg.body = []*fnode{{kind: "leaf", name: g.name("f"), p: fprops{}}, {kind: "cont", name: g.name("c"), kids: []*fnode{{kind: "leaf", name: g.name("f"), p: fprops{}}}}}
			g.groups = append(g.groups, gg)
			act := &fnode{kind: "cont", name: g.name("act"), kids: []*fnode{{kind: "cont", name: "input", kids: []*fnode{{kind: "uses", g: gg}}}, {kind: "cont", name: "output", kids: []*fnode{{kind: "uses", g: gg}}}}}
			ntf := &fnode{kind: "cont", name: g.name("ntf"), kids: []*fnode{{kind: "uses", g: gg}}}
			body = append(body, &fnode{kind: "cont", name: g.name("c"), kids: []*fnode{act, ntf}})
			c.Count("scenario", "container with operations only, their bodies use a grouping")
		}
		// a uses whose augment uses the same grouping again: written outside the grouping, not a recursion
		if r.Chance(30) {
			gg := &fgroup{name: g.name("g"), where: core.Pick(r, []string{"module", "sub", "imp"}), uses: 3}
			gg.yname = gg.name
			gc := &fnode{kind: "cont", name: g.name("c"), p: g.props("cont", true, false), kids: []*fnode{{kind: "leaf", name: g.name("f"), p: g.props("leaf", true, false)}}}
			gg.body = []*fnode{gc}
			g.groups = append(g.groups, gg)
			body = append(body, &fnode{kind: "cont", name: g.name("c"), kids: []*fnode{{kind: "uses", g: gg, augs: []faug{{path: []string{gc.name}, kids: []*fnode{{kind: "uses", g: gg}}}}}}},
				&fnode{kind: "cont", name: g.name("c"), kids: []*fnode{{kind: "uses", g: gg}}})
			c.Count("scenario", "uses whose augment uses the same grouping")
		}
		// a leaf with the name of the grouping that is used next to it (groupings have a namespace of their own)
		if r.Chance(30) {
			gg := &fgroup{name: g.name("g"), where: core.Pick(r, []string{"module", "sub"}), uses: 2}
			gg.yname = gg.name
			gg.body = []*fnode{{kind: "leaf", name: g.name("f"), p: g.props("leaf", true, false)}}
			g.groups = append(g.groups, gg)
			body = append(body, &fnode{kind: "cont", name: g.name("c"), kids: []*fnode{{kind: "leaf", name: gg.yname, p: g.props("leaf", true, false)}, {kind: "uses", g: gg}}},
				&fnode{kind: "cont", name: g.name("c"), kids: []*fnode{{kind: "uses", g: gg}, {kind: "cont", name: gg.yname, kids: []*fnode{{kind: "leaf", name: g.name("f"), p: g.props("leaf", true, false)}}}}})
			c.Count("scenario", "node named like the grouping used next to it")
		}
		// a local grouping that shadows a module-level one: the use next to it gets the local one
		for _, mg := range g.groups {
			if mg.where == "module" && r.Chance(30) {
				sh := &fgroup{name: g.name("g"), yname: mg.yname, where: "local", uses: 1}
				sh.body = []*fnode{{kind: "leaf", name: g.name("f"), p: g.props("leaf", false, false)}}
				g.groups = append(g.groups, sh)
				body = append(body, &fnode{kind: "cont", name: g.name("c"), kids: []*fnode{{kind: "uses", g: sh}}})
				c.Count("scenario", "local grouping shadows a module-level one")
				break
			}
		}
		exp := c01expand(body)
		// module-level augments: into containers of the expanded body, in textual order
		var conts [][]string
		var walk func(ts []*tnode, prefix []string)
		walk = func(ts []*tnode, prefix []string) {
			for _, t := range ts {
				p := append(append([]string{}, prefix...), t.name)
				if t.kind != "leaf" && c01special(t.name) == "" {
					conts = append(conts, p)
					walk(t.kids, p)
				}
			}
		}
		walk(exp, nil)
		for i, n := 0, r.Intn(3); i < n && len(conts) > 0; i++ {
			p := core.Pick(r, conts)
			a := faug{path: p, kids: g.body(3, true, "module", 1+r.Intn(2))}
			g.modAugs = append(g.modAugs, a)
			if t := c01at(exp, p); t != nil {
				t.kids = append(t.kids, c01expand(a.kids)...)
			}
			// later augments may go into what this one added
			conts = nil
			walk(exp, nil)
		}
		c01inherit(exp, true)
		ref := c01tcanon(exp)
		// texts
		tx := c01text{g}
		var modG, subG, impG []string
		for _, gr := range g.groups {
			txt := fmt.Sprintf("  grouping %s {\n%s  }\n", gr.yname, tx.nodes(gr.body, "    ", gr.where))
			switch gr.where {
			case "module":
				modG = append(modG, txt)
			case "sub":
				subG = append(subG, txt)
			case "imp":
				impG = append(impG, txt)
			}
		}
		var augT strings.Builder
		for _, a := range g.modAugs {
			fmt.Fprintf(&augT, "  augment \"/%s\" {\n%s  }\n", strings.Join(a.path, "/"), tx.nodes(a.kids, "    ", "module"))
		}
		split := 0
		if len(modG) > 0 {
			split = r.Intn(len(modG) + 1)
		}
		// some top-level nodes are written in the submodule (only such as the submodule can see: no main-module groupings)
		var mainBody, subBody []*fnode
		for _, n := range body {
			if r.Chance(25) && c01subVisible(n) {
				subBody = append(subBody, n)
			} else {
				mainBody = append(mainBody, n)
			}
		}
		c.Count("submodule_nodes", fmt.Sprint(c01min(len(subBody), 3)))
		mainY := "module m { namespace \"urn:m\"; prefix m;\n  import lib { prefix lib; }\n  include m-sub;\n  revision 2020-01-01;\n  feature fz;\n" +
			strings.Join(modG[:split], "") + tx.nodes(mainBody, "  ", "module") + strings.Join(modG[split:], "") + augT.String() + "}\n"
		subY := "submodule m-sub { belongs-to m { prefix m; }\n  import lib { prefix lib; }\n" + strings.Join(subG, "") + tx.nodes(subBody, "  ", "sub") + "}\n"
		libY := "module lib { namespace \"urn:lib\"; prefix lib;\n  revision 2020-01-01;\n" + strings.Join(impG, "") + "}\n"
		inlineY := "module m { namespace \"urn:m\"; prefix m;\n  revision 2020-01-01;\n" + c01inlineFrom(exp, "  ") + "}\n"
		input := map[string]interface{}{"m.yang": mainY, "m-sub.yang": subY, "lib.yang": libY, "inline.yang": inlineY}
		load := func(main string) string {
			var out string
			err := safeDo(func() error {
				opener := source.Any(source.Named("m", strings.NewReader(main)), source.Named("m-sub", strings.NewReader(subY)), source.Named("lib", strings.NewReader(libY)))
				m, err := parser.LoadModule(opener, "m")
				if err != nil {
					return err
				}
				c01depth = 0
				out = c01dump(m.DataDefinitions())
				return nil
			})
			if err != nil {
				return "error " + short(err.Error())
			}
			return out
		}
		factored := load(mainY)
		inline := load(inlineY)
		c.Count("leaves_guarded_by_an_enabled_feature", fmt.Sprint(c01min(g.guards, 4)))
		c.Count("actions_in_text", fmt.Sprint(c01min(strings.Count(mainY+subY+libY, " action "), 4)))
		c.Count("notifications_in_text", fmt.Sprint(c01min(strings.Count(mainY+subY+libY, " notification "), 4)))
		c.Evaluations += 2
		nUses, nRef, nAug := c01count(body, g)
		c.Count("uses", fmt.Sprint(c01min(nUses, 6)))
		c.Count("refines", fmt.Sprint(c01min(nRef, 6)))
		c.Count("augments", fmt.Sprint(c01min(nAug, 6)))
		for _, gr := range g.groups {
			c.Count("grouping_placement", gr.where)
			if gr.uses > 1 {
				c.Count("grouping_reuse", fmt.Sprint(c01min(gr.uses, 4)))
			}
		}
		line := []string{"c01 compile G", fmt.Sprint(len(g.groups))}
		for _, gr := range g.groups {
			line = append(append(line, core.Hex(gr.name)), c01nodesToks(gr.body)...)
		}
		line = append(append(line, "B"), c01nodesToks(body)...)
		line = append(line, "A", fmt.Sprint(len(g.modAugs)))
		for _, a := range g.modAugs {
			line = append(append(line, c01pathTok(a.path)...), c01nodesToks(a.kids)...)
		}
		lines = append(lines, strings.Join(line, " "))
		pends = append(pends, pend{factored, inline, ref, input, nUses >= 2 && nRef >= 1 && nAug >= 1})
	}
	outs, err := core.RunDriver(lines)
	if err != nil {
		c.ProofBroken = append(c.ProofBroken, err.Error())
		return
	}
	for i, o := range outs {
		p := pends[i]
		tr := &c01tr{toks: strings.Fields(o)}
		model := tr.canon()
		if tr.bad || len(tr.toks) != 0 {
			c.Count("driver", "bad:"+short(o))
			continue
		}
		if i%97 == 0 {
			c.Sample(map[string]interface{}{"library": short(p.factored), "model": short(model)})
		}
		model, p.ref, p.factored, p.inline = c01norm(model), c01norm(p.ref), c01norm(p.factored), c01norm(p.inline)
		if model != p.ref {
			c.Violation(core.Replay{Kind: "harness", Class: "model-vs-harness-expansion", Summary: "the Lean expansion and the harness's own expansion disagree: " + c06firstDiff(strings.ReplaceAll(model, "; ", ";\n"), strings.ReplaceAll(p.ref, "; ", ";\n")), Input: p.input, Model: model, Spec: p.ref, NoInputFound: true})
			continue
		}
		p.factored, p.inline, model = c01sortTop(p.factored), c01sortTop(p.inline), c01sortTop(model)
		if p.factored != model {
			c.Violation(core.Replay{Kind: "property-failure", Class: "factored", Summary: "compiled tree ≠ RFC 7950 expansion: " + c01diff(p.factored, model), Input: p.input, Impl: p.factored, Model: model})
		} else if p.nontrivial {
			c.Distinct(fmt.Sprint(i))
		}
		if p.inline != model {
			c.Violation(core.Replay{Kind: "property-failure", Class: "inline", Summary: "the same schema written inline compiles differently: " + c01diff(p.inline, model), Input: p.input, Impl: p.inline, Model: model})
		}
	}
}

// a node the submodule can hold: it uses no grouping of the main module (nor a local one, for simplicity)
func c01subVisible(n *fnode) bool {
	if n.kind == "uses" {
		if n.g.where != "sub" && n.g.where != "imp" {
			return false
		}
		for _, a := range n.augs {
			for _, k := range a.kids {
				if !c01subVisible(k) {
					return false
				}
			}
		}
		return true
	}
	for _, k := range n.kids {
		if !c01subVisible(k) {
			return false
		}
	}
	return true
}

// the order between the nodes of a module and those of its submodules is not defined: top level compared as a set
func c01sortTop(canon string) string {
	if !strings.HasPrefix(canon, "{") {
		return canon
	}
	// split the top-level entries: each ends with "; " at nesting depth 1
	var entries []string
	depth, start := 0, 1
	for i := 0; i < len(canon); i++ {
		switch canon[i] {
		case '{':
			depth++
		case '}':
			depth--
		case ';':
			if depth == 1 {
				entries = append(entries, canon[start:i+2])
				start = i + 2
			}
		}
	}
	sort.Strings(entries)
	return "{" + strings.Join(entries, "") + "}"
}

func c01diff(a, b string) string {
	if strings.HasPrefix(a, "error") {
		return a
	}
	return c06firstDiff(strings.ReplaceAll(a, "; ", ";\n"), strings.ReplaceAll(b, "; ", ";\n"))
}

func c01count(ns []*fnode, g *c01gen) (uses, refines, augs int) {
	var walk func(ns []*fnode)
	seen := map[*fgroup]bool{}
	walk = func(ns []*fnode) {
		for _, n := range ns {
			if n.kind == "uses" {
				uses++
				refines += len(n.refines)
				augs += len(n.augs)
				for _, a := range n.augs {
					walk(a.kids)
				}
				if !seen[n.g] {
					seen[n.g] = true
					walk(n.g.body)
				}
			}
			walk(n.kids)
		}
	}
	walk(ns)
	augs += len(g.modAugs)
	return
}

// the inline text states, for every node, exactly what the expansion states before inheritance: to keep the
// inline variant honest about inheritance it states config only where the expanded node states it itself
func c01inlineFrom(ts []*tnode, indent string) string {
	return c01inlineCfg(ts, indent, true)
}

func c01inlineCfg(ts []*tnode, indent string, inherited bool) string {
	var b strings.Builder
	for _, n := range ts {
		p := n.p
		eff := inherited
		if p.config != nil {
			eff = *p.config
			if eff == inherited {
				p.config = nil // not stated: inherited
			}
		}
		switch n.kind {
		case "leaf":
			fmt.Fprintf(&b, "%sleaf %s { type string;%s }\n", indent, n.name, p.yang("leaf"))
		case "cont":
			switch c01special(n.name) {
			case "action":
				p.config = nil
				fmt.Fprintf(&b, "%saction %s {%s\n%s  input {\n%s%s  }\n%s  output {\n%s%s  }\n%s}\n", indent, n.name, p.yang("cont"), indent, c01inlineCfg(n.kids[0].kids, indent+"    ", eff), indent, indent, c01inlineCfg(n.kids[1].kids, indent+"    ", eff), indent, indent)
			case "notification":
				p.config = nil
				fmt.Fprintf(&b, "%snotification %s {%s\n%s%s}\n", indent, n.name, p.yang("cont"), c01inlineCfg(n.kids, indent+"  ", eff), indent)
			default:
				fmt.Fprintf(&b, "%scontainer %s {%s\n%s%s}\n", indent, n.name, p.yang("cont"), c01inlineCfg(n.kids, indent+"  ", eff), indent)
			}
		case "list":
			fmt.Fprintf(&b, "%slist %s { key %s;%s\n%s%s}\n", indent, n.name, n.kids[0].name, p.yang("list"), c01inlineCfg(n.kids, indent+"  ", eff), indent)
		}
	}
	return b.String()
}

func c01min(a, b int) int {
	if a < b {
		return a
	}
	return b
}

// whose names a uses sees, and what every copy of a grouping's leaf carries: (a) a module and its submodule bind one
// prefix to different modules, both of which define the grouping g and the typedef t that are used - a prefix belongs to
// the file it is written in (RFC 7950 7.1.5); (b) the leaves of a grouping take their default and units from a typedef
// and the grouping is used three times - every copy is the leaf written inline
func c01scopes(c *core.Ctx) {
	files := map[string]string{
		"main": `module main { namespace "urn:main"; prefix main; import l1 { prefix x; } include s1; revision 2020-01-01;
  container top { uses x:g; } leaf mt { type x:t; }
  typedef pct { type int32; default 50; units percent; } typedef plain { type string; }
  grouping lv { leaf level { type pct; } leaf own { type pct; default 7; } leaf word { type plain; } }
  container one { uses lv; } container two { uses lv; } list three { key word; uses lv; }
  container inline { leaf level { type pct; } leaf own { type pct; default 7; } leaf word { type plain; } } }`,
		"s1": `submodule s1 { belongs-to main { prefix main; } import l2 { prefix x; } container stop { uses x:g; } leaf st { type x:t; } }`,
		"l1": `module l1 { namespace "urn:l1"; prefix l1; typedef t { type string; units "u1"; } grouping g { leaf in-l1 { type string; } } }`,
		"l2": `module l2 { namespace "urn:l2"; prefix l2; typedef t { type int32; units "u2"; } grouping g { leaf in-l2 { type string; } } }`,
	}
	for round := 0; round < 8; round++ {
		c.Evaluations++
		c.Count("directed", "scopes")
		res := ""
		perr := safeDo(func() error {
			m, err := parser.LoadModule(func(name, ext string) (io.Reader, error) {
				if y, ok := files[name]; ok {
					return strings.NewReader(y), nil
				}
				return nil, fmt.Errorf("no module %s", name)
			}, "main")
			if err != nil {
				return fmt.Errorf("valid module set does not load: %v", err)
			}
			show := func(p string) string {
				l, ok := meta.Find(m, p).(*meta.Leaf)
				if !ok {
					return p + ": not there"
				}
				d := "<none>"
				if l.HasDefault() {
					d = fmt.Sprint(l.Default())
				}
				return fmt.Sprintf("type=%s format=%v default=%s units=%q", l.Type().Ident(), l.Type().Format(), d, l.Units())
			}
			for p, want := range map[string]string{"top/in-l1": "", "stop/in-l2": "", "top/in-l2": "not there", "stop/in-l1": "not there"} {
				got := show(p)
				if (want == "not there") != strings.HasSuffix(got, "not there") {
					res = fmt.Sprintf("uses x:g: node %s: %s (the module binds x to l1, its submodule binds x to l2)", p, got)
					return nil
				}
			}
			if mt, st := show("mt"), show("st"); !strings.Contains(mt, `units="u1"`) || !strings.Contains(st, `units="u2"`) {
				res = fmt.Sprintf("type x:t: the module's leaf reads %s (want l1's t, units u1), the submodule's %s (want l2's t, units u2)", mt, st)
				return nil
			}
			for _, leaf := range []string{"level", "own", "word"} {
				want := show("inline/" + leaf)
				for _, copy := range []string{"one", "two", "three"} {
					if got := show(copy + "/" + leaf); got != want {
						res = fmt.Sprintf("copy %s/%s of the grouping's leaf reads %s; the same leaf written inline reads %s", copy, leaf, got, want)
						return nil
					}
				}
			}
			return nil
		})
		if perr != nil {
			res = perr.Error()
		}
		if res != "" {
			c.Violation(core.Replay{Kind: "property-failure", Class: "scopes", Summary: "compiled tree ≠ RFC 7950 expansion: " + res, Input: files})
			return
		}
	}
}
