package props

import (
	"bytes"
	"encoding/json"
	"reflect"
	stdxml "encoding/xml"
	"fmt"
	"io"
	"net/url"
	"strconv"
	"strings"

	"verif/harness/core"
	"verif/harness/gen"
	"verif/harness/refstore"

	"github.com/freeconf/yang/meta"
	"github.com/freeconf/yang/node"
	"github.com/freeconf/yang/nodeutil"
	"github.com/freeconf/yang/val"
	"github.com/freeconf/yang/parser"
	fcxml "github.com/freeconf/yang/patch/xml"
)

func init() { Registry["C19"] = C19 }

// text values legal in a YANG string (RFC 7950 §9.4: no C0 controls but tab, LF, CR) = legal XML 1.0 characters
var c19strings = []string{"", "a", "hello world", "q\"uote'apos", "<tag>&amp;", "]]>", "<![CDATA[x]]>", "&#65;&lt;", " lead", "trail ", "  ", " both  ends ", "in  ner",
	"tab\there", "\ttab", "nl\nline", "\n", "cr\rhere", "cr\r\nlf", "é", "日本語", "\U0001F600", " nbsp ", " ", "a/b,c=d", "�", "-->", "<!--"}

// generic element tree
type c19elem struct {
	Name, NS string
	Text     string // character data (concatenated) when there are no child elements
	Kids     []*c19elem
	AnyText  bool // expected tree only: the text is not constrained (type empty has no lexical form)
}

// same names, namespaces, order and text
func c19same(got, want *c19elem) bool {
	if got.Name != want.Name || got.NS != want.NS || len(got.Kids) != len(want.Kids) {
		return false
	}
	if len(want.Kids) == 0 && !want.AnyText && got.Text != want.Text {
		return false
	}
	for i := range want.Kids {
		if !c19same(got.Kids[i], want.Kids[i]) {
			return false
		}
	}
	return true
}

func (e *c19elem) canon(b *strings.Builder) {
	fmt.Fprintf(b, "<%s{%s}", e.Name, e.NS)
	if len(e.Kids) == 0 {
		fmt.Fprintf(b, "%q", e.Text)
	}
	for _, k := range e.Kids {
		k.canon(b)
	}
	b.WriteString(">")
}

func (e *c19elem) String() string {
	var b strings.Builder
	e.canon(&b)
	return b.String()
}

// c19parse reads a document with the standard library's XML parser: exactly one root element, nothing but
// white space, comments or the XML declaration around it.  Character data of elements with child elements
// must be white space (the writers never produce mixed content).
func c19parse(doc string) (*c19elem, error) {
	d := stdxml.NewDecoder(strings.NewReader(doc))
	d.Strict = true
	var root *c19elem
	var stack []*c19elem
	mixed := map[*c19elem]string{}
	for {
		tok, err := d.Token()
		if err == io.EOF {
			break
		}
		if err != nil {
			return nil, err
		}
		switch t := tok.(type) {
		case stdxml.StartElement:
			e := &c19elem{Name: t.Name.Local, NS: t.Name.Space}
			for _, a := range t.Attr {
				if !(a.Name.Local == "xmlns" || a.Name.Space == "xmlns") {
					return nil, fmt.Errorf("unexpected attribute %v", a.Name)
				}
			}
			if len(stack) == 0 {
				if root != nil {
					return nil, fmt.Errorf("more than one root element")
				}
				root = e
			} else {
				p := stack[len(stack)-1]
				p.Kids = append(p.Kids, e)
			}
			stack = append(stack, e)
		case stdxml.EndElement:
			e := stack[len(stack)-1]
			stack = stack[:len(stack)-1]
			if len(e.Kids) > 0 {
				if strings.TrimSpace(mixed[e]) != "" {
					return nil, fmt.Errorf("mixed content in <%s>: %q", e.Name, mixed[e])
				}
				e.Text = ""
			} else {
				e.Text = mixed[e]
			}
		case stdxml.CharData:
			if len(stack) == 0 {
				if strings.TrimSpace(string(t)) != "" {
					return nil, fmt.Errorf("text outside the root element: %q", string(t))
				}
			} else {
				mixed[stack[len(stack)-1]] += string(t)
			}
		case stdxml.Comment, stdxml.ProcInst:
		default:
			return nil, fmt.Errorf("unexpected token %T", tok)
		}
	}
	if root == nil {
		return nil, fmt.Errorf("no root element")
	}
	if len(stack) != 0 {
		return nil, fmt.Errorf("unclosed element")
	}
	return root, nil
}

// own serializer (for the interleaving check): minimal escaping, namespace declared on every element
func c19render(e *c19elem, b *strings.Builder) {
	fmt.Fprintf(b, "<%s xmlns=\"%s\">", e.Name, e.NS)
	if len(e.Kids) == 0 {
		stdxml.EscapeText(b, []byte(e.Text))
	}
	for _, k := range e.Kids {
		c19render(k, b)
	}
	fmt.Fprintf(b, "</%s>", e.Name)
}

var c19ns = map[string]string{"m": "urn:m", "g": "urn:g"}

// text of one leaf value in XML (RFC 7950 §9: canonical lexical form)
func c19leafText(t c15type, text string) string {
	switch t.name {
	case "empty":
		return ""
	case "identityref-g":
		if text == "md" {
			return "m:md"
		}
	case "decimal64", "decimal64-9":
		f, _ := strconv.ParseFloat(text, 64)
		return strconv.FormatFloat(f, 'f', -1, 64)
	}
	return text
}

// expected element tree of a body
func c19expect(sc *c15schema, kids []*gen.SNode, body []*gen.DNode) []*c19elem {
	kids, body = gen.Flatten(kids, body)
	var out []*c19elem
	for i, s := range kids {
		d := body[i]
		ns := c19ns[sc.mod[s.Name]]
		switch s.Kind {
		case "leaf":
			if d.Leaf == nil {
				continue
			}
			t := sc.types[s.Name]
			if sc.lists[s.Name] {
				for _, p := range strings.Split(*d.Leaf, "\x1e") {
					out = append(out, &c19elem{Name: s.Name, NS: ns, Text: c19leafText(t, p)})
				}
			} else {
				out = append(out, &c19elem{Name: s.Name, NS: ns, Text: c19leafText(t, *d.Leaf), AnyText: t.name == "empty"})
			}
		case "cont":
			if d.Present {
				out = append(out, &c19elem{Name: s.Name, NS: ns, Kids: c19expect(sc, s.Kids, d.Kids)})
			}
		case "list":
			for _, row := range d.Rows {
				out = append(out, &c19elem{Name: s.Name, NS: ns, Kids: c19expect(sc, s.Kids, row.Kids)})
			}
		}
	}
	return out
}

// interleave: a permutation of the children that keeps the relative order of same-named elements
func c19interleave(r *core.Rng, e *c19elem) *c19elem {
	out := &c19elem{Name: e.Name, NS: e.NS, Text: e.Text}
	var kids []*c19elem
	for _, k := range e.Kids {
		kids = append(kids, c19interleave(r, k))
	}
	// random merge of the per-name queues
	queues := map[string][]*c19elem{}
	var names []string
	for _, k := range kids {
		key := k.Name + "{" + k.NS
		if _, ok := queues[key]; !ok {
			names = append(names, key)
		}
		queues[key] = append(queues[key], k)
	}
	for len(names) > 0 {
		i := r.Intn(len(names))
		q := queues[names[i]]
		out.Kids = append(out.Kids, q[0])
		if len(q) == 1 {
			names = append(names[:i], names[i+1:]...)
		} else {
			queues[names[i]] = q[1:]
		}
	}
	return out
}

// ---- tokens for the Lean driver (flattened schema: choices have no representation in data)

func c19schemaToks(sc *c15schema, kids []*gen.SNode) []string {
	out := []string{fmt.Sprint(len(kids))}
	for _, s := range kids {
		ns := c19ns[sc.mod[s.Name]]
		switch s.Kind {
		case "leaf":
			k := "L"
			if sc.lists[s.Name] {
				k = "A"
			}
			out = append(out, k, core.Hex(s.Name), core.Hex(ns))
		case "cont":
			out = append(append(out, "C", core.Hex(s.Name), core.Hex(ns)), c19schemaToks(sc, s.Kids)...)
		case "list":
			out = append(append(out, "K", core.Hex(s.Name), core.Hex(ns)), c19schemaToks(sc, s.Kids)...)
		}
	}
	return out
}

// data with leaf values in their XML text
func c19dataToks(sc *c15schema, kids []*gen.SNode, body []*gen.DNode) []string {
	out := []string{fmt.Sprint(len(kids))}
	for i, s := range kids {
		d := body[i]
		switch s.Kind {
		case "leaf":
			t := sc.types[s.Name]
			if sc.lists[s.Name] {
				if d.Leaf == nil {
					out = append(out, "a", "0")
				} else {
					parts := strings.Split(*d.Leaf, "\x1e")
					out = append(out, "a", fmt.Sprint(len(parts)))
					for _, p := range parts {
						out = append(out, core.Hex(c19leafText(t, p)))
					}
				}
			} else if d.Leaf == nil {
				out = append(out, "-")
			} else {
				out = append(out, "v", core.Hex(c19leafText(t, *d.Leaf)))
			}
		case "cont":
			if d.Present {
				out = append(append(out, "c"), c19dataToks(sc, s.Kids, d.Kids)...)
			} else {
				out = append(out, "c-")
			}
		case "list":
			out = append(out, "r", fmt.Sprint(len(d.Rows)))
			for _, row := range d.Rows {
				out = append(out, c19dataToks(sc, s.Kids, row.Kids)...)
			}
		}
	}
	return out
}

func c19elemToks(es []*c19elem) []string {
	out := []string{fmt.Sprint(len(es))}
	for _, e := range es {
		text := e.Text
		if len(e.Kids) > 0 {
			text = ""
		}
		out = append(append(out, "E", core.Hex(e.Name), core.Hex(e.NS), core.Hex(text)), c19elemToks(e.Kids)...)
	}
	return out
}

type c19tokReader struct {
	toks []string
	err  error
}

func (t *c19tokReader) next() string {
	if len(t.toks) == 0 {
		t.err = fmt.Errorf("short")
		return ""
	}
	x := t.toks[0]
	t.toks = t.toks[1:]
	return x
}

// model's read result (XML texts) as a body of the flattened schema
func (t *c19tokReader) body(sc *c15schema, kids []*gen.SNode) []*gen.DNode {
	n, _ := strconv.Atoi(t.next())
	if n != len(kids) {
		t.err = fmt.Errorf("arity")
		return nil
	}
	out := make([]*gen.DNode, len(kids))
	for i, s := range kids {
		d := &gen.DNode{}
		out[i] = d
		tag := t.next()
		switch {
		case s.Kind == "leaf" && tag == "-":
		case s.Kind == "leaf" && tag == "v":
			v := core.Unhex(t.next())
			d.Leaf = &v
		case s.Kind == "leaf" && tag == "a":
			k, _ := strconv.Atoi(t.next())
			var parts []string
			for j := 0; j < k; j++ {
				parts = append(parts, core.Unhex(t.next()))
			}
			if k > 0 {
				v := strings.Join(parts, "\x1e")
				d.Leaf = &v
			}
		case s.Kind == "cont" && tag == "c-":
		case s.Kind == "cont" && tag == "c":
			d.Present = true
			d.Kids = t.body(sc, s.Kids)
		case s.Kind == "list" && tag == "r":
			k, _ := strconv.Atoi(t.next())
			for j := 0; j < k; j++ {
				row := &gen.DRow{Kids: t.body(sc, s.Kids)}
				if len(row.Kids) > 0 && row.Kids[0] != nil && row.Kids[0].Leaf != nil {
					row.Key = []string{*row.Kids[0].Leaf}
				}
				d.Rows = append(d.Rows, row)
			}
		default:
			t.err = fmt.Errorf("tag %q for %s", tag, s.Kind)
			return out
		}
		if t.err != nil {
			return out
		}
	}
	return out
}

// elements in a foreign namespace carrying names of real siblings: a reader must not take them for those nodes
func c19addForeign(r *core.Rng, e *c19elem) *c19elem {
	out := &c19elem{Name: e.Name, NS: e.NS, Text: e.Text}
	for _, k := range e.Kids {
		if r.Chance(25) {
			f := &c19elem{Name: k.Name, NS: "urn:foreign", Text: "bogus"}
			out.Kids = append(out.Kids, f)
		}
		out.Kids = append(out.Kids, c19addForeign(r, k))
	}
	return out
}

func c19stripNS(e *c19elem) *c19elem {
	out := &c19elem{Name: e.Name, Text: e.Text}
	for _, k := range e.Kids {
		out.Kids = append(out.Kids, c19stripNS(k))
	}
	return out
}

func c19renderPlain(e *c19elem, b *strings.Builder) {
	fmt.Fprintf(b, "<%s>", e.Name)
	if len(e.Kids) == 0 {
		stdxml.EscapeText(b, []byte(e.Text))
	}
	for _, k := range e.Kids {
		c19renderPlain(k, b)
	}
	fmt.Fprintf(b, "</%s>", e.Name)
}

var c19wtr = &nodeutil.XMLWtr{}

// a document read back is the same tree for every way of asking: entries of a list with several keys addressed by
// key, names with dots and dashes (RFC 7950 identifiers), through both writers
const c19keysYang = `module xk { namespace "urn:xk?a=1&b=<2>'q'"; prefix xk; revision 2020-01-01;
  container c { list route { key "color prefix"; leaf color { type string; } leaf prefix { type string; } leaf metric { type int32; }
      container nh.info { leaf if.name { type string; } leaf-list via-1.a { type string; } } }
    list tri { key "a b c"; leaf a { type int32; } leaf b { type boolean; } leaf c { type string; } leaf v { type string; } } }
  leaf top.leaf_x { type string; }
}`

// a value the writer cannot give a text (an identity the schema does not have): an error, not an element with
// content the value does not have - the document would not read back
func c19valueErrors(c *core.Ctx) {
	y := `module ve { namespace "urn:ve"; prefix ve; revision 2020-01-01; identity base; identity known { base base; }
  leaf before { type string; } leaf id { type identityref { base base; } } leaf-list ids { type identityref { base base; } } leaf after { type string; }
  container c { leaf cid { type identityref { base base; } } } }`
	m, err := parser.LoadModuleFromString(nil, y)
	if err != nil {
		c.Violation(core.Replay{Kind: "harness", Summary: "c19valueErrors module: " + err.Error(), NoInputFound: true})
		return
	}
	for _, bad := range []string{"id", "ids", "cid", ""} {
		var mk func(inC bool) node.Node
		mk = func(inC bool) node.Node {
			return &nodeutil.Basic{
				OnChild: func(r node.ChildRequest) (node.Node, error) {
					if r.Meta.Ident() == "c" {
						return mk(true), nil
					}
					return nil, nil
				},
				OnField: func(r node.FieldRequest, hnd *node.ValueHandle) error {
					name := "known"
					if r.Meta.Ident() == bad {
						name = "nosuch"
					}
					switch r.Meta.Ident() {
					case "before", "after":
						hnd.Val = val.String("x")
					case "id", "cid":
						hnd.Val = val.IdentRef{Label: name}
					case "ids":
						hnd.Val = val.IdentRefList{{Label: "known"}, {Label: name}}
					}
					return nil
				}}
		}
		for _, w := range []string{"stream", "doc"} {
			var doc string
			var werr error
			e := safeDo(func() error {
				sel := node.NewBrowser(m, mk(false)).Root()
				if w == "stream" {
					doc, werr = nodeutil.WriteXML(sel)
				} else {
					doc, werr = nodeutil.WriteXMLDoc(sel, false)
				}
				return nil
			})
			c.Evaluations++
			c.Count("value_error", w)
			c.Distinct("valueerr " + w + bad)
			problem := ""
			switch {
			case e != nil:
				problem = e.Error()
			case bad == "" && (werr != nil || !strings.Contains(doc, "<id>known</id>")):
				problem = fmt.Sprintf("a tree of known identities is not written: %v %s", werr, short(doc))
			case bad != "" && werr == nil:
				problem = "no error, document " + short(doc)
			}
			if problem != "" {
				c.Violation(core.Replay{Kind: "property-failure", Class: "value-error-" + w, Summary: fmt.Sprintf("%s writer, leaf %q holds the identity 'nosuch' the schema does not have: %s", w, bad, problem),
					Input: map[string]interface{}{"yang": y, "writer": w, "leaf": bad}, Impl: problem, Spec: "an error"})
			}
		}
	}
}

func c19keys(c *core.Ctx) {
	m, err := parser.LoadModuleFromString(nil, c19keysYang)
	if err != nil {
		c.Violation(core.Replay{Kind: "harness", Summary: "c19keys module: " + err.Error(), NoInputFound: true})
		return
	}
	type ent struct{ path, json string }
	var ents []ent
	var routes, tris []string
	for i, k := range [][2]string{{"red", "10.0.0.0/8"}, {"blue", "10.0.0.0/8"}, {"blue", "192.168.0.0/16"}, {"red", "192.168.0.0/16"}, {"green", "::/0"}} {
		j := fmt.Sprintf(`{"color":%q,"prefix":%q,"metric":%d,"nh.info":{"if.name":"eth%d.%d","via-1.a":["v%d","w.%d"]}}`, k[0], k[1], i+1, i, i, i, i)
		routes = append(routes, j)
		ents = append(ents, ent{"c/route=" + k[0] + "," + url.QueryEscape(k[1]), j})
	}
	for i, k := range [][3]string{{"1", "true", "x"}, {"2", "true", "x"}, {"1", "false", "x"}, {"1", "true", "y"}, {"2", "false", "y"}} {
		j := fmt.Sprintf(`{"a":%s,"b":%s,"c":%q,"v":"t%d"}`, k[0], k[1], k[2], i)
		tris = append(tris, j)
		ents = append(ents, ent{"c/tri=" + k[0] + "," + k[1] + "," + k[2], j})
	}
	whole := `{"c":{"route":[` + strings.Join(routes, ",") + `],"tri":[` + strings.Join(tris, ",") + `]},"top.leaf_x":"dotted"}`
	ents = append(ents, ent{"", whole}, ent{"c/route=red,nosuch", "nil"}, ent{"c/tri=2,true,y", "nil"})
	// every start selection: the streaming writer and the document writer produce the same one well-formed element
	for _, start := range []string{"", "c", "c/route", "c/route=red,10.0.0.0%2F8", "c/route=blue,192.168.0.0%2F16/nh.info", "c/tri", "c/tri=2,false,y"} {
		var stream, docw string
		werr := safeDo(func() error {
			for i, w := range []*string{&stream, &docw} {
				src, err := nodeutil.ReadJSON(whole)
				if err != nil {
					return err
				}
				sel, err := node.NewBrowser(m, src).Root().Find(start)
				if err != nil || sel == nil {
					return fmt.Errorf("start selection: %v", err)
				}
				if i == 0 {
					*w, err = nodeutil.WriteXML(sel)
				} else {
					*w, err = nodeutil.WriteXMLDoc(sel, false)
				}
				if err != nil {
					return err
				}
			}
			return nil
		})
		c.Evaluations++
		c.Count("start_selection", map[bool]string{true: "root", false: "inner"}[start == ""])
		c.Distinct("c19start " + start)
		problem := ""
		if werr != nil {
			problem = "write fails: " + werr.Error()
		} else {
			for name, text := range map[string]string{"WriteXML": stream, "WriteXMLDoc": docw} {
				dec := stdxml.NewDecoder(strings.NewReader(text))
				dec.Strict = true
				depth, roots := 0, 0
				for {
					tok, err := dec.Token()
					if err == io.EOF {
						break
					}
					if err != nil {
						problem = name + " output is not well-formed: " + err.Error()
						break
					}
					switch tok.(type) {
					case stdxml.StartElement:
						if depth == 0 {
							roots++
						}
						depth++
					case stdxml.EndElement:
						depth--
					}
				}
				if problem == "" && (roots != 1 || depth != 0) {
					problem = fmt.Sprintf("%s output has %d root elements (depth at the end %d)", name, roots, depth)
				}
			}
			if problem == "" && stream != docw {
				problem = "the two writers disagree"
			}
		}
		if problem != "" {
			c.Violation(core.Replay{Kind: "property-failure", Class: "start-selection", Summary: fmt.Sprintf("start selection %q: %s; WriteXML gives %s, WriteXMLDoc gives %s", start, problem, short(stream), short(docw)),
				Input: map[string]interface{}{"yang": c19keysYang, "tree": whole, "start": start}, Impl: stream, Spec: docw})
		}
	}
	for _, writer := range []string{"doc-compact", "doc-pretty", "stream"} {
		var doc string
		werr := safeDo(func() error {
			src, err := nodeutil.ReadJSON(whole)
			if err != nil {
				return err
			}
			sel := node.NewBrowser(m, src).Root()
			switch writer {
			case "doc-compact":
				doc, err = nodeutil.WriteXMLDoc(sel, false)
			case "doc-pretty":
				doc, err = nodeutil.WriteXMLDoc(sel, true)
			default:
				doc, err = nodeutil.WriteXML(sel)
			}
			return err
		})
		if werr != nil {
			c.Violation(core.Replay{Kind: "property-failure", Class: "keys-write-" + writer, Summary: fmt.Sprintf("%s of a tree with compound keys and dotted names fails: %v", writer, werr), Input: map[string]interface{}{"yang": c19keysYang, "tree": whole}})
			continue
		}
		for _, e := range ents {
			var got string
			rerr := safeDo(func() error {
				n, err := nodeutil.ReadXMLDoc(strings.NewReader(doc))
				if err != nil {
					return err
				}
				sel, err := node.NewBrowser(m, n).Root().Find(e.path)
				if err != nil {
					return err
				}
				if sel == nil {
					got = "nil"
					return nil
				}
				got, err = nodeutil.WriteJSON(sel)
				return err
			})
			if rerr != nil {
				got = "error " + short(rerr.Error())
			}
			c.Evaluations++
			c.Count("read_back_by_key", writer)
			c.Distinct("c19keys " + writer + e.path)
			if got != e.json {
				c.Violation(core.Replay{Kind: "property-failure", Class: "keys-read-" + writer, Summary: fmt.Sprintf("%s, read back, Find(%q) gives %s, the tree written holds %s", writer, e.path, short(got), short(e.json)),
					Input: map[string]interface{}{"yang": c19keysYang, "tree": whole, "document": doc, "find": e.path}, Impl: got, Spec: e.json})
			}
		}
	}
}

func C19(c *core.Ctx) {
	c19keys(c)
	c19valueErrors(c)
	c19foreignStart(c)
	c.Rule = "generated schemas (every built-in leaf type, leaf-lists, containers, keyed lists, choices, nodes of an imported module's grouping incl. an identityref, a leaf added by augment into that grouping's container) × conforming trees whose strings cover markup, quotes, CDATA terminators, leading/trailing/inner white space, tab/CR/LF, non-ASCII × writers {WriteXMLDoc compact, WriteXMLDoc pretty, WriteXML (streaming XMLWtr), one XMLWtr reused for every document}: (i) output parsed by encoding/xml in strict mode as one root element and compared with the expected element tree (names, namespaces, text), (ii) output compared byte for byte with the Lean writer models (tree / stream / pretty), (iii) ReadXMLDoc + UpsertFrom into a fresh reference store compared with the original tree and with the Lean reader model, as written and after a sibling interleaving that keeps the order of same-named elements, with same-named elements of a foreign namespace inserted, and with all namespaces dropped, (iv) patch/xml EscapeText against the Lean escaper on the string pool and random strings; directed: a tree with two- and three-component keys and dotted / dashed node names under a namespace that needs escaping, through three writers, read back and every entry addressed by key; WriteXML = WriteXMLDoc = one well-formed element for seven start selections. non-trivial = tree with ≥1 list entry or nested container; distinct by (schema, tree, writer, variant); directed (c19foreignStart): a container that comes from a grouping of an imported module and is augmented by the importing module (leaf, container, leaf-list, a leaf in its list), written from four start selections by three writers: every element in the namespace of the module that defines it, and the document read back at the same place gives the subtree again; directed (c19valueErrors): a node that answers an identity the schema does not have for a leaf, a leaf-list element, a leaf in a container: both writers return an error"
	c.Assumptions = append(c.Assumptions,
		"encoding/xml (Strict) of the Go standard library is the XML 1.0 well-formedness oracle on the byte level; the Lean theorems are on the token level plus the character-data codec",
		"strings are drawn from the characters a YANG string may hold (RFC 7950 §9.4), which are the characters XML 1.0 can carry",
		"the text of a leaf of type empty is not constrained (it has no lexical form); the library writes the text of its internal marker")
	c.ProofStep("YangVerif.Props.C19")
	if c.Thorough() {
		c.LeanChecker("YangVerif.Props.C19")
	}
	rng := core.NewRng(c.Seed)
	saved := c15strings
	c15strings = c19strings
	defer func() { c15strings = saved }()
	ts := c15types()
	var lines []string
	type pend struct {
		kind, desc, impl string
		input            map[string]interface{}
		sc               *c15schema
		m                *meta.Module
		fkids            []*gen.SNode
	}
	var pends []pend
	// (iv) character data
	escCases := append([]string{}, c19strings...)
	for i := 0; i < c.N(300, 20000); i++ {
		n := rng.Intn(6)
		var b strings.Builder
		for j := 0; j < n; j++ {
			b.WriteString(core.Pick(rng, []string{"<", ">", "&", "\"", "'", "]", "]]>", "\t", "\n", "\r", " ", "a", "é", " ", "\U0001F600", "&amp;", "&#10;", ";", "#"}))
		}
		escCases = append(escCases, b.String())
	}
	for _, s := range escCases {
		var b strings.Builder
		fcxml.EscapeText(&b, []byte(s))
		lines = append(lines, "c19 esc "+core.Hex(s))
		pends = append(pends, pend{kind: "esc", desc: "EscapeText", impl: core.Hex(b.String()) + " " + core.Hex(s), input: map[string]interface{}{"text": s}})
		c.Evaluations++
		c.Count("escape", "cases")
	}
	nSchemas := c.N(40, 1200)
	for si := 0; si < nSchemas; si++ {
		r := rng.Fork()
		c15seq = 0
		sc := &c15schema{types: map[string]c15type{}, lists: map[string]bool{}, mod: map[string]string{}}
		sc.kids = c15genKids(r, sc, ts, 0, 2+r.Intn(4), "m")
		if si == 0 {
			sc.kids = c15allTypesKids(sc, ts)
		}
		m, y, err := c15module(sc, ts)
		if err != nil {
			c.Violation(core.Replay{Kind: "harness", Summary: "C19 module does not load: " + err.Error(), Input: y, NoInputFound: true})
			return
		}
		for di := 0; di < c.N(5, 15)+map[bool]int{true: 25}[si == 0]; di++ {
			tree := c15data(r, sc, sc.kids, 45+r.Intn(50))
			c04canonBody(m, sc, sc.kids, tree, nil)
			want := gen.Canon(sc.kids, tree, false)
			wantElem := &c19elem{Name: "m", NS: "urn:m", Kids: c19expect(sc, sc.kids, tree)}
			fkids, ftree := gen.Flatten(sc.kids, tree)
			schemaToks := strings.Join(c19schemaToks(sc, fkids), " ")
			dataToks := strings.Join(c19dataToks(sc, fkids, ftree), " ")
			hasEmpty := strings.Contains(want, "<not empty>")
			nontrivial := strings.Contains(want, "[") || strings.Count(want, "{") > 2
			for _, writer := range []string{"doc-compact", "doc-pretty", "stream", "stream-reused"} {
				st := refstore.NewBody(nil, sc.kids, gen.Clone(tree), "")
				st.ListSep = "\x1e"
				var doc string
				werr := safeDo(func() error {
					var e error
					sel := node.NewBrowser(m, st).Root()
					switch writer {
					case "doc-compact":
						doc, e = nodeutil.WriteXMLDoc(sel, false)
					case "doc-pretty":
						doc, e = nodeutil.WriteXMLDoc(sel, true)
					case "stream":
						doc, e = nodeutil.WriteXML(sel)
					case "stream-reused":
						// one XMLWtr serving document after document, retargeted to a fresh buffer each time
						buff := new(bytes.Buffer)
						c19wtr.Out = buff
						var viaXML string
						if di%2 == 1 {
							// the convenience method in between: it answers with the document and leaves the writer's own
							// stream alone
							st2 := refstore.NewBody(nil, sc.kids, gen.Clone(tree), "")
							st2.ListSep = "\x1e"
							if viaXML, e = c19wtr.XML(node.NewBrowser(m, st2).Root()); e != nil {
								return e
							}
						}
						e = sel.InsertInto(c19wtr.Node())
						doc = buff.String()
						if e == nil && di%2 == 1 && viaXML != doc {
							e = fmt.Errorf("XMLWtr.XML answered %s, the same writer then wrote %s to its stream", short(viaXML), short(doc))
						}
					}
					return e
				})
				c.Evaluations++
				c.Count("writer", writer)
				if nontrivial {
					c.Distinct(fmt.Sprint(si, di, writer))
				}
				input := map[string]interface{}{"yang": y, "tree": want, "writer": writer, "document": doc}
				if werr != nil {
					c.Violation(core.Replay{Kind: "property-failure", Class: "write-" + writer, Summary: writer + ": write failed: " + werr.Error(), Input: input})
					continue
				}
				parsed, perr := c19parse(doc)
				if perr != nil {
					c.Violation(core.Replay{Kind: "property-failure", Class: "wellformed-" + writer, Summary: writer + ": output is not a well-formed single-root document: " + perr.Error() + ": " + short(doc), Input: input})
					continue
				}
				if !c19same(parsed, wantElem) {
					c.Violation(core.Replay{Kind: "property-failure", Class: "elements-" + writer,
						Summary: fmt.Sprintf("%s: document holds %s; the tree is %s", writer, short(parsed.String()), short(wantElem.String())), Input: input, Impl: parsed.String(), Spec: wantElem.String()})
					continue
				}
				// (ii) bytes against the writer model (not where a leaf of type empty is set: its text is unconstrained)
				if !hasEmpty {
					mode := map[string]string{"doc-compact": "tree", "doc-pretty": "pretty", "stream": "stream", "stream-reused": "stream"}[writer]
					lines = append(lines, "c19 doc "+mode+" "+core.Hex("m")+" "+core.Hex("urn:m")+" "+schemaToks+" "+dataToks)
					pends = append(pends, pend{kind: "doc", desc: writer + " bytes", impl: doc, input: input})
				}
				variants := []string{"as-written", "interleaved", "foreign-namespace-siblings", "no-namespaces"}
				for _, variant := range variants {
					text := doc
					var elems *c19elem = parsed
					var b strings.Builder
					switch variant {
					case "interleaved":
						elems = c19interleave(r, parsed)
						c19render(elems, &b)
						text = b.String()
					case "foreign-namespace-siblings":
						elems = c19interleave(r, c19addForeign(r, parsed))
						c19render(elems, &b)
						text = b.String()
					case "no-namespaces":
						elems = c19stripNS(c19interleave(r, parsed))
						c19renderPlain(elems, &b)
						text = b.String()
					}
					out := gen.EmptyBody(sc.kids)
					dst := refstore.NewBody(nil, sc.kids, out, "")
					dst.ListSep = "\x1e"
					rerr := safeDo(func() error {
						n, err := nodeutil.ReadXMLDoc(strings.NewReader(text))
						if err != nil {
							return err
						}
						return node.NewBrowser(m, dst).Root().UpsertFrom(n)
					})
					c.Evaluations++
					c.Count("read", variant)
					if nontrivial {
						c.Distinct(fmt.Sprint(si, di, writer, variant))
					}
					got := errClass(rerr) + " " + gen.Canon(sc.kids, out, false)
					in2 := map[string]interface{}{"yang": y, "tree": want, "writer": writer, "document": text, "variant": variant}
					if got != "ok "+want {
						c.Violation(core.Replay{Kind: "property-failure", Class: "roundtrip-" + writer + "-" + variant,
							Summary: fmt.Sprintf("%s/%s: read back %s; written %s", writer, variant, short(got), short("ok "+want)), Input: in2, Impl: got, Spec: "ok " + want})
						continue
					}
					// the reader model on the same elements
					lines = append(lines, "c19 read "+schemaToks+" "+strings.Join(c19elemToks(elems.Kids), " "))
					pends = append(pends, pend{kind: "read", desc: writer + "/" + variant + " reader model", impl: got, input: in2, sc: sc, m: m, fkids: fkids})
				}
			}
		}
	}
	outs, err := core.RunDriver(lines)
	if err != nil {
		c.ProofBroken = append(c.ProofBroken, err.Error())
		return
	}
	for i, o := range outs {
		p := pends[i]
		switch p.kind {
		case "esc":
			if i%97 == 0 {
				c.Sample(map[string]interface{}{"case": "escape", "text": p.input["text"], "library+decoded": p.impl, "model": o})
			}
			if o != p.impl {
				parts := strings.Fields(o)
				c.Violation(core.Replay{Kind: "property-failure", Class: "escape",
					Summary: fmt.Sprintf("EscapeText(%q): library writes %q; model writes %q and an XML reader decodes that to %q", p.input["text"], core.Unhex(strings.Fields(p.impl)[0]), core.Unhex(parts[0]), core.Unhex(parts[len(parts)-1])),
					Input:   p.input, Impl: p.impl, Model: o})
			}
		case "doc":
			if !strings.HasPrefix(o, "ok ") {
				c.Count("driver", "doc:"+short(o))
				continue
			}
			md := core.Unhex(strings.TrimPrefix(o, "ok "))
			if i%211 == 0 {
				c.Sample(map[string]interface{}{"case": p.desc, "library": short(p.impl), "model": short(md)})
			}
			if md != p.impl {
				c.Violation(core.Replay{Kind: "correspondence", Class: "bytes-" + strings.Fields(p.desc)[0],
					Summary: fmt.Sprintf("%s: library writes %s; the writer model writes %s", p.desc, short(p.impl), short(md)), Input: p.input, Impl: p.impl, Model: md})
			}
		case "read":
			tr := &c19tokReader{toks: strings.Fields(o)}
			body := tr.body(p.sc, p.fkids)
			if tr.err != nil || len(tr.toks) != 0 {
				c.Count("driver", "read:"+short(o))
				continue
			}
			c04canonBody(p.m, p.sc, p.fkids, body, nil)
			mw := "ok " + gen.Canon(p.fkids, body, false)
			if mw != p.impl {
				c.Violation(core.Replay{Kind: "correspondence", Class: "reader-model",
					Summary: fmt.Sprintf("%s: library reads %s; the reader model reads %s", p.desc, short(p.impl), short(mw)), Input: p.input, Impl: p.impl, Model: mw})
			}
		}
	}
}

// the element a document starts with need not belong to the module the schema is named after: a container taken from a
// grouping of an imported module keeps that module's namespace, what the importing module augments into it has the
// importing module's - whatever selection the writer is started on
func c19foreignStart(c *core.Ctx) {
	files := map[string]string{
		"c19-base": `module c19-base { namespace "urn:c19:base"; prefix b; grouping g { container top { leaf name { type string; } list item { key id; leaf id { type string; } } container sub { leaf z { type string; } } } } }`,
		"c19-ext": `module c19-ext { namespace "urn:c19:ext"; prefix e; import c19-base { prefix b; } uses b:g; leaf own { type string; }
  augment /top { leaf note { type string; } container more { leaf y { type string; } } leaf-list tags { type string; } }
  augment /top/item { leaf extra { type string; } }
  augment /top/sub { leaf w { type string; } } }`,
	}
	nsOf := map[string]string{"c19-ext": "urn:c19:ext", "top": "urn:c19:base", "name": "urn:c19:base", "item": "urn:c19:base", "id": "urn:c19:base", "sub": "urn:c19:base", "z": "urn:c19:base",
		"own": "urn:c19:ext", "note": "urn:c19:ext", "more": "urn:c19:ext", "y": "urn:c19:ext", "tags": "urn:c19:ext", "extra": "urn:c19:ext", "w": "urn:c19:ext"}
	m, err := parser.LoadModule(func(name, ext string) (io.Reader, error) {
		if y, ok := files[name]; ok {
			return strings.NewReader(y), nil
		}
		return nil, fmt.Errorf("no module %s", name)
	}, "c19-ext")
	if err != nil {
		c.Violation(core.Replay{Kind: "harness", Summary: "c19foreignStart modules: " + err.Error(), NoInputFound: true})
		return
	}
	data := `{"own":"o","top":{"name":"n","item":[{"id":"a","extra":"xa"},{"id":"b"}],"sub":{"z":"zz","w":"ww"},"note":"nt","more":{"y":"yy"},"tags":["t1","t2"]}}`
	for _, start := range []string{"", "top", "top/item=a", "top/sub", "top/more"} {
		for _, writer := range []string{"WriteXML", "WriteXMLDoc", "WriteXMLDoc-pretty"} {
			c.Evaluations++
			c.Count("foreign_start", writer)
			c.Distinct("c19foreign " + start + writer)
			problem, doc := "", ""
			e := safeDo(func() error {
				src, err := nodeutil.ReadJSON(data)
				if err != nil {
					return err
				}
				sel, err := node.NewBrowser(m, src).Root().Find(start)
				if err != nil || sel == nil {
					return fmt.Errorf("start selection: %v", err)
				}
				want, err := nodeutil.WriteJSON(sel)
				if err != nil {
					return err
				}
				switch writer {
				case "WriteXML":
					doc, err = nodeutil.WriteXML(sel)
				case "WriteXMLDoc":
					doc, err = nodeutil.WriteXMLDoc(sel, false)
				default:
					doc, err = nodeutil.WriteXMLDoc(sel, true)
				}
				if err != nil {
					return fmt.Errorf("write: %v", err)
				}
				dec := stdxml.NewDecoder(strings.NewReader(doc))
				dec.Strict = true
				for {
					tok, terr := dec.Token()
					if terr == io.EOF {
						break
					}
					if terr != nil {
						return fmt.Errorf("not well-formed: %v", terr)
					}
					if se, ok := tok.(stdxml.StartElement); ok {
						if ns, known := nsOf[se.Name.Local]; !known || ns != se.Name.Space {
							problem = fmt.Sprintf("element %s is in the namespace %q, the module that defines it has %q", se.Name.Local, se.Name.Space, nsOf[se.Name.Local])
							return nil
						}
					}
				}
				// read back at the same place
				rd, err := nodeutil.ReadXMLDoc(strings.NewReader(doc))
				if err != nil {
					return fmt.Errorf("read back: %v", err)
				}
				store := map[string]interface{}{}
				if err := json.Unmarshal([]byte(data), &store); err != nil {
					return err
				}
				// the subtree is emptied first, then filled from the document
				var empty map[string]interface{}
				switch start {
				case "":
					store = map[string]interface{}{}
				case "top":
					store["top"] = map[string]interface{}{}
				case "top/item=a":
					empty = map[string]interface{}{"id": "a"}
					store["top"].(map[string]interface{})["item"] = []interface{}{empty, map[string]interface{}{"id": "b"}}
				case "top/sub":
					store["top"].(map[string]interface{})["sub"] = map[string]interface{}{}
				case "top/more":
					store["top"].(map[string]interface{})["more"] = map[string]interface{}{}
				}
				tsel, err := node.NewBrowser(m, nodeutil.ReflectChild(store)).Root().Find(start)
				if err != nil || tsel == nil {
					return fmt.Errorf("target selection: %v", err)
				}
				if err := tsel.UpsertFrom(rd); err != nil {
					return fmt.Errorf("upsert of the document read back: %v", err)
				}
				tsel2, _ := node.NewBrowser(m, nodeutil.ReflectChild(store)).Root().Find(start)
				got, err := nodeutil.WriteJSON(tsel2)
				if err != nil {
					return err
				}
				if !c19sameJSON(got, want) {
					problem = fmt.Sprintf("the document read back holds %s, the tree written holds %s", short(got), short(want))
				}
				return nil
			})
			if e != nil {
				problem = e.Error()
			}
			if problem != "" {
				c.Violation(core.Replay{Kind: "property-failure", Class: "foreign-start-" + writer, Summary: fmt.Sprintf("%s started at %q of a container of an imported grouping augmented by the importing module: %s; document %s", writer, start, problem, short(doc)),
					Input: map[string]interface{}{"yang": files, "data": data, "start": start, "writer": writer}, Impl: doc})
			}
		}
	}
}

func c19sameJSON(a, b string) bool {
	var x, y interface{}
	if json.Unmarshal([]byte(a), &x) != nil || json.Unmarshal([]byte(b), &y) != nil {
		return false
	}
	return reflect.DeepEqual(x, y)
}
