package props

import (
	"encoding/base64"
	"encoding/json"
	"fmt"
	"github.com/freeconf/yang/meta"
	"github.com/freeconf/yang/node"
	"github.com/freeconf/yang/nodeutil"
	"github.com/freeconf/yang/parser"
	"math"
	"math/big"
	"reflect"
	"sort"
	"strconv"
	"strings"

	"verif/harness/core"
	"verif/harness/extract"

	"github.com/freeconf/yang/val"
)

func init() { Registry["C10"] = C10 }

type goKind struct {
	name   string
	bits   int
	signed bool
}

var goKinds = []goKind{
	{"int8", 8, true}, {"int16", 16, true}, {"int32", 32, true}, {"int64", 64, true}, {"int", 64, true},
	{"uint8", 8, false}, {"uint16", 16, false}, {"uint32", 32, false}, {"uint64", 64, false}, {"uint", 64, false},
}

func (k goKind) nf() numFmt { return numFmt{bits: k.bits, signed: k.signed} }

func (k goKind) mk(v *big.Int) interface{} {
	switch k.name {
	case "int8":
		return int8(v.Int64())
	case "int16":
		return int16(v.Int64())
	case "int32":
		return int32(v.Int64())
	case "int64":
		return v.Int64()
	case "int":
		return int(v.Int64())
	case "uint8":
		return uint8(v.Uint64())
	case "uint16":
		return uint16(v.Uint64())
	case "uint32":
		return uint32(v.Uint64())
	case "uint64":
		return v.Uint64()
	case "uint":
		return uint(v.Uint64())
	}
	panic("kind")
}

var intTargets = []struct {
	name string
	f    val.Format
	lf   val.Format
}{
	{"int8", val.FmtInt8, val.FmtInt8List}, {"int16", val.FmtInt16, val.FmtInt16List}, {"int32", val.FmtInt32, val.FmtInt32List}, {"int64", val.FmtInt64, val.FmtInt64List},
	{"uint8", val.FmtUInt8, val.FmtUInt8List}, {"uint16", val.FmtUInt16, val.FmtUInt16List}, {"uint32", val.FmtUInt32, val.FmtUInt32List}, {"uint64", val.FmtUInt64, val.FmtUInt64List},
}

// numeric content of a val.Value as a decimal string (exact)
func valNum(v val.Value) string {
	rv := reflect.ValueOf(v.Value())
	switch {
	case rv.Kind() == reflect.Bool:
		if rv.Bool() {
			return "1"
		}
		return "0"
	case rv.CanInt():
		return strconv.FormatInt(rv.Int(), 10)
	case rv.CanUint():
		return strconv.FormatUint(rv.Uint(), 10)
	case rv.CanFloat():
		f := rv.Float()
		if f == math.Trunc(f) && math.Abs(f) < 1e300 {
			bf := new(big.Float).SetFloat64(f)
			i, _ := bf.Int(nil)
			return i.String()
		}
		return strconv.FormatFloat(f, 'g', -1, 64)
	}
	return fmt.Sprintf("%v", v.Value())
}

func safeConv(f val.Format, in interface{}) (res string, v val.Value) {
	defer func() {
		if r := recover(); r != nil {
			res = "PANIC"
		}
	}()
	out, err := val.Conv(f, in)
	if err != nil {
		return "err", nil
	}
	if out == nil {
		return "nil", nil
	}
	if out.Format() != f {
		return "wrong-format:" + out.Format().String(), out
	}
	return "ok:" + valNum(out), out
}

// exact (m, e) with x = m * 2^e
func floatParts(x float64) (int64, int) {
	if x == 0 {
		return 0, 0
	}
	fr, exp := math.Frexp(x)
	m := int64(fr * (1 << 53))
	return m, exp - 53
}

var floatBoundaries = []float64{0, math.Copysign(0, -1), 0.5, -0.5, 1, -1, 3.7, -3.7, 1.0000000001, 127, 128, -128, -129, 255, 256, 32767, 32768, -32768, -32769, 65535, 65536,
	2147483647, 2147483648, -2147483648, -2147483649, 4294967295, 4294967296, 9007199254740992, 9007199254740993, 9223372036854775807, 9223372036854775808, -9223372036854775808, -9223372036854777856,
	18446744073709551615, 18446744073709551616, 1e30, -1e30, 1e300, 4e9, 99, 6000, 1.5e-300, 0.1 + 0.2}

var strBoundaries = []string{"0", "-0", "+0", "1", "-1", "+5", " 5", "5 ", "", "-", "+", "007", "0x10", "1e3", "1.0", "1_000", "１２", "127", "128", "-128", "-129", "255", "256", "32767", "32768", "-32768", "-32769",
	"65535", "65536", "2147483647", "2147483648", "-2147483648", "-2147483649", "4294967295", "4294967296", "9223372036854775807", "9223372036854775808", "-9223372036854775808", "-9223372036854775809",
	"18446744073709551615", "18446744073709551616", "99999999999999999999999999", "abc", "12a", "--1", "true"}

type c10case struct {
	line  string
	impl  string
	desc  string
	class string
}

// the text of an XML element converted to a leaf value: for a string (and a union, which may hold one) the text is
// the value; for every other type surrounding white space is not part of it.  A leafref is its target's type.
const c10xmlYang = `module x { namespace "urn:x"; prefix x; revision 2020-01-01;
  leaf s { type string; } leaf-list sl { type string; } leaf i { type int32; } leaf-list il { type int32; } leaf b { type boolean; }
  leaf e { type enumeration { enum one; enum two; } } leaf u { type union { type int32; type string; } } leaf d { type decimal64 { fraction-digits 2; } }
  leaf rs { type leafref { path "/s"; } } leaf-list rsl { type leafref { path "/sl"; } } leaf-list rs1 { type leafref { path "/s"; } }
  leaf ri { type leafref { path "/i"; } } leaf-list ril { type leafref { path "/il"; } } leaf re { type leafref { path "/e"; } } leaf-list ru { type leafref { path "/u"; } }
  leaf rrs { type leafref { path "/rs"; } } leaf-list rrsl { type leafref { path "/rs"; } } leaf rrrs { type leafref { path "/rrs"; } } leaf rru { type leafref { path "/ru"; } }
  leaf rri { type leafref { path "/ri"; } } typedef tdr { type leafref { path "/rs"; } } leaf rtd { type tdr; }
}`

func c10xmlText(c *core.Ctx) {
	m, err := parser.LoadModuleFromString(nil, c10xmlYang)
	if err != nil {
		c.Violation(core.Replay{Kind: "harness", Summary: "c10xml module: " + err.Error(), NoInputFound: true})
		return
	}
	cases := []struct{ leaf, text, want string }{
		{"s", " n ", `" n "`}, {"s", "\tn\n", `"\tn\n"`}, {"sl", " n ", `[" n "]`}, {"i", " 5 ", `5`}, {"il", "\n7 ", `[7]`}, {"b", " true ", `true`}, {"e", " two\n", `"two"`},
		{"u", " n ", `" n "`}, {"d", " 1.5 ", `1.5`}, {"rs", " n ", `" n "`}, {"rsl", " n ", `[" n "]`}, {"rs1", "  n", `["  n"]`}, {"ri", " 5 ", `5`}, {"ril", " 5\n", `[5]`},
		{"re", " one ", `"one"`}, {"ru", " n ", `[" n "]`},
		// a leafref to a leafref (to a leafref) has the type at the end of the chain
		{"rrs", " n ", `" n "`}, {"rrsl", "  joe \t", `["  joe \t"]`}, {"rrrs", "\tn ", `"\tn "`}, {"rru", " n ", `" n "`}, {"rri", " 5 ", `5`}, {"rtd", " n ", `" n "`},
	}
	for _, tc := range cases {
		doc := fmt.Sprintf(`<x xmlns="urn:x"><%s>%s</%s></x>`, tc.leaf, tc.text, tc.leaf)
		var got string
		e := safeDo(func() error {
			src, err := nodeutil.ReadXMLDoc(strings.NewReader(doc))
			if err != nil {
				return err
			}
			got, err = nodeutil.WriteJSON(node.NewBrowser(m, src).Root())
			return err
		})
		if e != nil {
			got = "error " + short(e.Error())
		}
		want := fmt.Sprintf(`{"%s":%s}`, tc.leaf, tc.want)
		c.Evaluations++
		c.Count("xml_text", tc.leaf)
		c.Distinct("xmltext " + tc.leaf + tc.text)
		if got != want {
			c.Violation(core.Replay{Kind: "property-failure", Class: "xml-text-" + tc.leaf, Summary: fmt.Sprintf("XML text %q of leaf %s reads as %s, want %s", tc.text, tc.leaf, got, want),
				Input: map[string]interface{}{"yang": c10xmlYang, "document": doc}, Impl: got, Spec: want})
		}
	}
}

// a number converted to an enumeration is the enum with that value, wherever it stands in the list; bytes converted
// to a binary value read back as the same bytes
func c10enumAndBinary(c *core.Ctx) {
	m, err := parser.LoadModuleFromString(nil, `module eb { namespace "urn:eb"; prefix eb; revision 2020-01-01;
  leaf p { type enumeration { enum idle; enum stopping { value 2; } enum running { value 1; } enum failed; } }
  leaf q { type enumeration { enum z { value 0; } enum c { value 3; } enum a { value 1; } enum b { value 2; } enum e { value 4; } } }
  leaf-list pl { type enumeration { enum idle; enum stopping { value 2; } enum running { value 1; } enum failed; } }
  leaf bin { type binary; }
}`)
	if err != nil {
		c.Violation(core.Replay{Kind: "harness", Summary: "c10enum module: " + err.Error(), NoInputFound: true})
		return
	}
	want := map[string]map[int]string{"p": {0: "idle", 1: "running", 2: "stopping", 3: "failed"}, "q": {0: "z", 1: "a", 2: "b", 3: "c", 4: "e"}}
	for leaf, ids := range want {
		t := meta.Find(m, leaf).(meta.Leafable).Type()
		for id, label := range ids {
			for _, src := range []interface{}{id, int64(id), float64(id), uint8(id), json.Number(fmt.Sprint(id))} {
				c.Evaluations++
				c.Count("enum_by_value", fmt.Sprintf("%T", src))
				c.Distinct(fmt.Sprint("enumid", leaf, id, fmt.Sprintf("%T", src)))
				var got string
				if e := safeDo(func() error {
					v, err := node.NewValue(t, src)
					if err != nil {
						return err
					}
					got = v.String()
					return nil
				}); e != nil {
					got = "error " + short(e.Error())
				}
				if _, isJSONNumber := src.(json.Number); isJSONNumber && strings.HasPrefix(got, "error") {
					continue // not a kind the converter knows
				}
				if got != label {
					c.Violation(core.Replay{Kind: "property-failure", Class: "enum-by-value", Summary: fmt.Sprintf("NewValue(leaf %s, %T(%v)) = %s, the enum with value %d is %s", leaf, src, src, got, id, label), Input: fmt.Sprint(leaf, " ", id)})
				}
			}
		}
	}
	// a list of values
	if v, err := node.NewValue(meta.Find(m, "pl").(meta.Leafable).Type(), []int{1, 2, 0, 3}); err != nil || fmt.Sprint(v) != "running,stopping,idle,failed" {
		c.Violation(core.Replay{Kind: "property-failure", Class: "enum-by-value-list", Summary: fmt.Sprintf("NewValue(leaf-list pl, [1 2 0 3]) = %v (%v), want running,stopping,idle,failed", v, err), Input: "pl [1 2 0 3]"})
	}
	// the values of a compound key, more and fewer of them than the list has key leaves
	if e := safeDo(func() error {
		lf := meta.Find(m, "p").(meta.Leafable)
		for _, objs := range [][]interface{}{{}, {"idle"}, {"idle", "failed"}, {"idle", "failed", "x"}} {
			vs, err := node.NewValues([]meta.Leafable{lf, lf}, objs...)
			if len(objs) > 2 && err == nil {
				return fmt.Errorf("NewValues of %d values for 2 leaves: no error, %v", len(objs), vs)
			}
		}
		return nil
	}); e != nil {
		c.Violation(core.Replay{Kind: "property-failure", Class: "newvalues-count", Summary: "node.NewValues with a number of values other than the number of leaves: " + e.Error(), Input: "NewValues"})
	}
	// bytes -> binary value -> bytes, every sextet
	bt := meta.Find(m, "bin").(meta.Leafable).Type()
	for _, b := range [][]byte{{0xfb, 0xff, 0xfe}, {0xfb, 0xff}, []byte("subjects?"), []byte("hi"), {0}, {}, {0xff, 0xff, 0xff, 0xff}, []byte(">>>???")} {
		c.Evaluations++
		c.Count("binary_bytes", fmt.Sprint(len(b)))
		var back []byte
		var text string
		e := safeDo(func() error {
			v, err := node.NewValue(bt, b)
			if err != nil {
				return err
			}
			if v == nil {
				return nil
			}
			text = v.String()
			back, _ = v.Value().([]byte)
			return nil
		})
		stdText := base64.StdEncoding.EncodeToString(b)
		if e != nil || (len(b) > 0 && (string(back) != string(b) || text != stdText)) {
			c.Violation(core.Replay{Kind: "property-failure", Class: "binary-bytes", Summary: fmt.Sprintf("NewValue(binary, %v): text %q (RFC 4648 §4 gives %q), read back as %v (%v)", b, text, stdText, back, e), Input: fmt.Sprint(b)})
		}
	}
	// text -> binary value: the bytes the text encodes (RFC 4648 4), or an error for text that encodes none
	for _, txt := range []string{"AQI=", "AQID", "", "+/+/", "true", "!!!", "AQI", "AQ I=", "AQ==AQ==", "A", "=AQI", "AQI=\n", "-_-_", "AQI=="} {
		c.Evaluations++
		c.Count("binary_text", map[bool]string{true: "base64", false: "not base64"}[c10isBase64(txt)])
		c.Distinct("bintext " + txt)
		var back []byte
		var cerr error
		e := safeDo(func() error {
			var v val.Value
			v, cerr = node.NewValue(bt, txt)
			if cerr == nil && v != nil {
				back, _ = v.Value().([]byte)
			}
			return nil
		})
		want, werr := base64.StdEncoding.DecodeString(txt)
		bad := ""
		switch {
		case e != nil:
			bad = e.Error()
		case werr == nil && (cerr != nil || string(back) != string(want)):
			bad = fmt.Sprintf("gives %v (%v), the text encodes %v", back, cerr, want)
		case werr != nil && cerr == nil:
			bad = fmt.Sprintf("is taken and reads back as %v, the text is not base64 (%v)", back, werr)
		}
		if bad != "" {
			c.Violation(core.Replay{Kind: "property-failure", Class: "binary-text", Summary: fmt.Sprintf("NewValue(binary, %q) %s", txt, bad), Input: txt})
		}
	}
}

func c10isBase64(s string) bool {
	_, err := base64.StdEncoding.DecodeString(s)
	return err == nil
}

// a Go struct whose fields are narrower than (or of another kind than) the leaves they hold
type c10Narrow struct {
	I8  int8
	U8  uint8
	I32 int32
	I   int
	U16 uint16
	I64 int64
	U64 uint64
	F64 float64
	L8  []int8
	Lu  []uint16
	Ex  int32
	El  []string
	Eli []int
	Idl []string
	En  string
}

// a value written into a field of a Go struct arrives there exactly or the write is refused, whatever the width of
// the field: nothing wraps around, no fraction is cut off
func c10fields(c *core.Ctx) {
	m, err := parser.LoadModuleFromString(nil, `module nw { namespace "urn:nw"; prefix nw; revision 2020-01-01;
  leaf i8 { type int64; } leaf u8 { type int64; } leaf i32 { type int64; } leaf i { type decimal64 { fraction-digits 2; } } leaf u16 { type int32; } leaf i64 { type uint64; } leaf u64 { type int64; }
  leaf f64 { type int64; } leaf-list l8 { type int32; } leaf-list lu { type int32; } leaf ex { type int32; }
  identity idb; identity ia { base idb; } identity ib { base idb; }
  leaf-list el { type enumeration { enum a; enum b; } } leaf-list eli { type enumeration { enum a; enum b { value 5; } } } leaf-list idl { type identityref { base idb; } } leaf en { type enumeration { enum a; enum b; } } }`)
	if err != nil {
		c.Violation(core.Replay{Kind: "harness", Summary: "c10fields module: " + err.Error(), NoInputFound: true})
		return
	}
	cases := []struct {
		doc  string
		fits bool
		want string // the field afterwards, when it fits
	}{
		{`{"i8":127}`, true, "I8:127"}, {`{"i8":128}`, false, ""}, {`{"i8":-128}`, true, "I8:-128"}, {`{"i8":-129}`, false, ""}, {`{"i8":300}`, false, ""}, {`{"i8":9223372036854775807}`, false, ""},
		{`{"u8":255}`, true, "U8:255"}, {`{"u8":256}`, false, ""}, {`{"u8":-1}`, false, ""},
		{`{"i32":2147483647}`, true, "I32:2147483647"}, {`{"i32":2147483648}`, false, ""}, {`{"i32":4294967297}`, false, ""}, {`{"i32":-2147483649}`, false, ""},
		{`{"i":2}`, true, "I:2"}, {`{"i":1.99}`, false, ""}, {`{"i":-0.5}`, false, ""},
		{`{"u16":65535}`, true, "U16:65535"}, {`{"u16":65536}`, false, ""}, {`{"u16":70000}`, false, ""}, {`{"u16":-1}`, false, ""},
		{`{"i64":9223372036854775807}`, true, "I64:9223372036854775807"}, {`{"i64":9223372036854775808}`, false, ""}, {`{"i64":18446744073709551615}`, false, ""},
		{`{"u64":5}`, true, "U64:5"}, {`{"u64":-5}`, false, ""},
		{`{"f64":9007199254740992}`, true, "F64:9.007199254740992e+15"}, {`{"f64":9007199254740993}`, false, ""},
		{`{"l8":[1,-128,127]}`, true, "L8:[1 -128 127]"}, {`{"l8":[1,300]}`, false, ""}, {`{"l8":[-129]}`, false, ""}, {`{"lu":[0,65535]}`, true, "Lu:[0 65535]"}, {`{"lu":[65536]}`, false, ""}, {`{"lu":[5,-1]}`, false, ""},
		{`{"ex":2147483647}`, true, "Ex:2147483647"}, {`{"ex":-7}`, true, "Ex:-7"},
		// lists of names in []string, of enum values in []int
		{`{"el":["a","b"]}`, true, "El:[a b]"}, {`{"eli":["b","a"]}`, true, "Eli:[5 0]"}, {`{"idl":["ia","ib"]}`, true, "Idl:[ia ib]"}, {`{"en":"b"}`, true, "En:b"},
	}
	for _, backend := range []string{"node-struct", "reflect-struct"} {
		for _, tc := range cases {
			st := &c10Narrow{}
			var opErr error
			e := safeDo(func() error {
				var n node.Node = &nodeutil.Node{Object: st}
				if backend == "reflect-struct" {
					n = nodeutil.ReflectChild(st)
				}
				src, err := nodeutil.ReadJSON(tc.doc)
				if err != nil {
					return err
				}
				opErr = node.NewBrowser(m, n).Root().UpsertFrom(src)
				return nil
			})
			c.Evaluations++
			c.Count("narrow_field", backend)
			c.Distinct("narrow " + backend + tc.doc)
			got := fmt.Sprintf("%+v", *st)
			problem := ""
			switch {
			case e != nil:
				problem = e.Error()
			case tc.fits && opErr != nil && backend == "node-struct" && strings.Contains(opErr.Error(), "cannot convert value of 'val.") && got == fmt.Sprintf("%+v", c10Narrow{}):
				// names into Go strings need NodeOptions on this node: refused, nothing written - "or fails"
			case tc.fits && (opErr != nil || !strings.Contains(got, tc.want+" ") && !strings.HasSuffix(got, tc.want+"}")):
				problem = fmt.Sprintf("the value fits the field but the write gave %v and the struct holds %s", opErr, got)
			case !tc.fits && opErr == nil:
				problem = fmt.Sprintf("the field cannot hold the value, yet no error: the struct holds %s", got)
			case !tc.fits && got != fmt.Sprintf("%+v", c10Narrow{}):
				problem = fmt.Sprintf("refused (%v) but the struct was changed: %s", opErr, got)
			}
			if problem != "" {
				c.Violation(core.Replay{Kind: "property-failure", Class: "narrow-field-" + backend, Summary: fmt.Sprintf("%s, upsert of %s into a struct with narrow fields: %s", backend, tc.doc, short(problem)), Input: map[string]interface{}{"backend": backend, "document": tc.doc}})
			}
		}
	}
}

func C10(c *core.Ctx) {
	c10xmlText(c)
	c10enumAndBinary(c)
	c10fields(c)
	c.Rule = "complete boundary matrix: 8 integer targets × (10 Go integer kinds × boundary values of the kind ∪ float64/float32 boundary set ∪ string boundary set) + decimal64/bool/string targets + list forms + ConvOneOf; thorough adds random values and exhaustive 8/16-bit sources; directed: the text of XML elements of 16 leaf kinds (string, union, numbers, boolean, enumeration, leafrefs to them, as leaf and leaf-list) with surrounding white space through ReadXMLDoc; 14 texts for a binary leaf (base64 with and without padding, blanks, URL alphabet, non-base64): the bytes RFC 4648 gives or an error; leaf-lists of enumerations (names into []string, values into []int) and identityrefs into struct fields. non-trivial = source denotes a number at or beyond a range boundary of source or target kind; distinct by (target, kind, value)"
	c.Assumptions = append(c.Assumptions,
		"strconv.ParseInt/ParseUint base 10 = the model's decimal parser (exercised on the string boundary set)",
		"Go float semantics: x != math.Trunc(x) detects fractions; float64(int64) rounds to nearest; a float64 is passed to the model as the exact dyadic m*2^e from math.Frexp",
		"known finding conv-float-to-string: Conv(FmtString, float64) rounds to 0 decimals (documented and pinned by val/conv_test.go)")
	if err := extract.GenConvTable(); err != nil {
		c.ProofBroken = append(c.ProofBroken, "extractor: "+err.Error())
	}
	c.ProofStep()
	if c.Thorough() {
		c.LeanChecker("YangVerif.Props.C10")
	}
	rng := core.NewRng(c.Seed)
	var cases []c10case
	add := func(line, impl, desc, class string) {
		cases = append(cases, c10case{line, impl, desc, class})
	}
	for _, t := range intTargets {
		for _, k := range goKinds {
			vals := k.nf().boundaries()
			if c.Thorough() && k.bits <= 16 {
				vals = nil
				lo, hi := k.nf().min().Int64(), k.nf().max().Int64()
				for x := lo; x <= hi; x++ {
					vals = append(vals, big.NewInt(x))
				}
			}
			nr := c.N(20, 2000)
			span := new(big.Int).Add(new(big.Int).Sub(k.nf().max(), k.nf().min()), big.NewInt(1))
			for i := 0; i < nr; i++ {
				vals = append(vals, new(big.Int).Add(k.nf().min(), new(big.Int).Mod(new(big.Int).SetUint64(rng.U64()), span)))
			}
			for _, v := range vals {
				res, _ := safeConv(t.f, k.mk(v))
				add(fmt.Sprintf("c10 int %s %s %s", t.name, k.name, v), res, fmt.Sprintf("Conv(%s, %s(%s))", t.name, k.name, v), "int-"+k.name+"->"+t.name)
			}
		}
		fl := append([]float64{}, floatBoundaries...)
		for i := 0; i < c.N(30, 3000); i++ {
			switch rng.Intn(3) {
			case 0:
				fl = append(fl, float64(int64(rng.U64()))/float64(int64(1)<<uint(rng.Intn(40))))
			case 1:
				fl = append(fl, float64(int64(rng.U64()>>uint(rng.Intn(60)))))
			default:
				fl = append(fl, math.Float64frombits(rng.U64()))
			}
		}
		for _, x := range fl {
			if math.IsNaN(x) || math.IsInf(x, 0) {
				res, _ := safeConv(t.f, x)
				c.Evaluations++
				if res != "err" {
					c.Violation(core.Replay{Kind: "property-failure", Class: "float-nonfinite", Summary: fmt.Sprintf("Conv(%s, %v) = %s, want error", t.name, x, res), Input: fmt.Sprint(t.name, " ", x)})
				}
				continue
			}
			m, e := floatParts(x)
			res, _ := safeConv(t.f, x)
			add(fmt.Sprintf("c10 float %s %d %d", t.name, m, e), res, fmt.Sprintf("Conv(%s, float64(%v))", t.name, x), "float64->"+t.name)
			x32 := float32(x)
			if !math.IsInf(float64(x32), 0) {
				m, e = floatParts(float64(x32))
				res, _ = safeConv(t.f, x32)
				add(fmt.Sprintf("c10 float %s %d %d", t.name, m, e), res, fmt.Sprintf("Conv(%s, float32(%v))", t.name, x32), "float32->"+t.name)
			}
		}
		for _, s := range strBoundaries {
			res, _ := safeConv(t.f, s)
			add(fmt.Sprintf("c10 str %s %s", t.name, core.Hex(s)), res, fmt.Sprintf("Conv(%s, %q)", t.name, s), "string->"+t.name)
		}
	}
	// decimal64 from integers
	for _, k := range goKinds {
		vals := k.nf().boundaries()
		for i := 0; i < c.N(20, 2000); i++ {
			span := new(big.Int).Add(new(big.Int).Sub(k.nf().max(), k.nf().min()), big.NewInt(1))
			vals = append(vals, new(big.Int).Add(k.nf().min(), new(big.Int).Mod(new(big.Int).SetUint64(rng.U64()), span)))
		}
		for _, v := range vals {
			res, _ := safeConv(val.FmtDecimal64, k.mk(v))
			add(fmt.Sprintf("c10 dec %s %s", k.name, v), res, fmt.Sprintf("Conv(decimal64, %s(%s))", k.name, v), "int-"+k.name+"->decimal64")
		}
	}
	for _, s := range []string{"1", "0", "true", "false", "yes", "no", "np", "TRUE", "", " true", "2", "t"} {
		res, _ := safeConv(val.FmtBool, s)
		add("c10 bool "+core.Hex(s), res, fmt.Sprintf("Conv(bool, %q)", s), "string->bool")
	}

	lines := make([]string, len(cases))
	for i := range cases {
		lines[i] = cases[i].line
	}
	outs, err := core.RunDriver(lines)
	if err != nil {
		c.ProofBroken = append(c.ProofBroken, err.Error())
		outs = make([]string, len(cases))
	}
	for i, cs := range cases {
		c.Evaluations++
		parts := strings.Fields(outs[i])
		if len(parts) != 2 {
			continue
		}
		model, spec := parts[0], parts[1]
		c.Count("class", cs.class)
		c.Count("outcome", strings.SplitN(spec, ":", 2)[0])
		c.Distinct(cs.line)
		if i%4001 == 0 {
			c.Sample(map[string]string{"case": cs.desc, "impl": cs.impl, "model": model, "spec": spec})
		}
		// property: an ok result must be the denoted number. (A spurious error is not a
		// violation of "exact or fails", but it is a disagreement with the model.)
		if strings.HasPrefix(cs.impl, "ok:") && cs.impl != spec {
			c.Violation(core.Replay{Kind: "property-failure", Class: cs.class, Summary: fmt.Sprintf("%s = %s; exact-or-fails demands %s", cs.desc, cs.impl, spec),
				Input: cs.line, Impl: cs.impl, Model: model, Spec: spec})
		} else if cs.impl == "PANIC" || strings.HasPrefix(cs.impl, "wrong-format") || cs.impl == "nil" {
			c.Violation(core.Replay{Kind: "property-failure", Class: cs.class, Summary: fmt.Sprintf("%s = %s", cs.desc, cs.impl), Input: cs.line, Impl: cs.impl, Spec: spec})
		} else if cs.impl != model {
			c.Disagree++
			c.Count("disagreement", cs.class)
			if c.Disagree <= 3 {
				fmt.Printf("  disagreement: %s impl=%s model=%s spec=%s\n", cs.desc, cs.impl, model, spec)
			}
		}
	}
	if c.Disagree > 0 && c.Violations() == 0 {
		c.Violation(core.Replay{Kind: "correspondence", Summary: fmt.Sprintf("model (tables from extractor) and implementation disagree on %d cases although no conversion returned a wrong number", c.Disagree),
			Broken: "correspondence C10/conv", NoInputFound: true})
	}
	c10other(c, rng)
}

// targets whose spec is computed on the Go side: decimal64 from floats/strings, string, binary, lists, ConvOneOf
// conversions that need the schema (node.NewValue): a bits value is the set of labels written, an enumeration the
// label written, an identityref the identity written - or the conversion fails
func c10schemaTyped(c *core.Ctx, rng *core.Rng) {
	m, err := parser.LoadModuleFromString(nil, `module cv { namespace "urn:cv"; prefix cv; revision 2020-01-01;
 identity base-a; identity d1 { base base-a; } identity d2 { base d1; } identity other;
 leaf b { type bits { bit b0; bit b1; bit b2 { position 5; } bit b3; bit long-name; } }
 leaf-list bl { type bits { bit b0; bit b1; bit b2; } }
 leaf e { type enumeration { enum one; enum two { value 7; } enum three; } }
 leaf-list el { type enumeration { enum one; enum two; enum three; } }
 leaf i { type identityref { base base-a; } }
}`)
	if err != nil {
		c.Violation(core.Replay{Kind: "harness", Summary: "C10 schema module: " + err.Error(), NoInputFound: true})
		return
	}
	typeOf := func(n string) *meta.Type { return meta.Find(m, n).(meta.Leafable).Type() }
	declared := []string{"b0", "b1", "b2", "b3", "long-name"}
	foreign := []string{"bogus", "B0", "b", "b00", "b4", "b0,b1", "long"}
	conv := func(t *meta.Type, in interface{}) (v val.Value, err error) {
		defer func() {
			if r := recover(); r != nil {
				err = fmt.Errorf("PANIC: %v", r)
			}
		}()
		return node.NewValue(t, in)
	}
	for it := 0; it < c.N(400, 20000); it++ {
		c.Evaluations++
		n := 1 + rng.Intn(4)
		var labels []string
		ok := true
		seen := map[string]bool{}
		for i := 0; i < n; i++ {
			if rng.Chance(25) {
				labels = append(labels, core.Pick(rng, foreign))
				ok = false
			} else {
				l := core.Pick(rng, declared)
				if seen[l] {
					continue
				}
				seen[l] = true
				labels = append(labels, l)
			}
		}
		var in interface{} = strings.Join(labels, " ")
		form := "text"
		switch rng.Intn(3) {
		case 1:
			in, form = append([]string{}, labels...), "[]string"
		case 2:
			var a []interface{}
			for _, l := range labels {
				a = append(a, l)
			}
			if len(a) == 1 {
				in, form = a[0], "item"
			}
		}
		v, err := conv(typeOf("b"), in)
		c.Count("schema_typed", fmt.Sprintf("bits/%s/%v", form, ok))
		desc := fmt.Sprintf("NewValue(bits{b0,b1,b2,b3,long-name}, %s %q)", form, labels)
		switch {
		case err != nil && strings.HasPrefix(err.Error(), "PANIC"):
			c.Violation(core.Replay{Kind: "property-failure", Class: "bits-panic", Summary: desc + " " + err.Error(), Input: fmt.Sprint(in)})
		case !ok && err == nil:
			c.Violation(core.Replay{Kind: "property-failure", Class: "bits-undeclared", Summary: fmt.Sprintf("%s = %v: a label that is not declared was dropped silently", desc, v), Input: fmt.Sprint(in)})
		case ok && err != nil:
			c.Violation(core.Replay{Kind: "property-failure", Class: "bits-refused", Summary: fmt.Sprintf("%s fails: %v", desc, err), Input: fmt.Sprint(in)})
		case ok:
			got := append([]string{}, v.(val.Bits).Labels...)
			want := append([]string{}, labels...)
			sort.Strings(got)
			sort.Strings(want)
			if strings.Join(got, " ") != strings.Join(want, " ") {
				c.Violation(core.Replay{Kind: "property-failure", Class: "bits-other-set", Summary: fmt.Sprintf("%s = %v: another set of bits", desc, got), Input: fmt.Sprint(in)})
			}
		}
		c.Distinct("bits " + fmt.Sprint(in))
	}
	// enumerations and identityrefs by label
	for _, tc := range []struct {
		leaf string
		in   interface{}
		want string // "" = must fail
	}{{"e", "one", "one"}, {"e", "two", "two"}, {"e", "three", "three"}, {"e", "One", ""}, {"e", "one ", ""}, {"e", " one", ""}, {"e", "four", ""}, {"e", "", ""}, {"e", "one two", ""},
		{"e", 0, "one"}, {"e", 7, "two"}, {"e", 8, "three"}, {"e", 1, ""}, {"e", -1, ""}, {"e", 7.5, ""}, {"e", "7", "two"}, {"e", "07", "two"}, {"e", "010", ""},
		{"i", "d1", "d1"}, {"i", "d2", "d2"}, {"i", "cv:d1", "d1"}, {"i", "other", ""}, {"i", "base-a", ""}, {"i", "D1", ""}, {"i", "d1 d2", ""}, {"i", "", ""}} {
		c.Evaluations++
		v, err := conv(typeOf(tc.leaf), tc.in)
		desc := fmt.Sprintf("NewValue(%s, %#v)", tc.leaf, tc.in)
		got := ""
		if err == nil && v != nil {
			switch x := v.(type) {
			case val.Enum:
				got = x.Label
			case val.IdentRef:
				got = x.Label
			default:
				got = v.String()
			}
		}
		switch {
		case err != nil && strings.HasPrefix(err.Error(), "PANIC"):
			c.Violation(core.Replay{Kind: "property-failure", Class: "label-panic", Summary: desc + " " + err.Error(), Input: fmt.Sprint(tc.in)})
		case tc.want == "" && err == nil:
			if tc.leaf == "i" && tc.in == "base-a" {
				continue // whether the base itself is a member is C02/C05 business
			}
			c.Violation(core.Replay{Kind: "property-failure", Class: "label-accepted", Summary: fmt.Sprintf("%s = %s: not a declared member, want an error", desc, got), Input: fmt.Sprint(tc.in)})
		case tc.want != "" && (err != nil || got != tc.want):
			c.Violation(core.Replay{Kind: "property-failure", Class: "label-other", Summary: fmt.Sprintf("%s = %s (%v), want %s", desc, got, err, tc.want), Input: fmt.Sprint(tc.in)})
		}
	}
}

func c10other(c *core.Ctx, rng *core.Rng) {
	c10schemaTyped(c, rng)
	// decimal64 from float/string: same float back
	for _, x := range floatBoundaries {
		c.Evaluations++
		res, v := safeConv(val.FmtDecimal64, x)
		if v == nil || v.Value().(float64) != x && !(x != x) {
			c.Violation(core.Replay{Kind: "property-failure", Class: "float->decimal64", Summary: fmt.Sprintf("Conv(decimal64, %v) = %s", x, res), Input: x})
		}
		s := strconv.FormatFloat(x, 'g', -1, 64)
		res, v = safeConv(val.FmtDecimal64, s)
		if v == nil || v.Value().(float64) != x {
			c.Violation(core.Replay{Kind: "property-failure", Class: "string->decimal64", Summary: fmt.Sprintf("Conv(decimal64, %q) = %s", s, res), Input: s})
		}
	}
	// string target
	for _, k := range goKinds {
		for _, v := range k.nf().boundaries() {
			c.Evaluations++
			res, out := safeConv(val.FmtString, k.mk(v))
			if out == nil || out.String() != v.String() {
				c.Violation(core.Replay{Kind: "property-failure", Class: "int->string", Summary: fmt.Sprintf("Conv(string, %s(%s)) = %s", k.name, v, res), Input: v.String()})
			}
		}
	}
	for _, s := range []string{"", "a", " a ", "é\x00\"", "3.7", "true"} {
		c.Evaluations++
		_, out := safeConv(val.FmtString, s)
		if out == nil || out.String() != s {
			c.Violation(core.Replay{Kind: "property-failure", Class: "string->string", Summary: fmt.Sprintf("Conv(string, %q) altered", s), Input: s})
		}
	}
	for _, x := range floatBoundaries {
		c.Evaluations++
		_, out := safeConv(val.FmtString, x)
		if out == nil {
			continue
		}
		back, err := strconv.ParseFloat(out.String(), 64)
		if err != nil || back != x {
			if !c.IsKnown("conv-float-to-string", fmt.Sprintf("Conv(FmtString, %v) = %q", x, out.String())) {
				c.Violation(core.Replay{Kind: "property-failure", Class: "float->string", Summary: fmt.Sprintf("Conv(string, float64(%v)) = %q: a different number", x, out.String()), Input: x})
			}
		}
	}
	// list forms: element-wise, all or nothing
	for _, t := range intTargets {
		nf := numFmt{bits: 0}
		for _, f := range numFmts {
			if f.yang == t.name {
				nf = f
			}
		}
		for it := 0; it < c.N(60, 3000); it++ {
			c.Evaluations++
			n := rng.Intn(5)
			var anyl []interface{}
			var strl []string
			var fltl []float64
			allIn := true
			var want []string
			for i := 0; i < n; i++ {
				var v *big.Int
				if rng.Chance(80) {
					v = core.Pick(rng, nf.boundaries())
				} else {
					if rng.Bool() {
						v = new(big.Int).Add(nf.max(), big.NewInt(int64(1+rng.Intn(3))))
					} else {
						v = new(big.Int).Sub(nf.min(), big.NewInt(int64(1+rng.Intn(3))))
					}
				}
				if !nf.in(v) {
					allIn = false
				}
				want = append(want, v.String())
				k := core.Pick(rng, goKinds)
				if k.nf().in(v) {
					anyl = append(anyl, k.mk(v))
				} else {
					anyl = append(anyl, v.String())
				}
				strl = append(strl, v.String())
				f, _ := new(big.Float).SetInt(v).Float64()
				fltl = append(fltl, f)
			}
			check := func(kind string, in interface{}, exact bool) {
				res, out := safeConv(t.lf, in)
				if res == "PANIC" {
					c.Violation(core.Replay{Kind: "property-failure", Class: "list-" + kind, Summary: fmt.Sprintf("Conv(%s-list, %v) panicked", t.name, in), Input: fmt.Sprint(in)})
					return
				}
				if out == nil {
					return // an error is always allowed
				}
				l, ok := out.(val.Listable)
				if !ok || l.Len() != n {
					c.Violation(core.Replay{Kind: "property-failure", Class: "list-" + kind, Summary: fmt.Sprintf("Conv(%s-list, %v) returned %d elements, want %d", t.name, in, l.Len(), n), Input: fmt.Sprint(in)})
					return
				}
				if !exact {
					return
				}
				for i := 0; i < n; i++ {
					if got := valNum(l.Item(i)); got != want[i] {
						c.Violation(core.Replay{Kind: "property-failure", Class: "list-" + kind, Summary: fmt.Sprintf("Conv(%s-list, %v)[%d] = %s, want %s (all in range: %v)", t.name, in, i, got, want[i], allIn), Input: fmt.Sprint(in)})
						return
					}
				}
			}
			if n > 0 {
				check("any", anyl, true)
				check("string", strl, true)
				exactF := true
				for i, f := range fltl {
					bf, _ := new(big.Float).SetFloat64(f).Int(nil)
					if bf.String() != want[i] {
						exactF = false
					}
				}
				check("float64", fltl, exactF)
				// typed slices of Go integers
				var il []int
				var i64l []int64
				var u64l []uint64
				okI, okU := true, true
				for _, w := range want {
					bi, _ := new(big.Int).SetString(w, 10)
					if !bi.IsInt64() {
						okI = false
					} else {
						il = append(il, int(bi.Int64()))
						i64l = append(i64l, bi.Int64())
					}
					if !bi.IsUint64() {
						okU = false
					} else {
						u64l = append(u64l, bi.Uint64())
					}
				}
				if okI {
					check("[]int", il, true)
					check("[]int64", i64l, true)
				}
				if okU {
					check("[]uint64", u64l, true)
				}
				c.Distinct(fmt.Sprint("list", t.name, want))
			}
		}
	}
	c.Count("class", "lists")
	// ConvOneOf: first member format that converts wins; the result must denote the input
	for _, in := range []interface{}{int64(300), "300", "abc", 3.5, uint64(math.MaxUint64), int8(-1)} {
		c.Evaluations++
		v, f, err := val.ConvOneOf([]val.Format{val.FmtUInt8, val.FmtInt32, val.FmtString}, in)
		if err != nil {
			continue
		}
		want := fmt.Sprintf("%v", in)
		if v.Format() != f || v.String() != want {
			if _, isF := in.(float64); isF && f == val.FmtString && c.IsKnown("conv-float-to-string", fmt.Sprintf("ConvOneOf(%v) = %q", in, v.String())) {
				continue
			}
			c.Violation(core.Replay{Kind: "property-failure", Class: "oneof", Summary: fmt.Sprintf("ConvOneOf(%v) = %s(%s)", in, f, v.String()), Input: fmt.Sprint(in)})
		}
	}
}
