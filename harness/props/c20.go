package props

import (
	"bytes"
	"encoding/json"
	"fmt"
	"os"
	"os/exec"
	"path/filepath"
	"regexp"
	"sort"
	"strings"
	"time"

	"verif/harness/core"
)

func init() { Registry["C20"] = C20 }

type c20effect struct {
	Fn    string `json:"fn"`
	Pos   string `json:"pos"`
	Kind  string `json:"kind"`
	What  string `json:"what"`
	Instr string `json:"instr"`
}

var c20raceHead = regexp.MustCompile(`(?m)^(Write|Read|Previous write|Previous read) at 0x[0-9a-f]+ by (?:main )?goroutine \d+:\n((?:  .*\n(?:      .*\n)?)+)`)

// the frames of one access, library frames only, top first
func c20frames(block string) []string {
	var out []string
	lines := strings.Split(block, "\n")
	for i := 0; i+1 < len(lines); i += 2 {
		fn := strings.TrimSpace(lines[i])
		loc := strings.TrimSpace(lines[i+1])
		if k := strings.Index(loc, " +0x"); k > 0 {
			loc = loc[:k]
		}
		if strings.HasPrefix(loc, "/repo/") {
			out = append(out, strings.TrimPrefix(loc, "/repo/")+" "+strings.TrimSuffix(fn, "()"))
		}
	}
	return out
}

func C20(c *core.Ctx) {
	c.Rule = "translator: SSA + RTA call graphs of the scenario's use tasks and load tasks over /repo's current source, with every store / map update / delete / append / copy / sort classified by the root of its target (package-level variable; field of a schema struct, also through slices and maps loaded from one, results of functions returning one and parameters of callees that write through them); the table is re-checked in the Lean kernel (closed under calls, no shared write). correspondence: the same tasks (loads of modules with imports, includes, groupings, augments, typedefs, anydata, refused texts; per-thread browsers on one shared module doing upsert/insert/replace/update/delete, JSON and XML export, Find with depth/fields/content/with-defaults/where/range, action, notification with filter, value conversion, schema-as-data) run alone, then as the first thing of a cold process concurrently, then in seeded concurrent rounds under the race detector at several GOMAXPROCS; every task's transcript is compared with its sequential transcript, and a deep fingerprint of every field reachable from the shared module (unexported ones included) is compared before and after. non-trivial = a concurrent task execution; distinct by (task, round, GOMAXPROCS)"
	c.Assumptions = append(c.Assumptions,
		"translator (trusted): a function performs only the shared writes the extraction attributes to it; not seen: aliasing of schema slices/maps through non-schema heap objects, reflection, unsafe, cgo, writes inside the standard library other than sort.*, slices.Sort*, append, copy, delete, clear",
		"objects a load writes are the ones it is building (private until LoadModule returns); only package-level variables count as shared during a load - the race detector runs are the check on that",
		"the race detector reports only races that happen in the schedules run; the theorem, not these runs, is what covers all schedules")
	bin := filepath.Join(core.VerifDir, "harness", "bin")
	os.MkdirAll(bin, 0o755)
	pid := fmt.Sprint(os.Getpid())
	env := append(os.Environ(), "GOFLAGS=-mod=mod", "GOPROXY=off", "GOSUMDB=off", "GOTOOLCHAIN=local")

	// ---- 1. translator: regenerate the effect table from the current source
	vfx := filepath.Join(bin, "vfx."+pid)
	defer os.Remove(vfx)
	var effects []c20effect
	summary := map[string]any{}
	build := exec.Command("go", "build", "-o", vfx, "./cmd/vfx")
	build.Dir = filepath.Join(core.VerifDir, "effects")
	build.Env = env
	if out, err := build.CombinedOutput(); err != nil {
		c.ProofBroken = append(c.ProofBroken, "translator does not build: "+string(out))
	} else {
		tmpLean := filepath.Join(bin, "EffectTable."+pid+".lean")
		tmpRep := filepath.Join(bin, "effects."+pid+".json")
		defer os.Remove(tmpLean)
		defer os.Remove(tmpRep)
		run := exec.Command(vfx, "-lean", tmpLean, "-report", tmpRep)
		run.Env = env
		if out, err := run.CombinedOutput(); err != nil {
			c.ProofBroken = append(c.ProofBroken, "translator failed on the current source: "+string(out))
		} else {
			lean, _ := os.ReadFile(tmpLean)
			core.WriteIfChanged(filepath.Join(core.LeanDir, "YangVerif", "Gen", "EffectTable.lean"), string(lean))
			rep, _ := os.ReadFile(tmpRep)
			var parsed struct {
				Summary map[string]any `json:"summary"`
				Effects []c20effect    `json:"effects"`
			}
			json.Unmarshal(rep, &parsed)
			summary = parsed.Summary
			for _, e := range parsed.Effects {
				if strings.HasPrefix(e.Kind, "use:") || e.Kind == "load:global" {
					effects = append(effects, e)
				}
			}
		}
	}
	c.Extra["effect_table"] = summary
	c.Extra["shared_writes_found"] = effects

	// ---- 2. the theorems over the regenerated table
	c.ProofStep("YangVerif.Props.C20")
	if c.Thorough() {
		c.LeanChecker("YangVerif.Props.C20")
	}
	tableBroken := len(effects) > 0

	// ---- 3. correspondence / search for a failing schedule: the scenario under the race detector
	race := filepath.Join(bin, "c20race."+pid)
	defer os.Remove(race)
	rb := exec.Command("go", "build", "-race", "-tags", "verif", "-o", race, "./cmd/c20race")
	rb.Dir = filepath.Join(core.VerifDir, "harness")
	rb.Env = env
	if out, err := rb.CombinedOutput(); err != nil {
		c.Violation(core.Replay{Kind: "correspondence", Summary: "the scenario does not build with -race against /repo's working tree", Impl: string(out), NoInputFound: true})
		return
	}
	type cfg struct{ procs, rounds, loads, uses int }
	cfgs := []cfg{{16, 3, 9, 8}, {2, 2, 6, 6}}
	if c.Thorough() {
		cfgs = []cfg{{16, 40, 12, 12}, {8, 30, 9, 8}, {4, 30, 9, 8}, {2, 30, 9, 8}, {1, 8, 9, 8}, {3, 20, 15, 4}, {16, 20, 3, 16}, {12, 20, 18, 18}}
	}
	if tableBroken || len(c.ProofBroken) > 0 {
		// the proof no longer stands: search harder for a schedule that shows it
		cfgs = append(cfgs, cfg{16, 10, 12, 12}, cfg{4, 10, 12, 12}, cfg{2, 10, 9, 8})
	}
	seenRace := map[string]bool{}
	for ci, g := range cfgs {
		cmd := exec.Command(race, "-rounds", fmt.Sprint(g.rounds), "-loads", fmt.Sprint(g.loads), "-uses", fmt.Sprint(g.uses), "-seed", fmt.Sprint(c.Seed*100+uint64(ci)))
		cmd.Env = append(env, "GORACE=halt_on_error=0", fmt.Sprintf("GOMAXPROCS=%d", g.procs), "GOMEMLIMIT=6GiB")
		var so, se bytes.Buffer
		cmd.Stdout, cmd.Stderr = &so, &se
		done := make(chan error, 1)
		cmd.Start()
		go func() { done <- cmd.Wait() }()
		var werr error
		select {
		case werr = <-done:
		case <-time.After(10 * time.Minute):
			cmd.Process.Kill()
			werr = fmt.Errorf("timeout")
		}
		cmdline := fmt.Sprintf("cd /verif/harness && go build -race -o /tmp/c20race ./cmd/c20race && GORACE=halt_on_error=0 GOMAXPROCS=%d /tmp/c20race -rounds %d -loads %d -uses %d -seed %d", g.procs, g.rounds, g.loads, g.uses, c.Seed*100+uint64(ci))
		c.Evaluations += (g.loads + g.uses) * (g.rounds + 3)
		for r := 0; r < g.rounds; r++ {
			c.Distinct(fmt.Sprintf("procs=%d round=%d loads=%d uses=%d", g.procs, r, g.loads, g.uses))
		}
		c.Count("GOMAXPROCS", fmt.Sprint(g.procs))
		outText := so.String()
		if !strings.Contains(outText, "DONE ") {
			c.Violation(core.Replay{Kind: "property-failure", Class: "crash", Summary: fmt.Sprintf("the scenario did not finish (%v): %s", werr, core.FirstLines(se.String(), 6)),
				Input: cmdline, Impl: tail2(se.String(), 4000)})
			continue
		}
		for _, line := range strings.Split(outText, "\n") {
			switch {
			case strings.HasPrefix(line, "DIFF "):
				f := strings.Fields(line)
				c.Violation(core.Replay{Kind: "property-failure", Class: "diff-" + f[2], Summary: fmt.Sprintf("task %s gives another result in company (round %s) than alone", f[2], f[1]), Input: cmdline + " -dump /tmp/c20dump", Impl: line})
			case strings.HasPrefix(line, "MUTATED "):
				c.Violation(core.Replay{Kind: "property-failure", Class: "mutated-" + strings.Fields(line)[2], Summary: "using the compiled module changed it: " + strings.TrimPrefix(line, "MUTATED "), Input: cmdline, Impl: line})
			case strings.HasPrefix(line, "FINGERPRINT "):
				c.Count("fingerprint", strings.TrimPrefix(line, "FINGERPRINT "))
			}
		}
		for _, rep := range strings.Split(se.String(), "==================") {
			if !strings.Contains(rep, "WARNING: DATA RACE") {
				continue
			}
			var accesses []string
			for _, m := range c20raceHead.FindAllStringSubmatch(rep, -1) {
				fr := c20frames(m[2])
				top := "(outside the library)"
				if len(fr) > 0 {
					top = fr[0]
				}
				accesses = append(accesses, m[1]+" "+top)
			}
			sort.Strings(accesses)
			key := strings.Join(accesses, " / ")
			c.Count("race", key)
			if seenRace[key] {
				continue
			}
			seenRace[key] = true
			c.Violation(core.Replay{Kind: "property-failure", Class: "race " + key, Summary: "data race: " + key, Input: cmdline, Impl: strings.TrimSpace(rep)})
		}
	}
	c.Extra["races_seen"] = len(seenRace)
	// a table that no longer passes and no schedule that shows a failure: Finish reports proof-broken with
	// no-failing-input-found; say which writes the translator found
	if tableBroken && c.Violations() == 0 {
		var what []string
		for _, e := range effects {
			what = append(what, fmt.Sprintf("%s: %s in %s (%s)", e.Kind, e.What, e.Fn, e.Pos))
		}
		c.ProofBroken = append([]string{"theorem YangVerif.C20.scenario_table_ok: the regenerated effect table lists shared writes: " + strings.Join(what, "; ")}, c.ProofBroken...)
	}
}

func tail2(s string, n int) string {
	if len(s) > n {
		return s[len(s)-n:]
	}
	return s
}
