package props

import (
	"sort"
	"bytes"
	"encoding/json"
	"reflect"
	"strconv"
	"errors"
	"fmt"
	"io"
	"strings"

	"verif/harness/core"
	"verif/harness/gen"
	"verif/harness/refstore"

	"github.com/freeconf/yang/meta"
	"github.com/freeconf/yang/node"
	"github.com/freeconf/yang/nodeutil"
	"github.com/freeconf/yang/parser"
	"github.com/freeconf/yang/source"
)

func init() { Registry["C15"] = C15 }

// typed leaf kinds for the writer check: yang type text, value generator (canonical text), expected JSON
type c15type struct {
	name string
	yang string
	gen  func(r *core.Rng) string
	// expected JSON text of one value (compact, as encoding/json would canonically see it)
	jv func(text string, enumAsIds bool) (kind string, txt string) // kind: s n t
}

var c15strings = []string{"", "a", "hello world", "q\"uote", "back\\slash", "<tag>&amp;", "tab\tnl\ncr\r", "\x01\x1f", "é", "日本語", "  ", "\U0001F600", "a/b,c=d", "\x7f", "nul\x00x"}

func c15types() []c15type {
	num := func(t string, vals []string) c15type {
		return c15type{t, t, func(r *core.Rng) string { return core.Pick(r, vals) }, func(s string, _ bool) (string, string) { return "n", s }}
	}
	all := c15baseTypes(num)
	// a leafref has the values and the encoding of the leaf it points to (RFC 7950 §9.9, RFC 7951 §6.8): targets
	// whose conversion needs the schema (the fixed leaves tgte / tgtu / tgtb of c15module)
	for _, t := range all {
		switch t.name {
		case "enum":
			all = append(all, c15type{"lr-enum", "leafref { path \"/tgte\"; }", t.gen, t.jv})
		case "union":
			all = append(all, c15type{"lr-union", "leafref { path \"/tgtu\"; }", t.gen, t.jv})
		case "bits":
			all = append(all, c15type{"lr-bits", "leafref { path \"/tgtb\"; }", t.gen, t.jv})
		case "string":
			all = append(all, c15type{"lr-string", "leafref { path \"/tgts\"; }", t.gen, t.jv})
		case "identityref":
			all = append(all, c15type{"lr-ident", "leafref { path \"/tgti\"; }", t.gen, t.jv})
		}
	}
	// a leafref to a leafref to a string
	str := c15typeNamed(all, "string")
	all = append(all, c15type{"lr-string2", "leafref { path \"/tgtl2\"; }", str.gen, str.jv})
	return all
}

func c15typeNamed(ts []c15type, name string) c15type {
	for _, t := range ts {
		if t.name == name {
			return t
		}
	}
	panic("no type " + name)
}

func c15baseTypes(num func(t string, vals []string) c15type) []c15type {
	return []c15type{
		{"string", "string", func(r *core.Rng) string { return core.Pick(r, c15strings) }, func(s string, _ bool) (string, string) { return "s", s }},
		num("int8", []string{"-128", "0", "127"}), num("int16", []string{"-32768", "7"}), num("int32", []string{"-2147483648", "0", "2147483647", "42"}),
		num("int64", []string{"-9223372036854775808", "9223372036854775807", "9007199254740993", "0"}),
		num("uint8", []string{"0", "255"}), num("uint16", []string{"65535"}), num("uint32", []string{"4294967295", "1"}),
		num("uint64", []string{"18446744073709551615", "0", "9007199254740993"}),
		{"decimal64", "decimal64 { fraction-digits 3; }", func(r *core.Rng) string { return core.Pick(r, []string{"0", "1.5", "-2.25", "1000000.125", "0.001"}) }, func(s string, _ bool) (string, string) { return "n", s }},
		{"decimal64-9", "decimal64 { fraction-digits 9; }", func(r *core.Rng) string { return core.Pick(r, []string{"3.14159265", "0.000000125", "-2.000000001", "1.5", "123456.789012345"}) }, func(s string, _ bool) (string, string) { return "n", s }},
		{"boolean", "boolean", func(r *core.Rng) string { return core.Pick(r, []string{"true", "false"}) }, func(s string, _ bool) (string, string) { return "t", s }},
		{"empty", "empty", func(r *core.Rng) string { return "<not empty>" }, func(s string, _ bool) (string, string) { return "t", "[null]" }},
		{"enum", "enumeration { enum one { value 1; } enum two; enum big { value 70; } }", func(r *core.Rng) string { return core.Pick(r, []string{"one", "two", "big"}) },
			func(s string, ids bool) (string, string) {
				if ids {
					return "n", map[string]string{"one": "1", "two": "2", "big": "70"}[s]
				}
				return "s", s
			}},
		// enum names are arbitrary strings (RFC 7950 §9.6.4): quotes, a backslash, blanks, non-ASCII
		{"enum-odd", "enumeration { enum 'say \"hi\"' { value 3; } enum 'b\\s'; enum \"é x\"; }", func(r *core.Rng) string { return core.Pick(r, []string{"say \"hi\"", "b\\s", "é x"}) },
			func(s string, ids bool) (string, string) {
				if ids {
					return "n", map[string]string{"say \"hi\"": "3", "b\\s": "4", "é x": "5"}[s]
				}
				return "s", s
			}},
		// names that look like numbers, and like the values of other names
		{"enum-num", "enumeration { enum \"1\" { value 5; } enum \"5\" { value 1; } enum \"07\"; enum \"-2\"; }", func(r *core.Rng) string { return core.Pick(r, []string{"1", "5", "07", "-2"}) },
			func(s string, ids bool) (string, string) {
				if ids {
					return "n", map[string]string{"1": "5", "5": "1", "07": "6", "-2": "7"}[s]
				}
				return "s", s
			}},
		{"bits", "bits { bit b0 { position 0; } bit b1 { position 1; } bit b5 { position 5; } }", func(r *core.Rng) string { return core.Pick(r, []string{"b0", "b0 b5", "b1 b5", ""}) }, func(s string, _ bool) (string, string) { return "s", s }},
		{"identityref", "identityref { base idb; }", func(r *core.Rng) string { return core.Pick(r, []string{"d1", "d2"}) }, func(s string, _ bool) (string, string) { return "s", s }},
		{"binary", "binary", func(r *core.Rng) string { return core.Pick(r, []string{"aGVsbG8gd29ybGQ=", "+//+", "/+8=", "AA==", "Zm9v"}) }, func(s string, _ bool) (string, string) { return "s", s }},
		{"union8", "union { type int8; type int32; }", func(r *core.Rng) string { return core.Pick(r, []string{"100", "-128", "127", "128", "200", "255", "256", "-129", "70000"}) }, func(s string, _ bool) (string, string) { return "n", s }},
		// a union with members that need their type to convert
		{"union-e", "union { type enumeration { enum red; enum green { value 7; } } type int32; }", func(r *core.Rng) string { return core.Pick(r, []string{"red", "green", "5", "-3"}) }, func(s string, ids bool) (string, string) {
			if _, err := strconv.Atoi(s); err == nil {
				return "n", s
			}
			if ids && (s == "red" || s == "green") {
				return "n", map[string]string{"red": "0", "green": "7"}[s]
			}
			return "s", s
		}},
		{"union-i", "union { type identityref { base idb; } type int32; }", func(r *core.Rng) string { return core.Pick(r, []string{"d1", "d2", "5", "-3"}) }, func(s string, _ bool) (string, string) {
			if _, err := strconv.Atoi(s); err == nil {
				return "n", s
			}
			return "s", s
		}},
		{"union", "union { type int32; type string; }", func(r *core.Rng) string { return core.Pick(r, []string{"5", "-7", "abc", "x y"}) }, func(s string, _ bool) (string, string) {
			if _, err := fmt.Sscanf(s, "%d", new(int)); err == nil && !strings.Contains(s, " ") {
				return "n", s
			}
			return "s", s
		}},
	}
}

type c15schema struct {
	kids  []*gen.SNode
	types map[string]c15type // leaf name -> type
	lists map[string]bool    // leaf name -> is leaf-list
	mod   map[string]string  // node name -> defining module ("m" or "g")
}

var c15seq int
var c15withDefaults bool

func c15genKids(r *core.Rng, sc *c15schema, ts []c15type, depth int, n int, mod string) []*gen.SNode {
	var out []*gen.SNode
	for i := 0; i < n; i++ {
		c15seq++
		k := r.Intn(10)
		if c15choices && depth < 3 && r.Chance(12) {
			out = append(out, c15genChoice(r, sc, ts, depth, mod))
			continue
		}
		switch {
		case k < 6 || depth >= 3:
			t := core.Pick(r, ts)
			name := fmt.Sprintf("f%d", c15seq)
			sc.types[name] = t
			sc.mod[name] = mod
			if r.Chance(20) && t.name != "empty" && t.name != "union-e" && t.name != "union-i" {
				sc.lists[name] = true
			}
			lf := &gen.SNode{Name: name, Kind: "leaf", Type: t.yang}
			if c15withDefaults && !sc.lists[name] && r.Chance(30) && (t.name == "string" || t.name == "int32" || t.name == "enum") {
				d := map[string]string{"string": "dflt " + name, "int32": "17", "enum": "two"}[t.name]
				lf.Default = &d
			}
			out = append(out, lf)
		case k < 8:
			name := fmt.Sprintf("c%d", c15seq)
			sc.mod[name] = mod
			out = append(out, &gen.SNode{Name: name, Kind: "cont", Kids: c15genKids(r, sc, ts, depth+1, r.Intn(4), mod)})
		default:
			name := fmt.Sprintf("l%d", c15seq)
			sc.mod[name] = mod
			c15seq++
			kn := fmt.Sprintf("k%d", c15seq)
			sc.types[kn] = ts[0]
			sc.mod[kn] = mod
			l := &gen.SNode{Name: name, Kind: "list", NKeys: 1, Kids: []*gen.SNode{{Name: kn, Kind: "leaf", Type: "string"}}}
			l.Kids = append(l.Kids, c15genKids(r, sc, ts, depth+1, r.Intn(3), mod)...)
			out = append(out, l)
		}
	}
	return out
}

var c15choices = true

// a choice: explicit cases (some opening with a nested choice that is followed by further nodes) and shorthand cases
func c15genChoice(r *core.Rng, sc *c15schema, ts []c15type, depth int, mod string) *gen.SNode {
	c15seq++
	ch := &gen.SNode{Name: fmt.Sprintf("x%d", c15seq), Kind: "choice"}
	sc.mod[ch.Name] = mod
	// no schema defaults inside cases: which case's defaults apply is C09's matter
	dflt := c15withDefaults
	c15withDefaults = false
	defer func() { c15withDefaults = dflt }()
	for ci, n := 0, 2+r.Intn(2); ci < n; ci++ {
		if r.Chance(25) {
			kid := c15genKids(r, sc, ts, 3, 1, mod) // one leaf
			ch.Cases = append(ch.Cases, &gen.SCase{Name: kid[0].Name, Kids: kid, Shorthand: true})
			continue
		}
		c15seq++
		cs := &gen.SCase{Name: fmt.Sprintf("y%04d", c15seq)}
		if depth < 2 && r.Chance(35) {
			cs.Kids = append(cs.Kids, c15genChoice(r, sc, ts, depth+1, mod))
		}
		was := c15choices
		c15choices = false
		cs.Kids = append(cs.Kids, c15genKids(r, sc, ts, depth+1, 1+r.Intn(2), mod)...)
		c15choices = was
		ch.Cases = append(ch.Cases, cs)
	}
	sort.Slice(ch.Cases, func(i, j int) bool { return ch.Cases[i].Name < ch.Cases[j].Name })
	return ch
}

// yang with leaf-lists
func c15yang(sc *c15schema, kids []*gen.SNode, indent string) string {
	var b strings.Builder
	for _, s := range kids {
		switch s.Kind {
		case "leaf":
			kw := "leaf"
			if sc.lists[s.Name] {
				kw = "leaf-list"
			}
			dflt := ""
			if s.Default != nil {
				dflt = fmt.Sprintf(" default \"%s\";", *s.Default)
			}
			fmt.Fprintf(&b, "%s%s %s { type %s%s%s }\n", indent, kw, s.Name, s.Type, map[bool]string{true: "", false: ";"}[strings.HasSuffix(s.Type, "}")], dflt)
		case "cont":
			fmt.Fprintf(&b, "%scontainer %s {\n%s%s}\n", indent, s.Name, c15yang(sc, s.Kids, indent+"  "), indent)
		case "list":
			fmt.Fprintf(&b, "%slist %s { key \"%s\";\n%s%s}\n", indent, s.Name, s.Kids[0].Name, c15yang(sc, s.Kids, indent+"  "), indent)
		case "choice":
			fmt.Fprintf(&b, "%schoice %s {\n", indent, s.Name)
			for _, cs := range s.Cases {
				if cs.Shorthand {
					b.WriteString(c15yang(sc, cs.Kids, indent+"  "))
				} else {
					fmt.Fprintf(&b, "%s  case %s {\n%s%s  }\n", indent, cs.Name, c15yang(sc, cs.Kids, indent+"    "), indent)
				}
			}
			fmt.Fprintf(&b, "%s}\n", indent)
		}
	}
	return b.String()
}

// the first schema of every run: every type once as a leaf and once as a leaf-list, in one container
func c15allTypesKids(sc *c15schema, ts []c15type) []*gen.SNode {
	var kids []*gen.SNode
	for i, t := range ts {
		for _, list := range []bool{false, true} {
			if list && (t.name == "empty" || t.name == "union-e" || t.name == "union-i") {
				continue // (a union leaf-list is held as one typed list: its members cannot be mixed)
			}
			c15seq++
			name := fmt.Sprintf("a%d", c15seq)
			if list {
				name = fmt.Sprintf("m%d", c15seq)
			}
			_ = i
			sc.types[name], sc.mod[name] = t, "m"
			if list {
				sc.lists[name] = true
			}
			kids = append(kids, &gen.SNode{Name: name, Kind: "leaf", Type: t.yang})
		}
	}
	sc.mod["every"] = "m"
	return []*gen.SNode{{Name: "every", Kind: "cont", Kids: kids}}
}

func c15data(r *core.Rng, sc *c15schema, kids []*gen.SNode, density int) []*gen.DNode {
	out := gen.EmptyBody(kids)
	for i, s := range kids {
		switch s.Kind {
		case "leaf":
			if r.Chance(density) {
				t := sc.types[s.Name]
				v := t.gen(r)
				if sc.lists[s.Name] {
					// leaf-list: elements joined by \x1e in the reference store's text
					n := 1 + r.Intn(3)
					var vs []string
					for j := 0; j < n; j++ {
						vs = append(vs, t.gen(r))
					}
					v = strings.Join(vs, "\x1e")
				}
				out[i].Leaf = &v
			}
		case "cont":
			if r.Chance(density) {
				out[i].Present = true
				out[i].Kids = c15data(r, sc, s.Kids, density)
			}
		case "choice":
			if r.Chance(70) {
				ci := r.Intn(len(s.Cases))
				out[i].Cases[ci] = c15data(r, sc, s.Cases[ci].Kids, density)
			}
		case "list":
			if r.Chance(density) {
				n := r.Intn(4)
				seen := map[string]bool{}
				for j := 0; j < n; j++ {
					k := core.Pick(r, []string{"a", "b", "k\"q", "é", "x y"})
					if seen[k] {
						continue
					}
					seen[k] = true
					body := c15data(r, sc, s.Kids, density)
					kk := k
					body[0] = &gen.DNode{Leaf: &kk}
					out[i].Rows = append(out[i].Rows, &gen.DRow{Key: []string{k}, Kids: body})
				}
			}
		}
	}
	return out
}

// expected value as Go data (for comparison with encoding/json's decode) and as model member tokens
func c15expect(sc *c15schema, kids []*gen.SNode, body []*gen.DNode, enumAsIds, qualify bool, parentMod string, top bool) (map[string]interface{}, []string) {
	kids, body = gen.Flatten(kids, body)
	m := map[string]interface{}{}
	var toks []string
	n := 0
	name := func(s *gen.SNode) string {
		if qualify && (top || sc.mod[s.Name] != parentMod) {
			return sc.mod[s.Name] + ":" + s.Name
		}
		return s.Name
	}
	for i, s := range kids {
		d := body[i]
		switch s.Kind {
		case "leaf":
			if d.Leaf == nil {
				continue
			}
			t := sc.types[s.Name]
			one := func(text string) (interface{}, []string) {
				kind, txt := t.jv(text, enumAsIds)
				switch kind {
				case "s":
					return txt, []string{"s", core.Hex(txt)}
				case "n":
					return json.Number(txt), []string{"n", core.Hex(txt)}
				}
				if txt == "[null]" {
					return []interface{}{nil}, []string{"t", core.Hex(txt)}
				}
				return txt == "true", []string{"t", core.Hex(txt)}
			}
			if sc.lists[s.Name] {
				var arr []interface{}
				parts := strings.Split(*d.Leaf, "\x1e")
				tk := []string{"a", fmt.Sprint(len(parts))}
				// a union leaf-list is held as one typed list: the first member type that takes every element
				allStr := false
				if t.name == "union" || t.name == "lr-union" {
					for _, p := range parts {
						if k, _ := t.jv(p, enumAsIds); k == "s" {
							allStr = true
						}
					}
				}
				for _, p := range parts {
					v, t2 := one(p)
					if allStr {
						v, t2 = p, []string{"s", core.Hex(p)}
					}
					arr = append(arr, v)
					tk = append(tk, t2...)
				}
				m[name(s)] = arr
				toks = append(toks, append([]string{"L", core.Hex(name(s))}, tk...)...)
			} else {
				v, t2 := one(*d.Leaf)
				m[name(s)] = v
				toks = append(toks, append([]string{"L", core.Hex(name(s))}, t2...)...)
			}
			n++
		case "cont":
			if !d.Present {
				continue
			}
			sub, st := c15expect(sc, s.Kids, d.Kids, enumAsIds, qualify, sc.mod[s.Name], false)
			m[name(s)] = sub
			toks = append(toks, append([]string{"C", core.Hex(name(s))}, st...)...)
			n++
		case "list":
			if len(d.Rows) == 0 {
				continue
			}
			var arr []interface{}
			tk := []string{"K", core.Hex(name(s)), fmt.Sprint(len(d.Rows))}
			for _, row := range d.Rows {
				sub, st := c15expect(sc, s.Kids, row.Kids, enumAsIds, qualify, sc.mod[s.Name], false)
				arr = append(arr, sub)
				tk = append(tk, st...)
			}
			m[name(s)] = arr
			toks = append(toks, tk...)
			n++
		}
	}
	return m, append([]string{fmt.Sprint(n)}, toks...)
}

// leafStore adapts refstore texts of leaf-lists: the reference store keeps one text per leaf; a leaf-list
// text is split on \x1e before it is handed to NewValue.
type failWriter struct {
	w      io.Writer
	failAt int
	n      int
}

var errStream = errors.New("output stream failed")

func (f *failWriter) Write(p []byte) (int, error) {
	if f.n+len(p) > f.failAt {
		ok := f.failAt - f.n
		if ok < 0 {
			ok = 0
		}
		f.w.Write(p[:ok])
		f.n += ok
		return ok, errStream
	}
	f.n += len(p)
	return f.w.Write(p)
}

func stripInsignificantWS(s string) string {
	var b strings.Builder
	inStr, esc := false, false
	for _, c := range []byte(s) {
		if inStr {
			b.WriteByte(c)
			if esc {
				esc = false
			} else if c == '\\' {
				esc = true
			} else if c == '"' {
				inStr = false
			}
			continue
		}
		switch c {
		case ' ', '\n', '\t', '\r':
		case '"':
			inStr = true
			b.WriteByte(c)
		default:
			b.WriteByte(c)
		}
	}
	return b.String()
}

const c15imported = `module g { namespace "urn:g"; prefix g; revision 2020-01-01;
 identity gbase; identity gd { base gbase; }
 grouping grp { leaf gl { type string; } leaf gi { type identityref { base gbase; } } container gc { leaf gx { type int32; } choice gch { case ca { leaf gca { type string; } } } } }
}`

// identityref defined in the imported module g: identities of g itself are written bare, those of m qualified
var c15gIdentType = c15type{"identityref-g", "identityref { base g:gbase; }", func(r *core.Rng) string { return core.Pick(r, []string{"gd", "md"}) }, func(s string, _ bool) (string, string) {
	if s == "md" {
		return "s", "m:md"
	}
	return "s", s
}}

// c15module completes a generated schema with the nodes of an imported module's grouping (namespace urn:g),
// a leaf that m augments into that grouping's container (namespace urn:m again), and loads it.
func c15module(sc *c15schema, ts []c15type) (*meta.Module, string, error) {
	gc := &gen.SNode{Name: "gwrap", Kind: "cont", Kids: []*gen.SNode{{Name: "gl", Kind: "leaf", Type: "string"}, {Name: "gi", Kind: "leaf", Type: "identityref"},
		{Name: "gc", Kind: "cont", Kids: []*gen.SNode{{Name: "gx", Kind: "leaf", Type: "int32"},
			// a choice of the imported grouping to which m adds a case of its own: the nodes of that case are m's inside g's container
			{Name: "gch", Kind: "choice", Cases: []*gen.SCase{{Name: "ca", Kids: []*gen.SNode{{Name: "gca", Kind: "leaf", Type: "string"}}},
				{Name: "cm", Kids: []*gen.SNode{{Name: "gcm", Kind: "leaf", Type: "string"}, {Name: "gcc", Kind: "cont", Kids: []*gen.SNode{{Name: "gq", Kind: "leaf", Type: "string"}}}}}}},
			{Name: "ga", Kind: "leaf", Type: "string"}}}}}
	sc.mod["gwrap"], sc.mod["gl"], sc.mod["gi"], sc.mod["gc"], sc.mod["gx"], sc.mod["ga"] = "m", "g", "g", "g", "g", "m"
	sc.mod["gca"], sc.mod["gcm"], sc.mod["gcc"], sc.mod["gq"] = "g", "m", "m", "m"
	sc.types["gl"], sc.types["gi"], sc.types["gx"], sc.types["ga"] = ts[0], c15gIdentType, ts[3], ts[0]
	sc.types["gca"], sc.types["gcm"], sc.types["gq"] = ts[0], ts[0], ts[0]
	// the leaves the leafref types point to: ordinary leaves of the schema
	for n, tn := range map[string]string{"tgte": "enum", "tgtu": "union", "tgtb": "bits", "tgti": "identityref", "tgts": "string", "tgtl2": "lr-string"} {
		sc.types[n], sc.mod[n] = c15typeNamed(ts, tn), "m"
	}
	for _, n := range []string{"tgte", "tgtu", "tgtb", "tgti", "tgts", "tgtl2"} {
		sc.kids = append(sc.kids, &gen.SNode{Name: n, Kind: "leaf", Type: sc.types[n].yang})
	}
	sc.kids = append(sc.kids, gc)
	// a container the module gets from a submodule (merged after the module's own nodes): in data it is the module's
	// (name, namespace)
	sc.kids = append(sc.kids, &gen.SNode{Name: "msub", Kind: "cont", Kids: []*gen.SNode{{Name: "msl", Kind: "leaf", Type: "string"}, {Name: "msi", Kind: "leaf", Type: c15typeNamed(ts, "identityref").yang}}})
	sc.mod["msub"], sc.mod["msl"], sc.mod["msi"] = "m", "m", "m"
	sc.types["msl"], sc.types["msi"] = ts[0], c15typeNamed(ts, "identityref")
	y := "module m { namespace \"urn:m\"; prefix m; import g { prefix g; } include ms; revision 2020-01-01;\n identity idb; identity d1 { base idb; } identity d2 { base d1; } identity md { base g:gbase; }\n" +
		c15yang(sc, sc.kids[:len(sc.kids)-2], "  ") + "  container gwrap { uses g:grp { augment gc/gch { case cm { leaf gcm { type string; } container gcc { leaf gq { type string; } } } } augment gc { leaf ga { type string; } } } }\n}\n"
	opener := source.Any(source.Named("m", strings.NewReader(y)), source.Named("g", strings.NewReader(c15imported)), source.Named("ms", strings.NewReader(c15submodule)))
	m, err := parser.LoadModule(opener, "m")
	return m, y, err
}

// the submodule every typed module includes
const c15submodule = "submodule ms { belongs-to m { prefix m; } container msub { leaf msl { type string; } leaf msi { type identityref { base m:idb; } } } }\n"

var c15reused [8]*nodeutil.JSONWtr

// depth is no reason to fail: 60 and 300 nested containers, and a list entry inside each of 40 lists, compact and pretty
func c15deep(c *core.Ctx) {
	for _, depth := range []int{44, 60, 300} {
		var y, d strings.Builder
		y.WriteString("module z { namespace \"urn:z\"; prefix z; revision 2020-01-01; ")
		d.WriteString("{")
		for i := 0; i < depth; i++ {
			if i%3 == 2 {
				fmt.Fprintf(&y, "list c%d { key k; leaf k { type string; } ", i)
				fmt.Fprintf(&d, `"c%d":[{"k":"e",`, i)
			} else {
				fmt.Fprintf(&y, "container c%d { ", i)
				fmt.Fprintf(&d, `"c%d":{`, i)
			}
		}
		y.WriteString("leaf x { type string; } ")
		d.WriteString(`"x":"v"`)
		for i := depth - 1; i >= 0; i-- {
			y.WriteString("} ")
			if i%3 == 2 {
				d.WriteString("}]")
			} else {
				d.WriteString("}")
			}
		}
		y.WriteString("}")
		d.WriteString("}")
		m, err := parser.LoadModuleFromString(nil, y.String())
		if err != nil {
			c.Violation(core.Replay{Kind: "harness", Summary: "c15deep module: " + err.Error(), NoInputFound: true})
			return
		}
		for _, pretty := range []bool{false, true} {
			c.Evaluations++
			c.Count("deep_nesting", fmt.Sprint(depth, " pretty=", pretty))
			c.Distinct(fmt.Sprint("deep", depth, pretty))
			var out string
			e := safeDo(func() error {
				n, err := nodeutil.ReadJSON(d.String())
				if err != nil {
					return err
				}
				w := &nodeutil.JSONWtr{Pretty: pretty}
				out, err = w.JSON(node.NewBrowser(m, n).Root())
				return err
			})
			var back interface{}
			if e == nil {
				e = json.Unmarshal([]byte(out), &back)
			}
			var want interface{}
			json.Unmarshal([]byte(d.String()), &want)
			if e != nil || !reflect.DeepEqual(back, want) {
				c.Violation(core.Replay{Kind: "property-failure", Class: "deep-nesting", Summary: fmt.Sprintf("%d nested levels, Pretty=%v: %v; output %s", depth, pretty, e, short(out)), Input: map[string]interface{}{"depth": depth, "pretty": pretty}})
			}
		}
	}
}

func C15(c *core.Ctx) {
	c15deep(c)
	c.Rule = "generated schemas (every built-in leaf type incl. empty, enum, bits, identityref, union, 64-bit extremes, leaf-lists; containers, keyed lists, nodes contributed by a grouping of an imported module) × conforming trees × all 8 writer configurations (Pretty × EnumAsIds × QualifyNamespace) × start selection (root, container, list, list entry); output (i) parsed by encoding/json as exactly one value and compared with the expected RFC 7951 value, (ii) compared byte-for-byte with the Lean writer model (compact), (iii) pretty output minus insignificant white space = compact output, (iv) failing output stream at every byte position of small documents; leafref types and odd enum names as in C04; the first schema of every run holds every type once as leaf and once as leaf-list. non-trivial = document with ≥2 members and a nested container or list; distinct by (schema, tree, configuration, start)"
	c.Assumptions = append(c.Assumptions,
		"encoding/json (Decoder.UseNumber, one value then EOF) is the RFC 8259 reader for the byte level; the Lean theorems are on the token level plus the string codec",
		"the expected value follows RFC 7951 except that 64-bit integers and decimal64 are expected as JSON numbers (what the library documents); their precision in a JSON *reader* is C04's concern")
	c.ProofStep("YangVerif.Props.C15")
	if c.Thorough() {
		c.LeanChecker("YangVerif.Props.C15")
	}
	rng := core.NewRng(c.Seed)
	ts := c15types()
	// the string codec alone, against the model
	var lines []string
	var strPends []string
	{
		sm, _ := parser.LoadModuleFromString(nil, `module s { namespace "urn:s"; prefix s; revision 2020-01-01; leaf v { type string; } }`)
		all := append([]string{}, c15strings...)
		for i := 0; i < c.N(300, 20000); i++ {
			var sb strings.Builder
			for j := 0; j < 1+rng.Intn(4); j++ {
				switch rng.Intn(4) {
				case 0:
					sb.WriteRune(rune(rng.Intn(0x80)))
				case 1:
					sb.WriteRune(rune(0x80 + rng.Intn(0x2100)))
				case 2:
					sb.WriteRune(rune(0x10000 + rng.Intn(0x1000)))
				default:
					sb.WriteString(core.Pick(rng, c15strings))
				}
			}
			all = append(all, sb.String())
		}
		for _, s := range all {
			v := s
			body := []*gen.DNode{{Leaf: &v}}
			kids := []*gen.SNode{{Name: "v", Kind: "leaf", Type: "string"}}
			out, err := nodeutil.WriteJSON(node.NewBrowser(sm, refstore.NewBody(nil, kids, body, "")).Root())
			c.Evaluations++
			if err != nil || !strings.HasPrefix(out, `{"v":`) {
				c.Violation(core.Replay{Kind: "property-failure", Class: "string-write", Summary: fmt.Sprintf("writing string %q: %v %s", s, err, out), Input: s})
				continue
			}
			var back map[string]string
			if jerr := json.Unmarshal([]byte(out), &back); jerr != nil || back["v"] != s {
				c.Violation(core.Replay{Kind: "property-failure", Class: "string-decode", Summary: fmt.Sprintf("string %q written as %s decodes to %q (%v)", s, out, back["v"], jerr), Input: s})
			}
			lines = append(lines, "c15 str "+core.Hex(s))
			strPends = append(strPends, strings.TrimSuffix(strings.TrimPrefix(out, `{"v":`), "}"))
			c.Distinct("str:" + s)
		}
		c.Count("part", "strings")
	}
	type pend struct {
		desc, impl string
		input      map[string]interface{}
	}
	var pends []pend
	nSchemas := c.N(40, 1500)
	for si := 0; si < nSchemas; si++ {
		r := rng.Fork()
		c15seq = 0
		sc := &c15schema{types: map[string]c15type{}, lists: map[string]bool{}, mod: map[string]string{}}
		sc.kids = c15genKids(r, sc, ts, 0, 2+r.Intn(4), "m")
		if si == 0 {
			sc.kids = c15allTypesKids(sc, ts)
		}
		m, y, err := c15module(sc, ts)
		if err != nil {
			c.Violation(core.Replay{Kind: "harness", Summary: "C15 module does not load: " + err.Error(), Input: y, NoInputFound: true})
			return
		}
		for di := 0; di < c.N(6, 20); di++ {
			tree := c15data(r, sc, sc.kids, 45+r.Intn(50))
			// the reference store hands leaf-lists to the library element-wise
			store := refstore.NewBody(nil, sc.kids, tree, "")
			store.ListSep = "\x1e"
			b := node.NewBrowser(m, store)
			// start selections
			starts := []editLoc{{"", sc.kids, tree, "root", 0}}
			findLocs(sc.kids, tree, "", 0, &starts)
			if len(starts) > 4 {
				starts = append(starts[:1], starts[1+r.Intn(len(starts)-1)])
			}
			// a list as start selection (not inside an entry): {"name":[…]}
			for i, s := range sc.kids {
				if s.Kind == "list" && len(tree[i].Rows) > 0 {
					starts = append(starts, editLoc{s.Name, []*gen.SNode{s}, []*gen.DNode{tree[i]}, "list", 1})
					break
				}
			}
			for _, st := range starts {
				sel := b.Root()
				if st.path != "" {
					var ferr error
					sel, ferr = b.Root().Find(st.path)
					if ferr != nil || sel == nil {
						continue
					}
				}
				var compactUnq string
				for cfg := 0; cfg < 8; cfg++ {
					pretty, ids, qual := cfg&1 != 0, cfg&2 != 0, cfg&4 != 0
					var buf bytes.Buffer
					w := &nodeutil.JSONWtr{Out: &buf, Pretty: pretty, EnumAsIds: ids, QualifyNamespace: qual}
					if c15reused[cfg] == nil {
						c15reused[cfg] = &nodeutil.JSONWtr{Pretty: pretty, EnumAsIds: ids, QualifyNamespace: qual}
					}
					if (si+di)%2 == 1 {
						// one writer per configuration serving document after document, retargeted each time
						w = c15reused[cfg]
						w.Out = &buf
					}
					werr := safeDo(func() error { return sel.UpsertInto(w.Node()) })
					out := buf.String()
					c.Evaluations++
					c.Count("config", fmt.Sprintf("pretty=%v ids=%v qualify=%v", pretty, ids, qual))
					c.Count("start", st.kind)
					desc := fmt.Sprintf("JSONWtr{Pretty:%v EnumAsIds:%v Qualify:%v} from %s %q", pretty, ids, qual, st.kind, st.path)
					input := map[string]interface{}{"yang": y, "tree": gen.Canon(sc.kids, tree, false), "start": st.path, "output": out}
					if werr != nil {
						c.Violation(core.Replay{Kind: "property-failure", Class: "write-error", Summary: desc + ": " + werr.Error(), Input: input})
						continue
					}
					// (i) exactly one RFC 8259 value
					dec := json.NewDecoder(strings.NewReader(out))
					dec.UseNumber()
					var got interface{}
					if derr := dec.Decode(&got); derr != nil {
						c.Violation(core.Replay{Kind: "property-failure", Class: "not-json", Summary: fmt.Sprintf("%s: output is not JSON: %v: %s", desc, derr, short(out)), Input: input})
						continue
					}
					if _, derr := dec.Token(); derr != io.EOF {
						c.Violation(core.Replay{Kind: "property-failure", Class: "trailing", Summary: desc + ": more than one value in the output", Input: input})
						continue
					}
					// expected value
					topMod := "m"
					want, toks := c15expect(sc, st.kids, st.body, ids, qual, topMod, st.path == "")
					if st.kind == "list" {
						want, toks = c15expect(sc, st.kids, st.body, ids, qual, topMod, true)
					} else if st.path != "" {
						// not at the root: qualification is relative to the start node's module
						want, toks = c15expect(sc, st.kids, st.body, ids, qual, c15modOfLoc(sc, st), false)
					}
					wb, _ := json.Marshal(want)
					gb, _ := json.Marshal(got)
					if string(wb) != string(gb) {
						{
							c.Violation(core.Replay{Kind: "property-failure", Class: "value-" + fmt.Sprint(cfg), Summary: fmt.Sprintf("%s: decodes to %s, expected %s", desc, short(string(gb)), short(string(wb))), Input: input})
						}
						continue
					}
					if len(want) >= 2 {
						c.Distinct(fmt.Sprint(si, di, st.path, cfg))
					}
					if !pretty && !qual && !ids {
						compactUnq = out
						lines = append(lines, "c15 doc "+strings.Join(toks, " "))
						strPends = append(strPends, out)
					}
					if pretty {
						// (iii) pretty = compact + white space
						var cbuf bytes.Buffer
						cw := &nodeutil.JSONWtr{Out: &cbuf, EnumAsIds: ids, QualifyNamespace: qual}
						if e2 := sel.UpsertInto(cw.Node()); e2 == nil && stripInsignificantWS(out) != cbuf.String() {
							c.Violation(core.Replay{Kind: "property-failure", Class: "pretty", Summary: desc + ": pretty output differs from the compact one in more than white space", Input: input})
						}
					}
				}
				// (iv) failing stream at every byte position (small documents), sampled for large ones
				if compactUnq != "" {
					step := 1
					if len(compactUnq) > 200 {
						step = len(compactUnq) / 40
					}
					for pos := 0; pos < len(compactUnq); pos += step {
						fw := &failWriter{w: io.Discard, failAt: pos}
						w := &nodeutil.JSONWtr{Out: fw}
						werr := safeDo(func() error { return sel.UpsertInto(w.Node()) })
						c.Evaluations++
						if werr == nil {
							c.Violation(core.Replay{Kind: "property-failure", Class: "stream-error-lost", Summary: fmt.Sprintf("output stream failing at byte %d of %d: the writer returned no error", pos, len(compactUnq)), Input: map[string]interface{}{"yang": y, "output": compactUnq, "fail_at": pos}})
							break
						}
					}
					c.Count("part", "stream-faults")
				}
			}
		}
	}
	_ = pends
	outs, err := core.RunDriver(lines)
	if err != nil {
		c.ProofBroken = append(c.ProofBroken, err.Error())
		return
	}
	for i, o := range outs {
		c.Evaluations++
		model := core.Unhex(strings.TrimSpace(o))
		if i%397 == 0 {
			c.Sample(map[string]string{"model_input": short(lines[i]), "writer": short(strPends[i]), "model": short(model)})
		}
		if model != strPends[i] {
			c.Disagree++
			if c.Disagree <= 3 {
				fmt.Printf("  disagreement: writer %s model %s\n", short(strPends[i]), short(model))
			}
		}
	}
	if c.Disagree > 0 && c.Violations() == 0 {
		c.Violation(core.Replay{Kind: "correspondence", Summary: fmt.Sprintf("writer model and JSONWtr disagree on %d outputs that are well-formed and decode to the expected value", c.Disagree), Broken: "correspondence C15/bytes", NoInputFound: true})
	}
}

func c15modOfLoc(sc *c15schema, l editLoc) string {
	segs := strings.Split(l.path, "/")
	last := segs[len(segs)-1]
	if i := strings.Index(last, "="); i >= 0 {
		last = last[:i]
	}
	return sc.mod[last]
}
