package props

import (
	"reflect"
	"net/url"
	"bufio"
	"encoding/json"
	"fmt"
	"os"
	"os/exec"
	"sort"
	"strings"
	"time"

	"verif/harness/core"
	"verif/harness/gen"

	"github.com/freeconf/yang/meta"
	"github.com/freeconf/yang/node"
	"github.com/freeconf/yang/nodeutil"
	"github.com/freeconf/yang/parser"
	"github.com/freeconf/yang/source"
)

func init() { Registry["C13"] = C13 }

type c13req struct {
	Kind string // json-upsert json-insert json-update json-replace xml-upsert find read-query where filter setvalue
	A, B string // payloads (path / document / value kind)
	Desc string
	// expectation: "" = any outcome but a crash; "error" = must be refused
	Must string
}

func c13values() map[string]interface{} {
	type st struct{ X int }
	ch := make(chan int)
	var np *int
	return map[string]interface{}{
		"nil": nil, "int": 5, "int8-min": int8(-128), "int64-min": int64(-9223372036854775808), "uint64-max": uint64(18446744073709551615), "negative": -1,
		"float": 3.5, "float-nan": nanValue(), "float-inf": infValue(), "huge-float": 1e300, "string": "text", "empty-string": "", "numeric-string": "42", "bad-numeric-string": "4x2",
		"bool": true, "bytes": []byte{0, 1, 2}, "string-slice": []string{"a", "b"}, "int-slice": []int{1, 2}, "empty-slice": []interface{}{}, "mixed-slice": []interface{}{1, "a", nil},
		"map": map[string]interface{}{"a": 1}, "struct": st{1}, "struct-ptr": &st{2}, "nil-ptr": np, "chan": ch, "func": func() {}, "nested-slice": [][]int{{1}, {2}},
		"json-number": json.Number("17"), "bad-json-number": json.Number("1e999"), "rune": 'x', "long-string": strings.Repeat("x", 100000),
	}
}

func nanValue() float64 { z := 0.0; return z / z }
func infValue() float64 { z := 0.0; return 1 / z }

// C13Worker: schema and initial data from the file's first line, then one request per line
var c13initial string

// a list with two keys and one with three, read through the JSON-backed browser (the reflection store cannot
// hold compound keys: known finding map-list-compound-key)
const c13twoYang = `module two { namespace "urn:two"; prefix t; revision 2020-01-01;
  list two { key "a b"; leaf a { type string; } leaf b { type int32; } leaf v { type string; }
    list three { key "x y z"; leaf x { type string; } leaf y { type string; } leaf z { type uint8; } } }
  container c { list in { key "k1 k2"; leaf k1 { type int32; } leaf k2 { type boolean; } } }
  identity idb; identity id1 { base idb; }
  list w { key k; leaf k { type string; } leaf bi { type bits { bit a; bit b; } } leaf em { type empty; } anydata an;
    leaf un { type union { type int32; type string; } } leaf en { type enumeration { enum a; enum b; } } leaf id { type identityref { base idb; } }
    leaf de { type decimal64 { fraction-digits 2; } } leaf bo { type boolean; } leaf bn { type binary; } leaf u64 { type uint64; }
    leaf-list ll { type int32; } leaf-list ls { type string; }
    container c { leaf y { type int32; } list l { key x; leaf x { type string; } leaf n { type int32; } } container cc { leaf q { type string; } } }
    choice ch { leaf c1 { type string; } container c2 { leaf z { type int32; } } }
    action act { input { leaf i { type string; } } }
    notification nt { leaf e { type string; } }
  }
}`
const c13twoDoc = `{"w":[{"k":"full","bi":"a b","em":[null],"an":{"x":[1,2]},"un":"text","en":"b","id":"id1","de":1.25,"bo":true,"bn":"aGk=","u64":18446744073709551615,"ll":[1,2,3],"ls":["a","b"],"c":{"y":3,"l":[{"x":"1","n":1},{"x":"2"}],"cc":{"q":"s"}},"c2":{"z":1}},{"k":"bare"},{"k":"half","c":{"y":4},"c1":"v","un":7}],"two":[{"a":"p","b":1,"v":"v1","three":[{"x":"x1","y":"y1","z":1},{"x":"x1","y":"y2","z":2}]},{"a":"p","b":2},{"a":"q","b":1}],"c":{"in":[{"k1":1,"k2":true},{"k1":1,"k2":false}]}}`

var c13twoMod *meta.Module
var c13seMod *meta.Module

func C13Worker(file string, from int) {
	fh, err := os.Open(file)
	if err != nil {
		fmt.Println("ERR", err)
		return
	}
	defer fh.Close()
	sc := bufio.NewScanner(fh)
	sc.Buffer(make([]byte, 1<<20), 1<<28)
	w := bufio.NewWriter(os.Stdout)
	defer w.Flush()
	if !sc.Scan() {
		return
	}
	hd := strings.Fields(sc.Text())
	yangM, yangG, initial := core.Unhex(hd[0]), core.Unhex(hd[1]), core.Unhex(hd[2])
	c13initial = initial
	m, err := parser.LoadModule(source.Any(source.Named("m", strings.NewReader(yangM)), source.Named("g", strings.NewReader(yangG)), source.Named("ms", strings.NewReader(c15submodule))), "m")
	if err != nil {
		fmt.Fprintln(w, "SCHEMA-ERR", err)
		return
	}
	newStore := func() (map[string]interface{}, *node.Browser) {
		store := map[string]interface{}{}
		b := node.NewBrowser(m, nodeutil.ReflectChild(store))
		n, _ := nodeutil.ReadJSON(initial)
		if err := b.Root().UpsertFrom(n); err != nil {
			fmt.Fprintln(w, "INIT-ERR", err)
		}
		return store, b
	}
	_, b := newStore()
	vals := c13values()
	i := -1
	for sc.Scan() {
		i++
		if i < from {
			continue
		}
		f := strings.Fields(sc.Text())
		if len(f) < 3 {
			continue
		}
		kind, a, bb := f[0], core.Unhex(f[1]), core.Unhex(f[2])
		fmt.Fprintf(w, "#%d begin\n", i)
		w.Flush()
		done := make(chan string, 1)
		go func() {
			res := c13do(b, kind, a, bb, vals)
			after := c13do(b, "read", "", "", vals)
			if after != "ok" {
				// a store left unreadable: start the next requests from a fresh one, the finding is reported
				_, b = newStore()
			}
			done <- res + " " + after
		}()
		select {
		case r := <-done:
			fmt.Fprintf(w, "#%d %s\n", i, r)
		case <-time.After(20 * time.Second):
			fmt.Fprintf(w, "#%d HANG -\n", i)
			w.Flush()
			os.Exit(3)
		}
		w.Flush()
	}
}

func c13do(b *node.Browser, kind, a, bb string, vals map[string]interface{}) (res string) {
	defer func() {
		if r := recover(); r != nil {
			res = "PANIC:" + strings.ReplaceAll(strings.ReplaceAll(short(fmt.Sprint(r)), "\n", "_"), " ", "_")
		}
	}()
	outcome := func(err error) string {
		if err != nil {
			return "error"
		}
		return "ok"
	}
	switch kind {
	case "read":
		_, err := nodeutil.WriteJSON(b.Root())
		return outcome(err)
	case "json-upsert", "json-insert", "json-update", "json-replace":
		sel, err := b.Root().Find(a)
		if err != nil || sel == nil {
			return "error"
		}
		n, err := nodeutil.ReadJSON(bb)
		if err != nil {
			return "error"
		}
		switch kind {
		case "json-upsert":
			err = sel.UpsertFrom(n)
		case "json-insert":
			err = sel.InsertFrom(n)
		case "json-update":
			err = sel.UpdateFrom(n)
		case "json-replace":
			err = sel.ReplaceFrom(n)
		}
		return outcome(err)
	case "xml-upsert":
		sel, err := b.Root().Find(a)
		if err != nil || sel == nil {
			return "error"
		}
		n, err := nodeutil.ReadXMLDoc(strings.NewReader(bb))
		if err != nil {
			return "error"
		}
		return outcome(sel.UpsertFrom(n))
	case "find":
		sel, err := b.Root().Find(a)
		if err != nil {
			return "error"
		}
		if sel == nil {
			return "ok"
		}
		if meta.IsLeaf(sel.Meta()) {
			_, err = sel.Get()
			return outcome(err)
		}
		_, err = nodeutil.WriteJSON(sel)
		if err == nil {
			_, err = nodeutil.WriteXML(sel)
		}
		return outcome(err)
	case "find2":
		sel, err := b.Root().Find(a)
		if err != nil || sel == nil {
			return "error"
		}
		sel, err = sel.Find(bb)
		if err != nil {
			return "error"
		}
		if sel == nil {
			return "ok"
		}
		if meta.IsLeaf(sel.Meta()) {
			_, err = sel.Get()
			return outcome(err)
		}
		_, err = nodeutil.WriteJSON(sel)
		return outcome(err)
	case "jfind":
		// the same path against a browser that reads the JSON document directly
		n, err := nodeutil.ReadJSON(c13initial)
		if err != nil {
			return "error"
		}
		sel, err := node.NewBrowser(b.Meta, n).Root().Find(a)
		if err != nil {
			return "error"
		}
		if sel == nil {
			return "ok"
		}
		if meta.IsLeaf(sel.Meta()) {
			_, err = sel.Get()
			return outcome(err)
		}
		_, err = nodeutil.WriteJSON(sel)
		return outcome(err)
	case "jfind2":
		if c13twoMod == nil {
			m, err := parser.LoadModuleFromString(nil, c13twoYang)
			if err != nil {
				return "PANIC:two-module-does-not-load"
			}
			c13twoMod = m
		}
		n, err := nodeutil.ReadJSON(c13twoDoc)
		if err != nil {
			return "error"
		}
		sel, err := node.NewBrowser(c13twoMod, n).Root().Find(a)
		if err != nil {
			return "error"
		}
		if sel == nil {
			return "ok"
		}
		_, err = nodeutil.WriteJSON(sel)
		return outcome(err)
	case "jget", "jdel":
		if c13twoMod == nil {
			m, err := parser.LoadModuleFromString(nil, c13twoYang)
			if err != nil {
				return "PANIC:two-module-does-not-load"
			}
			c13twoMod = m
		}
		if kind == "jget" {
			n, err := nodeutil.ReadJSON(c13twoDoc)
			if err != nil {
				return "error"
			}
			_, err = node.NewBrowser(c13twoMod, n).Root().GetValue(a)
			return outcome(err)
		}
		var store map[string]interface{}
		if err := json.Unmarshal([]byte(c13twoDoc), &store); err != nil {
			return "error"
		}
		// (encoding/json turned the 64-bit value into a float)
		store["w"].([]interface{})[0].(map[string]interface{})["u64"] = uint64(18446744073709551615)
		root := node.NewBrowser(c13twoMod, nodeutil.ReflectChild(store)).Root()
		sel, err := root.Find(a)
		if err != nil {
			return "error"
		}
		if sel == nil {
			return "ok"
		}
		derr := sel.Delete()
		if _, rerr := nodeutil.WriteJSON(root); rerr != nil {
			return "PANIC:store_unreadable_after_delete:" + strings.ReplaceAll(short(rerr.Error()), " ", "_")
		}
		return outcome(derr)
	case "modupsert":
		// a schema of its own (a: module text) and a document (bb) written into a nodeutil.Node over maps and read back
		m, err := parser.LoadModuleFromString(nil, a)
		if err != nil {
			return "error"
		}
		var n node.Node
		doc, findPath := bb, ""
		if k := strings.Index(bb, " ||| "); k >= 0 {
			doc, findPath = bb[:k], bb[k+5:]
		}
		n, err = nodeutil.ReadJSON(doc)
		if err != nil {
			return "error"
		}
		for _, backend := range []string{"node", "reflect"} {
			var store node.Node = &nodeutil.Node{Object: map[string]interface{}{}}
			if backend == "reflect" {
				store = nodeutil.ReflectChild(map[string]interface{}{})
				if n, err = nodeutil.ReadJSON(doc); err != nil {
					return "error"
				}
			}
			root := node.NewBrowser(m, store).Root()
			if err := root.UpsertFrom(n); err != nil {
				continue
			}
			if _, err = nodeutil.WriteJSON(root); err != nil {
				continue
			}
			if findPath != "" {
				if sel, ferr := root.Find(findPath); ferr == nil && sel != nil {
					nodeutil.WriteJSON(sel)
				}
			}
		}
		return "ok"
	case "sfind":
		// a struct-backed store (nodeutil.Reflect over Go structs) whose list holds an entry with an empty key field
		if c13seMod == nil {
			m, err := parser.LoadModuleFromString(nil, `module se { namespace "urn:se"; prefix se; revision 2020-01-01; list l { key k; leaf k { type string; } leaf v { type int32; } } }`)
			if err != nil {
				return "PANIC:se-module-does-not-load"
			}
			c13seMod = m
		}
		item := reflect.StructOf([]reflect.StructField{{Name: "K", Type: reflect.TypeOf("")}, {Name: "V", Type: reflect.TypeOf(int64(0))}})
		root := reflect.New(reflect.StructOf([]reflect.StructField{{Name: "L", Type: reflect.SliceOf(item)}}))
		sl := reflect.MakeSlice(reflect.SliceOf(item), 3, 3)
		sl.Index(0).Field(0).SetString("b")
		sl.Index(1).Field(0).SetString(bb) // the second entry's key: empty in the interesting case
		sl.Index(1).Field(1).SetInt(5)
		sl.Index(2).Field(0).SetString("a")
		root.Elem().Field(0).Set(sl)
		sel, err := node.NewBrowser(c13seMod, nodeutil.ReflectChild(root.Interface())).Root().Find(a)
		if err != nil {
			return "error"
		}
		if sel == nil {
			return "ok"
		}
		_, err = nodeutil.WriteJSON(sel)
		return outcome(err)
	case "supsert":
		// a document (a) written into an empty struct-backed store, which must still be readable afterwards
		if c13seMod == nil {
			m, err := parser.LoadModuleFromString(nil, `module se { namespace "urn:se"; prefix se; revision 2020-01-01; list l { key k; leaf k { type string; } leaf v { type int32; } } }`)
			if err != nil {
				return "PANIC:se-module-does-not-load"
			}
			c13seMod = m
		}
		for _, ptr := range []bool{false, true} {
			item := reflect.StructOf([]reflect.StructField{{Name: "K", Type: reflect.TypeOf("")}, {Name: "V", Type: reflect.TypeOf(int64(0))}})
			var elem reflect.Type = item
			if ptr {
				elem = reflect.PtrTo(item)
			}
			root := reflect.New(reflect.StructOf([]reflect.StructField{{Name: "L", Type: reflect.SliceOf(elem)}}))
			n, err := nodeutil.ReadJSON(a)
			if err != nil {
				return "error"
			}
			br := node.NewBrowser(c13seMod, nodeutil.ReflectChild(root.Interface()))
			uerr := br.Root().UpsertFrom(n)
			if _, rerr := nodeutil.WriteJSON(br.Root()); rerr != nil && uerr == nil {
				return "PANIC:accepted_but_the_store_cannot_be_read_afterwards:" + strings.ReplaceAll(short(rerr.Error()), " ", "_")
			}
		}
		return "ok"
	case "setvalue":
		sel, err := b.Root().Find(a)
		if err != nil || sel == nil {
			return "error"
		}
		return outcome(sel.SetValue(vals[bb]))
	}
	return "bad-kind"
}

// ---- request generation

// documents that disagree with the schema at one position: `doc` is the valid document as Go data
func c13mismatches(sc *c15schema, kids []*gen.SNode, doc map[string]interface{}, path string, out *[]c13req, root map[string]interface{}) {
	// nodes of a choice are only touched where the document has them: adding a node of another case would
	// just be data of a case that is not chosen
	inChoice := c13inChoice
	kids, _ = gen.Flatten(kids, gen.EmptyBody(kids))
	emit := func(desc string, must string) {
		b, _ := json.Marshal(root)
		*out = append(*out, c13req{Kind: "json-upsert", A: "", B: string(b), Desc: desc, Must: must})
	}
	for _, s := range kids {
		orig, had := doc[s.Name]
		if inChoice[s.Name] && !had {
			continue
		}
		at := path + "/" + s.Name
		switch s.Kind {
		case "leaf":
			isList := sc.lists[s.Name]
			for _, alt := range []struct {
				name string
				v    interface{}
				must string
			}{{"an object where a leaf is declared", map[string]interface{}{"x": 1}, "error"}, {"an array of objects where a leaf is declared", []interface{}{map[string]interface{}{}}, "error"},
				{"a nested array where a leaf is declared", []interface{}{[]interface{}{1}}, ""}, {"null for a leaf", nil, ""},
				{"an array holding null where a leaf is declared", []interface{}{nil, "a"}, ""}, {"an array of one null where a leaf is declared", []interface{}{nil}, ""}} {
				doc[s.Name] = alt.v
				must := alt.must
				if sc.types[s.Name].name == "empty" {
					must = "" // a leaf of type empty has no value to disagree with: anything non-null sets it
				}
				emit(alt.name+" at "+at, must)
			}
			if !isList {
				doc[s.Name] = []interface{}{"a", "b"}
				emit("an array where a single leaf is declared at "+at, "")
			}
		case "cont":
			for _, alt := range []struct {
				name string
				v    interface{}
			}{{"a scalar where a container is declared", "scalar"}, {"a number where a container is declared", 5}, {"an array where a container is declared", []interface{}{1, 2}},
				{"an array of objects where a container is declared", []interface{}{map[string]interface{}{}}}, {"true where a container is declared", true}} {
				doc[s.Name] = alt.v
				emit(alt.name+" at "+at, "error")
			}
			doc[s.Name] = nil
			emit("null for a container at "+at, "")
			if sub, ok := orig.(map[string]interface{}); ok {
				doc[s.Name] = orig
				c13mismatches(sc, s.Kids, sub, at, out, root)
			}
		case "list":
			for _, alt := range []struct {
				name string
				v    interface{}
			}{{"an object where a list is declared", map[string]interface{}{s.Kids[0].Name: "k"}}, {"a scalar where a list is declared", "scalar"}, {"an array of scalars where a list is declared", []interface{}{1, "a"}},
				{"an array of arrays where a list is declared", []interface{}{[]interface{}{}}}, {"an array with null where a list is declared", []interface{}{nil}}} {
				doc[s.Name] = alt.v
				emit(alt.name+" at "+at, "error")
			}
			doc[s.Name] = []interface{}{map[string]interface{}{"nokey-" + s.Name: 1}}
			emit("a list entry without its key at "+at, "error")
			doc[s.Name] = []interface{}{map[string]interface{}{s.Kids[0].Name: map[string]interface{}{"deep": 1}}}
			emit("a list entry whose key is an object at "+at, "error")
			if arr, ok := orig.([]interface{}); ok && len(arr) > 0 {
				if sub, ok := arr[0].(map[string]interface{}); ok {
					doc[s.Name] = orig
					c13mismatches(sc, s.Kids, sub, at, out, root)
				}
			}
		}
		if had {
			doc[s.Name] = orig
		} else {
			delete(doc, s.Name)
		}
	}
}

// names (unique per schema) of the nodes that sit in a case of some choice, at any depth
var c13inChoice map[string]bool

func c13markChoices(ks []*gen.SNode, inside bool) {
	for _, k := range ks {
		if k.Kind == "choice" {
			for _, cs := range k.Cases {
				c13markChoices(cs.Kids, true)
			}
			continue
		}
		if inside {
			c13inChoice[k.Name] = true
		}
		// below a container or list the nodes are their own matter again
		c13markChoices(k.Kids, false)
	}
}

func c13jsonTokens(s string) []string {
	var out []string
	i := 0
	for i < len(s) {
		switch ch := s[i]; {
		case ch == '"':
			j := i + 1
			for j < len(s) && s[j] != '"' {
				if s[j] == '\\' {
					j++
				}
				j++
			}
			out = append(out, s[i:min2(j+1, len(s))])
			i = j + 1
		case strings.ContainsRune("{}[],:", rune(ch)):
			out = append(out, string(ch))
			i++
		default:
			j := i
			for j < len(s) && !strings.ContainsRune("{}[],:\"", rune(s[j])) {
				j++
			}
			out = append(out, s[i:j])
			i = j
		}
	}
	return out
}

func min2(a, b int) int {
	if a < b {
		return a
	}
	return b
}

type c13KRow struct {
	K interface{}
	V string
}
type c13KRoot struct {
	L []*c13KRow
}

// keyed access (load, Find by key, read, delete, walk) to a list whose key is of every kind of type, on the map-,
// slice- and struct-backed nodes: refusing a field type is an answer, a panic is not
func c13keyTypes(c *core.Ctx) {
	for _, kt := range []struct{ typ, k1, k2, find string }{
		{"union { type int32; type string; }", `1`, `"x"`, "l=x"},
		{"bits { bit a; bit b; }", `"a"`, `"a b"`, "l=a%20b"},
		{"binary;", `"AQI="`, `"AwQ="`, "l=AwQ%3D"},
		{"enumeration { enum one; enum two; }", `"one"`, `"two"`, "l=two"},
		{"boolean;", `true`, `false`, "l=false"},
		{"decimal64 { fraction-digits 2; }", `1.5`, `2.25`, "l=2.25"},
		{"identityref { base b; }", `"i1"`, `"i2"`, "l=i2"},
		{"uint64;", `1`, `18446744073709551615`, "l=18446744073709551615"},
		{"empty;", `[null]`, `[null]`, "l="},
		{"string;", `""`, `"a/b"`, "l="},
	} {
		y := `module k { namespace "urn:k"; prefix k; revision 2020-01-01; identity b; identity i1 { base b; } identity i2 { base b; } list l { key k; leaf k { type ` + kt.typ + ` } leaf v { type string; } } }`
		m, err := parser.LoadModuleFromString(nil, y)
		if err != nil {
			c.Violation(core.Replay{Kind: "harness", Summary: "c13keyTypes module: " + err.Error(), NoInputFound: true})
			return
		}
		for _, doc := range []string{`{"l":[{"k":` + kt.k1 + `,"v":"1"},{"k":` + kt.k2 + `,"v":"2"}]}`, `{"l":[{"v":"nokey"},{"k":` + kt.k2 + `,"v":"2"}]}`} {
			for _, be := range []string{"node-map", "reflect-map", "node-struct", "reflect-struct"} {
				var steps []string
				e := safeDo(func() error {
					var root node.Node
					switch be {
					case "node-map":
						root = &nodeutil.Node{Object: map[string]interface{}{}}
					case "reflect-map":
						root = nodeutil.ReflectChild(map[string]interface{}{})
					case "node-struct":
						root = &nodeutil.Node{Object: &c13KRoot{}}
					case "reflect-struct":
						root = nodeutil.ReflectChild(&c13KRoot{})
					}
					b := node.NewBrowser(m, root)
					src, err := nodeutil.ReadJSON(doc)
					if err != nil {
						return nil
					}
					steps = append(steps, "load")
					if err := b.Root().UpsertFrom(src); err != nil {
						// what was written before the refusal is still there to be looked at
						steps = append(steps, "refused")
					}
					steps = append(steps, "find")
					if s, err := b.Root().Find(kt.find); err == nil && s != nil {
						steps = append(steps, "read")
						nodeutil.WriteJSON(s)
						steps = append(steps, "delete")
						s.Delete()
					}
					steps = append(steps, "walk")
					if ls, err := b.Root().Find("l"); err == nil && ls != nil {
						it, err := ls.First()
						for n := 0; err == nil && it.Selection != nil && n < 10; n++ {
							it, err = it.Next()
						}
					}
					steps = append(steps, "read-all")
					nodeutil.WriteJSON(b.Root())
					return nil
				})
				c.Evaluations++
				c.Count("key_types", be)
				c.Distinct("keytypes " + be + kt.typ + doc)
				if e != nil {
					c.Violation(core.Replay{Kind: "property-failure", Class: "key-type-" + be, Summary: fmt.Sprintf("%s, list keyed by %s, document %s: %v during %s", be, strings.TrimSuffix(kt.typ, ";"), doc, e, steps[len(steps)-1]),
						Input: map[string]interface{}{"yang": y, "backend": be, "data": doc, "find": kt.find, "steps": steps}, Impl: e.Error(), Spec: "an answer or an error"})
				}
			}
		}
	}
}

func C13(c *core.Ctx) {
	c13keyTypes(c)
	c.Rule = "requests against a valid compiled schema (typed generator: every leaf type, leaf-lists, containers, keyed lists, choices, imported grouping) and a reflection store holding a conforming tree, executed in a child process (a fatal error or hang is observed, not suffered): (a) JSON edit documents that disagree with the schema at every schema position (object/scalar/array/null swapped in for leaf, container and list; entry without key; key that is an object), as upsert; (b) valid JSON documents truncated, with one token deleted/duplicated/replaced, as upsert/insert/update/replace at the root and at inner paths; (c) the XML document of the tree with tokens or bytes mutated and elements swapped, as upsert; (d) Find paths: valid ones, a step below a leaf, a key on a non-list, missing/excess/garbled keys, bad escapes, '..' chains, module-qualified and unknown names, empty and huge segments; (e) query strings and XPath texts for where/filter built from token soup; (f) SetValue of 32 kinds of Go values (nil, all number widths, NaN/Inf, slices, maps, structs, channels, functions …) on every leaf; after every request a full read of the store must succeed. Named shape mismatches must be refused with an error. The JSON shape check is also run in the Lean model and the verdicts compared. non-trivial = request that is not a valid one; distinct by request; directed (c13keyTypes): lists keyed by ten kinds of type (union, bits, binary, enumeration, boolean, decimal64, identityref, uint64, empty, string) with and without an entry that lacks its key, on map-, slice- and struct-backed nodes: load, Find by key, read, delete, walk"
	c.Assumptions = append(c.Assumptions,
		"a hang is 20 s without an answer",
		"the Lean theorems cover the shape verdict of JSON documents against a schema; for every other request kind this check can only exhibit crashes it finds (labelled partial)")
	c.ProofStep("YangVerif.Props.C13")
	if c.Thorough() {
		c.LeanChecker("YangVerif.Props.C13")
	}
	rng := core.NewRng(c.Seed)
	ts := c15types()
	nSchemas := c.N(4, 40)
	for si := 0; si < nSchemas; si++ {
		r := rng.Fork()
		c15seq = 0
		sc := &c15schema{types: map[string]c15type{}, lists: map[string]bool{}, mod: map[string]string{}}
		sc.kids = c15genKids(r, sc, ts, 0, 3+r.Intn(3), "m")
		// every schema also has a leaf-list of each flavour that converts its items differently
		for _, t := range ts {
			if t.name == "enum" || t.name == "int32" || t.name == "string" || t.name == "bits" || t.name == "identityref" || t.name == "union" || t.name == "boolean" || t.name == "decimal64" {
				c15seq++
				nm := fmt.Sprintf("ll%d", c15seq)
				sc.types[nm], sc.mod[nm], sc.lists[nm] = t, "m", true
				sc.kids = append(sc.kids, &gen.SNode{Name: nm, Kind: "leaf", Type: t.yang})
			}
		}
		_, y, err := c15module(sc, ts)
		if err != nil {
			c.Violation(core.Replay{Kind: "harness", Summary: "C13 module does not load: " + err.Error(), Input: y, NoInputFound: true})
			return
		}
		tree := c15data(r, sc, sc.kids, 85)
		docMap, _ := c15expect(sc, sc.kids, tree, false, false, "m", true)
		docB, _ := json.Marshal(docMap)
		doc := string(docB)
		var reqs []c13req
		// (a)
		var round map[string]interface{}
		rdec := json.NewDecoder(strings.NewReader(doc))
		rdec.UseNumber()
		rdec.Decode(&round)
		c13inChoice = map[string]bool{}
		c13markChoices(sc.kids, false)
		c13mismatches(sc, sc.kids, round, "", &reqs, round)
		nShape := len(reqs)
		// paths of containers, entries and leaves of the tree
		var locs []editLoc
		findLocs(sc.kids, tree, "", 0, &locs)
		paths := []string{""}
		var leafPaths []string
		for _, l := range locs {
			paths = append(paths, l.path)
		}
		var walkLeaves func(kids []*gen.SNode, body []*gen.DNode, prefix string)
		walkLeaves = func(kids []*gen.SNode, body []*gen.DNode, prefix string) {
			fk, fb := gen.Flatten(kids, body)
			for i, s := range fk {
				switch s.Kind {
				case "leaf":
					leafPaths = append(leafPaths, prefix+s.Name)
				case "cont":
					if fb[i].Present {
						walkLeaves(s.Kids, fb[i].Kids, prefix+s.Name+"/")
					}
				}
			}
		}
		walkLeaves(sc.kids, tree, "")
		// (b) token mutations of the valid document
		toks := c13jsonTokens(doc)
		for i := 0; i < c.N(40, 400); i++ {
			k := r.Intn(len(toks))
			var mut []string
			switch r.Intn(4) {
			case 0:
				mut = toks[:k]
			case 1:
				mut = append(append([]string{}, toks[:k]...), toks[k+1:]...)
			case 2:
				mut = append(append(append([]string{}, toks[:k+1]...), toks[k]), toks[k+1:]...)
			default:
				mut = append(append(append([]string{}, toks[:k]...), core.Pick(r, []string{"{", "}", "[", "]", ",", ":", "null", "true", "1e999", "-0", "\"\"", "\"x\"", "{}", "[]", "[[]]", "\"\\u0000\"", "\"\\ud800\"", "1.5", "99999999999999999999999", "\x00"})), toks[k+1:]...)
			}
			kind := core.Pick(r, []string{"json-upsert", "json-upsert", "json-insert", "json-update", "json-replace"})
			reqs = append(reqs, c13req{Kind: kind, A: core.Pick(r, paths), B: strings.Join(mut, ""), Desc: "mutated JSON document"})
		}
		for _, kind := range []string{"json-upsert", "json-insert", "json-update", "json-replace"} {
			reqs = append(reqs, c13req{Kind: kind, A: "", B: doc, Desc: "the valid document as " + kind + " at the top"})
			if len(paths) > 1 {
				reqs = append(reqs, c13req{Kind: kind, A: paths[1], B: "{}", Desc: "an empty document as " + kind})
			}
		}
		reqs = append(reqs, c13req{Kind: "json-upsert", A: "", B: strings.Repeat("{\"a\":", 5000) + "1" + strings.Repeat("}", 5000), Desc: "JSON nested 5000 deep"},
			c13req{Kind: "json-upsert", A: "", B: strings.Repeat("[", 100000), Desc: "100000 opening brackets"}, c13req{Kind: "json-upsert", A: "", B: "", Desc: "empty JSON text"},
			c13req{Kind: "json-upsert", A: "", B: "[1,2]", Desc: "top-level array"}, c13req{Kind: "json-upsert", A: "", B: "5", Desc: "top-level number"}, c13req{Kind: "json-upsert", A: "", B: "null", Desc: "top-level null"})
		// (c) XML
		xmlDoc := c13xml(y, doc)
		if xmlDoc != "" {
			for i := 0; i < c.N(30, 300); i++ {
				bs := []byte(xmlDoc)
				pos := r.Intn(len(bs))
				switch r.Intn(4) {
				case 0:
					bs[pos] = byte(r.Intn(256))
				case 1:
					bs = append(bs[:pos:pos], bs[pos+1:]...)
				case 2:
					bs = bs[:pos]
				default:
					bs = append(bs[:pos:pos], append([]byte(core.Pick(r, []string{"<", ">", "</", "/>", "&", "&#x0;", "<![CDATA[", "]]>", "<?x?>", "<!--", "<a>", "</a>", "\x00", " xmlns=\"urn:zz\""})), bs[pos:]...)...)
				}
				reqs = append(reqs, c13req{Kind: "xml-upsert", A: "", B: string(bs), Desc: "mutated XML document"})
			}
			reqs = append(reqs, c13req{Kind: "xml-upsert", A: "", B: strings.Repeat("<a>", 10000) + strings.Repeat("</a>", 10000), Desc: "XML nested 10000 deep"})
		}
		// (d) paths
		pathMuts := []string{"", "/", "//", "..", "../..", "../../../x", ".", "%zz", "%", "a=%zz", "=", "=k", "a==b", "a=,", "a=,,,", "a=k/", "a=k//b", "m:", ":x", "zz:x", "m:m:x", strings.Repeat("a/", 2000), strings.Repeat("x", 100000), "a?", "?", "a?depth", "\x00", "é", "a b", "a\nb", "a=k=k", "?depth=1&depth=2"}
		for _, p := range paths {
			reqs = append(reqs, c13req{Kind: "find", A: p, Desc: "valid path"})
		}
		for _, lp := range leafPaths {
			reqs = append(reqs, c13req{Kind: "find", A: lp, Desc: "valid leaf path"},
				c13req{Kind: "find", A: lp + "/below", Desc: "a step below a leaf", Must: "error"},
				c13req{Kind: "find", A: lp + "=key", Desc: "a key on a leaf", Must: "error"})
		}
		for _, l := range locs {
			if l.kind == "container" {
				reqs = append(reqs, c13req{Kind: "find", A: l.path + "=key", Desc: "a key on a container", Must: "error"})
			} else {
				reqs = append(reqs, c13req{Kind: "find", A: l.path + ",extra,keys", Desc: "more keys than the list has"},
					c13req{Kind: "find", A: strings.SplitN(l.path, "=", 2)[0] + "=", Desc: "an empty key"})
			}
		}
		for i := 0; i < c.N(40, 300); i++ {
			base := core.Pick(r, append(paths, leafPaths...))
			switch r.Intn(3) {
			case 0:
				base += "/" + core.Pick(r, pathMuts)
			case 1:
				base = core.Pick(r, pathMuts) + "/" + base
			default:
				if len(base) > 0 {
					k := r.Intn(len(base))
					base = base[:k] + core.Pick(r, []string{"/", "=", ",", "%", "?", ":", "..", "\x00"}) + base[k:]
				}
			}
			reqs = append(reqs, c13req{Kind: "find", A: base, Desc: "mutated path"})
		}
		// (d2) a second Find from an inner selection: '..' chains shorter and longer than the selection is deep
		for i := 0; i < c.N(40, 300); i++ {
			base := core.Pick(r, append(paths, leafPaths...))
			rel := strings.Repeat("../", r.Intn(7))
			switch r.Intn(4) {
			case 0:
				rel += core.Pick(r, append(paths, leafPaths...))
			case 1:
				rel += sc.kids[r.Intn(len(sc.kids))].Name
			case 2:
				rel = strings.TrimSuffix(rel, "/")
			default:
				rel += core.Pick(r, pathMuts)
			}
			reqs = append(reqs, c13req{Kind: "find2", A: base, B: rel, Desc: "Find from an inner selection"})
		}
		// (d3) the paths against a browser reading the JSON document itself; keys missing, too few, too many
		for _, p := range paths {
			reqs = append(reqs, c13req{Kind: "jfind", A: p, Desc: "valid path, JSON-backed browser"})
			if k := strings.LastIndex(p, "="); k > 0 {
				head, keys := p[:k], strings.Split(p[k+1:], ",")
				reqs = append(reqs, c13req{Kind: "jfind", A: head + "=" + strings.Join(keys[:len(keys)-1], ","), Desc: "fewer key components than the list has keys, JSON-backed browser"},
					c13req{Kind: "jfind", A: p + ",x", Desc: "more key components, JSON-backed browser"},
					c13req{Kind: "jfind", A: head + "=", Desc: "empty key, JSON-backed browser"},
					c13req{Kind: "find", A: head + "=" + strings.Join(keys[:len(keys)-1], ","), Desc: "fewer key components than the list has keys"})
			}
		}
		// an empty step anywhere but at the end, surplus key components: refused, not read as a shorter path
		for _, p := range []string{"/two", "/w=full", "w=full//c", "w=full/c//y", "//", "two=p,1,9", "w=full,x", "c/in=1,true,2", "two=p,1/three=x1,y1,1,1"} {
			reqs = append(reqs, c13req{Kind: "jfind2", A: p, Desc: "empty step or surplus key component", Must: "error"})
		}
		for _, p := range []string{"two", "two=p,1", "two=p", "two=", "two=p,1,9", "two=,", "two=,1", "two=p,", "two=p,x", "two=p,1/three=x1,y1,1", "two=p,1/three=x1,y1",
			"two=p,1/three=x1", "two=p,1/three=", "two=p,1/three=x1,y1,1,1", "two=p,1/three=,,", "two=p,1/three=x1,,1", "two=p,2/three=x1,y1,1", "c/in=1,true", "c/in=1", "c/in=,false",
			"c/in=1,maybe", "c/in=x,true", "two=p,1/v", "two=p/v", "two?where=a%3D'p'", "two=p,1/three?where=z>1", "two?fc.range=!1-2", "two=q,1/three=x"} {
			reqs = append(reqs, c13req{Kind: "jfind2", A: p, Desc: "compound keys, JSON-backed browser"})
		}
		for _, nm := range []string{"k", "bi", "em", "an", "un", "en", "id", "de", "bo", "bn", "u64", "ll", "ls", "c", "c/y", "c/l", "c/l/x", "c/l/n", "c/cc", "c/cc/q", "ch", "c1", "c2", "c2/z", "act", "act/i", "nt", "nt/e", "c/l/x/y", "c/y/z", "k/k"} {
			for _, cmp := range []string{"", "=5", "='a'", "='a b'", "!=0", "<3", ">=1.5", "<='b'", "=true", "='id1'", "=18446744073709551615", "!='aGk='"} {
				reqs = append(reqs, c13req{Kind: "jfind2", A: "w?where=" + url.QueryEscape(nm+cmp), Desc: "where on every kind of node"})
			}
		}
		// operators cut short or doubled, on operands of every literal kind (the list is read afterwards)
		for _, nm := range []string{"k", "un", "de", "u64", "bo", "en", "c/y", "ll"} {
			for _, cmp := range []string{"!5", "!'a'", "! 5", "!", "!!=5", "=!5", "<>5", "=<5", "=>5", "==5", "<<5", ">", "<", "<=", "!=", "!=!", "!1.5", "!true"} {
				reqs = append(reqs, c13req{Kind: "jfind2", A: "w?where=" + url.QueryEscape(nm+cmp), Desc: "where with a cut or doubled operator"})
			}
		}
		// path expressions with groups of different widths next to each other (fields, fc.xfields, the selector of fc.range)
		for _, ex := range []string{"(k;bi)(c)", "(k;bi;em)(c;ll)", "(k;bi)(c;ll;ls)", "c(y;l;cc)(x;q)", "(c;k)(y)(z)", "(((k)))", "(k;(bi;(em;(an))))", "k;;bi", "(k", "k)", "()()", "(;)(;)"} {
			for _, param := range []string{"fields", "fc.xfields"} {
				reqs = append(reqs, c13req{Kind: "jfind2", A: "w?" + param + "=" + url.QueryEscape(ex), Desc: "path expression with groups of different widths"})
			}
			reqs = append(reqs, c13req{Kind: "jfind2", A: "?fc.range=" + url.QueryEscape(ex+"!1-1"), Desc: "fc.range selector with groups of different widths"})
		}
		// fc.range windows: signs, missing and surplus parts, on the target list, a nested list and a list that is not there
		for _, sel := range []string{"w", "two", "c/in", "nosuch", "w/c/l", ""} {
			for _, win := range []string{"-1-", "-1-1", "-5-", "-1", "--1", "1--1", "1-2-3", "-", "--", "1-", "0-0", "2-1", "+1-2", "1-+2", " 1-2", "1 -2", "1.5-2", "1-2.5", "a-b", "0x1-2", "99999999999999999999-1", "1-99999999999999999999", "-0-0", "١-٢"} {
				for _, at := range []string{"", "two=p,1/"} {
					tgt := strings.TrimSuffix(at, "/")
					reqs = append(reqs, c13req{Kind: "jfind2", A: tgt + "?fc.range=" + url.QueryEscape(sel+"!"+win), Desc: "fc.range with a malformed or signed window"})
				}
			}
		}
		// schemas whose groupings use themselves: through a choice only (no data node in between), through a container
		for _, sch := range [][2]string{
			{`grouping g { choice ch { case a { leaf x { type string; } } case b { uses g; } } } container top { uses g; leaf o { type string; } }`, `{"top":{"x":"v"}}`},
			{`grouping g { choice ch { case a { leaf x { type string; } } case b { uses g; } } } container top { uses g; leaf o { type string; } }`, `{"top":{"o":"v"}}`},
			{`grouping g { leaf x { type string; } choice ch { case b { container again { uses g; } } case c { leaf y { type string; } } } } container top { uses g; }`, `{"top":{"x":"v","again":{"x":"w","y":"z"}}}`},
			{`grouping g { leaf x { type string; } choice ch { leaf y { type string; } choice inner { uses g; } } } container top { uses g; }`, `{"top":{"x":"v"}}`},
		} {
			reqs = append(reqs, c13req{Kind: "modupsert", A: "module r { namespace \"urn:r\"; prefix r; revision 2020-01-01; " + sch[0] + " }", B: sch[1], Desc: "upsert under a schema with a recursive grouping"})
		}
		// lists the library has to create in an empty map: without a key, nested in themselves
		for _, sch := range [][2]string{
			{`container top { list nk { leaf v { type string; } } }`, `{"top":{"nk":[{"v":"a"},{"v":"b"}]}}`},
			{`list nk { leaf v { type string; } container c { leaf x { type int32; } } }`, `{"nk":[{"v":"a","c":{"x":1}},{}]}`},
			{`grouping g { list node { key n; leaf n { type string; } uses g; } } container rec { uses g; }`, `{"rec":{"node":[{"n":"a","node":[{"n":"b","node":[{"n":"c"}]}]}]}} ||| rec/node=a/node=b/node=c`},
		} {
			reqs = append(reqs, c13req{Kind: "modupsert", A: "module r { namespace \"urn:r\"; prefix r; revision 2020-01-01; " + sch[0] + " }", B: sch[1], Desc: "upsert of a keyless or self-nested list into an empty map"})
		}
		// selections that are not data nodes: an action, a notification; the root as the target of Delete
		for _, p := range []string{"w=full/act", "w=full/act?depth=1", "w=full/nt", "w=full/act?fields=i"} {
			reqs = append(reqs, c13req{Kind: "jfind2", A: p, Desc: "read of the selection of an action or notification"})
		}
		for _, p := range []string{"", "w=full/act", "w=full/nt"} {
			reqs = append(reqs, c13req{Kind: "jdel", A: p, Desc: "Delete on the root / on an action selection"})
		}
		// GetValue of paths whose containers or entries are absent; Delete on selections of every kind of node
		for _, p := range []string{"w=full/bi", "w=bare/c/y", "w=zz/k", "w=bare/c/l=1/n", "two=p,9/v", "c/in=1,true/k1", "nosuch/x", "w=half/c/cc/q", "w=full/c/l=2/n", "w=full/c/l=9/n", "w=full/an", "w=full/c2/z", "w=half/c2/z", "w", "w=full", "c"} {
			reqs = append(reqs, c13req{Kind: "jget", A: p, Desc: "GetValue along a path with absent or non-leaf steps"})
		}
		for _, p := range []string{"w=full/bi", "w=full/ll", "w=full/c/y", "w=full/k", "w=full/c", "w=full", "w", "w=full/an", "w=half/c1", "w=full/c2", "w=full/c2/z", "two=p,1/three=x1,y1,1", "two=p,1/three=x1,y1,1/z", "c/in=1,true", "c/in=1,true/k2", "c", "w=full/c/l=1", "w=full/c/l=1/n", "w=full/c/l", "w=bare/c"} {
			reqs = append(reqs, c13req{Kind: "jdel", A: p, Desc: "Delete on a selection of every kind of node"})
		}
		for _, doc := range []string{`{"l":[{"v":1}]}`, `{"l":[{"k":"a"},{"v":2}]}`, `{"l":[{"k":"a","v":1},{"k":"b"}]}`, `{"l":[{}]}`, `{"l":[{"k":null,"v":1}]}`} {
			reqs = append(reqs, c13req{Kind: "supsert", A: doc, Desc: "entries without their key into a struct-backed store"})
		}
		for _, key2 := range []string{"", "m", "b"} {
			for _, p := range []string{"l", "l=a", "l=b", "l=", "l=zz", "l?where=v%3D5", "l=a/v"} {
				reqs = append(reqs, c13req{Kind: "sfind", A: p, B: key2, Desc: fmt.Sprintf("struct-backed list whose second entry has the key %q", key2)})
			}
		}
		// (a2) an edit aimed at a list itself (not at its parent): the document must hold the list as an array
		seenList := map[string]bool{}
		for _, l := range locs {
			k := strings.LastIndex(l.path, "=")
			if l.kind == "container" || k < 0 || strings.Contains(l.path[k:], "/") {
				continue
			}
			lp := l.path[:k]
			if seenList[lp] {
				continue
			}
			seenList[lp] = true
			name := lp[strings.LastIndex(lp, "/")+1:]
			for _, shape := range []string{`{"x":1}`, `5`, `"b"`, `true`, `null`, `1.5`, `{}`} {
				for _, kind := range []string{"json-upsert", "json-insert", "json-update"} {
					reqs = append(reqs, c13req{Kind: kind, A: lp, B: fmt.Sprintf(`{%q:%s}`, name, shape), Desc: "list-rooted document whose list member is not an array", Must: "error"})
				}
			}
			reqs = append(reqs, c13req{Kind: "json-upsert", A: lp, B: fmt.Sprintf(`{%q:[]}`, name), Desc: "list-rooted document with an empty array"},
				c13req{Kind: "json-upsert", A: lp, B: `{}`, Desc: "list-rooted document without the list", Must: "error"},
				c13req{Kind: "json-upsert", A: lp, B: fmt.Sprintf(`{%q:[],"other":1}`, name), Desc: "list-rooted document with a second member", Must: "error"})
		}
		// (d4) where/filter expressions along schema paths: containers on the way are absent in some entries
		var wherePaths func(kids []*gen.SNode, at string)
		var relLeaves func(kids []*gen.SNode, prefix string, out *[]string)
		relLeaves = func(kids []*gen.SNode, prefix string, out *[]string) {
			fk, _ := gen.Flatten(kids, gen.EmptyBody(kids))
			for _, s := range fk {
				switch s.Kind {
				case "leaf":
					*out = append(*out, prefix+s.Name)
				case "cont":
					*out = append(*out, prefix+s.Name)
					relLeaves(s.Kids, prefix+s.Name+"/", out)
				case "list":
					*out = append(*out, prefix+s.Name)
				}
			}
		}
		wherePaths = func(kids []*gen.SNode, at string) {
			fk, _ := gen.Flatten(kids, gen.EmptyBody(kids))
			for _, s := range fk {
				switch s.Kind {
				case "cont":
					wherePaths(s.Kids, at+s.Name+"/")
				case "list":
					var rel []string
					relLeaves(s.Kids, "", &rel)
					for _, rp := range rel {
						for _, cmp := range []string{"", "=5", "='x'", "!=0", "<3", ">=1.5"} {
							reqs = append(reqs, c13req{Kind: "find", A: at + s.Name + "?where=" + url.QueryEscape(rp+cmp), Desc: "where along a schema path"})
						}
						reqs = append(reqs, c13req{Kind: "find", A: at + s.Name + "?where=" + url.QueryEscape(rp+"/nosuch=1"), Desc: "where below a schema path"})
					}
				}
			}
		}
		wherePaths(sc.kids, "")
		for _, n := range []int{10, 200, 255, 256, 257, 300, 5000} {
			reqs = append(reqs, c13req{Kind: "find", A: core.Pick(r, paths) + "?where=" + url.QueryEscape(strings.Repeat("a/", n)+"b=1"), Desc: fmt.Sprintf("where with %d path segments", n+1)})
		}
		for _, x := range []string{"ab=-\u20ac", "a=-", "a=-x", "a=1é", "a='é", "a=é", "é=1", "a=1.", "a=.5", "a=--1", "a=-1-", "a= -1", "a=- 1", "a<-é"} {
			reqs = append(reqs, c13req{Kind: "find", A: core.Pick(r, paths) + "?where=" + url.QueryEscape(strings.ReplaceAll(x, "\\u20ac", "€")), Desc: "where with a number-like literal"})
		}
		// (e) queries and xpath texts
		soup := []string{"a", "b", sc.kids[0].Name, "/", "=", "!=", "<", ">", "<=", ">=", "'x'", "5", "-5", "1.5", "(", ")", " ", "and", "or", "not", "*", "..", "[", "]", "'", "\"", ":", "m:", "@", "|", "//", "1e9", "99999999999999999999", "\x00", "é"}
		for i := 0; i < c.N(60, 600); i++ {
			var b strings.Builder
			for j, n := 0, 1+r.Intn(7); j < n; j++ {
				b.WriteString(core.Pick(r, soup))
			}
			param := core.Pick(r, []string{"where", "filter", "fields", "fc.xfields", "fc.range", "depth", "content", "with-defaults", "fc.max-node-count", "unknown"})
			p := core.Pick(r, paths)
			reqs = append(reqs, c13req{Kind: "find", A: p + "?" + param + "=" + strings.ReplaceAll(strings.ReplaceAll(b.String(), "&", "%26"), "#", "%23"), Desc: "token soup in ?" + param})
		}
		// (f) SetValue
		var vnames []string
		for n := range c13values() {
			vnames = append(vnames, n)
		}
		sort.Strings(vnames)
		for _, lp := range leafPaths {
			for _, vn := range vnames {
				if len(leafPaths) > 6 && r.Chance(60) && !c.Thorough() {
					continue
				}
				reqs = append(reqs, c13req{Kind: "setvalue", A: lp, B: vn, Desc: "SetValue(" + vn + ")"})
			}
		}
		// run
		tmp, terr := os.CreateTemp("", "c13-*.txt")
		if terr != nil {
			c.Violation(core.Replay{Kind: "harness", Summary: terr.Error(), NoInputFound: true})
			return
		}
		w := bufio.NewWriter(tmp)
		fmt.Fprintf(w, "%s %s %s\n", core.Hex(y), core.Hex(c15imported), core.Hex(doc))
		for _, rq := range reqs {
			fmt.Fprintf(w, "%s %s %s\n", rq.Kind, core.Hex(rq.A), core.Hex(rq.B))
		}
		w.Flush()
		tmp.Close()
		results := make([]string, len(reqs))
		self, _ := os.Executable()
		from := 0
		for from < len(reqs) {
			cmd := exec.Command(self, "--c13-worker", tmp.Name(), fmt.Sprint(from))
			cmd.Env = append(os.Environ(), "GOMEMLIMIT=3GiB")
			out, _ := cmd.Output()
			last, begun := from-1, -1
			for _, ln := range strings.Split(string(out), "\n") {
				if strings.HasPrefix(ln, "SCHEMA-ERR") || strings.HasPrefix(ln, "INIT-ERR") {
					c.Violation(core.Replay{Kind: "harness", Summary: "C13 worker: " + ln, Input: y, NoInputFound: true})
					last = len(reqs) // the worker cannot start: no point in starting it again
				}
				if !strings.HasPrefix(ln, "#") {
					continue
				}
				sp := strings.SplitN(ln[1:], " ", 2)
				var idx int
				fmt.Sscan(sp[0], &idx)
				if len(sp) > 1 && sp[1] == "begin" {
					begun = idx
					continue
				}
				if idx >= 0 && idx < len(results) && len(sp) > 1 {
					results[idx] = sp[1]
					last = idx
				}
			}
			if last+1 >= len(reqs) {
				break
			}
			if begun > last {
				if results[begun] == "" {
					results[begun] = "CRASH -"
				}
				from = begun + 1
			} else {
				from = last + 1
			}
		}
		os.Remove(tmp.Name())
		for i, rq := range reqs {
			res := strings.Fields(results[i] + " ? ?")
			c.Evaluations++
			c.Count("request", rq.Kind)
			c.Count("outcome", strings.SplitN(res[0], ":", 2)[0])
			if rq.Desc != "valid path" && rq.Desc != "valid leaf path" {
				c.Distinct(fmt.Sprint(si, i))
			}
			input := map[string]interface{}{"yang": y, "stored": doc, "request": rq.Kind, "path_or_value": rq.A, "document_or_kind": rq.B}
			if res[0] != "ok" && res[0] != "error" {
				c.Violation(core.Replay{Kind: "property-failure", Class: strings.SplitN(res[0], ":", 2)[0] + "-" + rq.Kind, Summary: fmt.Sprintf("%s (%s) at %q: %s", rq.Kind, rq.Desc, rq.A, short(results[i])), Input: input})
				continue
			}
			if res[1] != "ok" {
				c.Violation(core.Replay{Kind: "property-failure", Class: "unreadable-after-" + rq.Kind, Summary: fmt.Sprintf("after %s (%s) the stored data cannot be read any more: %s", rq.Kind, rq.Desc, res[1]), Input: input})
				continue
			}
			if rq.Must == "error" && res[0] != "error" {
				c.Violation(core.Replay{Kind: "property-failure", Class: "accepted-" + strings.Join(strings.Fields(rq.Desc)[:3], "-"), Summary: fmt.Sprintf("%s: accepted without an error (%s %q)", rq.Desc, rq.Kind, short(rq.B)), Input: input})
			}
		}
		// the shape verdict of the Lean model on the same documents
		var lines []string
		var idx []int
		stoks := strings.Join(c13schemaToks(sc, sc.kids), " ")
		for i := 0; i < nShape; i++ {
			var v interface{}
			dec := json.NewDecoder(strings.NewReader(reqs[i].B))
			dec.UseNumber()
			if dec.Decode(&v) != nil {
				continue
			}
			lines = append(lines, "c13 shape "+stoks+" "+strings.Join(c13jvalToks(v), " "))
			idx = append(idx, i)
		}
		// the path verdict of the Lean model on the plain request paths (no query, no escapes, no module prefix, no '..')
		nShapeLines := len(lines)
		for i, rq := range reqs {
			if rq.Kind != "find" || strings.ContainsAny(rq.A, "?%:+\x00") || strings.Contains(rq.A, "..") || len(rq.A) > 2000 || rq.A == "" {
				continue
			}
			var toks []string
			n := 0
			for _, seg := range strings.Split(rq.A, "/") {
				if seg == "" {
					break
				}
				n++
				if eq := strings.Index(seg, "="); eq >= 0 {
					keys := strings.Split(seg[eq+1:], ",")
					toks = append(toks, core.Hex(seg[:eq]), "1", fmt.Sprint(len(keys)))
					for _, k := range keys {
						toks = append(toks, core.Hex(k))
					}
				} else {
					toks = append(toks, core.Hex(seg), "0", "0")
				}
			}
			lines = append(lines, "c13 path "+stoks+" "+fmt.Sprint(n)+" "+strings.Join(toks, " "))
			idx = append(idx, i)
		}
		outs, derr := core.RunDriver(lines)
		if derr != nil {
			c.ProofBroken = append(c.ProofBroken, derr.Error())
			return
		}
		for k, o := range outs {
			i := idx[k]
			lib := strings.Fields(results[i] + " ?")[0]
			if k >= nShapeLines {
				// one direction: what the model refuses the library must refuse (the library may refuse more, e.g. a
				// key text that does not convert)
				m := strings.TrimSpace(o)
				c.Count("path_model", m+"/"+lib)
				if m != "ok" && m != "refused" {
					c.Count("driver", "path:"+short(o))
				} else if m == "refused" && lib == "ok" {
					c.Violation(core.Replay{Kind: "correspondence", Class: "path-verdict", Summary: fmt.Sprintf("%s %q: library %s; the path model says refused", reqs[i].Desc, short(reqs[i].A), lib),
						Input: map[string]interface{}{"yang": y, "path": reqs[i].A}, Impl: lib, Model: m})
				}
				continue
			}
			c.Count("shape_model", strings.TrimSpace(o))
			want := map[string]string{"ok": "ok", "refused": "error"}[strings.TrimSpace(o)]
			if want == "" {
				c.Count("driver", "shape:"+short(o))
				continue
			}
			if lib != want && (lib == "ok" || lib == "error") {
				c.Violation(core.Replay{Kind: "correspondence", Class: "shape-verdict", Summary: fmt.Sprintf("%s: library %s; the shape model says %s", reqs[i].Desc, lib, strings.TrimSpace(o)),
					Input: map[string]interface{}{"yang": y, "document": reqs[i].B}, Impl: lib, Model: strings.TrimSpace(o)})
			}
		}
	}
}

func c13schemaToks(sc *c15schema, kids []*gen.SNode) []string {
	kids, _ = gen.Flatten(kids, gen.EmptyBody(kids))
	out := []string{fmt.Sprint(len(kids))}
	for _, s := range kids {
		switch s.Kind {
		case "leaf":
			l := "0"
			if sc.lists[s.Name] {
				l = "1"
			}
			if sc.types[s.Name].name == "empty" {
				l = "2"
			}
			out = append(out, "L", core.Hex(s.Name), l)
		case "cont":
			out = append(append(out, "C", core.Hex(s.Name)), c13schemaToks(sc, s.Kids)...)
		case "list":
			out = append(append(out, "K", core.Hex(s.Name), "1", core.Hex(s.Kids[0].Name)), c13schemaToks(sc, s.Kids)...)
		}
	}
	return out
}

func c13jvalToks(v interface{}) []string {
	switch x := v.(type) {
	case nil:
		return []string{"z"}
	case string:
		return []string{"s"}
	case json.Number:
		return []string{"n"}
	case bool:
		return []string{"t"}
	case []interface{}:
		out := []string{"a", fmt.Sprint(len(x))}
		for _, it := range x {
			out = append(out, c13jvalToks(it)...)
		}
		return out
	case map[string]interface{}:
		out := []string{"o", fmt.Sprint(len(x))}
		var names []string
		for n := range x {
			names = append(names, n)
		}
		sort.Strings(names)
		for _, n := range names {
			out = append(append(out, core.Hex(n)), c13jvalToks(x[n])...)
		}
		return out
	}
	return []string{"s"}
}

// the XML document of a JSON document, through the library itself
func c13xml(y, doc string) (out string) {
	defer func() { recover() }()
	m, err := parser.LoadModule(source.Any(source.Named("m", strings.NewReader(y)), source.Named("g", strings.NewReader(c15imported)), source.Named("ms", strings.NewReader(c15submodule))), "m")
	if err != nil {
		return ""
	}
	n, _ := nodeutil.ReadJSON(doc)
	out, _ = nodeutil.WriteXMLDoc(node.NewBrowser(m, n).Root(), false)
	return out
}
