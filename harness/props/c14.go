package props

import (
	"bufio"
	"errors"
	"fmt"
	"io"
	"os"
	"os/exec"
	"path/filepath"
	"sort"
	"strings"
	"time"

	"verif/harness/core"

	"github.com/freeconf/yang/meta"
	"github.com/freeconf/yang/parser"
	"github.com/freeconf/yang/source"
)

func init() { Registry["C14"] = C14 }

// one load: the files the opener can supply (name → text), faults, and the module to load
type c14case struct {
	Desc  string
	Files map[string]string
	Fault map[string]string // name → "missing" | "open-error" | "read-error"
	Main  string
}

type errReader struct{ n int }

func (e *errReader) Read(p []byte) (int, error) {
	if e.n > 0 {
		e.n--
		p[0] = ' '
		return 1, nil
	}
	return 0, errors.New("injected read error")
}

func (cs c14case) opener() source.Opener {
	return func(name string, ext string) (io.Reader, error) {
		switch cs.Fault[name] {
		case "missing":
			return nil, nil
		case "open-error":
			return nil, errors.New("injected open error")
		case "read-error":
			return &errReader{n: 10}, nil
		}
		if t, ok := cs.Files[name]; ok {
			return strings.NewReader(t), nil
		}
		return nil, nil
	}
}

func c14encode(cs c14case) string {
	var b strings.Builder
	b.WriteString(core.Hex(cs.Main))
	var names []string
	for n := range cs.Files {
		names = append(names, n)
	}
	sort.Strings(names)
	for _, n := range names {
		b.WriteString(" F " + core.Hex(n) + " " + core.Hex(cs.Files[n]))
	}
	names = nil
	for n := range cs.Fault {
		names = append(names, n)
	}
	sort.Strings(names)
	for _, n := range names {
		b.WriteString(" X " + core.Hex(n) + " " + cs.Fault[n])
	}
	return b.String()
}

func c14decode(line string) c14case {
	f := strings.Fields(line)
	cs := c14case{Files: map[string]string{}, Fault: map[string]string{}}
	if len(f) == 0 {
		return cs
	}
	cs.Main = core.Unhex(f[0])
	for i := 1; i+2 < len(f)+0 && i+2 <= len(f)-0; i += 3 {
		if i+2 >= len(f) {
			break
		}
		switch f[i] {
		case "F":
			cs.Files[core.Unhex(f[i+1])] = core.Unhex(f[i+2])
		case "X":
			cs.Fault[core.Unhex(f[i+1])] = f[i+2]
		}
	}
	return cs
}

// C14Worker loads every case of the file, one per line, and prints one result line per case.  It runs in a
// child process: a stack overflow or a hang takes the child down, not the check.
func C14Worker(file string, from int) {
	fh, err := os.Open(file)
	if err != nil {
		fmt.Println("ERR", err)
		return
	}
	defer fh.Close()
	sc := bufio.NewScanner(fh)
	sc.Buffer(make([]byte, 1<<20), 1<<28)
	w := bufio.NewWriter(os.Stdout)
	defer w.Flush()
	i := -1
	for sc.Scan() {
		i++
		if i < from {
			continue
		}
		cs := c14decode(sc.Text())
		fmt.Fprintf(w, "#%d begin\n", i)
		w.Flush()
		done := make(chan string, 1)
		go func() {
			done <- c14load(cs)
		}()
		select {
		case r := <-done:
			fmt.Fprintf(w, "#%d %s\n", i, r)
		case <-time.After(20 * time.Second):
			fmt.Fprintf(w, "#%d HANG\n", i)
			w.Flush()
			os.Exit(3)
		}
		w.Flush()
	}
}

func c14load(cs c14case) (res string) {
	defer func() {
		if r := recover(); r != nil {
			res = "PANIC " + strings.ReplaceAll(short(fmt.Sprint(r)), "\n", " ")
		}
	}()
	var m *meta.Module
	var err error
	if cs.Fault["*"] == "no-opener" {
		// the text alone, as most callers that have one module do
		m, err = parser.LoadModuleFromString(nil, cs.Files[cs.Main])
	} else {
		m, err = parser.LoadModule(cs.opener(), cs.Main)
	}
	if err != nil {
		if m != nil {
			// "a module or an error": what comes with an error is not compiled
			return "module-and-error"
		}
		if strings.TrimSpace(err.Error()) == "" {
			return "error-without-text"
		}
		return "error"
	}
	if m == nil {
		return "nil-module-without-error"
	}
	// walking the result through the public accessors must not crash either
	lines := DumpModule(m, true).Lines()
	walk(m)
	return fmt.Sprintf("ok %d", len(lines))
}

func walk(m *meta.Module) {
	// every definition object once: a schema with recursive groupings contains itself
	seen := map[meta.Meta]bool{}
	var rec func(d meta.Meta, depth int)
	rec = func(d meta.Meta, depth int) {
		if depth > 200 || seen[d] {
			return
		}
		seen[d] = true
		if h, ok := d.(meta.HasDataDefinitions); ok {
			for _, k := range h.DataDefinitions() {
				_ = k.Ident()
				if l, ok := k.(meta.Leafable); ok {
					t := l.Type()
					_ = t.Format()
					_ = l.HasDefault()
					if l.HasDefault() {
						_ = l.DefaultValue()
					}
					// what a leafref leads to is a type: following it ends
					for rt, hops := t, 0; rt.Format().Single().String() == "leafref"; hops++ {
						if hops > 1000 {
							panic("a leafref leads back to itself: following Type().Resolve() does not end")
						}
						rt = rt.Resolve()
					}
					if len(t.Base()) > 0 {
						// a search of everything derived from the bases ends
						_ = meta.FindIdentity(t.Base(), "no such identity")
					}
				}
				rec(k, depth+1)
			}
		}
		if c, ok := d.(*meta.Choice); ok {
			for _, id := range c.CaseIdents() {
				rec(c.Cases()[id], depth+1)
			}
		}
		if h, ok := d.(meta.HasActions); ok {
			for _, a := range h.Actions() {
				if a.Input() != nil {
					rec(a.Input(), depth+1)
				}
				if a.Output() != nil {
					rec(a.Output(), depth+1)
				}
			}
		}
		if h, ok := d.(meta.HasNotifications); ok {
			for _, n := range h.Notifications() {
				rec(n, depth+1)
			}
		}
	}
	rec(m, 0)
}

// ---- cases

func c14tokens(text string) []string {
	// split into tokens keeping quoted strings and comments whole; enough for token-level mutation
	var out []string
	i := 0
	for i < len(text) {
		ch := text[i]
		switch {
		case ch == ' ' || ch == '\t' || ch == '\n' || ch == '\r':
			j := i
			for j < len(text) && strings.ContainsRune(" \t\n\r", rune(text[j])) {
				j++
			}
			out = append(out, text[i:j])
			i = j
		case ch == '"' || ch == '\'':
			j := i + 1
			for j < len(text) && text[j] != ch {
				if text[j] == '\\' && ch == '"' {
					j++
				}
				j++
			}
			if j < len(text) {
				j++
			}
			out = append(out, text[i:j])
			i = j
		case ch == '{' || ch == '}' || ch == ';':
			out = append(out, string(ch))
			i++
		default:
			j := i
			for j < len(text) && !strings.ContainsRune(" \t\n\r{};\"'", rune(text[j])) {
				j++
			}
			out = append(out, text[i:j])
			i = j
		}
	}
	return out
}

var c14subst = []string{"{", "}", ";", "\"", "'", "+", "module", "container", "leaf", "list", "type", "uses", "grouping", "augment", "import", "include", "key", "string", "0", "-1",
	"99999999999999999999", "\"\"", "'x'", "/*", "//", "*/", "m:e", "a:b:c", "..", "/", "\\", "\x00", "é", "typedef", "choice", "case", "rpc", "input", "notification", "deviation", "refine", "when", "must",
	"enum", "bit", "range", "1..", "..1", "min..max", "length", "pattern", "[", "path", "../x", "base", "identity", "feature", "if-feature", "not", "(", "revision", "2020-13-45", "belongs-to", "prefix", "namespace",
	"unique", "min-elements", "max-elements", "unbounded", "ordered-by", "default", "mandatory", "true", "config", "presence", "status", "units", "value", "position", "fraction-digits", "19", "anyxml", "anydata", "action", "extension", "argument", "yang-version", "2"}

func c14corpus() map[string]string {
	out := map[string]string{}
	filepath.Walk("/repo/parser/testdata", func(p string, info os.FileInfo, err error) error {
		if err == nil && !info.IsDir() && strings.HasSuffix(p, ".yang") && info.Size() < 20000 {
			if b, err := os.ReadFile(p); err == nil {
				out[strings.TrimPrefix(p, "/repo/parser/testdata/")] = string(b)
			}
		}
		return nil
	})
	return out
}

var c14cycles = []struct{ desc, body string }{
	{"typedef refers to itself", "typedef a { type a; } leaf x { type a; }"},
	{"typedefs refer to each other", "typedef a { type b; } typedef b { type a; } leaf x { type a; }"},
	{"typedef cycle through a union", "typedef a { type union { type string; type b; } } typedef b { type a; } leaf x { type b; }"},
	{"grouping uses itself", "grouping g { leaf a { type string; } uses g; } uses g;"},
	{"groupings use each other", "grouping g { container c { uses h; } } grouping h { container d { uses g; } } uses g;"},
	{"grouping uses itself through a choice", "grouping g { choice c { case a { uses g; } case b { leaf l { type string; } } } } uses g;"},
	{"identity is its own base", "identity a { base a; } leaf x { type identityref { base a; } }"},
	{"identities are each other's base", "identity a { base b; } identity b { base a; } leaf x { type identityref { base a; } }"},
	{"leafrefs point at each other", "leaf a { type leafref { path \"../b\"; } } leaf b { type leafref { path \"../a\"; } }"},
	{"leafref points at itself", "leaf a { type leafref { path \"../a\"; } }"},
	{"leafref through typedef to itself", "typedef r { type leafref { path \"/a\"; } } leaf a { type r; }"},
	{"augment into itself", "container c { } augment \"/c\" { container c { } } augment \"/c/c\" { uses g; } grouping g { leaf l { type string; } }"},
	{"augment target is the augment's own child", "augment \"/c/d\" { leaf l { type string; } } container c { } augment \"/c\" { container d { } }"},
	{"uses of an unknown grouping", "uses nosuch;"},
	{"leafref to a container, a list, a choice and a leaf-list", "container c { leaf x { type string; } } list l { key k; leaf k { type string; } } leaf-list ll { type string; } leaf a { type leafref { path \"/c\"; } } leaf b { type leafref { path \"/l\"; } } leaf d { type leafref { path \"/ll\"; } }"},
	{"modifier outside a pattern", "leaf a { type int8 { range \"1..2\" { modifier invert-match; } } } leaf b { type string { length 3 { modifier invert-match; } pattern x { modifier invert-match; } } }"},
	{"config, mandatory, default and key in rpc and notification content", "notification n { leaf a { type string; config true; mandatory true; } container c { config false; } } rpc r { input { leaf a { type string; config false; default x; } } output { list l { key k; config true; leaf k { type string; } } } }"},
	{"grouping uses itself through its own notification", "grouping g { leaf l { type string; } notification n { container c { uses g; } } } container x { uses g; }"},
	{"grouping uses itself through its own action", "grouping g { leaf l { type string; } action a { input { container c { uses g; } } } } container x { uses g; }"},
	{"grouping uses itself directly under its notification", "grouping g { leaf l { type string; } notification n { uses g; } } container x { uses g; }"},
	{"grouping that only uses itself", "grouping g { uses g; } uses g;"},
	{"grouping that only uses itself, used in a container", "grouping g { uses g; } container c { uses g; }"},
	{"recursive grouping through a case and a leafref to a missing name", "grouping g { choice c { case k { uses g; } } } container x { uses g; leaf r { type leafref { path \"../zzz\"; } } }"},
	{"belongs-to in a module with a uses of an unknown grouping", "belongs-to x { prefix x; } container c { uses zz; }"},
	{"deviate add max-elements on a leaf", "leaf l { type string; } deviation \"/l\" { deviate add { max-elements 3; } }"},
	{"deviate add min-elements on a container", "container c { } deviation \"/c\" { deviate add { min-elements 1; } }"},
	{"deviate add unique on a leaf", "leaf l { type string; } deviation \"/l\" { deviate add { unique \"a\"; } }"},
	{"deviate delete unique on a leaf-list", "leaf-list l { type string; } deviation \"/l\" { deviate delete { unique \"a\"; } }"},
	{"deviate not-supported on a case", "choice ch { case k { leaf a { type string; } } case j { leaf b { type string; } } } deviation \"/ch/k\" { deviate not-supported; }"},
	{"deviate add default on a container", "container c { } deviation \"/c\" { deviate add { default x; } }"},
	{"deviate replace type on a container", "container c { } deviation \"/c\" { deviate replace { type string; } }"},
	{"deviate add must on a choice", "choice ch { leaf a { type string; } } deviation \"/ch\" { deviate add { must \"1\"; } }"},
	{"deviate replace units on a list", "list l { key k; leaf k { type string; } } deviation \"/l\" { deviate replace { units u; } }"},
	{"deviate add config on an rpc", "rpc r { } deviation \"/r\" { deviate add { config false; } }"},
	{"deviate add mandatory on a list", "list l { key k; leaf k { type string; } } deviation \"/l\" { deviate add { mandatory true; } }"},
	{"five groupings in a ring, every recursion through a container", "grouping g0 { container c1 { uses g4; } } grouping g1 { container c11 { uses g3; } uses g4; } grouping g2 { container c14 { uses g1; } } grouping g3 { uses g1; } grouping g4 { uses g0; uses g2; } uses g0;"},
	{"six groupings in two rings sharing a member", "grouping a { container ca { uses b; uses d; } } grouping b { container cb { uses c; } } grouping c { container cc { uses a; } uses e; } grouping d { container cd { uses f; } } grouping e { container ce { uses a; } } grouping f { container cf { uses d; uses b; } } uses a;"},
	{"deviate replace default on a choice", "choice ch { default a; case a { leaf x { type string; } } case b { leaf y { type string; } } } deviation \"/ch\" { deviate replace { default b; } }"},
	{"deviate replace default on a container", "container c { } deviation \"/c\" { deviate replace { default b; } }"},
	{"deviate replace default on a list", "list l { key k; leaf k { type string; } } deviation \"/l\" { deviate replace { default b; } }"},
	{"deviate add default on a choice", "choice ch { case a { leaf x { type string; } } case b { leaf y { type string; } } } deviation \"/ch\" { deviate add { default b; } }"},
	{"deviate add units on anydata", "anydata a; deviation \"/a\" { deviate add { units x; } }"},
	{"deviate replace type on anydata", "anydata a; deviation \"/a\" { deviate replace { type string; } }"},
	{"deviate add default on anydata", "anydata a; deviation \"/a\" { deviate add { default x; } }"},
	{"deviate add two defaults on a leaf", "leaf l { type string; } deviation \"/l\" { deviate add { default a; default b; } }"},
	{"belongs-to prefix used for a type in a module", "belongs-to y { prefix y; } leaf l { type y:t; }"},
	{"belongs-to prefix used for a uses in a module", "belongs-to y { prefix y; } uses y:g;"},
	{"belongs-to prefix used for an identity base in a module", "belongs-to y { prefix y; } identity i { base y:b; } leaf r { type identityref { base y:b; } }"},
	{"augment with an action onto a leaf", "container c { leaf l { type string; } } augment \"/c/l\" { action a { input { leaf i { type string; } } } }"},
	{"augment with an action onto a choice", "container c { choice ch { leaf l { type string; } } } augment \"/c/ch\" { action a { input { leaf i { type string; } } } }"},
	{"augment with a notification onto a choice", "container c { choice ch { leaf l { type string; } } } augment \"/c/ch\" { notification n { leaf i { type string; } } }"},
	{"augment with an action onto an rpc", "rpc r { input { leaf i { type string; } } } augment \"/r\" { action q { input { leaf i { type string; } } } }"},
	{"identity base cycle", "identity a { base b; } identity b { base c; } identity c { base a; } leaf r { type identityref { base a; } }"},
	{"identity that is its own base", "identity a { base a; } leaf r { type identityref { base a; } }"},
	{"belongs-to in a module", "belongs-to x { prefix x; } leaf a { type nosuch; }"},
	{"statements in places they do not belong", "leaf a { type string; container c { } key k; } container c { type string; enum x; } list l { key k; leaf k { type string; } value 3; position 2; } choice ch { leaf-list ll { type string; } key z; }"},
	{"statements given twice", "typedef t { type string; default a; default b; } leaf l { type string; default a; default b; units u; units v; description x; description y; } choice c { default a; default a; case a { leaf q { type string; } } } container k { presence a; presence b; config true; config false; }"},
	{"list with two key statements and leaf with two types", "list l { key a; key b; leaf a { type string; } leaf b { type string; type int8; } }"},
	{"type of an unknown typedef", "leaf x { type nosuch; }"},
	{"unknown prefix", "leaf x { type zz:t; } uses zz:g;"},
	{"deviation of a missing node", "deviation /nosuch { deviate not-supported; }"},
	{"deviation deleting what is not there", "leaf x { type string; } deviation /x { deviate delete { units u; default d; } }"},
	{"key names a missing leaf", "list l { key k; leaf j { type string; } }"},
	{"key names a container", "list l { key k; container k { } }"},
	{"unique names a missing leaf", "list l { key k; leaf k { type string; } unique \"a b/c\"; }"},
	{"duplicate siblings", "leaf a { type string; } leaf a { type int32; } container a { }"},
	{"duplicate cases and enums", "choice c { case a { leaf x { type string; } } case a { leaf y { type string; } } } leaf e { type enumeration { enum a; enum a; } }"},
	{"choice default names a missing case", "choice c { default zz; case a { leaf x { type string; } } }"},
	{"empty enumeration, bits and union", "leaf a { type enumeration; } leaf b { type bits; } leaf c { type union; }"},
	{"leafref without path, identityref without base, decimal64 without fraction-digits", "leaf a { type leafref; } leaf b { type identityref; } leaf c { type decimal64; }"},
	{"range on a string, length on a number, pattern on a boolean", "leaf a { type string { range \"1..2\"; } } leaf b { type int8 { length 3; } } leaf c { type boolean { pattern x; } }"},
	{"malformed ranges", "leaf a { type int8 { range \"5..1\"; } } leaf b { type int8 { range \"..\"; } } leaf c { type int8 { range \"a..b|\"; } } leaf d { type uint8 { range \"-1..300\"; } }"},
	{"bad regular expression", "leaf a { type string { pattern \"(\"; } } leaf b { type string { pattern \"[z-a]\"; } }"},
	{"default outside the type", "leaf a { type int8; default 300; } leaf b { type enumeration { enum x; } default y; } leaf c { type boolean; default maybe; }"},
	{"rpc with uses of itself", "grouping g { leaf l { type string; } } rpc r { input { uses g; uses g; } output { uses nosuch; } }"},
	{"notification, action and anydata everywhere", "container c { action a { input { anydata d; } } notification n { anyxml x; } } list l { key k; leaf k { type string; } action b; }"},
	{"if-feature of an unknown feature", "leaf a { if-feature nosuch; type string; } feature f { if-feature f; } leaf b { if-feature \"f and (not f or g)\"; type string; }"},
	{"refine and augment of missing targets", "grouping g { leaf l { type string; } } uses g { refine nosuch { default x; } augment nosuch { leaf m { type string; } } }"},
	{"refine making a leaf both mandatory and defaulted", "grouping g { leaf l { type string; default d; } } uses g { refine l { mandatory true; } }"},
	{"extension used but not defined, with and without argument", "zz:ext; zz:ext arg { zz:inner; } leaf a { type string { zz:x; } }"},
	{"list without key holding a keyed list with the parent's key name", "list l { list l { key l; leaf l { type string; } } }"},
	{"when and must with broken expressions", "leaf a { when \"((\"; must \"a >\"; type string; } container c { when \"\"; }"},
}

func C14(c *core.Ctx) {
	c.Rule = "load attempts in child processes (a fatal stack overflow or a hang is observed, not suffered): (a) every module of parser/testdata and generated modules (C01/C02/C06 generators) unchanged, (b) every one of them truncated at sampled token boundaries, (c) with one token deleted, duplicated or replaced from a pool of 90 keywords/punctuation/odd arguments, (d) 40 hand-written reference-cycle and dangling-reference modules (typedef, grouping, identity, leafref, augment, deviation, key, unique, if-feature …), (e) import/include graphs: chains, diamonds, self-import, cycles of length 2–4, include cycles, a module where a submodule is expected and the reverse, belongs-to of another module, (f) opener faults on the main file, an import or an include: missing, open error, read error, (g) pathological sizes: nesting depth up to 5000, 20000 siblings, 200 kB arguments, 2000-piece concatenations; every load must end within 20 s with a module or a non-empty error; a returned module is walked through every public accessor. Import graphs are also given to the Lean model of the resolver's import handling, outcome (ok / cycle error / missing) compared. non-trivial = mutated or faulty input; distinct by input; typedef reference graphs (cycles directly and through union members, diamonds, missing types, random) decided by the same Lean model as the import graphs; six module texts loaded without an opener (import, include, unknown type, unknown grouping); a load that answers with an error answers with no module"
	c.Assumptions = append(c.Assumptions,
		"'promptly' is taken as 20 s per load on this machine (pathological sizes included)",
		"the Lean theorems cover the termination and the cycle verdict of import resolution; for the rest of the loader this check is a search for crashing inputs, not a proof (labelled partial)")
	c.ProofStep("YangVerif.Props.C14")
	if c.Thorough() {
		c.LeanChecker("YangVerif.Props.C14")
	}
	rng := core.NewRng(c.Seed)
	var cases []c14case
	add := func(cs c14case) { cases = append(cases, cs) }
	hdr := func(name string) string {
		return "module " + name + " { namespace \"urn:" + name + "\"; prefix " + name + "; revision 2020-01-01;\n"
	}
	// (a)–(c) corpus and mutations
	corpus := c14corpus()
	{
		r := rng.Fork()
		g := &c06gen{r: r, exts: true}
		for i := 0; i < c.N(3, 20); i++ {
			g.seq = 0
			g.typedefs = nil
			corpus[fmt.Sprintf("generated-c06-%d", i)] = (&c06render{r: r, styles: map[string]int{}}).stmt(g.module(), "")
		}
	}
	var cnames []string
	for n := range corpus {
		cnames = append(cnames, n)
	}
	sort.Strings(cnames)
	siblings := func(name string) map[string]string {
		// the other files of the same testdata directory, by module name, for imports and includes
		files := map[string]string{}
		dir := filepath.Dir(name)
		for _, n := range cnames {
			if filepath.Dir(n) == dir {
				files[strings.TrimSuffix(filepath.Base(n), ".yang")] = corpus[n]
			}
		}
		return files
	}
	nMut := c.N(6, 400)
	for _, n := range cnames {
		text := corpus[n]
		main := strings.TrimSuffix(filepath.Base(n), ".yang")
		files := siblings(n)
		if _, ok := files[main]; !ok {
			files[main] = text
		}
		add(c14case{Desc: "unchanged " + n, Files: files, Main: main})
		toks := c14tokens(text)
		if len(toks) < 3 {
			continue
		}
		r := rng.Fork()
		for i := 0; i < nMut; i++ {
			k := r.Intn(len(toks))
			var mut []string
			kind := core.Pick(r, []string{"truncate", "delete", "duplicate", "substitute", "substitute", "bytes", "cut"})
			switch kind {
			case "truncate":
				mut = toks[:k]
			case "delete":
				mut = append(append([]string{}, toks[:k]...), toks[k+1:]...)
			case "duplicate":
				mut = append(append(append([]string{}, toks[:k+1]...), toks[k]), toks[k+1:]...)
			case "substitute":
				mut = append(append(append([]string{}, toks[:k]...), core.Pick(r, c14subst)), toks[k+1:]...)
			case "cut":
				// cut anywhere, also inside a token or right behind a backslash
				mut = []string{text[:r.Intn(len(text))]}
			case "bytes":
				// a byte overwritten, dropped or inserted anywhere
				bs := []byte(text)
				pos := r.Intn(len(bs))
				switch r.Intn(3) {
				case 0:
					bs[pos] = byte(r.Intn(256))
				case 1:
					bs = append(bs[:pos:pos], bs[pos+1:]...)
				default:
					bs = append(bs[:pos:pos], append([]byte{core.Pick(r, []byte("{};\"'+/*\\ \n\x00\xff"))}, bs[pos:]...)...)
				}
				mut = []string{string(bs)}
			}
			f2 := map[string]string{}
			for k2, v := range files {
				f2[k2] = v
			}
			f2[main] = strings.Join(mut, "")
			add(c14case{Desc: fmt.Sprintf("%s token %d of %s", kind, k, n), Files: f2, Main: main})
		}
	}
	// (d) cycles and dangling references
	for _, cy := range c14cycles {
		add(c14case{Desc: cy.desc, Files: map[string]string{"x": hdr("x") + "extension ext { argument a; } feature f; feature g;\n" + cy.body + "\n}"}, Main: "x"})
	}
	// (d1) loaded from the text alone, without anything to open other files with
	for _, body := range []string{"import y { prefix y; }", "include x-sub;", "leaf a { type string; }", "import y { prefix y; } leaf a { type y:t; }", "leaf a { type nosuch; }", "uses nosuch;"} {
		add(c14case{Desc: "no-opener: " + body, Files: map[string]string{"x": hdr("x") + body + "\n}"}, Fault: map[string]string{"*": "no-opener"}, Main: "x"})
	}
	// (d2) if-feature where no module of the load has declared a feature yet
	add(c14case{Desc: "if-feature without any feature statement", Files: map[string]string{"x": "module x { namespace \"urn:x\"; prefix x; revision 2020-01-01;\n leaf a { if-feature nosuch; type string; } container c { if-feature \"not nosuch\"; }\n}"}, Main: "x"})
	add(c14case{Desc: "features declared only in an included submodule", Files: map[string]string{
		"x":     "module x { namespace \"urn:x\"; prefix x; include x-sub; revision 2020-01-01;\n leaf a { if-feature sf; type string; } leaf b { if-feature \"not sf\"; type string; }\n}",
		"x-sub": "submodule x-sub { belongs-to x { prefix x; } feature sf; leaf s { if-feature sf; type string; } }"}, Main: "x"})
	// (d3) submodules with imports of their own
	add(c14case{Desc: "two submodules import the same module under a prefix of their own", Files: map[string]string{
		"x":   "module x { namespace \"urn:x\"; prefix x; include s1; include s2; import lib { prefix own; } revision 2020-01-01;\n leaf m { type own:t; } }",
		"s1":  "submodule s1 { belongs-to x { prefix x; } import lib { prefix l; } leaf a { type l:t; } container c1 { uses l:g; } }",
		"s2":  "submodule s2 { belongs-to x { prefix x; } import lib { prefix ll; } leaf b { type ll:t; } identity i2 { base ll:b; } }",
		"lib": "module lib { namespace \"urn:lib\"; prefix lib; revision 2020-01-01; typedef t { type string; } grouping g { leaf gl { type t; } } identity b; }"}, Main: "x"})
	add(c14case{Desc: "only the submodules import, each another module", Files: map[string]string{
		"x":  "module x { namespace \"urn:x\"; prefix x; include s1; include s2; revision 2020-01-01; }",
		"s1": "submodule s1 { belongs-to x { prefix x; } import la { prefix p; } leaf a { type p:t; } }",
		"s2": "submodule s2 { belongs-to x { prefix x; } import lb { prefix p; } leaf b { type p:t; } }",
		"la": "module la { namespace \"urn:la\"; prefix la; revision 2020-01-01; typedef t { type string; } }",
		"lb": "module lb { namespace \"urn:lb\"; prefix lb; revision 2020-01-01; typedef t { type int32; } }"}, Main: "x"})
	// (e) import / include graphs
	type graph struct {
		desc  string
		edges map[string][]string
	}
	graphs := []graph{
		{"chain a→b→c", map[string][]string{"a": {"b"}, "b": {"c"}, "c": {}}},
		{"diamond", map[string][]string{"a": {"b", "c"}, "b": {"d"}, "c": {"d"}, "d": {}}},
		{"self import", map[string][]string{"a": {"a"}}},
		{"cycle of 2", map[string][]string{"a": {"b"}, "b": {"a"}}},
		{"cycle of 3", map[string][]string{"a": {"b"}, "b": {"c"}, "c": {"a"}}},
		{"cycle of 4 behind a chain", map[string][]string{"a": {"b"}, "b": {"c"}, "c": {"d"}, "d": {"e"}, "e": {"b"}}},
		{"cycle not through the main module", map[string][]string{"a": {"b", "x"}, "x": {}, "b": {"c"}, "c": {"b"}}},
		{"import of a missing module", map[string][]string{"a": {"b"}, "b": {"nosuch"}}},
	}
	// layers of two modules, each importing both modules of the next layer: 2^depth import paths, 2*depth modules
	{
		e := map[string][]string{"a": {"l0x", "l0y"}}
		const depth = 40
		for l := 0; l < depth; l++ {
			for _, s := range []string{"x", "y"} {
				name := fmt.Sprintf("l%d%s", l, s)
				if l+1 < depth {
					e[name] = []string{fmt.Sprintf("l%dx", l+1), fmt.Sprintf("l%dy", l+1)}
				} else {
					e[name] = []string{}
				}
			}
		}
		graphs = append(graphs, graph{"40 layers of two modules that import the whole next layer", e})
	}
	for i := 0; i < c.N(20, 400); i++ {
		r := rng.Fork()
		n := 2 + r.Intn(5)
		e := map[string][]string{}
		names := []string{"a", "b", "c", "d", "e", "f", "g"}[:n]
		for _, x := range names {
			for _, y := range names {
				if r.Chance(22) {
					e[x] = append(e[x], y)
				}
			}
			if _, ok := e[x]; !ok {
				e[x] = []string{}
			}
		}
		graphs = append(graphs, graph{fmt.Sprintf("random import graph %d", i), e})
	}
	var lines []string
	var graphCases []int
	for gi, gr := range graphs {
		revDates := gi%2 == 1 // every other graph states a revision-date on its imports
		files := map[string]string{}
		var names []string
		for n := range gr.edges {
			names = append(names, n)
		}
		sort.Strings(names)
		for _, n := range names {
			t := hdr(n)
			for _, im := range gr.edges[n] {
				if revDates {
					t += fmt.Sprintf("  import %s { prefix p%s; revision-date 2020-01-01; }\n", im, im)
				} else {
					t += fmt.Sprintf("  import %s { prefix p%s; }\n", im, im)
				}
			}
			files[n] = t + "  leaf l" + n + " { type string; }\n}"
		}
		graphCases = append(graphCases, len(cases))
		add(c14case{Desc: "import graph: " + gr.desc, Files: files, Main: "a"})
		// model line: c14 imports a ; name k imports…
		ln := []string{"c14 imports", core.Hex("a"), fmt.Sprint(len(names))}
		for _, n := range names {
			ln = append(ln, core.Hex(n), fmt.Sprint(len(gr.edges[n])))
			for _, im := range gr.edges[n] {
				ln = append(ln, core.Hex(im))
			}
		}
		lines = append(lines, strings.Join(ln, " "))
	}
	// typedef reference graphs: the compiler follows a typedef's base type (and union members) with the same
	// discipline as the resolver follows imports - being compiled = on the chain, compiled = reused - so the same
	// model decides them: the module refers to every typedef, a typedef to the typedefs its type names
	tgraphs := []graph{
		{"typedef chain", map[string][]string{"t0": {"t1"}, "t1": {"t2"}, "t2": {}}},
		{"typedef defined by itself", map[string][]string{"t0": {"t0"}}},
		{"typedef cycle of 2", map[string][]string{"t0": {"t1"}, "t1": {"t0"}}},
		{"typedef cycle of 3 behind a chain", map[string][]string{"t0": {"t1"}, "t1": {"t2"}, "t2": {"t3"}, "t3": {"t1"}}},
		{"typedef cycle through a union member", map[string][]string{"t0": {"t1", "t2"}, "t1": {}, "t2": {"t0"}}},
		{"typedef diamond through unions", map[string][]string{"t0": {"t1", "t2"}, "t1": {"t3"}, "t2": {"t3"}, "t3": {}}},
		{"typedef cycle that no leaf uses", map[string][]string{"t0": {}, "t1": {"t2"}, "t2": {"t1"}}},
		{"typedef that is a union of itself", map[string][]string{"t0": {"t0", "t0"}}},
		{"typedef naming itself as second union member", map[string][]string{"t0": {"t1", "t0"}, "t1": {}}},
		{"typedef reaching a self-union through a chain", map[string][]string{"t0": {"t1", "t2"}, "t1": {"t3"}, "t2": {}, "t3": {"t3", "t3"}}},
		{"typedef of a missing type", map[string][]string{"t0": {"t1"}, "t1": {"nosuch"}}},
	}
	for i := 0; i < c.N(20, 400); i++ {
		r := rng.Fork()
		n := 2 + r.Intn(6)
		e := map[string][]string{}
		for x := 0; x < n; x++ {
			var refs []string
			switch r.Intn(4) {
			case 0:
			case 1, 2:
				refs = []string{fmt.Sprintf("t%d", r.Intn(n))}
			default:
				refs = []string{fmt.Sprintf("t%d", r.Intn(n)), fmt.Sprintf("t%d", r.Intn(n))}
			}
			// mostly forward references so that acyclic graphs are common
			if len(refs) > 0 && r.Chance(60) {
				for k := range refs {
					refs[k] = fmt.Sprintf("t%d", x+1+r.Intn(n-x))
				}
			}
			for k := range refs {
				if refs[k] == fmt.Sprintf("t%d", n) {
					refs[k] = fmt.Sprintf("t%d", n-1)
				}
			}
			e[fmt.Sprintf("t%d", x)] = refs
		}
		tgraphs = append(tgraphs, graph{fmt.Sprintf("random typedef graph %d", i), e})
	}
	for _, gr := range tgraphs {
		var names []string
		for n := range gr.edges {
			names = append(names, n)
		}
		sort.Strings(names)
		t := hdr("a")
		for _, n := range names {
			refs := gr.edges[n]
			switch len(refs) {
			case 0:
				t += fmt.Sprintf("  typedef %s { type string; }\n", n)
			case 1:
				t += fmt.Sprintf("  typedef %s { type %s; }\n", n, refs[0])
			default:
				t += fmt.Sprintf("  typedef %s { type union { type %s; type %s; } }\n", n, refs[0], refs[1])
			}
		}
		t += "  leaf x { type t0; }\n}"
		graphCases = append(graphCases, len(cases))
		add(c14case{Desc: "typedef graph: " + gr.desc, Files: map[string]string{"a": t}, Main: "a"})
		ln := []string{"c14 imports", core.Hex("#module"), fmt.Sprint(len(names) + 1), core.Hex("#module"), fmt.Sprint(len(names))}
		for _, n := range names {
			ln = append(ln, core.Hex(n))
		}
		for _, n := range names {
			ln = append(ln, core.Hex(n), fmt.Sprint(len(gr.edges[n])))
			for _, im := range gr.edges[n] {
				ln = append(ln, core.Hex(im))
			}
		}
		lines = append(lines, strings.Join(ln, " "))
	}
	sub := "submodule s { belongs-to a { prefix a; }\n  leaf fromsub { type string; }\n}"
	add(c14case{Desc: "include of a submodule", Files: map[string]string{"a": hdr("a") + "include s;\n}", "s": sub}, Main: "a"})
	add(c14case{Desc: "submodule includes itself", Files: map[string]string{"a": hdr("a") + "include s;\n}", "s": "submodule s { belongs-to a { prefix a; } include s; }"}, Main: "a"})
	add(c14case{Desc: "submodules include each other", Files: map[string]string{"a": hdr("a") + "include s;\n}", "s": "submodule s { belongs-to a { prefix a; } include t; }", "t": "submodule t { belongs-to a { prefix a; } include s; }"}, Main: "a"})
	add(c14case{Desc: "submodule imports its own module", Files: map[string]string{"a": hdr("a") + "include s;\n}", "s": "submodule s { belongs-to a { prefix a; } import a { prefix x; } }"}, Main: "a"})
	add(c14case{Desc: "a module where a submodule is expected", Files: map[string]string{"a": hdr("a") + "include b;\n}", "b": hdr("b") + "}"}, Main: "a"})
	add(c14case{Desc: "a submodule where a module is expected", Files: map[string]string{"a": hdr("a") + "import s { prefix s; }\n}", "s": sub}, Main: "a"})
	add(c14case{Desc: "submodule loaded as the main file", Files: map[string]string{"s": sub}, Main: "s"})
	add(c14case{Desc: "submodule belongs to another module", Files: map[string]string{"a": hdr("a") + "include s;\n}", "s": "submodule s { belongs-to zz { prefix zz; } leaf x { type string; } }"}, Main: "a"})
	add(c14case{Desc: "a file that declares another module name and imports its own file name", Files: map[string]string{"a": hdr("a") + "import b { prefix b; }\n}", "b": hdr("c") + "import b { prefix b; }\n}"}, Main: "a"})
	add(c14case{Desc: "two files declaring each other's names", Files: map[string]string{"a": hdr("b") + "import b { prefix x; }\n}", "b": hdr("a") + "import a { prefix y; }\n}"}, Main: "a"})
	add(c14case{Desc: "module name differs from the file asked for", Files: map[string]string{"a": hdr("other") + "}"}, Main: "a"})
	// (f) opener faults
	for _, fault := range []string{"missing", "open-error", "read-error"} {
		add(c14case{Desc: "main file " + fault, Files: map[string]string{"a": hdr("a") + "}"}, Fault: map[string]string{"a": fault}, Main: "a"})
		add(c14case{Desc: "import " + fault, Files: map[string]string{"a": hdr("a") + "import b { prefix b; }\n}", "b": hdr("b") + "}"}, Fault: map[string]string{"b": fault}, Main: "a"})
		add(c14case{Desc: "include " + fault, Files: map[string]string{"a": hdr("a") + "include s;\n}", "s": sub}, Fault: map[string]string{"s": fault}, Main: "a"})
	}
	// (g) pathological sizes
	depth := c.N(2000, 5000)
	add(c14case{Desc: fmt.Sprintf("%d nested containers", depth), Files: map[string]string{"x": hdr("x") + strings.Repeat("container c { ", depth) + strings.Repeat("} ", depth) + "}"}, Main: "x"})
	add(c14case{Desc: fmt.Sprintf("%d unclosed containers", depth), Files: map[string]string{"x": hdr("x") + strings.Repeat("container c { ", depth)}, Main: "x"})
	add(c14case{Desc: fmt.Sprintf("%d closing braces", depth), Files: map[string]string{"x": hdr("x") + strings.Repeat("} ", depth)}, Main: "x"})
	{
		var b strings.Builder
		n := c.N(5000, 20000)
		for i := 0; i < n; i++ {
			fmt.Fprintf(&b, "leaf f%d { type string; }\n", i)
		}
		add(c14case{Desc: fmt.Sprintf("%d sibling leaves", n), Files: map[string]string{"x": hdr("x") + b.String() + "}"}, Main: "x"})
	}
	add(c14case{Desc: "200 kB description", Files: map[string]string{"x": hdr("x") + "description \"" + strings.Repeat("lorem ipsum ", 17000) + "\";\n}"}, Main: "x"})
	add(c14case{Desc: "2000-piece concatenation", Files: map[string]string{"x": hdr("x") + "description " + strings.Repeat("\"p\" + ", 1999) + "'end';\n}"}, Main: "x"})
	add(c14case{Desc: "grouping nesting of depth 300", Files: map[string]string{"x": hdr("x") + func() string {
		var b strings.Builder
		for i := 0; i < 300; i++ {
			fmt.Fprintf(&b, "grouping g%d { container c%d { uses g%d; } }\n", i, i, i+1)
		}
		b.WriteString("grouping g300 { leaf l { type string; } }\nuses g0;\n")
		return b.String()
	}() + "}"}, Main: "x"})
	add(c14case{Desc: "typedef chain of depth 1000", Files: map[string]string{"x": hdr("x") + func() string {
		var b strings.Builder
		for i := 0; i < 1000; i++ {
			fmt.Fprintf(&b, "typedef t%d { type t%d; }\n", i, i+1)
		}
		b.WriteString("typedef t1000 { type int8; }\nleaf l { type t0; }\n")
		return b.String()
	}() + "}"}, Main: "x"})
	for _, tail := range []string{"leaf a { type string; } x:ext", "leaf a { type string; } x:ext\n}", "leaf a { type string; description", "leaf a { type string; description \"x\" +", "leaf a { type string; description \"abc\\", "leaf a { type string; description \"abc\\\\", "leaf a { type string; description 'abc\\", "leaf a { type", "container", "x:ext arg", "x:ext 'arg' {", "leaf a { type string; } } }", "import", "revision", "leaf a { type string { pattern"} {
		add(c14case{Desc: "text cut off: …" + tail, Files: map[string]string{"x": hdr("x") + "extension ext;\n" + tail}, Main: "x"})
	}
	add(c14case{Desc: "only white space", Files: map[string]string{"x": "  \n\t "}, Main: "x"})
	add(c14case{Desc: "empty file", Files: map[string]string{"x": ""}, Main: "x"})
	add(c14case{Desc: "binary garbage", Files: map[string]string{"x": "\x00\x01\xff\xfe{;}\"\x80"}, Main: "x"})
	add(c14case{Desc: "unterminated string", Files: map[string]string{"x": hdr("x") + "description \"never ends"}, Main: "x"})
	add(c14case{Desc: "unterminated comment", Files: map[string]string{"x": hdr("x") + "/* never ends"}, Main: "x"})

	// run in child processes
	tmp, err := os.CreateTemp("", "c14-*.txt")
	if err != nil {
		c.Violation(core.Replay{Kind: "harness", Summary: "cannot create temp file: " + err.Error(), NoInputFound: true})
		return
	}
	defer os.Remove(tmp.Name())
	w := bufio.NewWriter(tmp)
	for _, cs := range cases {
		w.WriteString(c14encode(cs) + "\n")
	}
	w.Flush()
	tmp.Close()
	results := make([]string, len(cases))
	self, _ := os.Executable()
	from := 0
	for from < len(cases) {
		cmd := exec.Command(self, "--c14-worker", tmp.Name(), fmt.Sprint(from))
		cmd.Env = append(os.Environ(), "GOMEMLIMIT=3GiB")
		out, _ := cmd.Output()
		last := from - 1
		begun := -1
		for _, ln := range strings.Split(string(out), "\n") {
			if !strings.HasPrefix(ln, "#") {
				continue
			}
			var idx int
			var rest string
			sp := strings.SplitN(ln[1:], " ", 2)
			fmt.Sscan(sp[0], &idx)
			if len(sp) > 1 {
				rest = sp[1]
			}
			if rest == "begin" {
				begun = idx
				continue
			}
			if idx >= 0 && idx < len(results) {
				results[idx] = rest
				last = idx
			}
		}
		if last+1 >= len(cases) {
			break
		}
		if begun > last {
			// the worker died inside the case it had begun
			if results[begun] == "" {
				results[begun] = "CRASH worker process died (stack overflow, out of memory or fatal error)"
			}
			from = begun + 1
		} else {
			// it left after reporting a hang: go on with the next case
			from = last + 1
		}
	}
	for i, cs := range cases {
		res := results[i]
		c.Evaluations++
		kind := strings.Fields(cs.Desc)[0]
		c.Count("case", kind)
		c.Count("outcome", strings.Fields(res + " ?")[0])
		if !strings.HasPrefix(cs.Desc, "unchanged") {
			c.Distinct(fmt.Sprint(i))
		}
		if res == "error" || strings.HasPrefix(res, "ok ") {
			continue
		}
		what := fmt.Sprintf("loading (%s): %s", cs.Desc, res)
		if id := c14known(cs, res); id != "" && c.IsKnown(id, short(what)) {
			continue
		}
		c.Violation(core.Replay{Kind: "property-failure", Class: strings.Fields(res + " ?")[0] + "-" + kind, Summary: short(what),
			Input: map[string]interface{}{"main": cs.Main, "files": cs.Files, "faults": cs.Fault}})
	}
	// import graphs against the Lean model
	outs, derr := core.RunDriver(lines)
	if derr != nil {
		c.ProofBroken = append(c.ProofBroken, derr.Error())
		return
	}
	for gi, o := range outs {
		ci := graphCases[gi]
		lib := strings.Fields(results[ci] + " ?")[0]
		model := strings.TrimSpace(o)
		c.Count("import_graph", model)
		want := map[string]string{"ok": "ok", "cycle": "error", "missing": "error"}[model]
		if want == "" {
			c.Count("driver", "imports:"+short(o))
			continue
		}
		if lib != want {
			c.Violation(core.Replay{Kind: "correspondence", Class: "graph-" + strings.Fields(cases[ci].Desc)[0], Summary: fmt.Sprintf("%s: library %s; the resolver model says %s", cases[ci].Desc, results[ci], model),
				Input: map[string]interface{}{"files": cases[ci].Files}, Impl: results[ci], Model: model})
		}
	}
}

func c14known(cs c14case, res string) string { return "" }
