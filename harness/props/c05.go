package props

import (
	"fmt"
	"github.com/freeconf/yang/val"
	"math"
	"math/big"
	"regexp"
	"sort"
	"strings"
	"unicode/utf8"

	"verif/harness/core"

	"github.com/freeconf/yang/meta"
	"github.com/freeconf/yang/node"
	"github.com/freeconf/yang/nodeutil"
	"github.com/freeconf/yang/parser"
)

func init() { Registry["C05"] = C05 }

type c05leaf struct {
	name    string
	kind    string // range | length | pattern | bits | enum | ident
	base    string
	scale   int
	tlo     *big.Int // scaled
	thi     *big.Int
	levels  []string // restriction texts, leaf level first, then typedefs derived → base ("" = level states none)
	isList  bool
	pats    [][2]string // pattern, "invert"|""
	bitDecl []string
}

func scaled(v *big.Int, scale int) string { // scaled integer → decimal text
	if scale == 0 {
		return v.String()
	}
	neg := v.Sign() < 0
	a := new(big.Int).Abs(v)
	s := a.String()
	for len(s) <= scale {
		s = "0" + s
	}
	out := s[:len(s)-scale] + "." + s[len(s)-scale:]
	if neg {
		out = "-" + out
	}
	return out
}

func c05bounds(base string) (lo, hi *big.Int, scale int) {
	for _, f := range numFmts {
		if f.yang == base {
			return f.min(), f.max(), 0
		}
	}
	if base == "decimal64" {
		// fraction-digits 2: the harness keeps values well inside what float64 orders exactly
		return big.NewInt(-100000000), big.NewInt(100000000), 2
	}
	return big.NewInt(0), new(big.Int).Lsh(big.NewInt(1), 40), 0 // string length
}

// genRestriction makes a range/length text with 1–3 ascending alternatives over the pool.
func genRestriction(rng *core.Rng, pool []*big.Int, scale int) (string, []*big.Int) {
	n := 1 + rng.Intn(3)
	idx := map[int]bool{}
	for len(idx) < 2*n && len(idx) < len(pool) {
		idx[rng.Intn(len(pool))] = true
	}
	var is []int
	for i := range idx {
		is = append(is, i)
	}
	sort.Ints(is)
	var alts []string
	var used []*big.Int
	for i := 0; i+1 < len(is); i += 2 {
		lo, hi := pool[is[i]], pool[is[i+1]]
		used = append(used, lo, hi)
		los, his := scaled(lo, scale), scaled(hi, scale)
		switch {
		case i == 0 && rng.Chance(25):
			los = "min"
		}
		if i+2 >= len(is)-1 && rng.Chance(25) {
			his = "max"
		}
		sep := ".."
		if rng.Chance(30) {
			sep = " .. "
		}
		if rng.Chance(20) {
			alts = append(alts, los+sep+his)
		} else if rng.Chance(15) && los != "min" {
			alts = append(alts, los) // single value
		} else {
			alts = append(alts, los+sep+his)
		}
	}
	if len(alts) == 0 {
		alts = []string{"min..max"}
	}
	sep := "|"
	if rng.Chance(40) {
		sep = " | "
	}
	return strings.Join(alts, sep), used
}

func c05pool(lo, hi *big.Int, rng *core.Rng) []*big.Int {
	var pool []*big.Int
	add := func(v *big.Int) {
		if v.Cmp(lo) >= 0 && v.Cmp(hi) <= 0 {
			pool = append(pool, v)
		}
	}
	for _, x := range []int64{-120, -100, -50, -20, -10, -5, -1, 0, 1, 2, 5, 10, 15, 20, 50, 100, 120} {
		add(big.NewInt(x))
	}
	for d := int64(0); d < 4; d++ {
		add(new(big.Int).Add(lo, big.NewInt(d*7)))
		add(new(big.Int).Sub(hi, big.NewInt(d*9)))
	}
	sort.Slice(pool, func(i, j int) bool { return pool[i].Cmp(pool[j]) < 0 })
	var uniq []*big.Int
	for i, p := range pool {
		if i == 0 || p.Cmp(pool[i-1]) != 0 {
			uniq = append(uniq, p)
		}
	}
	return uniq
}

func C05(c *core.Ctx) {
	c.Rule = "generated modules of leaves/leaf-lists: every numeric base type (+decimal64, string length) × typedef chains of depth 0–3 × restriction texts (alternatives, open ends, min/max, single values, negative and 64-bit bounds) × candidate values at and around every bound, base min/max, 0; written through SetValue, UpsertFrom(JSON) and UpsertFrom(node); store compared before/after. non-trivial = value within ±1 of a bound or at a base-type extreme; distinct by (leaf type text, value, path); directed (c05typedValues): 24 typed values (val.Enum, val.Bits, val.IdentRef, lists, values of another kind) written with Selection.Set and handed to UpsertFrom by a source node: stored iff a value of the type; (c05identityBases) identityref types with one and two bases, through a typedef, a leafref and on a leaf-list × 8 identities (bases, derived from one, from both, from a derived one, unknown): verdict compared with Member.identByBases over the closures the compiled schema shows; (c05keyOutOfType) entries under keys their key leaves refuse (range, length, second component), upsert and insert, two map-backed nodes: an error and no entry; (c05hugeLength) 18446744073709551615 as the upper bound of string and binary lengths, alone, in alternatives and under a narrowing typedef"
	c.Assumptions = append(c.Assumptions,
		"regexp matching is an uninterpreted predicate: the harness evaluates each pattern with Go's regexp and passes the booleans to the model",
		"decimal64 values/bounds are generated with ≤2 fraction digits and |x| ≤ 10^6 so that float64 comparison agrees with exact decimal comparison",
		"one-directional reading: accepted ⇒ in type; a spurious rejection is reported as a model disagreement, not as a property violation")
	c.ProofStep()
	if c.Thorough() {
		c.LeanChecker("YangVerif.Props.C05")
	}
	rng := core.NewRng(c.Seed)
	nmod := c.N(12, 300)
	for mi := 0; mi < nmod; mi++ {
		c05module(c, rng.Fork(), mi)
	}
	c05membership(c, rng)
	c05typedValues(c)
	c05identityBases(c)
	c05keyOutOfType(c)
	c05hugeLength(c)
}

// values that were not made for the leaf they are written to - handed to Set as typed values by the caller, or to
// the editor by a node of the caller's: accepted only if they are values of the leaf's type
func c05typedValues(c *core.Ctx) {
	y := `module tv { namespace "urn:tv"; prefix tv; revision 2020-01-01; identity b0; identity i1 { base b0; } identity other;
  leaf e { type enumeration { enum a; enum b; } } leaf-list el { type enumeration { enum a; enum b; } }
  leaf bo { type boolean; } leaf i { type int32 { range "1..10"; } } leaf s { type string { length "1..3"; } }
  leaf bt { type bits { bit a; bit b; } } leaf-list btl { type bits { bit a; bit b; } } leaf-list idl { type identityref { base b0; } } leaf id { type identityref { base b0; } }
  leaf u { type union { type int8 { range "1..5"; } type string { length "3"; } } } leaf d { type decimal64 { fraction-digits 2; } }
  leaf lr { type leafref { path "/tv:e"; } } }`
	m, err := parser.LoadModuleFromString(nil, y)
	if err != nil {
		c.Violation(core.Replay{Kind: "harness", Summary: "c05typedValues module: " + err.Error(), NoInputFound: true})
		return
	}
	for _, tc := range []struct {
		name, leaf string
		v          val.Value
		ok         bool
	}{
		{"an enum the type does not declare", "e", val.Enum{Id: 9, Label: "zz"}, false},
		{"a declared enum", "e", val.Enum{Id: 1, Label: "b"}, true},
		{"an undeclared enum in a list", "el", val.EnumList{{Id: 0, Label: "a"}, {Id: 7, Label: "zz"}}, false},
		{"declared enums in a list", "el", val.EnumList{{Id: 0, Label: "a"}, {Id: 1, Label: "b"}}, true},
		{"an undeclared enum through a leafref", "lr", val.Enum{Id: 9, Label: "zz"}, false},
		{"a string for a boolean", "bo", val.String("abc"), false},
		{"a boolean", "bo", val.Bool(true), true},
		{"a decimal with a fraction for an int32", "i", val.Decimal64(5.5), false},
		{"a list for a leaf", "i", val.Int32List{1, 2}, false},
		{"an int32 in range", "i", val.Int32(5), true},
		{"an int32 out of range", "i", val.Int32(50), false},
		{"a single value for a leaf-list", "idl", val.String("i1"), false},
		{"a bit the type does not declare", "bt", val.Bits{Positions: 64, Labels: []string{"zz"}}, false},
		{"declared bits", "bt", val.Bits{Positions: 3, Labels: []string{"a", "b"}}, true},
		{"an undeclared bit in a list", "btl", val.BitsList{{Positions: 1, Labels: []string{"a"}}, {Positions: 1024, Labels: []string{"zz"}}}, false},
		{"an identity that does not exist", "id", val.IdentRef{Label: "bogus"}, false},
		{"an identity not derived from the base", "id", val.IdentRef{Label: "other"}, false},
		{"a derived identity", "id", val.IdentRef{Label: "i1"}, true},
		{"a list with an identity that does not exist", "idl", val.IdentRefList{{Label: "i1"}, {Label: "bogus"}}, false},
		{"a number no member of the union takes", "u", val.Int32(9), false},
		{"a boolean for a union of number and string", "u", val.Bool(true), false},
		{"a member value of the union", "u", val.Int32(3), true},
		{"a string for a decimal64", "d", val.String("x"), false},
		{"a string too long", "s", val.String("abcd"), false},
	} {
		for _, path := range []string{"Set", "node"} {
			store := map[string]interface{}{}
			var werr error
			e := safeDo(func() error {
				b := node.NewBrowser(m, nodeutil.ReflectChild(store))
				if path == "Set" {
					sel, err := b.Root().Find(tc.leaf)
					if err != nil || sel == nil {
						return fmt.Errorf("find: %v", err)
					}
					werr = sel.Set(tc.v)
					return nil
				}
				// a node of the caller's that answers the read of this leaf with the value as it is
				src := &nodeutil.Basic{OnField: func(r node.FieldRequest, hnd *node.ValueHandle) error {
					if r.Meta.Ident() == tc.leaf {
						hnd.Val = tc.v
					}
					return nil
				}}
				werr = b.Root().UpsertFrom(src)
				return nil
			})
			c.Evaluations++
			c.Count("typed_value", path+map[bool]string{true: " member", false: " not a member"}[tc.ok])
			c.Distinct("typedvalue " + path + tc.name)
			_, stored := store[tc.leaf]
			bad := ""
			switch {
			case e != nil:
				bad = e.Error()
			case tc.ok && (werr != nil || !stored):
				bad = fmt.Sprintf("refused (%v), it is a value of the type", werr)
			case !tc.ok && stored:
				bad = fmt.Sprintf("stored as %v (error %v)", store[tc.leaf], werr)
			case !tc.ok && werr == nil:
				bad = "not stored and no error"
			}
			if bad != "" {
				c.Violation(core.Replay{Kind: "property-failure", Class: "typed-value-" + path, Summary: fmt.Sprintf("%s: %s written to %s as %T %v: %s", path, tc.name, tc.leaf, tc.v, tc.v, bad),
					Input: map[string]interface{}{"yang": y, "path": path, "leaf": tc.leaf, "value": fmt.Sprintf("%T %v", tc.v, tc.v)}, Impl: bad, Spec: map[bool]string{true: "accepted and stored", false: "an error, nothing stored"}[tc.ok]})
			}
		}
	}
}

// identityref: a value is an identity derived from every base the type names (RFC 7950 9.10.2), which a base itself
// is not
func c05identityBases(c *core.Ctx) {
	y := `module ib { yang-version 1.1; namespace "urn:ib"; prefix ib; revision 2020-01-01;
  identity base1; identity base2; identity d1 { base base1; } identity d2 { base base2; } identity d12 { base base1; base base2; } identity dd { base d12; } identity d1d { base d1; }
  leaf id1 { type identityref { base base1; } } leaf id12 { type identityref { base base1; base base2; } }
  leaf-list idl { type identityref { base base2; base base1; } }
  typedef both { type identityref { base base1; base base2; } } leaf idt { type both; } leaf lr { type leafref { path "/ib:id12"; } } }`
	m, err := parser.LoadModuleFromString(nil, y)
	if err != nil {
		c.Violation(core.Replay{Kind: "property-failure", Class: "identity-bases-load", Summary: "valid module does not load: " + err.Error(), Input: y})
		return
	}
	derived1 := map[string]bool{"d1": true, "d12": true, "dd": true, "d1d": true}
	derivedBoth := map[string]bool{"d12": true, "dd": true}
	// the same verdict from the model (Member.identByBases), fed with what the compiled schema says each base derives
	var closure func(ids []*meta.Identity, out *[]string)
	closure = func(ids []*meta.Identity, out *[]string) {
		for _, id := range ids {
			*out = append(*out, id.Ident())
			closure(id.DerivedDirect(), out)
		}
	}
	var lines, impls, descs []string
	for _, leaf := range []string{"id1", "id12", "idl", "idt", "lr"} {
		for _, id := range []string{"base1", "base2", "d1", "d2", "d12", "dd", "d1d", "nope"} {
			want := derivedBoth[id]
			if leaf == "id1" {
				want = derived1[id]
			}
			doc := fmt.Sprintf(`{"%s":"%s"}`, leaf, id)
			if leaf == "idl" {
				doc = fmt.Sprintf(`{"idl":["d12","%s"]}`, id)
			}
			store := map[string]interface{}{}
			var werr error
			e := safeDo(func() error {
				src, err := nodeutil.ReadJSON(doc)
				if err != nil {
					return err
				}
				werr = node.NewBrowser(m, nodeutil.ReflectChild(store)).Root().UpsertFrom(src)
				return nil
			})
			_, stored := store[leaf]
			if e == nil && leaf != "idl" {
				t := meta.Find(m, leaf).(meta.HasType).Type()
				for hops := 0; t.Format().Single() == val.FmtLeafRef && hops < 8; hops++ {
					t = t.Resolve()
				}
				line := "c05 ident " + core.Hex(id)
				for _, b := range t.Base() {
					var names []string
					closure(b.DerivedDirect(), &names)
					line += " " + core.Hex(strings.Join(names, " "))
				}
				lines = append(lines, line)
				if stored {
					impls = append(impls, fmt.Sprintf("ok:%v", store[leaf]))
				} else {
					impls = append(impls, "err")
				}
				descs = append(descs, doc)
			}
			c.Evaluations++
			c.Count("identity_bases", map[bool]string{true: "derived from every base", false: "not derived from every base"}[want])
			c.Distinct("identbases " + doc)
			bad := ""
			switch {
			case e != nil:
				bad = e.Error()
			case want && (werr != nil || !stored):
				bad = fmt.Sprintf("refused (%v)", werr)
			case !want && stored:
				bad = fmt.Sprintf("accepted and stored as %v", store[leaf])
			case !want && werr == nil:
				bad = "not stored and no error"
			}
			if bad != "" {
				c.Violation(core.Replay{Kind: "property-failure", Class: "identity-bases", Summary: fmt.Sprintf("upsert %s: %s; derived from every base of the type: %v", doc, bad, want),
					Input: map[string]interface{}{"yang": y, "doc": doc}, Impl: bad, Spec: fmt.Sprint(want)})
			}
		}
	}
	outs, err := core.RunDriver(lines)
	if err != nil {
		c.ProofBroken = append(c.ProofBroken, err.Error())
		return
	}
	for i, o := range outs {
		c.Count("identity_bases_model", strings.SplitN(o, ":", 2)[0])
		if o != impls[i] {
			c.Violation(core.Replay{Kind: "correspondence", Class: "identity-bases-model", Summary: fmt.Sprintf("upsert %s: library %s, model (identByBases over the compiled identities) %s", descs[i], impls[i], o),
				Input: map[string]interface{}{"yang": y, "doc": descs[i], "line": lines[i]}, Impl: impls[i], Spec: o})
		}
	}
}

// "a rejected write stores nothing": an entry is not made under a key its key leaves refuse
func c05keyOutOfType(c *core.Ctx) {
	y := `module ko { namespace "urn:ko"; prefix ko; revision 2020-01-01;
  list items { key id; leaf id { type int32 { range "1..10"; } } leaf v { type string; } }
  list names { key n; leaf n { type string { length "1..3"; } } leaf v { type string; } }
  list two { key "a b"; leaf a { type string; } leaf b { type uint8 { range "0..9"; } } leaf v { type string; } }
  container c { list in { key e; leaf e { type enumeration { enum x; enum y; } } leaf v { type string; } } } }`
	m, err := parser.LoadModuleFromString(nil, y)
	if err != nil {
		c.Violation(core.Replay{Kind: "harness", Summary: "c05keyOutOfType module: " + err.Error(), NoInputFound: true})
		return
	}
	for _, be := range []string{"reflect-map", "node-map"} {
		for _, tc := range []struct {
			doc string
			ok  bool
		}{
			{`{"items":[{"id":99,"v":"x"}]}`, false}, {`{"items":[{"id":5,"v":"x"}]}`, true}, {`{"items":[{"id":3},{"id":0,"v":"x"}]}`, false},
			{`{"names":[{"n":"abcdef"}]}`, false}, {`{"names":[{"n":"abc"}]}`, true},
			{`{"two":[{"a":"k","b":77,"v":"x"}]}`, false}, {`{"two":[{"a":"k","b":7,"v":"x"}]}`, true},
		} {
			for _, op := range []string{"upsert", "insert"} {
				store := map[string]interface{}{}
				var werr error
				e := safeDo(func() error {
					var root node.Node = nodeutil.ReflectChild(store)
					if be == "node-map" {
						root = &nodeutil.Node{Object: store}
					}
					src, err := nodeutil.ReadJSON(tc.doc)
					if err != nil {
						return err
					}
					werr = applyEdit(node.NewBrowser(m, root).Root(), op, src)
					return nil
				})
				c.Evaluations++
				c.Count("key_out_of_type", be+" "+op)
				c.Distinct("keyoot " + be + op + tc.doc)
				bad := ""
				left := fmt.Sprint(store)
				switch {
				case e != nil:
					bad = e.Error()
				case tc.ok && werr != nil:
					bad = fmt.Sprintf("refused (%v)", werr)
				case !tc.ok && werr == nil:
					bad = "accepted, store " + left
				case !tc.ok && strings.Contains(left, "99") || !tc.ok && strings.Contains(left, "abcdef") || !tc.ok && strings.Contains(left, "77") || !tc.ok && strings.Contains(left, "0:"):
					bad = fmt.Sprintf("refused (%v) and an entry under the refused key is in the store: %s", werr, left)
				}
				if bad != "" {
					c.Violation(core.Replay{Kind: "property-failure", Class: "key-out-of-type-" + be, Summary: fmt.Sprintf("%s: %s of %s: %s", be, op, tc.doc, bad),
						Input: map[string]interface{}{"yang": y, "backend": be, "op": op, "doc": tc.doc}, Impl: bad, Spec: map[bool]string{true: "accepted", false: "an error, no entry under that key"}[tc.ok]})
				}
			}
		}
	}
}

// the largest length YANG has (18446744073709551615, the upper end of the length of string and binary) as a bound:
// a length is compared with it like with any other bound
func c05hugeLength(c *core.Ctx) {
	y := `module hl { namespace "urn:hl"; prefix hl; revision 2020-01-01;
  leaf big { type string { length "0..18446744073709551615"; } } leaf big2 { type string { length "2..18446744073709551615"; } }
  leaf bin { type binary { length "2..18446744073709551615"; } } leaf alt { type string { length "0..1|4..18446744073709551615"; } }
  typedef t { type string { length "1..18446744073709551615"; } } leaf der { type t { length "1..3"; } } }`
	m, err := parser.LoadModuleFromString(nil, y)
	if err != nil {
		c.Violation(core.Replay{Kind: "property-failure", Class: "huge-length-load", Summary: "valid module does not load: " + err.Error(), Input: y})
		return
	}
	for _, tc := range []struct {
		doc string
		ok  bool
	}{{`{"big":"abc"}`, true}, {`{"big":""}`, true}, {`{"big2":"a"}`, false}, {`{"big2":"ab"}`, true}, {`{"bin":"AQ=="}`, false}, {`{"bin":"AQID"}`, true},
		{`{"alt":"ab"}`, false}, {`{"alt":"a"}`, true}, {`{"alt":"abcde"}`, true}, {`{"der":"abcd"}`, false}, {`{"der":"abc"}`, true}, {`{"der":""}`, false}} {
		store := map[string]interface{}{}
		var werr error
		e := safeDo(func() error {
			src, err := nodeutil.ReadJSON(tc.doc)
			if err != nil {
				return err
			}
			werr = node.NewBrowser(m, nodeutil.ReflectChild(store)).Root().UpsertFrom(src)
			return nil
		})
		c.Evaluations++
		c.Count("huge_length", map[bool]string{true: "inside", false: "outside"}[tc.ok])
		c.Distinct("hugelen " + tc.doc)
		bad := ""
		switch {
		case e != nil:
			bad = e.Error()
		case tc.ok && (werr != nil || len(store) == 0):
			bad = fmt.Sprintf("refused (%v)", werr)
		case !tc.ok && (werr == nil || len(store) != 0):
			bad = fmt.Sprintf("accepted (%v), store %v", werr, store)
		}
		if bad != "" {
			kind := "property-failure"
			if tc.ok {
				// a value of the type that is refused: the property is one-directional, this is the correspondence with the model
				kind = "correspondence"
			}
			c.Violation(core.Replay{Kind: kind, Class: "huge-length", Summary: fmt.Sprintf("upsert %s: %s; the length is inside the restriction: %v", tc.doc, bad, tc.ok),
				Input: map[string]interface{}{"yang": y, "doc": tc.doc}, Impl: bad, Spec: fmt.Sprint(tc.ok)})
		}
	}
}

func c05module(c *core.Ctx, rng *core.Rng, mi int) {
	bases := []string{"int8", "int16", "int32", "int64", "uint8", "uint16", "uint32", "uint64", "decimal64", "string"}
	var leaves []*c05leaf
	var y strings.Builder
	y.WriteString("module m { namespace \"urn:m\"; prefix m; revision 2020-01-01;\n")
	nleaf := 40
	directed := []string{"100..max", "min..-100", "min..max", "-5..5", "min..0 | 100..max"}
	if mi == 0 {
		nleaf = 9 * len(directed) // module 0: every numeric base × the directed open-ended restrictions
	}
	for li := 0; li < nleaf; li++ {
		l := &c05leaf{name: fmt.Sprintf("l%d", li), base: core.Pick(rng, bases), kind: "range"}
		if mi == 0 {
			l.base = bases[li/len(directed)]
			d := directed[li%len(directed)]
			if strings.HasPrefix(l.base, "u") {
				d = strings.ReplaceAll(strings.ReplaceAll(d, "-100", "7"), "-5", "5")
			}
			l.tlo, l.thi, l.scale = c05bounds(l.base)
			l.levels = []string{d}
			fd := ""
			if l.base == "decimal64" {
				fd = " fraction-digits 2;"
			}
			fmt.Fprintf(&y, "leaf %s { type %s {%s range \"%s\"; } }\n", l.name, l.base, fd, d)
			leaves = append(leaves, l)
			continue
		}
		if l.base == "string" {
			l.kind = "length"
			if rng.Chance(30) {
				l.kind = "pattern"
			}
		}
		l.tlo, l.thi, l.scale = c05bounds(l.base)
		l.isList = rng.Chance(20) && l.kind != "pattern"
		depth := rng.Intn(4)
		pool := c05pool(l.tlo, l.thi, rng)
		if l.kind == "length" {
			pool = c05pool(big.NewInt(0), big.NewInt(12), rng)
		}
		stmt := "range"
		if l.kind == "length" {
			stmt = "length"
		}
		typeBody := func(level int) string {
			if l.kind == "pattern" {
				n := rng.Intn(3)
				if level == 0 && n == 0 && depth == 0 {
					n = 1
				}
				var sb strings.Builder
				for i := 0; i < n; i++ {
					p := core.Pick(rng, []string{"a.*", ".*b", "[0-9]+", "x?y*", ".*trouble.*", "[a-c]{2,3}"})
					inv := ""
					if rng.Chance(25) {
						inv = "invert"
						fmt.Fprintf(&sb, " pattern \"%s\" { modifier invert-match; }", p)
					} else {
						fmt.Fprintf(&sb, " pattern \"%s\";", p)
					}
					l.pats = append(l.pats, [2]string{p, inv}) // provisional: fixed below by effective-type read
				}
				return sb.String()
			}
			if rng.Chance(20) && !(level == 0 && depth == 0) {
				l.levels = append(l.levels, "")
				return ""
			}
			txt, _ := genRestriction(rng, pool, l.scale)
			l.levels = append(l.levels, txt)
			return fmt.Sprintf(" %s \"%s\";", stmt, txt)
		}
		fd := ""
		if l.base == "decimal64" {
			fd = " fraction-digits 2;"
		}
		// typedef chain: t_li_depth-1 (nearest to the leaf) … t_li_0 (on the built-in)
		leafBody := typeBody(0)
		var tds []string
		for k := depth - 1; k >= 0; k-- {
			under := l.base
			if k > 0 {
				under = fmt.Sprintf("t%d_%d", li, k-1)
			}
			body := typeBody(depth - k)
			extra := ""
			if k == 0 {
				extra = fd
			}
			tds = append(tds, fmt.Sprintf("typedef t%d_%d { type %s {%s%s } }\n", li, k, under, extra, body))
		}
		for i := len(tds) - 1; i >= 0; i-- {
			y.WriteString(tds[i])
		}
		tname := l.base
		extra := fd
		if depth > 0 {
			tname = fmt.Sprintf("t%d_%d", li, depth-1)
			extra = ""
		}
		kw := "leaf"
		if l.isList {
			kw = "leaf-list"
		}
		fmt.Fprintf(&y, "%s %s { type %s {%s%s } }\n", kw, l.name, tname, extra, leafBody)
		leaves = append(leaves, l)
	}
	y.WriteString("}\n")
	m, err := parser.LoadModuleFromString(nil, y.String())
	if err != nil {
		c.Count("module", "load-error")
		c.Extra["last_load_error"] = err.Error()
		return
	}
	c.Count("module", "loaded")
	store := map[string]interface{}{}
	b := node.NewBrowser(m, nodeutil.ReflectChild(store))

	type pend struct {
		desc, impl, class string
		input             map[string]interface{}
	}
	var lines []string
	var pends []pend
	for _, l := range leaves {
		def := meta.Find(m, l.name).(meta.Leafable)
		if l.kind == "pattern" {
			// the effective pattern list is read back from the compiled type (C02 owns how it is derived)
			pats := def.Type().Patterns()
			// ... but whether a pattern is inverted is what the module text says for it, not what the compiled
			// object says today: every pattern in effect must be one this leaf's chain wrote, with its modifier
			written := map[[2]string]bool{}
			for _, w := range l.pats {
				written[w] = true
			}
			for _, p := range pats {
				inv := ""
				if p.Inverted() {
					inv = "invert"
				}
				if !written[[2]string{p.Pattern, inv}] {
					c.Violation(core.Replay{Kind: "property-failure", Class: "pattern-modifier", Summary: fmt.Sprintf("leaf %s: pattern %q is in effect with invert-match=%v, which no type statement of its chain says (written: %v)", l.name, p.Pattern, p.Inverted(), l.pats),
						Input: map[string]interface{}{"module": y.String(), "leaf": l.name}})
				}
			}
			for _, s := range []string{"", "a", "ab", "b", "abc", "12", "a12", "12b", "xyy", "xyyz", "trouble", "no trouble here", "ccc", "cccc", "zzz"} {
				bits := "-"
				if len(pats) > 0 {
					bits = ""
					for _, p := range pats {
						// a pattern is about the whole value (RFC 7950 §9.4.5)
						ok := regexp.MustCompile("^(?:"+p.Pattern+")$").MatchString(s) != p.Inverted()
						if ok {
							bits += "1"
						} else {
							bits += "0"
						}
					}
				}
				res := c05write(b, store, l.name, s, s, "SetValue")
				lines = append(lines, "c05 pattern "+bits)
				pends = append(pends, pend{fmt.Sprintf("leaf %s patterns=%d value %q", l.name, len(pats), s), res, "pattern", map[string]interface{}{"module": y.String(), "leaf": l.name, "value": s}})
			}
			continue
		}
		// candidate values
		var cands []*big.Int
		addc := func(v *big.Int) { cands = append(cands, v) }
		re := regexp.MustCompile(`-?[0-9]+(\.[0-9]+)?`)
		for _, txt := range l.levels {
			for _, numtxt := range re.FindAllString(txt, -1) {
				r, ok := new(big.Rat).SetString(numtxt)
				if !ok {
					continue
				}
				sc := new(big.Rat).Mul(r, new(big.Rat).SetInt(new(big.Int).Exp(big.NewInt(10), big.NewInt(int64(l.scale)), nil)))
				if !sc.IsInt() {
					continue
				}
				for d := int64(-1); d <= 1; d++ {
					addc(new(big.Int).Add(sc.Num(), big.NewInt(d)))
				}
			}
		}
		lo, hi := l.tlo, l.thi
		if l.kind == "length" {
			lo, hi = big.NewInt(0), big.NewInt(14)
		}
		addc(lo)
		addc(hi)
		addc(new(big.Int).Add(lo, big.NewInt(1)))
		addc(new(big.Int).Sub(hi, big.NewInt(1)))
		addc(big.NewInt(0))
		for i := 0; i < 3; i++ {
			span := new(big.Int).Add(new(big.Int).Sub(hi, lo), big.NewInt(1))
			addc(new(big.Int).Add(lo, new(big.Int).Mod(new(big.Int).SetUint64(rng.U64()), span)))
		}
		var vals []*big.Int
		seen := map[string]bool{}
		for _, v := range cands {
			if v.Cmp(lo) < 0 || v.Cmp(hi) > 0 || seen[v.String()] {
				continue
			}
			seen[v.String()] = true
			vals = append(vals, v)
		}
		var levelHex []string
		for _, t := range l.levels {
			if t != "" {
				levelHex = append(levelHex, core.Hex(t))
			}
		}
		mkGo := func(v *big.Int) (goVal interface{}, jsonTxt string) {
			switch {
			case l.kind == "length":
				n := int(v.Int64())
				s := strings.Repeat("é", n/2) + strings.Repeat("x", n-n/2)
				return s, fmt.Sprintf("%q", s)
			case l.base == "decimal64":
				f, _ := new(big.Rat).SetFrac(v, big.NewInt(100)).Float64()
				return f, `"` + scaled(v, 2) + `"`
			case l.base == "int64":
				return v.Int64(), `"` + v.String() + `"`
			case l.base == "uint64":
				return v.Uint64(), `"` + v.String() + `"`
			default:
				return v.Int64(), v.String()
			}
		}
		if !l.isList {
			for _, v := range vals {
				g, j := mkGo(v)
				mv := v
				if l.kind == "length" {
					mv = big.NewInt(int64(utf8.RuneCountInString(g.(string))))
				}
				for _, path := range []string{"SetValue", "UpsertFrom(JSON)", "UpsertFrom(node)", "Constrain+UpsertFrom(JSON)", "Find?query+SetValue"} {
					res := c05write(b, store, l.name, g, j, path)
					tlo, thi := l.tlo, l.thi
					lines = append(lines, fmt.Sprintf("c05 range %d %s %s %s %s", l.scale, tlo, thi, mv, strings.Join(levelHex, " ")))
					pends = append(pends, pend{fmt.Sprintf("%s %s levels=%q value %s via %s", l.base, l.kind, l.levels, scaled(mv, l.scale), path), res, l.kind + "-" + path,
						map[string]interface{}{"module": y.String(), "leaf": l.name, "value": scaled(mv, l.scale), "path": path}})
				}
			}
		} else {
			for it := 0; it < 6 && len(vals) > 0; it++ {
				n := 1 + rng.Intn(3)
				var gl []interface{}
				var jl, ml []string
				for i := 0; i < n; i++ {
					v := core.Pick(rng, vals)
					g, j := mkGo(v)
					gl = append(gl, g)
					jl = append(jl, j)
					if l.kind == "length" {
						ml = append(ml, fmt.Sprint(utf8.RuneCountInString(g.(string))))
					} else {
						ml = append(ml, v.String())
					}
				}
				for _, path := range []string{"UpsertFrom(JSON)", "UpsertFrom(node)"} {
					res := c05write(b, store, l.name, gl, "["+strings.Join(jl, ",")+"]", path)
					lines = append(lines, fmt.Sprintf("c05 range %d %s %s %s %s", l.scale, l.tlo, l.thi, strings.Join(ml, ","), strings.Join(levelHex, " ")))
					pends = append(pends, pend{fmt.Sprintf("leaf-list %s %s levels=%q values %v via %s", l.base, l.kind, l.levels, ml, path), res, l.kind + "-list-" + path,
						map[string]interface{}{"module": y.String(), "leaf": l.name, "values": ml, "path": path}})
				}
			}
		}
	}
	outs, err := core.RunDriver(lines)
	if err != nil {
		c.ProofBroken = append(c.ProofBroken, err.Error())
		return
	}
	for i, o := range outs {
		c.Evaluations++
		p := pends[i]
		parts := strings.Fields(o)
		if len(parts) != 2 {
			continue
		}
		model, spec := parts[0], parts[1]
		c.Count("class", p.class)
		c.Count("impl_outcome", strings.SplitN(p.impl, ":", 2)[0])
		c.Distinct(p.desc)
		if (c.Evaluations)%1500 == 1 {
			c.Sample(map[string]string{"case": p.desc, "impl": p.impl, "model": model, "spec": spec})
		}
		switch {
		case strings.HasPrefix(p.impl, "PANIC"):
			c.Violation(core.Replay{Kind: "property-failure", Class: "panic-" + p.class, Summary: p.desc + ": " + p.impl, Input: p.input, Impl: p.impl, Spec: spec})
		case strings.HasPrefix(p.impl, "BAD-STORE"):
			c.Violation(core.Replay{Kind: "property-failure", Class: "store-" + p.class, Summary: p.desc + ": " + p.impl, Input: p.input, Impl: p.impl, Spec: spec})
		case p.impl == "accept" && spec == "0":
			if p.class == "pattern" && c.IsKnown("patterns-ored", p.desc) {
				continue
			}
			c.Violation(core.Replay{Kind: "property-failure", Class: "accept-" + p.class, Summary: p.desc + ": accepted and stored, but the value is outside the effective type", Input: p.input, Impl: p.impl, Model: model, Spec: spec})
		case model == "parse-error":
			c.Count("model", "parse-error")
		case (p.impl == "accept") != (model == "1"):
			c.Disagree++
			if c.Disagree <= 3 {
				fmt.Printf("  disagreement: %s impl=%s model=%s spec=%s\n", p.desc, p.impl, model, spec)
				c.Extra[fmt.Sprintf("disagreement_%d", c.Disagree)] = p.input
			}
		}
	}
	if c.Disagree > 0 && c.Violations() == 0 {
		c.Violation(core.Replay{Kind: "correspondence", Summary: fmt.Sprintf("range/length model and implementation disagree on %d writes (no accepted value was outside its type)", c.Disagree),
			Broken: "correspondence C05/range", NoInputFound: true})
	}
}

// c05write performs one write on the real code and checks the store before/after.
// result: accept | reject | PANIC:… | BAD-STORE:…
func c05write(b *node.Browser, store map[string]interface{}, leaf string, goVal interface{}, jsonTxt string, path string) (res string) {
	before := fmt.Sprintf("%#v", store[leaf])
	_, had := store[leaf]
	defer func() {
		if r := recover(); r != nil {
			res = fmt.Sprintf("PANIC:%v", r)
		}
	}()
	var err error
	switch path {
	case "SetValue":
		var sel *node.Selection
		sel, err = b.Root().Find(leaf)
		if err == nil && sel == nil {
			return "BAD-STORE:leaf-not-found"
		}
		if err == nil {
			err = sel.SetValue(goVal)
		}
	case "UpsertFrom(JSON)":
		var n node.Node
		n, err = nodeutil.ReadJSON(fmt.Sprintf(`{"%s":%s}`, leaf, jsonTxt))
		if err == nil {
			err = b.Root().UpsertFrom(n)
		}
	case "UpsertFrom(node)":
		err = b.Root().UpsertFrom(nodeutil.ReflectChild(map[string]interface{}{leaf: goVal}))
	case "Constrain+UpsertFrom(JSON)":
		// a fresh root whose first use is a constrained copy
		var sel *node.Selection
		sel, err = b.Root().Constrain("depth=10")
		if err == nil {
			var n node.Node
			n, err = nodeutil.ReadJSON(fmt.Sprintf(`{"%s":%s}`, leaf, jsonTxt))
			if err == nil {
				err = sel.UpsertFrom(n)
			}
		}
	case "Find?query+SetValue":
		var sel *node.Selection
		sel, err = b.Root().Find(leaf + "?content=config")
		if err == nil && sel == nil {
			return "BAD-STORE:leaf-not-found"
		}
		if err == nil {
			err = sel.SetValue(goVal)
		}
	}
	after := fmt.Sprintf("%#v", store[leaf])
	_, has := store[leaf]
	if err != nil {
		if after != before || has != had {
			return fmt.Sprintf("BAD-STORE:rejected write changed the store from %s to %s (%v)", before, after, err)
		}
		return "reject"
	}
	if !has {
		return "BAD-STORE:accepted write stored nothing"
	}
	return "accept"
}

const c05memberModule = `module mm { namespace "urn:mm"; prefix mm; revision 2020-01-01;
 identity base-a; identity d1 { base base-a; } identity d2 { base d1; } identity other;
 leaf e { type enumeration { enum one { value 1; } enum two; enum big { value 2147483647; } } }
 leaf b { type bits { bit b0 { position 0; } bit b3 { position 3; } bit b9; } }
 leaf i { type identityref { base base-a; } }
 leaf u { type union { type int8; type enumeration { enum x; enum y; } } }
 leaf-list bl { type bits { bit b0 { position 0; } bit b1 { position 1; } } }
 leaf-list el { type enumeration { enum one; enum two; } }
 leaf ur { type union { type int8 { range "1..5"; } type string { length "2..3"; pattern "[a-z]*"; } } }
 leaf rt { type int8 { range "1..5"; } } leaf lr { type leafref { path "/rt"; } }
 leaf-list rtl { type string { length "2..3"; } } leaf-list lrl { type leafref { path "/rtl"; } }
 leaf bn { type binary { length "2..4"; } }
 leaf de { type decimal64 { fraction-digits 2; } } leaf der { type decimal64 { fraction-digits 2; range "0..10"; } }
 leaf-list il { type identityref { base base-a; } }
}`

// enum / bits / identityref / union: accepted ⇒ declared member
func c05membership(c *core.Ctx, rng *core.Rng) {
	m, err := parser.LoadModuleFromString(nil, c05memberModule)
	if err != nil {
		c.Violation(core.Replay{Kind: "harness", Summary: "member module: " + err.Error(), NoInputFound: true})
		return
	}
	store := map[string]interface{}{}
	b := node.NewBrowser(m, nodeutil.ReflectChild(store))
	type tc struct {
		leaf string
		v    interface{}
		j    string
		ok   bool // in type
	}
	tcs := []tc{
		{"e", "one", `"one"`, true}, {"e", "two", `"two"`, true}, {"e", "three", `"three"`, false}, {"e", "", `""`, false}, {"e", "ONE", `"ONE"`, false},
		{"e", 1, `1`, true}, {"e", 2, `2`, true}, {"e", 3, `3`, false}, {"e", 2147483647, `2147483647`, true}, {"e", 1.5, `1.5`, false},
		{"b", "b0", `"b0"`, true}, {"b", "b0 b3", `"b0 b3"`, true}, {"b", "b0 zz", `"b0 zz"`, false}, {"b", "zz", `"zz"`, false}, {"b", []string{"b3", "nope"}, `"b3 nope"`, false},
		{"b", 9, `9`, true}, {"b", 2, `2`, false}, {"b", -1, `-1`, false}, {"b", 1.5, `1.5`, false}, {"b", 1 << 40, `1099511627776`, false},
		{"i", "d1", `"d1"`, true}, {"i", "d2", `"d2"`, true}, {"i", "mm:d2", `"mm:d2"`, true}, {"i", "other", `"other"`, false}, {"i", "nope", `"nope"`, false}, {"i", "", `""`, false},
		{"u", 5, `5`, true}, {"u", "x", `"x"`, true}, {"u", 300, `300`, false}, {"u", "z", `"z"`, false},
		// the restrictions of union members, of the leaf a leafref points to, of binary; not-a-number in a decimal64
		{"ur", 3, `3`, true}, {"ur", 9, `9`, false}, {"ur", 0, `0`, false}, {"ur", "ab", `"ab"`, true}, {"ur", "abcd", `"abcd"`, false}, {"ur", "AB", `"AB"`, false}, {"ur", "a", `"a"`, false},
		{"lr", 3, `3`, true}, {"lr", 9, `9`, false}, {"lr", 0, `0`, false}, {"lrl", []string{"ab", "abc"}, `["ab","abc"]`, true}, {"lrl", []string{"ab", "abcd"}, `["ab","abcd"]`, false}, {"lrl", []string{"a", "ab"}, `["a","ab"]`, false},
		{"bn", "aGk=", `"aGk="`, true}, {"bn", "aGVsbG8gd29ybGQ=", `"aGVsbG8gd29ybGQ="`, false}, {"bn", "AA==", `"AA=="`, false},
		{"de", "1.5", `1.5`, true}, {"de", "NaN", `"NaN"`, false}, {"de", "Inf", `"Inf"`, false}, {"de", "-Inf", `"-Inf"`, false}, {"de", math.NaN(), `"NaN"`, false}, {"de", math.Inf(1), `"+Inf"`, false},
		{"der", "NaN", `"NaN"`, false}, {"der", math.NaN(), `"NaN"`, false}, {"der", 5, `5`, true}, {"der", 11, `11`, false},
		// one element of a leaf-list that is not a member, in every position
		{"el", []string{"one", "two"}, `["one","two"]`, true}, {"el", []string{"mauve", "one"}, `["mauve","one"]`, false}, {"el", []string{"one", "mauve"}, `["one","mauve"]`, false}, {"el", []string{"one", "mauve", "two"}, `["one","mauve","two"]`, false},
		{"bl", []string{"b0", "b0 b1"}, `["b0","b0 b1"]`, true}, {"bl", []string{"zz", "b0"}, `["zz","b0"]`, false}, {"bl", []string{"b0", "zz", "b1"}, `["b0","zz","b1"]`, false},
		{"il", []string{"d1", "d2"}, `["d1","d2"]`, true}, {"il", []string{"other", "d1"}, `["other","d1"]`, false}, {"il", []string{"d1", "nope", "d2"}, `["d1","nope","d2"]`, false},
	}
	for _, t := range tcs {
		for _, path := range []string{"SetValue", "UpsertFrom(JSON)"} {
			c.Evaluations++
			res := c05write(b, store, t.leaf, t.v, t.j, path)
			c.Count("class", "member-"+t.leaf)
			c.Distinct(fmt.Sprint("member", t.leaf, t.v, path))
			desc := fmt.Sprintf("leaf %s value %v via %s", t.leaf, t.v, path)
			switch {
			case strings.HasPrefix(res, "PANIC"), strings.HasPrefix(res, "BAD-STORE"):
				c.Violation(core.Replay{Kind: "property-failure", Class: "member-" + t.leaf + "-crash", Summary: desc + ": " + res, Input: fmt.Sprint(t)})
			case res == "accept" && !t.ok:
				if t.leaf == "u" && c.IsKnown("union-member-restrictions", desc) {
					continue
				}
				c.Violation(core.Replay{Kind: "property-failure", Class: "member-" + t.leaf, Summary: desc + ": accepted although not a member of the type; stored " + fmt.Sprintf("%#v", store[t.leaf]), Input: fmt.Sprint(t)})
			case res == "reject" && t.ok:
				c.Count("spurious_reject", t.leaf)
			}
		}
	}
	// values that arrive already typed (a val.Value read from another leaf and handed to SetValue): the format
	// alone does not make them members of this leaf's type
	for _, t := range []struct {
		leaf string
		v    val.Value
		ok   bool
	}{{"e", val.Enum{Id: 1, Label: "one"}, true}, {"e", val.Enum{Id: 9, Label: "mauve"}, false}, {"e", val.Enum{Id: 2, Label: "other-two"}, false},
		{"el", val.EnumList{{Id: 0, Label: "one"}, {Id: 1, Label: "two"}}, true}, {"el", val.EnumList{{Id: 0, Label: "one"}, {Id: 5, Label: "mauve"}}, false},
		{"i", val.IdentRef{Label: "d1"}, true}, {"i", val.IdentRef{Label: "other"}, false}, {"i", val.IdentRef{Label: "fern"}, false},
		{"b", val.Bits{Positions: 1, Labels: []string{"b0"}}, true}} {
		c.Evaluations++
		res := c05write(b, store, t.leaf, t.v, "null", "SetValue")
		c.Count("class", "member-typed-"+t.leaf)
		desc := fmt.Sprintf("leaf %s typed value %#v via SetValue", t.leaf, t.v)
		switch {
		case strings.HasPrefix(res, "PANIC"), strings.HasPrefix(res, "BAD-STORE"):
			c.Violation(core.Replay{Kind: "property-failure", Class: "member-typed-crash", Summary: desc + ": " + res, Input: desc})
		case res == "accept" && !t.ok:
			c.Violation(core.Replay{Kind: "property-failure", Class: "member-typed-" + t.leaf, Summary: desc + ": accepted although not a member of the type; stored " + fmt.Sprintf("%#v", store[t.leaf]), Input: desc})
		case res == "reject" && t.ok:
			c.Count("spurious_reject", "typed-"+t.leaf)
		}
	}
	// bits through the model (names)
	var lines, descs, impls []string
	for _, names := range []string{"b0", "b0 b3", "b9 b0", "b0 zz", "zz", "b3 b3", ""} {
		res := c05write(b, store, "b", names, fmt.Sprintf("%q", names), "SetValue")
		lines = append(lines, fmt.Sprintf("c05 bits %s %s", core.Hex("b0:0,b3:3,b9:4"), core.Hex(names)))
		descs = append(descs, names)
		impls = append(impls, res)
	}
	outs, err := core.RunDriver(lines)
	if err == nil {
		for i, o := range outs {
			c.Evaluations++
			parts := strings.Fields(o)
			if len(parts) == 0 {
				continue
			}
			modelAccept := strings.HasPrefix(parts[0], "ok")
			if (impls[i] == "accept") != modelAccept {
				c.Disagree++
				c.Violation(core.Replay{Kind: "correspondence", Class: "bits-model", Summary: fmt.Sprintf("bits %q: impl %s, model %s", descs[i], impls[i], parts[0]), Input: descs[i], NoInputFound: impls[i] != "accept"})
			}
		}
	}
}
