package props

import (
	"io"
	"github.com/freeconf/yang/source"
	"fmt"
	"os"
	"os/exec"
	"sort"
	"strings"

	"verif/harness/core"
	"verif/harness/scn"

	"github.com/freeconf/yang/meta"
	"github.com/freeconf/yang/parser"
)

func init() { Registry["C06"] = C06 }

// ---- statements as written

type ystmt struct {
	kw   string
	arg  *string
	text bool // free text argument (any characters) rather than a token
	subs []*ystmt
}

func ys(kw string, arg string, subs ...*ystmt) *ystmt { return &ystmt{kw: kw, arg: &arg, subs: subs} }
func yt(kw string, arg string, subs ...*ystmt) *ystmt {
	return &ystmt{kw: kw, arg: &arg, text: true, subs: subs}
}

var c06texts = []string{"plain", "two words", "semi;colon", "brace{open", "close}brace", "quote\"dq", "apos'sq", "both'\"", "back\\slash", "tab\there", "new\nline",
	"// not a comment", "/* nor this */", "plus + sign", "", "é日本", "trailing ", " leading", "a\\nb", "ends\\", "\\\\", "container", "type", "true", "a/b:c", "x+y", "1.5", "-7",
	"multi\nline\n  indented", "\"", "'", "\\\"", "*/", "http://example.com/ns?x=1", "a\tb\\tc"}

// quoting styles of RFC 7950 §6.1.3
func c06unquotedOK(t string) bool {
	if t == "" || strings.ContainsAny(t, " \t\r\n\"';{}") || strings.Contains(t, "//") || strings.Contains(t, "/*") || strings.Contains(t, "*/") {
		return false
	}
	return true
}

func c06dq(t string, r *core.Rng) string {
	var b strings.Builder
	b.WriteByte('"')
	for _, ch := range t {
		switch ch {
		case '\\':
			b.WriteString("\\\\")
		case '"':
			b.WriteString("\\\"")
		case '\n':
			// a literal line break would bring the indentation rule in (recorded separately)
			b.WriteString("\\n")
		case '\t':
			if r.Chance(50) {
				b.WriteString("\\t")
			} else {
				b.WriteByte('\t')
			}
		default:
			b.WriteRune(ch)
		}
	}
	b.WriteByte('"')
	return b.String()
}

func c06sep(r *core.Rng) string {
	return core.Pick(r, []string{" ", " ", " ", "\n", "\t", "  ", " /* c */ ", "/**/", " // c\n", "\n  // line\n  ", " /* { ; } \" ' */ ", " /*/ slash first */ ", "/***/"})
}

func c06quote(t string, r *core.Rng, allowUnquoted bool) (string, string) {
	styles := []string{"double"}
	if allowUnquoted && c06unquotedOK(t) {
		styles = append(styles, "unquoted", "unquoted")
	}
	if !strings.Contains(t, "'") {
		styles = append(styles, "single")
	}
	if len(t) >= 2 {
		styles = append(styles, "concat")
	}
	switch st := core.Pick(r, styles); st {
	case "unquoted":
		return t, st
	case "single":
		return "'" + t + "'", st
	case "concat":
		rs := []rune(t)
		n := 2 + r.Intn(2)
		if r.Chance(3) {
			n = 33 + r.Intn(40) // more pieces than the lexer's token ring once held
		}
		var parts []string
		prev := 0
		for i := 1; i < n && prev < len(rs); i++ {
			cut := prev + r.Intn(len(rs)-prev+1)
			parts = append(parts, string(rs[prev:cut]))
			prev = cut
		}
		parts = append(parts, string(rs[prev:]))
		var b strings.Builder
		for i, p := range parts {
			if i > 0 {
				b.WriteString(c06sep(r) + "+" + c06sep(r))
			}
			if !strings.Contains(p, "'") && r.Chance(50) {
				b.WriteString("'" + p + "'")
			} else {
				b.WriteString(c06dq(p, r))
			}
		}
		return b.String(), st
	}
	return c06dq(t, r), "double"
}

type c06render struct {
	r      *core.Rng
	args   [][2]string // quoted argument as written, text it stands for
	styles map[string]int
	plain  bool // no comments, single blanks, tokens unquoted where legal
}

func (cr *c06render) sep() string {
	if cr.plain {
		return " "
	}
	return c06sep(cr.r)
}

func (cr *c06render) stmt(s *ystmt, indent string) string {
	if strings.HasPrefix(s.kw, "#") {
		return "" // not written: a fact the leaf inherits from its typedef
	}
	var b strings.Builder
	b.WriteString(indent + s.kw)
	if s.arg != nil {
		b.WriteString(cr.sep())
		if cr.plain && !s.text && c06unquotedOK(*s.arg) {
			b.WriteString(*s.arg)
		} else {
			q, st := c06quote(*s.arg, cr.r, true)
			if !s.text && c06unquotedOK(*s.arg) {
				// identifiers, numbers, dates and keywords-as-arguments are written bare
				q, st = *s.arg, "token"
			}
			// an unquoted argument ends at white space, ';' or '{': a comment right behind it would be read into it
			if st == "unquoted" || st == "token" {
				q += core.Pick(cr.r, []string{" ", "\n", "\t"})
			}
			cr.styles[st]++
			if st == "single" || st == "double" || st == "concat" {
				cr.args = append(cr.args, [2]string{q, *s.arg})
			}
			b.WriteString(q)
		}
	}
	if len(s.subs) == 0 {
		if !cr.plain && cr.r.Chance(30) {
			b.WriteString(cr.sep())
		}
		b.WriteString(";\n")
		return b.String()
	}
	b.WriteString(cr.sep() + "{\n")
	for _, k := range s.subs {
		b.WriteString(cr.stmt(k, indent+"  "))
	}
	if !cr.plain && cr.r.Chance(30) {
		b.WriteString(indent + "  // end of " + s.kw + "\n")
	}
	b.WriteString(indent + "}\n")
	return b.String()
}

// ---- generator of modules as statement trees with the facts to read back

type c06fact struct {
	path string // schema path of the definition ("" = module)
	what string
	want string
}

type c06typedef struct{ name, units, dflt string }

type c06gen struct {
	typedefs []c06typedef
	r     *core.Rng
	seq   int
	facts []c06fact
	exts  bool
}

func (g *c06gen) name(p string) string { g.seq++; return fmt.Sprintf("%s%d", p, g.seq) }
func (g *c06gen) text() string        { return core.Pick(g.r, c06texts) }
func (g *c06gen) fact(path, what, want string) {}

// facts are read off the finished statement tree, in textual order
var c06defKinds = map[string]bool{"module": true, "container": true, "list": true, "leaf": true, "leaf-list": true, "choice": true, "case": true}
var c06dataKinds = map[string]bool{"container": true, "list": true, "leaf": true, "leaf-list": true, "choice": true}

func c06facts(s *ystmt, path string, out *[]c06fact) {
	add := func(what, want string) { *out = append(*out, c06fact{path, what, want}) }
	nMust, nRev, nUnique := 0, 0, 0
	nExtOn := map[string]int{}
	var kids, cases []string
	for _, k := range s.subs {
		arg := ""
		if k.arg != nil {
			arg = *k.arg
		}
		switch {
		case strings.HasPrefix(k.kw, "m:"):
			add(fmt.Sprintf("extension@[%d]", nExtOn[""]), fmt.Sprintf("%s %q", k.kw, arg))
			nExtOn[""]++
		case k.kw == "must":
			add(fmt.Sprintf("must[%d]", nMust), arg)
			for _, ms := range k.subs {
				if !strings.HasPrefix(ms.kw, "m:") {
					add(fmt.Sprintf("must[%d].%s", nMust, ms.kw), *ms.arg)
				}
			}
			nMust++
		case k.kw == "revision":
			add(fmt.Sprintf("revision[%d]", nRev), arg)
			for _, rs := range k.subs {
				add(fmt.Sprintf("revision[%d].%s", nRev, rs.kw), *rs.arg)
			}
			nRev++
		case k.kw == "unique":
			add(fmt.Sprintf("unique[%d]", nUnique), strings.Join(strings.Fields(arg), " "))
			nUnique++
		case k.kw == "key":
			add("key", strings.Join(strings.Fields(arg), " "))
		case k.kw == "#inherited-units":
			add("units", arg)
		case k.kw == "#inherited-default":
			add("default", arg)
		case k.kw == "extension" || k.kw == "type" || k.kw == "argument" || k.kw == "typedef":
		case k.kw == "case":
			cases = append(cases, arg)
			c06facts(k, path+"/"+arg, out)
		case c06dataKinds[k.kw]:
			kids = append(kids, arg)
			c06facts(k, path+"/"+arg, out)
		default:
			add(k.kw, arg)
			// an extension below this statement
			for _, e := range k.subs {
				if strings.HasPrefix(e.kw, "m:") {
					ea := ""
					if e.arg != nil {
						ea = *e.arg
					}
					add(fmt.Sprintf("extension@%s[%d]", k.kw, nExtOn[k.kw]), fmt.Sprintf("%s %q", e.kw, ea))
					nExtOn[k.kw]++
				}
			}
		}
	}
	for kw, n := range nExtOn {
		add("extension-count@"+kw, fmt.Sprint(n))
	}
	if s.kw == "choice" {
		add("cases-in-order", strings.Join(cases, ","))
	} else if s.kw != "leaf" && s.kw != "leaf-list" {
		add("children", strings.Join(kids, ","))
	}
}

// an extension statement, optionally
func (g *c06gen) ext(path, onKeyword string, idx *int) *ystmt {
	if !g.exts || !g.r.Chance(25) {
		return nil
	}
	var s *ystmt
	if g.r.Chance(50) {
		a := g.text()
		s = yt("m:e1", a)
		g.fact(path, fmt.Sprintf("extension[%d]", *idx), fmt.Sprintf("%s m:e1 %q", onKeyword, a))
	} else {
		s = &ystmt{kw: "m:e2"}
		g.fact(path, fmt.Sprintf("extension[%d]", *idx), fmt.Sprintf("%s m:e2 %q", onKeyword, ""))
	}
	*idx++
	return s
}

// free text property with an optional extension below it
func (g *c06gen) textProp(path, kw string, extIdx *int, extendable bool) *ystmt {
	t := g.text()
	g.fact(path, kw, t)
	s := yt(kw, t)
	if extendable {
		if e := g.ext(path, kw, extIdx); e != nil {
			s.subs = append(s.subs, e)
		}
	}
	return s
}

func (g *c06gen) common(path string, subs *[]*ystmt, extIdx *int) {
	if g.r.Chance(50) {
		*subs = append(*subs, g.textProp(path, "description", extIdx, true))
	}
	if g.r.Chance(30) {
		*subs = append(*subs, g.textProp(path, "reference", extIdx, false))
	}
	if g.r.Chance(25) {
		st := core.Pick(g.r, []string{"current", "deprecated", "obsolete"})
		g.fact(path, "status", st)
		*subs = append(*subs, ys("status", st))
	}
	if g.r.Chance(25) {
		w := core.Pick(g.r, []string{"a > 5", "../x = 'y'", "b", "c/d != \"q\""})
		g.fact(path, "when", w)
		*subs = append(*subs, yt("when", w))
	}
	if e := g.ext(path, "", extIdx); e != nil {
		*subs = append(*subs, e)
	}
}

func (g *c06gen) musts(path string, subs *[]*ystmt) {
	for i, n := 0, g.r.Intn(3); i < n; i++ {
		expr := core.Pick(g.r, []string{"a > 5", "count(x) < 3", "../y = 'q'", "b or c"})
		m := yt("must", expr)
		g.fact(path, fmt.Sprintf("must[%d]", i), expr)
		if g.r.Chance(50) {
			t := g.text()
			g.fact(path, fmt.Sprintf("must[%d].error-message", i), t)
			m.subs = append(m.subs, yt("error-message", t))
		}
		if g.r.Chance(50) {
			t := core.Pick(g.r, []string{"tag-1", "too few", "x"})
			g.fact(path, fmt.Sprintf("must[%d].error-app-tag", i), t)
			m.subs = append(m.subs, yt("error-app-tag", t))
		}
		if g.r.Chance(30) {
			t := g.text()
			g.fact(path, fmt.Sprintf("must[%d].description", i), t)
			m.subs = append(m.subs, yt("description", t))
		}
		*subs = append(*subs, m)
	}
}

func (g *c06gen) shuffle(subs []*ystmt) {
	for i := len(subs) - 1; i > 0; i-- {
		j := g.r.Intn(i + 1)
		subs[i], subs[j] = subs[j], subs[i]
	}
}

func (g *c06gen) leaf(parent string, configFalse bool, isKey bool, fixedName string) *ystmt {
	n := fixedName
	if n == "" {
		n = g.name("f")
	}
	path := parent + "/" + n
	typ := core.Pick(g.r, []string{"string", "int32"})
	if isKey {
		typ = "string"
	}
	tdIdx := -1
	if !isKey && len(g.typedefs) > 0 && g.r.Chance(40) {
		tdIdx = g.r.Intn(len(g.typedefs))
		typ = "string"
	}
	var subs []*ystmt
	extIdx := 0
	g.common(path, &subs, &extIdx)
	g.musts(path, &subs)
	if !isKey {
		switch g.r.Intn(4) {
		case 0:
			d := core.Pick(g.r, []string{"7", "42", "-3"})
			if typ == "string" {
				d = g.text()
			}
			g.fact(path, "default", d)
			s := yt("default", d)
			if e := g.ext(path, "default", &extIdx); e != nil {
				s.subs = append(s.subs, e)
			}
			subs = append(subs, s)
		case 1:
			b := core.Pick(g.r, []string{"true", "false"})
			g.fact(path, "mandatory", b)
			subs = append(subs, ys("mandatory", b))
		}
		if !configFalse && g.r.Chance(25) {
			b := core.Pick(g.r, []string{"true", "false"})
			g.fact(path, "config", b)
			subs = append(subs, ys("config", b))
		}
	}
	if g.r.Chance(30) {
		u := core.Pick(g.r, []string{"seconds", "m/s", "percent of total", "°C"})
		g.fact(path, "units", u)
		s := yt("units", u)
		if e := g.ext(path, "units", &extIdx); e != nil {
			s.subs = append(s.subs, e)
		}
		subs = append(subs, s)
	}
	g.shuffle(subs)
	if tdIdx >= 0 {
		td := g.typedefs[tdIdx]
		// what the leaf does not state it takes from the typedef
		has := map[string]bool{}
		for _, k := range subs {
			has[k.kw] = true
		}
		if td.units != "" && !has["units"] {
			subs = append(subs, &ystmt{kw: "#inherited-units", arg: &td.units})
		}
		if td.dflt != "" && !has["default"] && !has["mandatory"] {
			subs = append(subs, &ystmt{kw: "#inherited-default", arg: &td.dflt})
		}
		subs = append(subs, ys("type", td.name))
	} else {
		subs = append(subs, ys("type", typ))
	}
	g.shuffle(subs)
	return ys("leaf", n, subs...)
}

func (g *c06gen) minmax(path string, subs *[]*ystmt) {
	if g.r.Chance(35) {
		mn := g.r.Intn(3)
		g.fact(path, "min-elements", fmt.Sprint(mn))
		*subs = append(*subs, ys("min-elements", fmt.Sprint(mn)))
	}
	if g.r.Chance(35) {
		mx := core.Pick(g.r, []string{"unbounded", "5", "100"})
		g.fact(path, "max-elements", mx)
		*subs = append(*subs, ys("max-elements", mx))
	}
	if g.r.Chance(30) {
		ob := core.Pick(g.r, []string{"user", "system"})
		g.fact(path, "ordered-by", ob)
		*subs = append(*subs, ys("ordered-by", ob))
	}
}

func (g *c06gen) nodes(parent string, depth int, configFalse bool, n int) ([]*ystmt, []string) {
	var out []*ystmt
	var names []string
	for i := 0; i < n; i++ {
		k := g.r.Intn(10)
		switch {
		case k < 4 || depth >= 2:
			s := g.leaf(parent, configFalse, false, "")
			out, names = append(out, s), append(names, *s.arg)
		case k < 5:
			nm := g.name("ll")
			path := parent + "/" + nm
			var subs []*ystmt
			extIdx := 0
			g.common(path, &subs, &extIdx)
			g.minmax(path, &subs)
			if g.r.Chance(30) {
				u := "items"
				g.fact(path, "units", u)
				subs = append(subs, ys("units", u))
			}
			subs = append(subs, ys("type", "string"))
			g.shuffle(subs)
			out, names = append(out, ys("leaf-list", nm, subs...)), append(names, nm)
		case k < 7:
			nm := g.name("c")
			path := parent + "/" + nm
			var subs []*ystmt
			extIdx := 0
			g.common(path, &subs, &extIdx)
			g.musts(path, &subs)
			cf := configFalse
			if !configFalse && g.r.Chance(20) {
				cf = true
				g.fact(path, "config", "false")
				subs = append(subs, ys("config", "false"))
			}
			if g.r.Chance(30) {
				p := g.text()
				g.fact(path, "presence", p)
				subs = append(subs, yt("presence", p))
			}
			g.shuffle(subs)
			kids, kn := g.nodes(path, depth+1, cf, 1+g.r.Intn(3))
			g.fact(path, "children", strings.Join(kn, ","))
			out, names = append(out, ys("container", nm, append(subs, kids...)...)), append(names, nm)
		case k < 9:
			nm := g.name("l")
			path := parent + "/" + nm
			var subs []*ystmt
			extIdx := 0
			g.common(path, &subs, &extIdx)
			g.musts(path, &subs)
			g.minmax(path, &subs)
			cf := configFalse
			if !configFalse && g.r.Chance(20) {
				cf = true
				g.fact(path, "config", "false")
				subs = append(subs, ys("config", "false"))
			}
			k1 := g.name("k")
			keyLeaves := []*ystmt{g.leaf(path, cf, true, k1)}
			key := k1
			if g.r.Chance(30) {
				k2 := g.name("k")
				keyLeaves = append(keyLeaves, g.leaf(path, cf, true, k2))
				key = k1 + core.Pick(g.r, []string{" ", "  ", "\n "}) + k2
				g.fact(path, "key", k1+" "+k2)
			} else {
				g.fact(path, "key", k1)
			}
			subs = append(subs, yt("key", key))
			kids, kn := g.nodes(path, depth+1, cf, 1+g.r.Intn(3))
			var leafKids []string
			for j, kk := range kids {
				if kk.kw == "leaf" {
					leafKids = append(leafKids, kn[j])
				}
			}
			if len(leafKids) > 0 && g.r.Chance(40) {
				u := leafKids[0]
				if len(leafKids) > 1 && g.r.Chance(50) {
					u += " " + leafKids[1]
				}
				g.fact(path, "unique[0]", u)
				subs = append(subs, yt("unique", u))
			}
			g.shuffle(subs)
			all := append(keyLeaves, kids...)
			var an []string
			for _, a := range all {
				an = append(an, *a.arg)
			}
			g.fact(path, "children", strings.Join(an, ","))
			out, names = append(out, ys("list", nm, append(subs, all...)...)), append(names, nm)
		default:
			nm := g.name("ch")
			path := parent + "/" + nm
			var subs []*ystmt
			extIdx := 0
			g.common(path, &subs, &extIdx)
			var cases []*ystmt
			var caseNames []string
			for ci, cn := 0, 2+g.r.Intn(2); ci < cn; ci++ {
				cname := g.name(core.Pick(g.r, []string{"zc", "ac", "mc"}))
				cpath := path + "/" + cname
				var csubs []*ystmt
				cIdx := 0
				g.common(cpath, &csubs, &cIdx)
				kids, kn := g.nodes(cpath, 2, configFalse, 1+g.r.Intn(2))
				g.fact(cpath, "children", strings.Join(kn, ","))
				cases = append(cases, ys("case", cname, append(csubs, kids...)...))
				caseNames = append(caseNames, cname)
			}
			if g.r.Chance(40) {
				d := core.Pick(g.r, caseNames)
				g.fact(path, "default", d)
				subs = append(subs, ys("default", d))
			} else if g.r.Chance(40) {
				g.fact(path, "mandatory", "true")
				subs = append(subs, ys("mandatory", "true"))
			}
			g.fact(path, "cases-in-order", strings.Join(caseNames, ","))
			g.shuffle(subs)
			out, names = append(out, ys("choice", nm, append(subs, cases...)...)), append(names, nm)
		}
	}
	return out, names
}

func (g *c06gen) module() *ystmt {
	var subs []*ystmt
	extIdx := 0
	if g.r.Chance(70) {
		v := core.Pick(g.r, []string{"1", "1.1"})
		g.fact("", "yang-version", v)
		subs = append(subs, ys("yang-version", v))
	}
	ns := core.Pick(g.r, []string{"urn:m", "http://example.com/ns?x=1", "urn:a:b:c"})
	g.fact("", "namespace", ns)
	nsS := yt("namespace", ns)
	if e := g.ext("", "namespace", &extIdx); e != nil {
		nsS.subs = append(nsS.subs, e)
	}
	subs = append(subs, nsS, ys("prefix", "m"))
	g.fact("", "prefix", "m")
	var meta []*ystmt
	for _, kw := range []string{"organization", "contact", "description", "reference"} {
		if g.r.Chance(60) {
			meta = append(meta, g.textProp("", kw, &extIdx, kw == "description"))
		}
	}
	subs = append(subs, meta...)
	dates := []string{"2024-03-01", "2023-12-31", "2020-01-01"}
	nrev := 1 + g.r.Intn(3)
	for i := 0; i < nrev; i++ {
		var rs []*ystmt
		if g.r.Chance(60) {
			t := g.text()
			g.fact("", fmt.Sprintf("revision[%d].description", i), t)
			rs = append(rs, yt("description", t))
		}
		if g.r.Chance(40) {
			t := g.text()
			g.fact("", fmt.Sprintf("revision[%d].reference", i), t)
			rs = append(rs, yt("reference", t))
		}
		g.fact("", fmt.Sprintf("revision[%d]", i), dates[i])
		subs = append(subs, ys("revision", dates[i], rs...))
	}
	subs = append(subs, ys("extension", "e1", ys("argument", "name")), ys("extension", "e2"))
	for i, n := 0, g.r.Intn(3); i < n; i++ {
		td := c06typedef{name: g.name("td")}
		tsubs := []*ystmt{ys("type", "string")}
		if g.r.Chance(70) {
			td.units = core.Pick(g.r, []string{"tu", "typedef units", "s"})
			tsubs = append(tsubs, yt("units", td.units))
		}
		if g.r.Chance(50) {
			td.dflt = core.Pick(g.r, []string{"td", "typedef default"})
			tsubs = append(tsubs, yt("default", td.dflt))
		}
		g.typedefs = append(g.typedefs, td)
		subs = append(subs, ys("typedef", td.name, tsubs...))
	}
	if e := g.ext("", "", &extIdx); e != nil {
		subs = append(subs, e)
	}
	kids, kn := g.nodes("", 0, false, 2+g.r.Intn(4))
	g.fact("", "children", strings.Join(kn, ","))
	return ys("module", "m", append(subs, kids...)...)
}

// ---- reading the facts back from the compiled schema

func c06find(m *meta.Module, path string) meta.Meta {
	var cur meta.Meta = m
	if path == "" {
		return m
	}
	for _, seg := range strings.Split(strings.TrimPrefix(path, "/"), "/") {
		switch x := cur.(type) {
		case *meta.Choice:
			c, ok := x.Cases()[seg]
			if !ok {
				return nil
			}
			cur = c
		case meta.HasDataDefinitions:
			var found meta.Meta
			for _, d := range x.DataDefinitions() {
				if d.Ident() == seg {
					found = d
				}
			}
			if found == nil {
				return nil
			}
			cur = found
		default:
			return nil
		}
	}
	return cur
}

func c06read(m *meta.Module, f c06fact) (got string, ok bool) {
	defer func() {
		if r := recover(); r != nil {
			got, ok = fmt.Sprintf("PANIC %v", r), true
		}
	}()
	n := c06find(m, f.path)
	if n == nil {
		return "<definition not found>", true
	}
	what := f.what
	idx := -1
	sub := ""
	if i := strings.Index(what, "["); i >= 0 {
		j := strings.Index(what, "]")
		fmt.Sscan(what[i+1:j], &idx)
		sub = strings.TrimPrefix(what[j+1:], ".")
		what = what[:i]
	}
	switch what {
	case "description":
		return n.(meta.Describable).Description(), true
	case "reference":
		return n.(meta.Describable).Reference(), true
	case "organization":
		return m.Organization(), true
	case "contact":
		return m.Contact(), true
	case "namespace":
		return m.Namespace(), true
	case "prefix":
		return m.Prefix(), true
	case "yang-version":
		return m.Version(), true
	case "revision":
		revs := m.Revisions()
		if idx >= len(revs) {
			return "<no such revision>", true
		}
		switch sub {
		case "":
			return revs[idx].Ident(), true
		case "description":
			return revs[idx].Description(), true
		case "reference":
			return revs[idx].Reference(), true
		}
	case "status":
		if hs, is := n.(interface{ Status() meta.Status }); is {
			return map[meta.Status]string{meta.Current: "current", meta.Deprecated: "deprecated", meta.Obsolete: "obsolete"}[hs.Status()], true
		}
		return "<no Status()>", true
	case "when":
		// the node's own condition: the ones it has from a uses, an augment, its choice or its case come before it in
		// the chain and are marked as evaluated where the node lives
		w := n.(meta.HasWhen).When()
		for w != nil && w.ParentContext() {
			w = w.And()
		}
		if w == nil {
			return "<nil>", true
		}
		return w.Expression(), true
	case "must":
		ms := n.(meta.HasMusts).Musts()
		if idx >= len(ms) {
			return "<no such must>", true
		}
		switch sub {
		case "":
			return ms[idx].Expression(), true
		case "error-message":
			return ms[idx].ErrorMessage(), true
		case "error-app-tag":
			return ms[idx].ErrorAppTag(), true
		case "description":
			return ms[idx].Description(), true
		}
	case "default":
		switch x := n.(type) {
		case *meta.Leaf:
			return x.Default(), true
		case *meta.Choice:
			return x.Default(), true
		}
	case "mandatory":
		return fmt.Sprint(n.(interface{ Mandatory() bool }).Mandatory()), true
	case "config":
		return fmt.Sprint(n.(interface{ Config() bool }).Config()), true
	case "units":
		return n.(interface{ Units() string }).Units(), true
	case "presence":
		return n.(*meta.Container).Presence(), true
	case "min-elements":
		return fmt.Sprint(n.(interface{ MinElements() int }).MinElements()), true
	case "max-elements":
		x := n.(interface {
			MaxElements() int
			Unbounded() bool
		})
		if x.Unbounded() {
			return "unbounded", true
		}
		return fmt.Sprint(x.MaxElements()), true
	case "ordered-by":
		ob := n.(interface{ OrderedBy() meta.OrderedBy }).OrderedBy()
		return map[meta.OrderedBy]string{meta.OrderedBySystem: "system", meta.OrderedByUser: "user"}[ob], true
	case "key":
		var ks []string
		for _, k := range n.(*meta.List).KeyMeta() {
			ks = append(ks, k.Ident())
		}
		return strings.Join(ks, " "), true
	case "unique":
		u := n.(*meta.List).Unique()
		if idx >= len(u) {
			return "<no such unique>", true
		}
		return strings.Join(u[idx], " "), true
	case "children":
		var ks []string
		for _, d := range n.(meta.HasDataDefinitions).DataDefinitions() {
			ks = append(ks, d.Ident())
		}
		return strings.Join(ks, ","), true
	case "cases-in-order":
		// the only order the public API offers
		return strings.Join(n.(*meta.Choice).CaseIdents(), ","), true
	default:
		if strings.HasPrefix(what, "extension-count@") {
			kw := strings.TrimPrefix(what, "extension-count@")
			n0 := 0
			for _, e := range n.(meta.HasExtensions).Extensions() {
				if e.Keyword() == kw {
					n0++
				}
			}
			return fmt.Sprint(n0), true
		}
		if strings.HasPrefix(what, "extension@") {
			kw := strings.TrimPrefix(what, "extension@")
			var es []*meta.Extension
			for _, e := range n.(meta.HasExtensions).Extensions() {
				if e.Keyword() == kw {
					es = append(es, e)
				}
			}
			if idx >= len(es) {
				return fmt.Sprintf("<only %d extensions on %q>", len(es), kw), true
			}
			e := es[idx]
			return fmt.Sprintf("%s:%s %q", e.Prefix(), e.Ident(), e.Argument()), true
		}
	}
	return "", false
}

// canonical dump of everything the facts can ask for, for the determinism check
func c06dump(m *meta.Module) string {
	d := DumpModule(m, true)
	return strings.Join(d.Lines(), "\n")
}

// C06Worker is run in a child process: loads the module text in the file and prints its dump.
func C06Worker(file string) {
	b, err := os.ReadFile(file)
	if err != nil {
		fmt.Println("ERR", err)
		return
	}
	for i, y := range strings.Split(string(b), "\x00") {
		m, err := parser.LoadModuleFromString(nil, y)
		if err != nil {
			fmt.Printf("#%d ERR %v\n", i, err)
			continue
		}
		fmt.Printf("#%d\n%s\n", i, c06dump(m))
	}
}

func C06(c *core.Ctx) {
	c.Rule = "generated module texts as statement trees: header (yang-version, namespace, prefix, organization, contact, description, reference, revisions with description/reference), extension definitions, containers / lists (one and two keys, unique) / leaves / leaf-lists / choices with cases, each with a random subset of description, reference, status, when, must (error-message, error-app-tag, description), config, mandatory, presence, units, default, min/max-elements, ordered-by, extension statements on the definition and below description/default/units/namespace, substatements in random order; every argument in a random legal quoting (unquoted, single, double with escapes, '+' concatenation of 2–3 pieces) from a pool of hostile texts; random blanks, line breaks, block and line comments between all tokens; every written fact read back through the public accessors; the same text loaded 3 times in-process and in 2 child processes must give identical dumps; the plainly formatted text of the same module must give the same schema as the decorated one. non-trivial = module with ≥1 quoted hostile text and ≥1 comment between tokens; distinct by module text; directed: grouping and typedef scoped to an rpc and to an action, a refine with an empty body"
	c.Assumptions = append(c.Assumptions,
		"double-quoted strings are generated without literal line breaks (RFC 7950 §6.1.3 strips indentation after them; see known finding dq-indentation-kept), line breaks are written as \\n or inside single quotes",
		"must/when expressions are compared as text, not evaluated")
	c.ProofStep("YangVerif.Props.C06")
	if c.Thorough() {
		c.LeanChecker("YangVerif.Props.C06")
	}
	rng := core.NewRng(c.Seed)
	nMods := c.N(60, 2500)
	var lines []string
	var written [][2]string
	var texts []string
	var dumps []string
	for mi := 0; mi < nMods; mi++ {
		r := rng.Fork()
		g := &c06gen{r: r, exts: r.Chance(70)}
		mod := g.module()
		cr := &c06render{r: r, styles: map[string]int{}}
		y := cr.stmt(mod, "")
		for st, n := range cr.styles {
			for i := 0; i < n; i++ {
				c.Count("quoting", st)
			}
		}
		for _, a := range cr.args {
			term := core.Pick(r, []string{";", " ;", "\n{", " /* c */ ;", "// x\n;"})
			lines = append(lines, "c06 arg "+core.Hex(a[0]+term))
			written = append(written, [2]string{a[0] + term, a[1]})
		}
		plain := (&c06render{r: r, styles: map[string]int{}, plain: true}).stmt(mod, "")
		var m *meta.Module
		lerr := safeDo(func() error {
			var e error
			m, e = parser.LoadModuleFromString(nil, y)
			return e
		})
		c.Evaluations++
		input := map[string]interface{}{"yang": y}
		if lerr != nil {
			what := "module does not load: " + lerr.Error()
			if id := c06known(what, y); id != "" && c.IsKnown(id, short(what)) {
				continue
			}
			c.Violation(core.Replay{Kind: "property-failure", Class: "load-" + c06errClass(lerr.Error()), Summary: short(what) + " — " + short(y), Input: input})
			continue
		}
		c.Distinct(fmt.Sprint(mi))
		var facts []c06fact
		c06facts(mod, "", &facts)
		for _, f := range facts {
			got, ok := c06read(m, f)
			c.Evaluations++
			c.Count("fact", strings.SplitN(strings.SplitN(f.what, "[", 2)[0], ".", 2)[0])
			if !ok {
				c.Count("harness", "unreadable:"+f.what)
				continue
			}
			if got != f.want {
				what := fmt.Sprintf("%s of %s: written %q, read back %q", f.what, map[bool]string{true: "module", false: f.path}[f.path == ""], f.want, got)
				if id := c06knownFact(f, got); id != "" && c.IsKnown(id, what) {
					continue
				}
				c.Violation(core.Replay{Kind: "property-failure", Class: "fact-" + strings.SplitN(f.what, "[", 2)[0], Summary: what, Input: input, Impl: got, Spec: f.want})
			}
		}
		// the undecorated text of the same module gives the same schema
		d1 := c06dump(m)
		if mp, err := parser.LoadModuleFromString(nil, plain); err != nil {
			c.Violation(core.Replay{Kind: "property-failure", Class: "plain-load", Summary: "plainly formatted module does not load: " + err.Error(), Input: map[string]interface{}{"yang": plain}})
		} else if d2 := c06dump(mp); d2 != d1 {
			c.Violation(core.Replay{Kind: "property-failure", Class: "layout-dependent", Summary: "the same statements with comments/quoting/line breaks compile to a different schema: " + c06firstDiff(d1, d2), Input: map[string]interface{}{"yang": y, "plain": plain}})
		}
		// repeated loads in this process
		for i := 0; i < 2; i++ {
			if m2, err := parser.LoadModuleFromString(nil, y); err != nil || c06dump(m2) != d1 {
				c.Violation(core.Replay{Kind: "property-failure", Class: "reload-differs", Summary: "loading the same text again gives a different schema", Input: input})
				break
			}
		}
		if mi < c.N(20, 200) {
			texts = append(texts, y)
			dumps = append(dumps, d1)
		}
	}
	// other processes (Go randomises map iteration per process)
	if len(texts) > 0 {
		tmp, err := os.CreateTemp("", "c06-*.txt")
		if err == nil {
			tmp.WriteString(strings.Join(texts, "\x00"))
			tmp.Close()
			defer os.Remove(tmp.Name())
			self, _ := os.Executable()
			for p := 0; p < 2; p++ {
				out, err := exec.Command(self, "--c06-worker", tmp.Name()).Output()
				c.Evaluations++
				c.Count("process", "child")
				if err != nil {
					c.Violation(core.Replay{Kind: "harness", Summary: "C06 worker failed: " + err.Error(), NoInputFound: true})
					break
				}
				parts := strings.Split("\n"+string(out), "\n#")
				for i := range texts {
					want := fmt.Sprintf("%d\n%s\n", i, dumps[i])
					if i+1 >= len(parts) || strings.TrimRight(parts[i+1], "\n") != strings.TrimRight(want, "\n") {
						c.Violation(core.Replay{Kind: "property-failure", Class: "process-differs", Summary: "another process compiles the same text to a different schema", Input: map[string]interface{}{"yang": texts[i]}})
						break
					}
				}
			}
		}
	}
	// the Lean reader on every quoted argument as it was written into the modules above
	outs, derr := core.RunDriver(lines)
	if derr != nil {
		c.ProofBroken = append(c.ProofBroken, derr.Error())
		return
	}
	for i, o := range outs {
		f := strings.Fields(o)
		c.Evaluations++
		c.Count("model_arg", map[bool]string{true: "read", false: "rejected"}[len(f) == 2])
		got := "<rejected>"
		rest := ""
		if len(f) == 2 {
			got, rest = core.Unhex(f[0]), core.Unhex(f[1])
		}
		if i%499 == 0 {
			c.Sample(map[string]interface{}{"written": written[i][0], "text": written[i][1], "model_reads": got})
		}
		if got != written[i][1] || (rest != ";" && rest != "{") {
			c.Violation(core.Replay{Kind: "correspondence", Class: "model-arg", Summary: fmt.Sprintf("argument written %q for the text %q: the Lean reader gives %q, rest %q (the library read the text back from the same module)", written[i][0], written[i][1], got, rest),
				Input: map[string]interface{}{"written": written[i][0], "text": written[i][1]}, Model: got})
		}
	}
	// fixed probes for recorded findings and repaired defects
	c06probes(c)
}

func c06firstDiff(a, b string) string {
	la, lb := strings.Split(a, "\n"), strings.Split(b, "\n")
	for i := 0; i < len(la) && i < len(lb); i++ {
		if la[i] != lb[i] {
			return short(la[i]) + " ≠ " + short(lb[i])
		}
	}
	return fmt.Sprintf("%d vs %d lines", len(la), len(lb))
}

func c06errClass(e string) string {
	f := strings.Fields(e)
	if len(f) > 3 {
		f = f[:3]
	}
	return strings.Join(f, "-")
}

func c06known(what, y string) string { return "" }

func c06knownFact(f c06fact, got string) string {
	if f.what == "status" && got == "current" {
		return "status-not-stored"
	}
	if strings.HasPrefix(f.what, "extension-count@") && f.what != "extension-count@" {
		var w, g int
		fmt.Sscan(f.want, &w)
		fmt.Sscan(got, &g)
		if g == 2*w {
			return "secondary-extension-listed-twice"
		}
	}
	if f.what == "cases-in-order" {
		// same set, sorted
		w := strings.Split(f.want, ",")
		sort.Strings(w)
		if strings.Join(w, ",") == got {
			return "choice-case-order-lost"
		}
	}
	return ""
}

func c06probes(c *core.Ctx) {
	type probe struct {
		name, y string
		check   func(m *meta.Module, err error) string // "" = fine
		known   string
	}
	hdr := "module m { namespace \"urn:m\"; prefix m; revision 2020-01-01;\n"
	probes := []probe{
		{"line comment at end of input without line break", hdr + "} // bye", func(m *meta.Module, err error) string {
			if err != nil {
				return "load fails: " + err.Error()
			}
			return ""
		}, ""},
		{"line comment only", hdr + "leaf a { type string; } //\n}", func(m *meta.Module, err error) string {
			if err != nil {
				return "load fails: " + err.Error()
			}
			return ""
		}, ""},
		{"indented continuation lines of a double-quoted string", hdr + "  leaf a { type string;\n    description \"first\n                 second\"; }\n}", func(m *meta.Module, err error) string {
			if err != nil {
				return "load fails: " + err.Error()
			}
			got := m.DataDefinitions()[0].(meta.Describable).Description()
			if got != "first\nsecond" {
				return fmt.Sprintf("description reads %q, RFC 7950 §6.1.3 gives %q", got, "first\nsecond")
			}
			return ""
		}, "dq-indentation-kept"},
		{"quoted number arguments", hdr + "  leaf-list a { type string; min-elements '3'; max-elements \"7\"; }\n}", func(m *meta.Module, err error) string {
			if err != nil {
				return "load fails: " + err.Error()
			}
			ll := m.DataDefinitions()[0].(*meta.LeafList)
			if ll.MinElements() != 3 || ll.MaxElements() != 7 {
				return fmt.Sprintf("min-elements reads %d, max-elements %d", ll.MinElements(), ll.MaxElements())
			}
			return ""
		}, ""},
		{"300 nested containers", hdr + strings.Repeat("container c { ", 300) + strings.Repeat("} ", 300) + "\n}", func(m *meta.Module, err error) string {
			if err != nil {
				return "load fails: " + err.Error()
			}
			return ""
		}, ""},
		{"extension statement with a body", "module m { namespace \"urn:m\"; prefix m; revision 2020-01-01; extension e1 { argument a; }\n leaf a { type string; m:e1 \"arg\" { description \"in\"; } }\n}", func(m *meta.Module, err error) string {
			if err != nil {
				return "load fails: " + err.Error()
			}
			es := m.DataDefinitions()[0].(*meta.Leaf).Extensions()
			if len(es) != 1 || es[0].Argument() != "arg" {
				return fmt.Sprintf("extensions read %d, argument %q", len(es), es[0].Argument())
			}
			return ""
		}, ""},
		{"quoted yang-version and revision date", "module m { yang-version \"1.1\"; namespace \"urn:m\"; prefix m; revision \"2020-01-01\";\n}", func(m *meta.Module, err error) string {
			if err != nil {
				return "load fails: " + err.Error()
			}
			if m.Version() != "1.1" || m.Revisions()[0].Ident() != "2020-01-01" {
				return fmt.Sprintf("yang-version reads %q, revision %q (the quotes are kept)", m.Version(), m.Revisions()[0].Ident())
			}
			return ""
		}, "version-revision-keep-quotes"},
		{"block comment glued to an unquoted argument", hdr + "  leaf a { type string; units kg/* c */; }\n}", func(m *meta.Module, err error) string {
			if err != nil {
				return "load fails: " + err.Error()
			}
			if got := m.DataDefinitions()[0].(*meta.Leaf).Units(); got != "kg" {
				return fmt.Sprintf("units reads %q", got)
			}
			return ""
		}, "comment-glued-to-unquoted"},
	}
	// the when of a uses / augment and the own when of the nodes it brings in: every node reads back its own chain
	whenChain := func(d meta.Definition) string {
		var out []string
		if hw, ok := d.(meta.HasWhen); ok {
			for w := hw.When(); w != nil; w = w.And() {
				out = append(out, w.Expression())
			}
		}
		return strings.Join(out, " && ")
	}
	probes = append(probes, probe{"when on a uses and on the nodes of its grouping", hdr +
		"  grouping gw { leaf ga { when \"../p = 'a'\"; type string; } leaf gb { type string; } leaf gc { when \"../p = 'c'\"; type string; } container gd { when \"x\"; leaf x { type string; } } }\n" +
		"  container c1 { leaf p { type string; } uses gw { when \"p = 'u'\"; } }\n  container c2 { leaf p { type string; } uses gw; }\n" +
		"  container c3 { leaf p { type string; } }\n  augment \"/m:c3\" { when \"p = 'g'\"; leaf aa { when \"../p = 'x'\"; type string; } leaf ab { type string; } leaf ac { when \"../p = 'z'\"; type string; } }\n}",
		func(m *meta.Module, err error) string {
			if err != nil {
				return "load fails: " + err.Error()
			}
			want := map[string]string{"c1/ga": "p = 'u' && ../p = 'a'", "c1/gb": "p = 'u'", "c1/gc": "p = 'u' && ../p = 'c'", "c1/gd": "p = 'u' && x",
				"c2/ga": "../p = 'a'", "c2/gb": "", "c2/gc": "../p = 'c'", "c2/gd": "x",
				"c3/aa": "p = 'g' && ../p = 'x'", "c3/ab": "p = 'g'", "c3/ac": "p = 'g' && ../p = 'z'"}
			var bad []string
			for path, w := range want {
				d := meta.Find(m, path)
				if d == nil {
					bad = append(bad, path+" missing")
				} else if got := whenChain(d); got != w {
					bad = append(bad, fmt.Sprintf("%s reads when %q, written %q", path, got, w))
				}
			}
			sort.Strings(bad)
			return strings.Join(bad, "; ")
		}, ""})
	probes = append(probes, probe{"when on a choice, on a case, on a uses of a grouping with a choice, and on nested uses", hdr +
		"  grouping g2 { leaf inner { when \"../q\"; type string; } }\n  grouping g1 { leaf mid { type string; } uses g2 { when \"b = 1\"; } }\n" +
		"  grouping gc { choice ch { case k1 { leaf c1 { type string; } } } }\n" +
		"  container c1 { leaf a { type int32; } leaf b { type int32; } leaf q { type string; } uses g1 { when \"a = 1\"; } uses gc { when \"a = 2\"; } }\n" +
		"  container c2 { leaf p { type string; } choice dk { when \"p = 'c'\"; case d1 { when \"p != 'k'\"; leaf y1 { when \"../p\"; type string; } container yc { leaf y2 { when \"../../p\"; type string; } } } leaf y3 { type string; } } }\n}",
		func(m *meta.Module, err error) string {
			if err != nil {
				return "load fails: " + err.Error()
			}
			want := map[string]string{"c1/mid": "a = 1", "c1/inner": "a = 1 && b = 1 && ../q", "c1/c1": "a = 2",
				"c2/y1": "p = 'c' && p != 'k' && ../p", "c2/yc": "p = 'c' && p != 'k'", "c2/yc/y2": "../../p", "c2/y3": "p = 'c'"}
			var bad []string
			for path, w := range want {
				d := meta.Find(m, path)
				if d == nil {
					bad = append(bad, path+" missing")
				} else if got := whenChain(d); got != w {
					bad = append(bad, fmt.Sprintf("%s reads when %q, the conditions that apply to it are %q", path, got, w))
				}
			}
			sort.Strings(bad)
			return strings.Join(bad, "; ")
		}, ""})
	// an extension below each secondary statement is attached to that statement's keyword
	{
		carriers := []struct{ in, kw string }{
			{"leaf a { type string; must \"1\" { error-message \"m\" { m:e \"x1\"; } error-app-tag \"t\" { m:e \"x2\"; } } }", "must-sub"},
			{"leaf a { type string { length \"1..5\" { error-message \"m\" { m:e \"x1\"; } error-app-tag \"t\" { m:e \"x2\"; } } pattern \"a.*\" { error-message \"m\" { m:e \"x5\"; } error-app-tag \"t\" { m:e \"x6\"; } } } }", "type-sub"},
			{"leaf a { type int32 { range \"1..5\" { error-app-tag \"t\" { m:e \"x2\"; } error-message \"m\" { m:e \"x1\"; } } } }", "range-sub"},
		}
		for _, cr := range carriers {
			cr := cr
			probes = append(probes, probe{"extension below error-message / error-app-tag / description of " + cr.kw, hdr + "  extension e { argument v; }\n  " + cr.in + "\n}", func(m *meta.Module, err error) string {
				if err != nil {
					return "load fails: " + err.Error()
				}
				wantKw := map[string]string{"x1": "error-message", "x2": "error-app-tag", "x3": "description", "x4": "reference", "x5": "error-message", "x6": "error-app-tag"}
				seen := map[string]string{}
				var walk func(x interface{})
				visit := func(es []*meta.Extension) {
					for _, e := range es {
						if e.Ident() == "e" {
							if old, dup := seen[e.Argument()]; dup && old != e.Keyword() {
								seen[e.Argument()] = old + "|" + e.Keyword()
							} else {
								seen[e.Argument()] = e.Keyword()
							}
						}
					}
				}
				walk = func(x interface{}) {
					if h, ok := x.(interface{ Extensions() []*meta.Extension }); ok {
						visit(h.Extensions())
					}
				}
				lf := m.DataDefinitions()[0].(*meta.Leaf)
				walk(lf)
				for _, mu := range lf.Musts() {
					walk(mu)
				}
				walk(lf.Type())
				for _, r := range lf.Type().Range() {
					walk(r)
				}
				for _, r := range lf.Type().Length() {
					walk(r)
				}
				for _, r := range lf.Type().Patterns() {
					walk(r)
				}
				var bad []string
				for arg, kw := range seen {
					if wantKw[arg] != kw {
						bad = append(bad, fmt.Sprintf("extension m:e %q written below %s reads back below %q", arg, wantKw[arg], kw))
					}
				}
				if len(seen) == 0 {
					bad = append(bad, "no extension of the statement's substatements can be read back")
				}
				sort.Strings(bad)
				return strings.Join(bad, "; ")
			}, ""})
		}
	}
	// statements of a submodule that is reached through another submodule only (the YANG 1 way of nesting includes)
	{
		files := map[string]string{
			"nm": `module nm { namespace "urn:nm"; prefix nm; include nm-a; revision 2020-01-01; container top { leaf t { type string; } } }`,
			"nm-a": `submodule nm-a { belongs-to nm { prefix nm; } include nm-b; container c1 { description "one"; leaf a { type t2; } } }`,
			"nm-b": `submodule nm-b { belongs-to nm { prefix nm; } typedef t2 { type string; units "u2"; default "d2"; } container c2 { presence "yes"; description "two"; leaf b { type string; mandatory true; } } rpc r2 { description "rpc two"; } notification n2 { leaf e { type string; } } }`}
		c.Evaluations++
		c.Count("probe", "nested includes")
		var m *meta.Module
		var lerr error
		perr := safeDo(func() error {
			m, lerr = parser.LoadModule(source.Any(source.Named("nm", strings.NewReader(files["nm"])), source.Named("nm-a", strings.NewReader(files["nm-a"])), source.Named("nm-b", strings.NewReader(files["nm-b"]))), "nm")
			return nil
		})
		res := ""
		switch {
		case perr != nil:
			res = perr.Error()
		case lerr != nil:
			res = "valid module set does not load: " + lerr.Error()
		default:
			perr = safeDo(func() error {
				var names []string
				for _, d := range m.DataDefinitions() {
					names = append(names, d.Ident())
				}
				sort.Strings(names)
				if strings.Join(names, " ") != "c1 c2 top" {
					res = fmt.Sprintf("data definitions read back as %v, written [c1 c2 top]", names)
					return nil
				}
				c2 := meta.Find(m, "c2").(*meta.Container)
				a := meta.Find(m, "c1/a").(*meta.Leaf)
				switch {
				case c2.Description() != "two" || c2.Presence() != "yes":
					res = fmt.Sprintf("c2 reads description %q presence %q", c2.Description(), c2.Presence())
				case !meta.Find(m, "c2/b").(*meta.Leaf).Mandatory():
					res = "c2/b is not mandatory"
				case a.Units() != "u2" || !a.HasDefault() || a.Default() != "d2":
					res = fmt.Sprintf("c1/a (typedef of the inner submodule) reads units %q default %q", a.Units(), a.Default())
				case m.Actions()["r2"] == nil || m.Actions()["r2"].Description() != "rpc two":
					res = "rpc r2 of the inner submodule is lost"
				case m.Notifications()["n2"] == nil:
					res = "notification n2 of the inner submodule is lost"
				}
				return nil
			})
			if perr != nil {
				res = perr.Error()
			}
		}
		if res != "" {
			c.Violation(core.Replay{Kind: "property-failure", Class: "probe-nested-includes", Summary: "a submodule included by a submodule: " + res, Input: files})
		}
	}
	// the same text, loaded again, is the same schema: whatever is bound on the way (prefixes of the submodules' imports,
	// identities, features, augments and typedefs that come from several files) must not depend on the order in which a
	// Go map happens to be walked
	{
		sets := []map[string]string{
			{
				"main":      `module main { namespace "urn:main"; prefix main; include sub-one; include sub-two; include sub-three; revision 2020-01-01; leaf own { type string; } }`,
				"sub-one":   `submodule sub-one { belongs-to main { prefix main; } import lib-alpha { prefix lib; } leaf one { type lib:alpha-type; } }`,
				"sub-two":   `submodule sub-two { belongs-to main { prefix main; } import lib-beta { prefix lib; } leaf two { type lib:beta-type; } }`,
				"sub-three": `submodule sub-three { belongs-to main { prefix main; } import lib-gamma { prefix lib; } leaf three { type lib:gamma-type; } }`,
				"lib-alpha": `module lib-alpha { namespace "urn:lib-alpha"; prefix la; typedef alpha-type { type string; units "alphas"; } }`,
				"lib-beta":  `module lib-beta { namespace "urn:lib-beta"; prefix lb; typedef beta-type { type int32; units "betas"; } }`,
				"lib-gamma": `module lib-gamma { namespace "urn:lib-gamma"; prefix lg; typedef gamma-type { type int8; units "gammas"; } }`,
			},
			{
				"main":  `module main { namespace "urn:main"; prefix main; include s1; include s2; import l1 { prefix p; } revision 2020-01-01; feature f0; identity root; container c { leaf x { type string; } } }`,
				"s1":    `submodule s1 { belongs-to main { prefix main; } import l2 { prefix q; } import l1 { prefix r; } feature f1; identity i1 { base main:root; } identity j1 { base q:far; } augment "/main:c" { leaf a1 { type r:t1; } } leaf one { type identityref { base main:root; } } }`,
				"s2":    `submodule s2 { belongs-to main { prefix main; } import l3 { prefix q; } import l2 { prefix r; } feature f2; identity i2 { base main:root; } identity j2 { base q:far; } augment "/main:c" { leaf a2 { type r:t2; } } leaf two { type identityref { base q:far; } } }`,
				"l1":    `module l1 { namespace "urn:l1"; prefix l1; typedef t1 { type string; units "u1"; } identity far; }`,
				"l2":    `module l2 { namespace "urn:l2"; prefix l2; typedef t2 { type int32; units "u2"; } identity far; }`,
				"l3":    `module l3 { namespace "urn:l3"; prefix l3; typedef t3 { type int8; units "u3"; } identity far; }`,
			},
		}
		wantUnitsOf := []map[string]string{{"one": "alphas", "two": "betas", "three": "gammas"}, {"c/a1": "u1", "c/a2": "u2"}}
		for si, files := range sets {
			wantUnits := wantUnitsOf[si]
			var first []string
			res := ""
			for i := 0; i < 60 && res == ""; i++ {
				c.Evaluations++
				c.Count("probe", "same text, same schema")
				var m *meta.Module
				var lerr error
				perr := safeDo(func() error {
					m, lerr = parser.LoadModule(func(name, ext string) (io.Reader, error) {
						if y, ok := files[name]; ok {
							return strings.NewReader(y), nil
						}
						return nil, fmt.Errorf("no module %s", name)
					}, "main")
					return nil
				})
				switch {
				case perr != nil:
					res = perr.Error()
				case lerr != nil:
					res = fmt.Sprintf("load %d: valid module set does not load: %v", i, lerr)
				default:
					perr = safeDo(func() error {
						for p, u := range wantUnits {
							if l, ok := meta.Find(m, p).(*meta.Leaf); ok && l.Units() != u {
								res = fmt.Sprintf("load %d: leaf %s reads units %q, its type says %q", i, p, l.Units(), u)
								return nil
							}
						}
						// what the public accessors say (derived identities as a set), and the module every prefix written in any
						// of the files stands for when the loaded module is asked
						fp := strings.Split(scn.DumpMeta(m), "\n")
						for li, line := range fp {
							if strings.HasPrefix(line, "identities ") {
								parts := strings.FieldsFunc(line, func(r rune) bool { return r == ',' || r == '<' || r == '>' || r == ' ' || r == '[' || r == ']' })
								sort.Strings(parts)
								fp[li] = strings.Join(parts, " ")
							}
						}
						for _, px := range []string{"main", "lib", "p", "q", "r", "la", "lb", "lg", "l1", "l2", "l3"} {
							if pm, perr := m.ModuleByPrefix(px); perr != nil {
								fp = append(fp, "prefix "+px+" = error "+perr.Error())
							} else {
								fp = append(fp, "prefix "+px+" = "+pm.Ident())
							}
						}
						if i == 0 {
							first = fp
						} else if d := scn.FirstDiff(first, fp); d != "" {
							res = fmt.Sprintf("load %d of the same text gives another schema than load 0: %s", i, d)
						}
						return nil
					})
					if perr != nil {
						res = perr.Error()
					}
				}
			}
			if res != "" {
				c.Violation(core.Replay{Kind: "property-failure", Class: fmt.Sprintf("probe-same-text-same-schema-%d", si), Summary: "the same module set loaded repeatedly: " + res, Input: files})
			}
		}
	}
	probes = append(probes, probe{"extension below the description / reference of a must", hdr + "  extension e { argument v; }\n  leaf a { type string; must \"1\" { description \"d\" { m:e \"x3\"; } reference \"r\" { m:e \"x4\"; } } }\n}", func(m *meta.Module, err error) string {
		if err != nil {
			return "legal YANG (an extension may stand below any statement, RFC 7950 §6.3.1) does not load: " + err.Error()
		}
		return ""
	}, ""})
	probes = append(probes, probe{"grouping and typedef scoped to an rpc and to an action (RFC 7950 7.14.1, 7.15.1)", hdr + `  rpc r { description "rd"; typedef t { type int32; units ms; } grouping g { leaf a { type t; } } input { uses g; } output { leaf o { type t; } } }
  container c { action act { grouping g2 { leaf b { type string; } } typedef t2 { type string; } input { uses g2; leaf x { type t2; } } } }
}`, func(m *meta.Module, err error) string {
		if err != nil {
			return "legal YANG does not load: " + err.Error()
		}
		r := m.Actions()["r"]
		if r == nil || r.Input() == nil || r.Output() == nil {
			return "rpc r, its input or its output is lost"
		}
		a, _ := meta.Find(r.Input(), "a").(*meta.Leaf)
		o, _ := meta.Find(r.Output(), "o").(*meta.Leaf)
		if a == nil || o == nil || a.Units() != "ms" || o.Units() != "ms" || r.Description() != "rd" {
			return fmt.Sprintf("rpc r: input leaf a %v, output leaf o %v, units ms expected on both, description %q", a, o, r.Description())
		}
		cc, _ := meta.Find(m, "c").(*meta.Container)
		if cc == nil || cc.Actions()["act"] == nil || cc.Actions()["act"].Input() == nil {
			return "action act or its input is lost"
		}
		in := cc.Actions()["act"].Input()
		if meta.Find(in, "b") == nil || meta.Find(in, "x") == nil {
			return "the input of action act lacks b (from its own grouping) or x (of its own typedef)"
		}
		return ""
	}, ""})
	probes = append(probes, probe{"a refine with an empty body", hdr + "  grouping g { leaf a { type string; description \"d\"; } }\n  container x { uses g { refine a { } } }\n}", func(m *meta.Module, err error) string {
		if err != nil {
			return "legal YANG (refine a { } is refine a; RFC 7950 6.3) does not load: " + err.Error()
		}
		a, _ := meta.Find(m, "x/a").(*meta.Leaf)
		if a == nil || a.Description() != "d" {
			return "x/a is lost or changed"
		}
		return ""
	}, ""})
	for _, body := range []string{"leaf a { type string; config \"false\"; }", "leaf a { type string; mandatory 'true'; }", "leaf a { type string; status \"current\"; }",
		"leaf-list a { type string; ordered-by \"user\"; }", "leaf-list a { type string; max-elements \"unbounded\"; }", "leaf a { type \"string\"; }", "leaf \"a\" { type string; }", "container 'a' { }"} {
		body := body
		probes = append(probes, probe{"quoted keyword or identifier argument: " + body, hdr + body + "\n}", func(m *meta.Module, err error) string {
			if err != nil {
				return "legal YANG (any argument may be quoted, RFC 7950 §6.1.3) does not load: " + err.Error()
			}
			return ""
		}, "quoted-keyword-argument"})
	}
	// statements whose body may be left out or be empty (RFC 7950 ABNF: container, case, choice, grouping, rpc, action,
	// notification all end in ";" or in a block that may hold nothing); the forms the grammar takes today must stay, the
	// others are the known finding empty-body-statements
	for _, body := range []string{"container c;", "grouping g;", "rpc r;", "notification n;", "choice e;", "choice e { }", "choice ch { case a; }", "choice ch { case a { } }",
		"choice ch { case a { leaf x { type string; } } case b { } }", "container c { action a; }"} {
		body := body
		probes = append(probes, probe{"statement without a body: " + body, hdr + body + "\n}", func(m *meta.Module, err error) string {
			if err != nil {
				return "legal YANG (the body of the statement may be left out or be empty, RFC 7950 §14) does not load: " + err.Error()
			}
			return ""
		}, "empty-body-statements"})
	}
	for _, body := range []string{"container c { }", "grouping g { }", "rpc r { }", "notification n { }", "rpc r { input { } }", "identity i { }", "feature f { }", "choice ch { case a { description \"d\"; } }"} {
		body := body
		probes = append(probes, probe{"statement with an empty body: " + body, hdr + body + "\n}", func(m *meta.Module, err error) string {
			if err != nil {
				return "legal YANG does not load: " + err.Error()
			}
			return ""
		}, ""})
	}
	for _, p := range probes {
		var m *meta.Module
		var lerr error
		perr := safeDo(func() error {
			m, lerr = parser.LoadModuleFromString(nil, p.y)
			return nil
		})
		c.Evaluations++
		c.Count("probe", p.name)
		res := ""
		if perr != nil {
			res = perr.Error()
		} else if perr2 := safeDo(func() error { res = p.check(m, lerr); return nil }); perr2 != nil {
			res = perr2.Error()
		}
		if res != "" {
			what := p.name + ": " + res
			if p.known != "" && c.IsKnown(p.known, what) {
				continue
			}
			c.Violation(core.Replay{Kind: "property-failure", Class: "probe-" + strings.Fields(p.name)[0], Summary: what, Input: map[string]interface{}{"yang": p.y}})
		}
	}
}
