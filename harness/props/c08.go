package props

import (
	"github.com/freeconf/yang/meta"
	"github.com/freeconf/yang/parser"
	"reflect"
	"sort"
	"errors"
	"io"
	"fmt"
	"strings"

	"verif/harness/core"
	"verif/harness/gen"
	"verif/harness/refstore"

	"github.com/freeconf/yang/fc"
	"github.com/freeconf/yang/node"
	"github.com/freeconf/yang/nodeutil"
)

func init() { Registry["C08"] = C08 }

type c08node struct {
	segs  [][2]interface{} // (name, keys []string)
	path  string           // escaped url path
	kids  []*gen.SNode
	body  []*gen.DNode
	depth int
}

func c08walk(kids []*gen.SNode, body []*gen.DNode, segs [][2]interface{}, path string, depth int, out *[]c08node) {
	// choices and cases have no place in a path: the nodes of the cases stand where the choice stands
	kids, body = gen.Flatten(kids, body)
	for i, s := range kids {
		d := body[i]
		switch s.Kind {
		case "cont":
			if d.Present {
				ns := append(append([][2]interface{}{}, segs...), [2]interface{}{s.Name, []string(nil)})
				p := path + s.Name
				*out = append(*out, c08node{ns, p, s.Kids, d.Kids, depth + 1})
				c08walk(s.Kids, d.Kids, ns, p+"/", depth+1, out)
			}
		case "list":
			for _, row := range d.Rows {
				ns := append(append([][2]interface{}{}, segs...), [2]interface{}{s.Name, row.Key})
				p := path + keyPath(s.Name, row.Key)
				*out = append(*out, c08node{ns, p, s.Kids, row.Kids, depth + 1})
				c08walk(s.Kids, row.Kids, ns, p+"/", depth+1, out)
			}
		}
	}
}

func segTokens(segs [][2]interface{}) string {
	out := []string{fmt.Sprint(len(segs))}
	for _, s := range segs {
		keys, _ := s[1].([]string)
		out = append(out, core.Hex(s[0].(string)), fmt.Sprint(len(keys)))
		for _, k := range keys {
			out = append(out, core.Hex(k))
		}
	}
	return strings.Join(out, " ")
}

// struct-backed stores: an unset leaf reads as "" / 0
var c08lenient bool
var c08set map[string]bool

// content of a selected container/entry: its leaves
func c08leaves(sel *node.Selection, kids []*gen.SNode) (res string) {
	defer func() {
		if r := recover(); r != nil {
			res = fmt.Sprintf("PANIC:%v", r)
		}
	}()
	var sb strings.Builder
	for _, k := range kids {
		if k.Kind != "leaf" {
			continue
		}
		v, err := sel.GetValue(k.Name)
		if err != nil {
			return "error:" + err.Error()
		}
		if c08lenient && !c08set[k.Name] {
			continue // a struct field cannot tell unset from empty / zero: only the leaves the tree sets are compared
		}
		if v != nil && k.Default == nil {
			fmt.Fprintf(&sb, "%s=%q ", k.Name, v.String())
		} else if v != nil {
			fmt.Fprintf(&sb, "%s=%q ", k.Name, v.String())
		}
	}
	return sb.String()
}

func c08expectLeaves(kids []*gen.SNode, body []*gen.DNode) string {
	var sb strings.Builder
	c08set = map[string]bool{}
	for i, k := range kids {
		if k.Kind != "leaf" {
			continue
		}
		c08set[k.Name] = body[i].Leaf != nil
		if c08lenient && body[i].Leaf == nil {
			continue
		}
		if body[i].Leaf != nil {
			fmt.Fprintf(&sb, "%s=%q ", k.Name, *body[i].Leaf)
		} else if k.Default != nil {
			fmt.Fprintf(&sb, "%s=%q ", k.Name, *k.Default)
		}
	}
	return sb.String()
}

// names in a path: the module qualifier of a step is the name of the node's defining module (RFC 8040 3.5.3; the
// module the JSON writer qualifies the node with), a step names a data node (not a choice, not a case, not two
// levels at once), and the path of what is found says where it is
func c08names(c *core.Ctx) {
	files := map[string]string{
		"b": `module b { namespace "urn:b"; prefix bp; revision 2020-01-01; grouping g { container gc { leaf gl { type string; } container in { leaf q { type string; } } } } container c { leaf x { type string; } } }`,
		"a": `module a { namespace "urn:a"; prefix ap; revision 2020-01-01; import b { prefix bp; } include a-sub; uses bp:g; container c { leaf z { type string; } }
  augment "/c" { leaf aug { type string; } }
  container fruit { leaf apple { type string; } leaf pear { type string; } }
  container top { container gc { leaf q { type string; } } uses bp:g { refine gc { description "again"; } } }
  list country { key name; leaf name { type string; } container detail { leaf ally { type string; } } list city { key "n i"; leaf n { type string; } leaf i { type int32; } leaf pop { type int32; } } }
  list fruits { key name; leaf name { type string; } choice shipment { case water { container boat { leaf n { type string; } } } case air { container plane { leaf n { type string; } } } } } }`,
	}
	// nodes written in a submodule belong to the module: a step is qualified with the module's name, never the submodule's
	files["a-sub"] = `submodule a-sub { belongs-to a { prefix ap; } container subc { leaf sl { type string; } } list bird { key name; leaf name { type string; } leaf wing { type string; } } }`
	files["a"] = strings.Replace(files["a"], `container gc { leaf q { type string; } } uses bp:g { refine gc { description "again"; } }`, `container sub { uses bp:g; }`, 1)
	opener := func(name, ext string) (io.Reader, error) {
		if y, ok := files[name]; ok {
			return strings.NewReader(y), nil
		}
		return nil, fmt.Errorf("no module %s", name)
	}
	m, err := parser.LoadModule(opener, "a")
	if err != nil {
		c.Violation(core.Replay{Kind: "property-failure", Class: "names-load", Summary: "valid module set does not load: " + err.Error(), Input: files})
		return
	}
	data := `{"gc":{"gl":"GL","in":{"q":"Q"}},"c":{"z":"Z","aug":"A"},"fruit":{"apple":"A","pear":"P"},"top":{"sub":{"gc":{"gl":"G2"}}},"country":[{"name":"US","detail":{"ally":"UK"},"city":[{"n":"NY","i":1,"pop":8}]}],"fruits":[{"name":"apple","boat":{"n":"B"}}],"subc":{"sl":"S"},"bird":[{"name":"owl","wing":"w"},{"name":"blue jay","wing":"b"}]}`
	root := func() *node.Selection {
		n, _ := nodeutil.ReadJSON(data)
		return node.NewBrowser(m, n).Root()
	}
	show := func(s *node.Selection, err error) string {
		if err != nil {
			if errors.Is(err, fc.NotFoundError) {
				return "not-found"
			}
			if errors.Is(err, fc.BadRequestError) {
				return "bad-request"
			}
			return "error " + short(err.Error())
		}
		if s == nil {
			return "nil"
		}
		return s.Path.String()
	}
	type tcase struct{ start, find, want string }
	cases := []tcase{
		// the path of a leaf found from another start than the root
		{"country=US/detail", "ally", "a/country=US/detail/ally"},
		{"country=US/detail", "../city=NY,1/pop", "a/country=US/city=NY,1/pop"},
		{"country=US", "detail/ally", "a/country=US/detail/ally"},
		{"", "country=US/detail/ally", "a/country=US/detail/ally"},
		{"fruit", "apple", "a/fruit/apple"},
		// qualifiers
		{"", "a:fruit", "a/fruit"},
		{"", "a:fruit/a:apple", "a/fruit/apple"},
		{"", "fruit/a:apple", "a/fruit/apple"},
		{"", "fruit/bogus:apple", "not-found"},
		{"", "bogus:fruit", "not-found"},
		{"", "fruit/b:apple", "not-found"},
		{"", "ap:fruit", "not-found"},
		{"", "b:c", "not-found"},
		{"", "bp:c", "not-found"},
		{"", "bp:c/x", "not-found"},
		{"", "a:c", "a/c"},
		{"", "a:c/a:aug", "a/c/aug"},
		{"", "c/b:aug", "not-found"},
		// the nodes of an imported grouping carry the name of the module the grouping is written in: the library's
		// convention for "defining module", pinned by its TestQualifiedJson (RFC 7950 7.13 would say a)
		{"", "b:gc", "a/gc"},
		{"", "b:gc/b:gl", "a/gc/gl"},
		{"", "gc/b:in/q", "a/gc/in/q"},
		{"", "a:gc", "not-found"},
		{"", "gc/a:gl", "not-found"},
		{"", "top/a:sub/b:gc/gl", "a/top/sub/gc/gl"},
		{"", "top/sub/a:gc", "not-found"},
		// nodes of a submodule
		{"", "a:subc", "a/subc"},
		{"", "a:subc/a:sl", "a/subc/sl"},
		{"", "a-sub:subc", "not-found"},
		{"", "subc/a-sub:sl", "not-found"},
		{"", "a:bird=owl", "a/bird=owl"},
		{"", "bird=blue%20jay/a:wing", "a/bird=blue+jay/wing"},
		{"", "a-sub:bird=owl", "not-found"},
		{"subc", "../a:bird=owl/a:wing", "a/bird=owl/wing"},
		// a step is one data node
		{"", "fruits=apple/shipment", "not-found"},
		{"", "fruits=apple/water", "not-found"},
		{"", "fruits=apple/shipment/water/boat", "not-found"},
		{"", "fruits=apple/boat", "a/fruits=apple/boat"},
		{"", "fruits=apple/boat/n", "a/fruits=apple/boat/n"},
		{"", "top%2Fsub", "not-found"},
		{"", "top/..%2Fc", "not-found"},
		{"", "top/sub%2Fgc", "not-found"},
		{"top", "..%2Fc", "not-found"},
	}
	for _, tc := range cases {
		var got string
		e := safeDo(func() error {
			s := root()
			if tc.start != "" {
				var err error
				if s, err = s.Find(tc.start); err != nil || s == nil {
					return fmt.Errorf("start %s: %v", tc.start, err)
				}
			}
			got = show(s.Find(tc.find))
			return nil
		})
		if e != nil {
			got = "error " + short(e.Error())
		}
		c.Evaluations++
		c.Count("names", map[bool]string{true: "refused", false: "reached"}[tc.want == "not-found"])
		c.Distinct("names " + tc.start + " " + tc.find)
		if got != tc.want {
			c.Violation(core.Replay{Kind: "property-failure", Class: "names", Summary: fmt.Sprintf("from %q, Find(%q) gives %s, want %s", tc.start, tc.find, got, tc.want),
				Input: map[string]interface{}{"yang": files, "data": data, "start": tc.start, "find": tc.find}, Impl: got, Spec: tc.want})
		}
	}
	// Path.Equal tells locations apart
	for _, pc := range []struct {
		a, b string
		want bool
	}{{"fruit/apple", "fruit/pear", false}, {"fruit/apple", "fruit/apple", true}, {"fruit", "top", false}, {"country=US/detail", "country=US/detail", true}, {"gc", "top/sub/gc", false}, {"gc/gl", "top/sub", false}} {
		var got bool
		e := safeDo(func() error {
			x, err := root().Find(pc.a)
			if err != nil || x == nil {
				return fmt.Errorf("find %s: %v", pc.a, err)
			}
			y, err := root().Find(pc.b)
			if err != nil || y == nil {
				return fmt.Errorf("find %s: %v", pc.b, err)
			}
			got = x.Path.Equal(y.Path)
			if got != x.Path.EqualNoKey(y.Path) {
				return fmt.Errorf("Equal and EqualNoKey differ on paths without keys that differ")
			}
			return nil
		})
		c.Evaluations++
		c.Count("names", "path-equal")
		if e != nil || got != pc.want {
			c.Violation(core.Replay{Kind: "property-failure", Class: "path-equal", Summary: fmt.Sprintf("Path.Equal of %q and %q is %v, want %v (%v)", pc.a, pc.b, got, pc.want, e),
				Input: map[string]interface{}{"yang": files, "data": data, "a": pc.a, "b": pc.b}, Impl: fmt.Sprint(got), Spec: fmt.Sprint(pc.want)})
		}
	}
}

func C08(c *core.Ctx) {
	c08names(c)
	c.Rule = "for every container and list entry of generated trees (depth ≤4, lists in lists, compound keys, hostile key alphabet / , = % + blank non-ASCII empty): Find from the root, with a trailing slash, module-qualified, from a deeper start selection through ../ steps, and with a query parameter; the selection's content, its rendered path (re-parsed and re-found), absent keys/containers, unknown names, store unchanged; the Lean path codec is compared with Path.String on the same segments; start selections on a set leaf (its Parent(), its path, ../ steps from it); a store that answers lookups by key without returning the key. non-trivial = node at depth ≥2 or with a key needing escaping; distinct by (tree, node, variant); against the Lean model of parseUrlPath + findSlice (Model/Find.lean): paths to existing nodes, leaves (set, unset with default), lists without key, absent keys and containers and steps below them, unknown names at the end and in the middle, keys on containers and leaves, one key component too few / too many, steps below a leaf and below a keyless list - verdict (found / nothing / not-found / bad request) and the selected content (leaf views, row keys, leaf value) must be the model's; directed (c08names): two modules, an imported grouping, an augment, a choice: 34 qualified, misqualified, choice/case and percent-encoded-slash steps from the root and from deeper starts, the rendered path of leaf selections found from every start, Path.Equal on 6 pairs"
	c.Assumptions = append(c.Assumptions, "net/url.QueryEscape/QueryUnescape are modelled on bytes (Model/Path.lean) and compared on every generated key")
	c.ProofStep("YangVerif.Props.C08")
	if c.Thorough() {
		c.LeanChecker("YangVerif.Props.C08")
	}
	rng := core.NewRng(c.Seed)
	nTrees := c.N(120, 4000)
	o := gen.Opts{MaxDepth: 3, MaxKids: 4, Defaults: true, MultiKeys: true, Hostile: true, NonConfig: true, NoZero: true}
	var lines []string
	type pend struct{ desc, goPath string }
	var pends []pend
	var flines []string
	var fpends []c08fpend
	for ti := 0; ti < nTrees; ti++ {
		dc, err := newDataCase(rng.Fork(), o)
		if err != nil {
			c.Violation(core.Replay{Kind: "harness", Summary: err.Error(), NoInputFound: true})
			return
		}
		r := rng.Fork()
		tree := gen.GenBody(r, dc.kids, 55+r.Intn(40), o)
		tgtKind := core.Pick(r, []string{"refstore", "refstore", "refstore-nokey", "reflect-map", "node-map", "reflect-struct", "reflect-struct-ptr", "node-struct-ptr"})
		if ti%5 == 4 {
			// a schema with choices (nested in cases, shorthand cases, leaves and containers before and after them)
			gen.ResetNames()
			ck := gen.GenChoiceSchema(r, 0, 3+r.Intn(3))
			cy := gen.Module("m", ck)
			cm, cerr := parser.LoadModuleFromString(nil, cy)
			if cerr != nil {
				c.Violation(core.Replay{Kind: "harness", Summary: "choice module does not load: " + cerr.Error(), Input: cy, NoInputFound: true})
				continue
			}
			dc = &dataCase{ck, cy, cm}
			tree = gen.GenChoiceBody(r, ck, 70+r.Intn(30))
			tgtKind = "refstore"
			c.Count("schema", "with choices")
		}
		var root node.Node
		var tgtMap map[string]interface{}
		var tgtStruct reflect.Value
		if strings.Contains(tgtKind, "-struct") && strings.Contains(gen.Canon(dc.kids, tree, false), `[""`) || strings.Contains(gen.Canon(dc.kids, tree, false), `" ""]`) && strings.Contains(tgtKind, "-struct") {
			tgtKind = "refstore" // a struct field cannot hold the empty string as a key (it reads as unset)
		}
		c08lenient = strings.Contains(tgtKind, "-struct")
		refstore.NoKeyOnLookup = tgtKind == "refstore-nokey"
		switch {
		case strings.HasPrefix(tgtKind, "refstore"):
			root = refstore.NewBody(nil, dc.kids, tree, "")
		case strings.Contains(tgtKind, "-struct"):
			so := c03structOpts(tgtKind, r)
			tgtStruct = gen.ToStruct(dc.kids, tree, gen.StructType(dc.kids, 0, so), so)
			if strings.HasPrefix(tgtKind, "reflect-") {
				root = nodeutil.ReflectChild(tgtStruct.Interface())
			} else {
				root = &nodeutil.Node{Object: tgtStruct.Interface()}
			}
		case tgtKind == "node-map":
			tgtMap = gen.ToMap(dc.kids, tree)
			root = &nodeutil.Node{Object: tgtMap}
		default:
			tgtMap = gen.ToMap(dc.kids, tree)
			root = nodeutil.ReflectChild(tgtMap)
		}
		before := gen.Canon(dc.kids, tree, false)
		b := node.NewBrowser(dc.m, root)
		var nodes []c08node
		c08walk(dc.kids, tree, nil, "", 0, &nodes)
		find := func(from *node.Selection, p string) (s *node.Selection, err error) {
			defer func() {
				if rr := recover(); rr != nil {
					err = fmt.Errorf("PANIC: %v", rr)
				}
			}()
			return from.Find(p)
		}
		input := func(n c08node, variant string) map[string]interface{} {
			return map[string]interface{}{"yang": dc.yang, "tree": before, "target_impl": tgtKind, "path": n.path, "variant": variant}
		}
		compound := compoundKeyRe.MatchString(dc.yang)
		if ti%5 != 4 && !c08lenient {
			c08findModelCases(c, r.Fork(), dc, tree, nodes, b, tgtKind, &flines, &fpends)
		}
		for ni, n := range nodes {
			if ni > 60 {
				break
			}
			want := c08expectLeaves(n.kids, n.body)
			variants := map[string]string{"plain": n.path, "trailing-slash": n.path + "/", "query": n.path + "?depth=1",
				"query-content-config": n.path + "?content=config", "query-content-nonconfig": n.path + "?content=nonconfig"}
			// module-qualified first segment
			variants["qualified"] = "m:" + n.path
			for vname, p := range variants {
				c.Evaluations++
				c.Count("variant", vname)
				c.Count("target", tgtKind)
				if n.depth >= 2 || strings.ContainsAny(n.path, "%+") {
					c.Distinct(fmt.Sprint(ti, ni, vname))
				}
				sel, err := find(b.Root(), p)
				desc := fmt.Sprintf("%s Find(%q) [%s]", tgtKind, p, vname)
				switch {
				case err != nil:
					c.Violation(core.Replay{Kind: "property-failure", Class: "find-error-" + vname + "-" + tgtKind, Summary: desc + ": error " + err.Error(), Input: input(n, vname)})
					continue
				case sel == nil:
					if (tgtKind == "reflect-map" || tgtKind == "node-map") && compound && c.IsKnown("map-list-compound-key", desc) {
						continue
					}
					c.Violation(core.Replay{Kind: "property-failure", Class: "find-nil-" + vname + "-" + tgtKind, Summary: desc + ": existing node not found", Input: input(n, vname)})
					continue
				}
				if strings.HasPrefix(vname, "query-content") {
					continue // the filter legitimately applies to what is read *below* the target; reaching it is the point
				}
				if got := c08leaves(sel, n.kids); got != want {
					c.Violation(core.Replay{Kind: "property-failure", Class: "find-content-" + vname + "-" + tgtKind, Summary: fmt.Sprintf("%s: selected node holds %s, the addressed node holds %s", desc, got, want), Input: input(n, vname)})
					continue
				}
				if vname != "plain" {
					continue
				}
				// the path of the returned selection identifies the same location
				rendered := sel.Path.StringNoModule()
				lines = append(lines, "c08 render "+segTokens(n.segs))
				pends = append(pends, pend{desc, rendered})
				sel2, err2 := find(b.Root(), rendered)
				if err2 != nil || sel2 == nil {
					c.Violation(core.Replay{Kind: "property-failure", Class: "render-reparse-" + tgtKind, Summary: fmt.Sprintf("%s: its path renders as %q which Find resolves to (%v, %v)", desc, rendered, sel2 != nil, err2), Input: input(n, "render")})
				} else if got := c08leaves(sel2, n.kids); got != want {
					c.Violation(core.Replay{Kind: "property-failure", Class: "render-other-node-" + tgtKind, Summary: fmt.Sprintf("%s: its path renders as %q which addresses a node holding %s instead of %s", desc, rendered, got, want), Input: input(n, "render")})
				}
				// from a deeper start selection through ../
				if len(n.segs) >= 1 && r.Chance(50) {
					other := core.Pick(r, nodes)
					osel, _ := find(b.Root(), other.path)
					if osel != nil {
						// one step up per container, two per list entry (entry -> list -> parent)
						ups := 0
						for _, sg := range other.segs {
							ups++
							if ks, _ := sg[1].([]string); ks != nil {
								ups++
							}
						}
						up := strings.Repeat("../", ups)
						// "never applies read filters to the steps it walks through": a Find with '../' steps and a query
						// from the same start selection first, then the plain one - the query must not stick to anything shared
						if r.Chance(50) {
							for _, q := range []string{"?content=nonconfig", "?fields=nosuchfield&depth=1"} {
								if sq, errq := find(osel, up+n.path+q); errq == nil && sq != nil {
									safeDo(func() error { _, e := nodeutil.WriteJSON(sq); return e })
								}
							}
							c.Count("variant", "dotdot-after-query")
						}
						// the same from a selection on a leaf of that node: one more step up; the leaf selection's parent
						// is the node that holds it and its path is that node's path plus the leaf
						for li, ls := range other.kids {
							if ls.Kind != "leaf" || other.body[li].Leaf == nil {
								continue
							}
							c.Evaluations++
							c.Count("variant", "dotdot-from-leaf")
							lsel, lerr := find(b.Root(), other.path+"/"+ls.Name)
							if lerr != nil || lsel == nil {
								c.Violation(core.Replay{Kind: "property-failure", Class: "leaf-find-" + tgtKind, Summary: fmt.Sprintf("%s Find(%q) of a leaf that is set gives (%v, %v)", tgtKind, other.path+"/"+ls.Name, lsel != nil, lerr), Input: input(other, "leaf")})
								break
							}
							wantOther := c08expectLeaves(other.kids, other.body)
							if par := lsel.Parent(); par == nil {
								c.Violation(core.Replay{Kind: "property-failure", Class: "leaf-parent-" + tgtKind, Summary: fmt.Sprintf("%s Find(%q).Parent() is nil", tgtKind, other.path+"/"+ls.Name), Input: input(other, "leaf")})
							} else if got := c08leaves(par, other.kids); got != wantOther {
								c.Violation(core.Replay{Kind: "property-failure", Class: "leaf-parent-" + tgtKind, Summary: fmt.Sprintf("%s Find(%q).Parent() holds %s, the node that holds the leaf holds %s", tgtKind, other.path+"/"+ls.Name, got, wantOther), Input: input(other, "leaf")})
							}
							c08expectLeaves(n.kids, n.body) // the set leaves of the addressed node again
							if lp, op := lsel.Path.StringNoModule(), osel.Path.StringNoModule()+"/"+ls.Name; lp != op {
								c.Violation(core.Replay{Kind: "property-failure", Class: "leaf-path-" + tgtKind, Summary: fmt.Sprintf("%s Find(%q): the path of the selection is %q, want %q", tgtKind, other.path+"/"+ls.Name, lp, op), Input: input(other, "leaf")})
							}
							s4, err4 := find(lsel, "../"+up+n.path)
							if err4 != nil || s4 == nil {
								c.Violation(core.Replay{Kind: "property-failure", Class: "dotdot-leaf-" + tgtKind, Summary: fmt.Sprintf("%s from the leaf %q: Find(%q) gives (%v, %v)", tgtKind, other.path+"/"+ls.Name, "../"+up+n.path, s4 != nil, err4), Input: input(n, "dotdot from leaf "+other.path+"/"+ls.Name)})
							} else if got := c08leaves(s4, n.kids); got != want {
								c.Violation(core.Replay{Kind: "property-failure", Class: "dotdot-leaf-content-" + tgtKind, Summary: fmt.Sprintf("%s from the leaf %q: Find(%q) selects a node holding %s instead of %s", tgtKind, other.path+"/"+ls.Name, "../"+up+n.path, got, want), Input: input(n, "dotdot from leaf")})
							}
							break
						}
						c.Evaluations++
						c.Count("variant", "dotdot")
						s3, err3 := find(osel, up+n.path)
						if err3 != nil || s3 == nil {
							c.Violation(core.Replay{Kind: "property-failure", Class: "dotdot-" + tgtKind, Summary: fmt.Sprintf("%s from %q: Find(%q) gives (%v, %v)", tgtKind, other.path, up+n.path, s3 != nil, err3), Input: input(n, "dotdot from "+other.path)})
						} else if got := c08leaves(s3, n.kids); got != want {
							c.Violation(core.Replay{Kind: "property-failure", Class: "dotdot-content-" + tgtKind, Summary: fmt.Sprintf("%s from %q: Find(%q) selects a node holding %s instead of %s", tgtKind, other.path, up+n.path, got, want), Input: input(n, "dotdot")})
						}
					}
				}
			}
		}
		// absent things
		for i, s := range dc.kids {
			c.Evaluations++
			switch s.Kind {
			case "cont":
				if !tree[i].Present {
					sel, err := find(b.Root(), s.Name)
					if err != nil || sel != nil {
						c.Violation(core.Replay{Kind: "property-failure", Class: "absent-container-" + tgtKind, Summary: fmt.Sprintf("%s Find(%q) of an absent container gives (%v, %v), want no selection and no error", tgtKind, s.Name, sel != nil, err), Input: map[string]interface{}{"yang": dc.yang, "tree": before}})
					}
				}
			case "list":
				var key []string
				for j := 0; j < s.NKeys; j++ {
					if s.Kids[j].Type == "int32" {
						key = append(key, "777")
					} else {
						key = append(key, "no/such,key")
					}
				}
				p := keyPath(s.Name, key)
				sel, err := find(b.Root(), p)
				if err != nil || sel != nil {
					c.Violation(core.Replay{Kind: "property-failure", Class: "absent-key-" + tgtKind, Summary: fmt.Sprintf("%s Find(%q) of an absent key gives (%v, %v), want no selection and no error", tgtKind, p, sel != nil, err), Input: map[string]interface{}{"yang": dc.yang, "tree": before}})
				}
			}
		}
		c.Evaluations++
		if sel, err := find(b.Root(), "no-such-name"); sel != nil || err == nil || !errors.Is(err, fc.NotFoundError) {
			c.Violation(core.Replay{Kind: "property-failure", Class: "unknown-name", Summary: fmt.Sprintf("Find(\"no-such-name\") gives (%v, %v), want a not-found error", sel != nil, err), Input: dc.yang})
		}
		// navigation never modifies data
		var after string
		refstore.NoKeyOnLookup = false
		if strings.HasPrefix(tgtKind, "refstore") {
			after = gen.Canon(dc.kids, tree, false)
		} else if tgtStruct.IsValid() {
			after = gen.Canon(dc.kids, gen.FromStruct(dc.kids, tgtStruct, 0), false)
		} else {
			un := false
			after = gen.Canon(dc.kids, gen.FromMap(dc.kids, tgtMap, &un), false)
		}
		if after != before {
			c.Violation(core.Replay{Kind: "property-failure", Class: "find-mutates-" + tgtKind, Summary: "navigation changed the store", Input: map[string]interface{}{"yang": dc.yang, "before": before, "after": after}})
		}
	}
	c08findModelCompare(c, flines, fpends)
	outs, err := core.RunDriver(lines)
	if err != nil {
		c.ProofBroken = append(c.ProofBroken, err.Error())
		return
	}
	for i, o := range outs {
		c.Evaluations++
		model := core.Unhex(strings.TrimSpace(o))
		if i%499 == 0 {
			c.Sample(map[string]string{"case": pends[i].desc, "Path.String": pends[i].goPath, "model": model})
		}
		if model != pends[i].goPath {
			c.Disagree++
			if c.Disagree <= 3 {
				fmt.Printf("  disagreement: %s renders %q, model %q\n", pends[i].desc, pends[i].goPath, model)
			}
		}
	}
	if c.Disagree > 0 && c.Violations() == 0 {
		c.Violation(core.Replay{Kind: "correspondence", Summary: fmt.Sprintf("path renderer model and Path.String disagree on %d paths that re-parse correctly", c.Disagree), Broken: "correspondence C08/render", NoInputFound: true})
	}
}

// ---- Find against the Lean model of parseUrlPath + findSlice (Model/Find.lean) ----

type c08fseg struct {
	name string
	i    int
	keys []string
}

type c08fpend struct {
	desc, lib string
	input     map[string]interface{}
}

func c08fpath(segs []c08fseg) string {
	var parts []string
	for _, s := range segs {
		if s.keys != nil {
			parts = append(parts, keyPath(s.name, s.keys))
		} else {
			parts = append(parts, s.name)
		}
	}
	return strings.Join(parts, "/")
}

func c08fline(dc *dataCase, tree []*gen.DNode, segs []c08fseg) string {
	out := []string{fmt.Sprint(len(segs))}
	for _, s := range segs {
		out = append(out, fmt.Sprint(s.i), fmt.Sprint(len(s.keys)))
		for _, k := range s.keys {
			out = append(out, "h"+core.Hex(k))
		}
	}
	return "data find ; " + strings.Join(gen.SchemaTokens(dc.kids), " ") + " ; " + strings.Join(gen.BodyTokens(dc.kids, tree), " ") + " ; " + strings.Join(out, " ")
}

// what the library's Find gave, in the words of the model's answer
func c08libVerdict(sel *node.Selection, err error) (res string) {
	defer func() {
		if r := recover(); r != nil {
			res = fmt.Sprintf("PANIC:%v", r)
		}
	}()
	switch {
	case err != nil && errors.Is(err, fc.NotFoundError):
		return "notFound"
	case err != nil && errors.Is(err, fc.BadRequestError):
		return "bad"
	case err != nil:
		return "error:" + err.Error()
	case sel == nil:
		return "none"
	}
	m := sel.Meta()
	if meta.IsLeaf(m) {
		v, gerr := sel.Get()
		if gerr != nil {
			return "found leaf error:" + gerr.Error()
		}
		if v == nil {
			return "found leaf ~"
		}
		return "found leaf h" + core.Hex(v.String())
	}
	if meta.IsList(m) && !sel.InsideList {
		var keys []string
		it, ierr := sel.First()
		for ierr == nil && it.Selection != nil {
			var ks []string
			for _, k := range it.Key {
				ks = append(ks, "h"+core.Hex(k.String()))
			}
			keys = append(keys, strings.Join(ks, ","))
			it, ierr = it.Next()
		}
		if ierr != nil {
			return "found rows error:" + ierr.Error()
		}
		sort.Strings(keys)
		return strings.TrimSpace("found rows " + strings.Join(keys, " "))
	}
	out := []string{"found body"}
	for _, d := range m.(meta.HasDataDefinitions).DataDefinitions() {
		if !meta.IsLeaf(d) {
			out = append(out, "-")
			continue
		}
		v, gerr := sel.GetValue(d.Ident())
		switch {
		case gerr != nil:
			out = append(out, "error:"+gerr.Error())
		case v == nil:
			out = append(out, "~")
		default:
			out = append(out, "h"+core.Hex(v.String()))
		}
	}
	return strings.Join(out, " ")
}

func c08sortRows(model string) string {
	if !strings.HasPrefix(model, "found rows") {
		return model
	}
	ks := strings.Fields(strings.TrimPrefix(model, "found rows"))
	sort.Strings(ks)
	return strings.TrimSpace("found rows " + strings.Join(ks, " "))
}

// paths that name a node and paths that do not (absent key, absent container, unknown name, a key where none belongs,
// too few / too many key components, a step below a leaf, a list without its key in the middle): the library's verdict
// and what it selected are put next to the model's
func c08findModelCases(c *core.Ctx, r *core.Rng, dc *dataCase, tree []*gen.DNode, nodes []c08node, b *node.Browser, tgtKind string, lines *[]string, pends *[]c08fpend) {
	before := gen.Canon(dc.kids, tree, false)
	resolve := func(n c08node) ([]c08fseg, []*gen.SNode, []*gen.DNode) {
		kids, body := dc.kids, tree
		var out []c08fseg
		for _, sg := range n.segs {
			name := sg[0].(string)
			keys, _ := sg[1].([]string)
			idx := -1
			for i, k := range kids {
				if k.Name == name {
					idx = i
				}
			}
			if idx < 0 {
				return nil, nil, nil
			}
			out = append(out, c08fseg{name, idx, keys})
			if kids[idx].Kind == "list" {
				var nb []*gen.DNode
				for _, row := range body[idx].Rows {
					if reflect.DeepEqual(row.Key, keys) {
						nb = row.Kids
					}
				}
				kids, body = kids[idx].Kids, nb
			} else {
				kids, body = kids[idx].Kids, body[idx].Kids
			}
		}
		return out, kids, body
	}
	add := func(kind string, segs []c08fseg) {
		p := c08fpath(segs)
		var sel *node.Selection
		var err error
		func() {
			defer func() {
				if rr := recover(); rr != nil {
					err = fmt.Errorf("PANIC: %v", rr)
				}
			}()
			sel, err = b.Root().Find(p)
		}()
		c.Evaluations++
		c.Count("find-model", kind)
		*lines = append(*lines, c08fline(dc, tree, segs))
		*pends = append(*pends, c08fpend{fmt.Sprintf("%s Find(%q) [%s]", tgtKind, p, kind), c08libVerdict(sel, err),
			map[string]interface{}{"yang": dc.yang, "tree": before, "target_impl": tgtKind, "path": p, "kind": kind}})
	}
	cp := func(s []c08fseg) []c08fseg { return append([]c08fseg{}, s...) }
	absentKey := func(l *gen.SNode) []string {
		var key []string
		for j := 0; j < l.NKeys; j++ {
			if l.Kids[j].Type == "int32" {
				key = append(key, "777")
			} else {
				key = append(key, "no/such,key")
			}
		}
		return key
	}
	level := func(prefix []c08fseg, kids []*gen.SNode, body []*gen.DNode) {
		for i, k := range kids {
			switch k.Kind {
			case "leaf":
				if r.Chance(40) {
					add("leaf", append(cp(prefix), c08fseg{k.Name, i, nil}))
				}
				if r.Chance(10) {
					add("below-a-leaf", append(cp(prefix), c08fseg{k.Name, i, nil}, c08fseg{k.Name, i, nil}))
				}
				if r.Chance(10) {
					add("key-on-a-leaf", append(cp(prefix), c08fseg{k.Name, i, []string{"x"}}))
				}
			case "cont":
				if !body[i].Present {
					add("absent-container", append(cp(prefix), c08fseg{k.Name, i, nil}))
					if len(k.Kids) > 0 && r.Chance(50) {
						add("below-absent-container", append(cp(prefix), c08fseg{k.Name, i, nil}, c08fseg{k.Kids[0].Name, 0, nil}))
					}
				}
				if r.Chance(25) {
					add("key-on-a-container", append(cp(prefix), c08fseg{k.Name, i, []string{"x"}}))
				}
			case "list":
				add("list-without-key", append(cp(prefix), c08fseg{k.Name, i, nil}))
				if r.Chance(50) {
					add("list-without-key-in-the-middle", append(cp(prefix), c08fseg{k.Name, i, nil}, c08fseg{k.Kids[0].Name, 0, nil}))
				}
				add("absent-key", append(cp(prefix), c08fseg{k.Name, i, absentKey(k)}))
				if r.Chance(50) {
					add("below-absent-key", append(cp(prefix), c08fseg{k.Name, i, absentKey(k)}, c08fseg{k.Kids[0].Name, 0, nil}))
				}
				if k.NKeys > 1 && len(body[i].Rows) > 0 {
					// keys that share components with entries that exist: an absent first component with the rest of an
					// entry's key, and the first component of one entry with the rest of another's
					rows := body[i].Rows
					ra, rb := rows[r.Intn(len(rows))], rows[r.Intn(len(rows))]
					half := append([]string{absentKey(k)[0]}, ra.Key[1:]...)
					add("key-sharing-the-last-components", append(cp(prefix), c08fseg{k.Name, i, half}))
					mixed := append([]string{ra.Key[0]}, rb.Key[1:]...)
					add("key-mixed-of-two-entries", append(cp(prefix), c08fseg{k.Name, i, mixed}))
					first := append([]string{ra.Key[0]}, absentKey(k)[1:]...)
					add("key-sharing-the-first-component", append(cp(prefix), c08fseg{k.Name, i, first}))
				}
				ak := absentKey(k)
				add("one-component-too-many", append(cp(prefix), c08fseg{k.Name, i, append(ak, "x")}))
				if k.NKeys > 1 {
					add("one-component-too-few", append(cp(prefix), c08fseg{k.Name, i, ak[:k.NKeys-1]}))
				}
			}
		}
		add("unknown-name", append(cp(prefix), c08fseg{"nosuchname", len(kids), nil}))
	}
	level(nil, dc.kids, tree)
	for ni, n := range nodes {
		if ni > 25 {
			break
		}
		segs, kids, body := resolve(n)
		if segs == nil || body == nil {
			continue
		}
		add("existing", segs)
		if r.Chance(60) {
			level(segs, kids, body)
		}
		if len(segs) > 1 && r.Chance(30) {
			// an unknown name in the middle is refused whatever stands behind it
			j := r.Intn(len(segs) - 1)
			mid := cp(segs)
			mid[j] = c08fseg{"nosuchname", 99, nil}
			add("unknown-name-in-the-middle", mid)
		}
	}
}

func c08findModelCompare(c *core.Ctx, lines []string, pends []c08fpend) {
	outs, err := core.RunDriver(lines)
	if err != nil {
		c.ProofBroken = append(c.ProofBroken, err.Error())
		return
	}
	for i, o := range outs {
		model := c08sortRows(strings.TrimSpace(o))
		if i%997 == 0 {
			c.Sample(map[string]string{"case": pends[i].desc, "library": pends[i].lib, "model": model})
		}
		c.Count("find-model-verdict", strings.Join(strings.Fields(model+" -")[:2], " "))
		if model != pends[i].lib {
			in := pends[i].input
			in["library"] = pends[i].lib
			in["model"] = model
			c.Violation(core.Replay{Kind: "property-failure", Class: "find-model-" + fmt.Sprint(in["kind"]) + "-" + fmt.Sprint(in["target_impl"]),
				Summary: fmt.Sprintf("%s: the library gives %q; the walk to the addressed node (Model/Find) gives %q", pends[i].desc, pends[i].lib, model), Input: in})
		}
	}
}
