package props

import (
	"encoding/json"
	"fmt"
	"math"
	"net/url"
	"reflect"
	"strconv"
	"strings"

	"verif/harness/core"

	"github.com/freeconf/yang/meta"
	"github.com/freeconf/yang/node"
	"github.com/freeconf/yang/nodeutil"
	"github.com/freeconf/yang/parser"
)

func init() { Registry["C16"] = C16 }

// ---- typed operands

type xtype struct {
	name, yang string
	kind       string   // int dec str bool enum
	lits       []string // literal values (canonical text); data values are drawn at and around them
	relational bool
	// literals that are not values of the type and still have a verdict: numbers beyond the range or between two
	// values, names the enumeration does not have
	off []string
}

var c16types = []xtype{
	{"int8", "int8", "int", []string{"-128", "-1", "0", "5", "127"}, true, []string{"-129", "128", "300", "4.5", "-0.5", "127.5", "5.0", "-9223372036854775809"}},
	{"int32", "int32", "int", []string{"-2147483648", "-7", "0", "10", "2147483647"}, true, []string{"3000000000", "-2147483649", "2147483648", "9.5", "-7.25", "10.0", "18446744073709551616"}},
	{"int64", "int64", "int", []string{"-9223372036854775808", "-5", "0", "9223372036854775807"}, true, []string{"9223372036854775808", "-9223372036854775809", "18446744073709551615", "-4.5", "0.5", "36893488147419103232"}},
	{"uint8", "uint8", "int", []string{"0", "200", "255"}, true, []string{"-1", "256", "300", "199.5", "200.0", "0.5", "-128"}},
	{"uint32", "uint32", "int", []string{"0", "3000000000", "4294967295"}, true, []string{"-1", "4294967296", "2999999999.5", "-2147483648"}},
	{"uint64", "uint64", "int", []string{"0", "10", "9223372036854775807", "9223372036854775808", "18446744073709551615"}, true, []string{"-1", "18446744073709551616", "9.5", "-9223372036854775808", "36893488147419103232"}},
	{"decimal64", "decimal64 { fraction-digits 2; }", "dec", []string{"-2.50", "0.00", "1.50", "99.25", "1.10", "0.30", "-2.20", "100.01", "0.70"}, true, []string{"0", "1", "-3", "100", "1.5", "99.125", "1.375", "-2.5"}},
	{"string", "string", "str", []string{"b", "abc", "", "Zeta", "é"}, true, nil},
	{"boolean", "boolean", "bool", []string{"true", "false"}, false, nil},
	{"enum", "enumeration { enum lo; enum mid; enum hi; }", "enum", []string{"lo", "mid", "hi"}, false, []string{"zz", "1", "Lo", "HI"}},
	// a value of one member type against a literal of the other: only != holds
	{"union", "union { type int32; type string; }", "uni", []string{"5", "none", "-7", "x1", "10"}, true, nil},
}

// which member a text of the union { int32; string } is: the first one that takes it
func c16uniIsInt(text string) bool {
	n, err := strconv.ParseInt(text, 10, 32)
	return err == nil && strconv.FormatInt(n, 10) == text
}

// a value near a literal: below, equal, above (numerically / lexically), within the type's range
func c16near(r *core.Rng, t xtype, lit string) string {
	switch t.kind {
	case "int":
		lo, hi := map[string][2]string{"int8": {"-128", "127"}, "int32": {"-2147483648", "2147483647"}, "int64": {"-9223372036854775808", "9223372036854775807"},
			"uint8": {"0", "255"}, "uint32": {"0", "4294967295"}, "uint64": {"0", "18446744073709551615"}}[t.name][0], ""
		hi = map[string]string{"int8": "127", "int32": "2147483647", "int64": "9223372036854775807", "uint8": "255", "uint32": "4294967295", "uint64": "18446744073709551615"}[t.name]
		switch r.Intn(5) {
		case 0:
			if lit != lo {
				return c16add(lit, -1)
			}
		case 1:
			if lit != hi {
				return c16add(lit, 1)
			}
		case 2:
			return lo
		case 3:
			return hi
		}
		return lit
	case "dec":
		f, _ := strconv.ParseFloat(lit, 64)
		return fmt.Sprintf("%.2f", f+float64(r.Intn(3)-1)*core.Pick(r, []float64{0.01, 0.25, 1}))
	case "str":
		return core.Pick(r, []string{lit, lit, lit + "a", "a", "", "B", "c", "é", "Zeta", "abd", "ab"})
	case "bool":
		return core.Pick(r, []string{"true", "false"})
	case "uni":
		if c16uniIsInt(lit) && r.Chance(50) {
			n, _ := strconv.Atoi(lit)
			return strconv.Itoa(n + r.Intn(3) - 1)
		}
		return core.Pick(r, []string{lit, "none", "x1", "x2", "5", "-7", "11", "a"})
	}
	return core.Pick(r, []string{"lo", "mid", "hi"})
}

// decimal string ± 1 for 64-bit extremes
func c16add(s string, d int) string {
	if strings.HasPrefix(s, "-") {
		n, _ := strconv.ParseUint(s[1:], 10, 64)
		if d < 0 {
			return "-" + strconv.FormatUint(n+1, 10)
		}
		if n == 1 {
			return "0"
		}
		return "-" + strconv.FormatUint(n-1, 10)
	}
	n, _ := strconv.ParseUint(s, 10, 64)
	if d < 0 {
		if n == 0 {
			return "-1"
		}
		return strconv.FormatUint(n-1, 10)
	}
	return strconv.FormatUint(n+1, 10)
}

// model token of a value
func c16tok(t xtype, text string) string {
	switch t.kind {
	case "int":
		return "i" + text
	case "dec":
		f, _ := strconv.ParseFloat(text, 64)
		return fmt.Sprintf("d%de2", int64(math.Round(f*100)))
	case "str":
		return "s" + core.Hex(text)
	case "bool":
		if text == "true" {
			return "b1"
		}
		return "b0"
	case "uni":
		if c16uniIsInt(text) {
			return "i" + text
		}
		return "s" + core.Hex(text)
	}
	return "e" + core.Hex(text)
}

// model token of a literal: a number is what its text says, whatever the type of the leaf it is compared with
func c16litTok(t xtype, text string) string {
	if t.kind == "int" || t.kind == "dec" {
		if dot := strings.IndexByte(text, '.'); dot >= 0 {
			return fmt.Sprintf("d%se%d", text[:dot]+text[dot+1:], len(text)-dot-1)
		}
		return "i" + text
	}
	return c16tok(t, text)
}

func c16json(t xtype, text string) string {
	switch t.kind {
	case "int", "dec", "bool":
		return text
	case "uni":
		if c16uniIsInt(text) {
			return text
		}
	}
	b, _ := json.Marshal(text)
	return string(b)
}

func c16xpathLit(t xtype, text string) string {
	switch t.kind {
	case "int", "dec":
		return text
	}
	return "'" + text + "'"
}

// ---- schema with conditions

type xcond struct {
	path      []string
	op        string // "" = existence
	lit       string
	litType   xtype
	parentCtx bool
}

func (c xcond) xpath() string {
	s := strings.Join(c.path, "/")
	if c.op == "" {
		return s
	}
	sym := map[string]string{"eq": "=", "ne": "!=", "lt": "<", "le": "<=", "gt": ">", "ge": ">="}[c.op]
	if c.litType.kind == "int" || c.litType.kind == "dec" {
		return s + sym + c.lit
	}
	return s + sym + "'" + c.lit + "'"
}

func (c xcond) toks() []string {
	out := []string{fmt.Sprint(len(c.path))}
	for _, p := range c.path {
		out = append(out, core.Hex(p))
	}
	if c.op == "" {
		return append(out, "-")
	}
	return append(out, c.op, c16litTok(c.litType, c.lit))
}

type xnode struct {
	name   string
	kind   string // leaf cont list
	typ    xtype
	kids   []*xnode
	conds  []xcond
	origin string // "" | uses:<group> | augment:<n>
}

type xdata struct {
	leaf    *string
	present bool
	kids    []*xdata
	rows    [][]*xdata
}

type c16gen struct {
	r        *core.Rng
	seq      int
	groups   []string // grouping statements
	augments []string
}

func (g *c16gen) name(p string) string { g.seq++; return fmt.Sprintf("%s%d", p, g.seq) }

// operands visible from a body: paths to typed leaves without conditions
type operand struct {
	path []string
	typ  xtype
	// existence-only targets (containers / lists)
	exists bool
}

func (g *c16gen) cond(ops []operand, parentCtx bool) xcond {
	o := core.Pick(g.r, ops)
	if o.exists || g.r.Chance(10) {
		return xcond{path: o.path, parentCtx: parentCtx}
	}
	op := core.Pick(g.r, []string{"eq", "ne", "lt", "le", "gt", "ge"})
	if !o.typ.relational {
		op = core.Pick(g.r, []string{"eq", "ne"})
	}
	lit := core.Pick(g.r, o.typ.lits)
	if len(o.typ.off) > 0 && g.r.Chance(30) {
		lit = core.Pick(g.r, o.typ.off)
	}
	return xcond{path: o.path, op: op, lit: lit, litType: o.typ, parentCtx: parentCtx}
}

// body generates the children of a container / list entry / module and the operands they offer
func (g *c16gen) body(depth int, keyed bool) ([]*xnode, []operand) {
	var kids []*xnode
	var ops []operand
	if keyed {
		k := &xnode{name: g.name("k"), kind: "leaf", typ: c16types[7]}
		kids = append(kids, k)
	}
	for i, n := 0, 1+g.r.Intn(3); i < n; i++ {
		t := core.Pick(g.r, c16types)
		o := &xnode{name: g.name("o"), kind: "leaf", typ: t}
		kids = append(kids, o)
		ops = append(ops, operand{path: []string{o.name}, typ: t})
	}
	if depth < 2 && g.r.Chance(50) {
		// operand container (nested path) and operand list (any entry)
		t := core.Pick(g.r, c16types)
		in := &xnode{name: g.name("o"), kind: "leaf", typ: t}
		pc := &xnode{name: g.name("pc"), kind: "cont", kids: []*xnode{in}}
		if g.r.Chance(40) {
			t2 := core.Pick(g.r, c16types)
			in2 := &xnode{name: g.name("o"), kind: "leaf", typ: t2}
			pc2 := &xnode{name: g.name("pc"), kind: "cont", kids: []*xnode{in2}}
			pc.kids = append(pc.kids, pc2)
			ops = append(ops, operand{path: []string{pc.name, pc2.name, in2.name}, typ: t2})
		}
		kids = append(kids, pc)
		ops = append(ops, operand{path: []string{pc.name, in.name}, typ: t}, operand{path: []string{pc.name}, exists: true})
	}
	if depth < 2 && g.r.Chance(40) {
		t := core.Pick(g.r, c16types)
		k := &xnode{name: g.name("k"), kind: "leaf", typ: c16types[7]}
		in := &xnode{name: g.name("o"), kind: "leaf", typ: t}
		pl := &xnode{name: g.name("pl"), kind: "list", kids: []*xnode{k, in}}
		kids = append(kids, pl)
		ops = append(ops, operand{path: []string{pl.name, in.name}, typ: t}, operand{path: []string{pl.name}, exists: true})
	}
	// conditional nodes
	for i, n := 0, 1+g.r.Intn(3); i < n; i++ {
		switch k := g.r.Intn(10); {
		case k < 5 || depth >= 2:
			kids = append(kids, &xnode{name: g.name("w"), kind: "leaf", typ: c16types[7], conds: []xcond{g.cond(ops, false)}})
		case k < 8:
			sub, subOps := g.body(depth+1, false)
			c := &xnode{name: g.name("wc"), kind: "cont", kids: sub}
			if g.r.Chance(85) {
				c.conds = []xcond{g.cond(subOps, false)}
			}
			kids = append(kids, c)
		default:
			sub, subOps := g.body(depth+1, true)
			l := &xnode{name: g.name("wl"), kind: "list", kids: sub}
			if g.r.Chance(85) {
				l.conds = []xcond{g.cond(subOps, false)}
			}
			kids = append(kids, l)
		}
	}
	// nodes brought in by a uses with a condition (evaluated here, in the parent)
	if g.r.Chance(45) {
		gname := g.name("g")
		var gk []*xnode
		uc := g.cond(ops, true)
		gk = append(gk, &xnode{name: g.name("u"), kind: "leaf", typ: c16types[7], origin: "uses:" + gname})
		if g.r.Chance(60) {
			sub, subOps := g.body(2, false)
			c := &xnode{name: g.name("uc"), kind: "cont", kids: sub, origin: "uses:" + gname}
			if g.r.Chance(50) {
				c.conds = []xcond{g.cond(subOps, false)} // its own condition besides the inherited one
			}
			gk = append(gk, c)
		}
		if g.r.Chance(30) {
			sub, _ := g.body(2, true)
			gk = append(gk, &xnode{name: g.name("ul"), kind: "list", kids: sub, origin: "uses:" + gname})
		}
		g.groups = append(g.groups, fmt.Sprintf("grouping %s {\n%s}\n", gname, c16yang(gk, "  ", true)))
		for _, n := range gk {
			// the inherited condition comes first (the library chains own conditions behind it)
			n.conds = append([]xcond{uc}, n.conds...)
		}
		// marker node carries the uses statement in the YANG text
		gk[0].origin += "|first|" + uc.xpath()
		kids = append(kids, gk...)
	}
	return kids, ops
}

// YANG of the children; nodes brought in by uses are rendered through their uses statement, augmenting
// nodes are rendered separately
// c16noWhen renders the same module without any 'when' (the reference of "behaves as if it had no when")
var c16noWhen bool

func c16yang(kids []*xnode, indent string, inGroup bool) string {
	var b strings.Builder
	for _, n := range kids {
		if strings.HasPrefix(n.origin, "augment:") {
			continue
		}
		conds := n.conds
		if strings.HasPrefix(n.origin, "uses:") && !inGroup {
			if strings.Contains(n.origin, "|first|") {
				parts := strings.SplitN(n.origin, "|first|", 2)
				if c16noWhen {
					fmt.Fprintf(&b, "%suses %s;\n", indent, strings.TrimPrefix(parts[0], "uses:"))
				} else {
					fmt.Fprintf(&b, "%suses %s { when \"%s\"; }\n", indent, strings.TrimPrefix(parts[0], "uses:"), parts[1])
				}
			}
			continue
		}
		if inGroup && len(conds) > 0 && conds[0].parentCtx {
			conds = conds[1:]
		}
		when := ""
		for _, c := range conds {
			if !c.parentCtx && !c16noWhen {
				when += fmt.Sprintf(" when \"%s\";", c.xpath())
			}
		}
		switch n.kind {
		case "leaf":
			semi := ";"
			if strings.HasSuffix(n.typ.yang, "}") {
				semi = ""
			}
			fmt.Fprintf(&b, "%sleaf %s {%s type %s%s }\n", indent, n.name, when, n.typ.yang, semi)
		case "cont":
			fmt.Fprintf(&b, "%scontainer %s {%s\n%s%s}\n", indent, n.name, when, c16yang(n.kids, indent+"  ", false), indent)
		case "list":
			fmt.Fprintf(&b, "%slist %s {%s key \"%s\";\n%s%s}\n", indent, n.name, when, n.kids[0].name, c16yang(n.kids, indent+"  ", false), indent)
		}
	}
	return b.String()
}

// every node rendered in place (nodes from uses and augment as ordinary children), without conditions
func c16yangFlat(kids []*xnode, indent string) string {
	var b strings.Builder
	for _, n := range kids {
		switch n.kind {
		case "leaf":
			semi := ";"
			if strings.HasSuffix(n.typ.yang, "}") {
				semi = ""
			}
			fmt.Fprintf(&b, "%sleaf %s { type %s%s }\n", indent, n.name, n.typ.yang, semi)
		case "cont":
			fmt.Fprintf(&b, "%scontainer %s {\n%s%s}\n", indent, n.name, c16yangFlat(n.kids, indent+"  "), indent)
		case "list":
			fmt.Fprintf(&b, "%slist %s { key \"%s\";\n%s%s}\n", indent, n.name, n.kids[0].name, c16yangFlat(n.kids, indent+"  "), indent)
		}
	}
	return b.String()
}

func c16schemaToks(kids []*xnode) []string {
	out := []string{fmt.Sprint(len(kids))}
	for _, n := range kids {
		conds := []string{fmt.Sprint(len(n.conds))}
		for _, c := range n.conds {
			conds = append(append(conds, map[bool]string{true: "1", false: "0"}[c.parentCtx]), c.toks()...)
		}
		switch n.kind {
		case "leaf":
			out = append(append(out, "L", core.Hex(n.name)), conds...)
		case "cont":
			out = append(append(append(out, "C", core.Hex(n.name)), conds...), c16schemaToks(n.kids)...)
		case "list":
			out = append(append(append(out, "K", core.Hex(n.name)), conds...), c16schemaToks(n.kids)...)
		}
	}
	return out
}

func (g *c16gen) data(kids []*xnode, litHints map[string][]string) []*xdata {
	out := make([]*xdata, len(kids))
	for i, n := range kids {
		d := &xdata{}
		out[i] = d
		switch n.kind {
		case "leaf":
			if g.r.Chance(80) {
				lit := core.Pick(g.r, n.typ.lits)
				if h := litHints[n.name]; len(h) > 0 && g.r.Chance(80) {
					lit = core.Pick(g.r, h)
				}
				v := c16near(g.r, n.typ, lit)
				d.leaf = &v
			}
		case "cont":
			if g.r.Chance(85) {
				d.present = true
				d.kids = g.data(n.kids, litHints)
			}
		case "list":
			if g.r.Chance(85) {
				for j, m := 0, 1+g.r.Intn(3); j < m; j++ {
					row := g.data(n.kids, litHints)
					k := fmt.Sprintf("r%d", j)
					row[0].leaf = &k
					d.rows = append(d.rows, row)
				}
			}
		}
	}
	return out
}

// a literal that is a value of the type (data is only ever drawn around those)
func c16isValue(t xtype, lit string) bool {
	for _, l := range t.off {
		if l == lit {
			return false
		}
	}
	return true
}

// literals used against each operand name, so that data lands at and around them
func c16hints(kids []*xnode, out map[string][]string) {
	for _, n := range kids {
		for _, c := range n.conds {
			if c.op != "" && c16isValue(c.litType, c.lit) {
				out[c.path[len(c.path)-1]] = append(out[c.path[len(c.path)-1]], c.lit)
			}
		}
		c16hints(n.kids, out)
	}
}

func c16dataToks(kids []*xnode, body []*xdata) []string {
	out := []string{fmt.Sprint(len(kids))}
	for i, n := range kids {
		d := body[i]
		switch n.kind {
		case "leaf":
			if d.leaf == nil {
				out = append(out, "-")
			} else {
				out = append(out, "v", c16tok(n.typ, *d.leaf))
			}
		case "cont":
			if d.present {
				out = append(append(out, "c"), c16dataToks(n.kids, d.kids)...)
			} else {
				out = append(out, "c-")
			}
		case "list":
			out = append(out, "r", fmt.Sprint(len(d.rows)))
			for _, row := range d.rows {
				out = append(out, c16dataToks(n.kids, row)...)
			}
		}
	}
	return out
}

func c16dataJSON(kids []*xnode, body []*xdata) string {
	var parts []string
	for i, n := range kids {
		d := body[i]
		switch n.kind {
		case "leaf":
			if d.leaf != nil {
				parts = append(parts, fmt.Sprintf("%q:%s", n.name, c16json(n.typ, *d.leaf)))
			}
		case "cont":
			if d.present {
				parts = append(parts, fmt.Sprintf("%q:%s", n.name, c16dataJSON(n.kids, d.kids)))
			}
		case "list":
			if len(d.rows) > 0 {
				var rows []string
				for _, row := range d.rows {
					rows = append(rows, c16dataJSON(n.kids, row))
				}
				parts = append(parts, fmt.Sprintf("%q:[%s]", n.name, strings.Join(rows, ",")))
			}
		}
	}
	return "{" + strings.Join(parts, ",") + "}"
}

// typed Go values for a reflection-backed store
func c16dataMap(kids []*xnode, body []*xdata) map[string]interface{} {
	out := map[string]interface{}{}
	for i, n := range kids {
		d := body[i]
		switch n.kind {
		case "leaf":
			if d.leaf != nil {
				out[n.name] = c16goVal(n.typ, *d.leaf)
			}
		case "cont":
			if d.present {
				out[n.name] = c16dataMap(n.kids, d.kids)
			}
		case "list":
			if len(d.rows) > 0 {
				var rows []interface{}
				for _, row := range d.rows {
					rows = append(rows, c16dataMap(n.kids, row))
				}
				out[n.name] = rows
			}
		}
	}
	return out
}

func c16goVal(t xtype, text string) interface{} {
	switch t.kind {
	case "int":
		if strings.HasPrefix(t.name, "u") {
			n, _ := strconv.ParseUint(text, 10, 64)
			return n
		}
		n, _ := strconv.ParseInt(text, 10, 64)
		return n
	case "dec":
		f, _ := strconv.ParseFloat(text, 64)
		return f
	case "bool":
		return text == "true"
	case "uni":
		if c16uniIsInt(text) {
			n, _ := strconv.ParseInt(text, 10, 32)
			return int32(n)
		}
	}
	return text
}

// another request parameter over the module body
func c16query(r *core.Rng, kids []*xnode) string {
	var names []string
	for _, k := range kids {
		names = append(names, k.name)
		if k.kind != "leaf" && len(k.kids) > 0 {
			names = append(names, k.name+"/"+core.Pick(r, k.kids).name)
		}
	}
	switch r.Intn(3) {
	case 0:
		return fmt.Sprintf("depth=%d", 1+r.Intn(3))
	case 1:
		return "fields=" + url.QueryEscape(core.Pick(r, names)+";"+core.Pick(r, names))
	}
	return "fc.xfields=" + url.QueryEscape(core.Pick(r, names))
}

// canonical text from the model's tokens
type c16tr struct {
	toks []string
	bad  bool
}

func (t *c16tr) next() string {
	if len(t.toks) == 0 {
		t.bad = true
		return ""
	}
	x := t.toks[0]
	t.toks = t.toks[1:]
	return x
}

func (t *c16tr) canon(kids []*xnode) string {
	n, _ := strconv.Atoi(t.next())
	if n != len(kids) {
		t.bad = true
		return ""
	}
	var b strings.Builder
	b.WriteString("{")
	for _, k := range kids {
		tag := t.next()
		switch tag {
		case "-", "c-":
		case "v":
			fmt.Fprintf(&b, "%s=%s ", k.name, t.next())
		case "c":
			b.WriteString(k.name + t.canon(k.kids) + " ")
		case "r":
			m, _ := strconv.Atoi(t.next())
			if m > 0 {
				b.WriteString(k.name + "[")
			}
			for j := 0; j < m; j++ {
				b.WriteString(t.canon(k.kids))
			}
			if m > 0 {
				b.WriteString("] ")
			}
		default:
			t.bad = true
		}
		if t.bad {
			return ""
		}
	}
	b.WriteString("}")
	return b.String()
}

func c16canonJSON(kids []*xnode, m map[string]interface{}) string {
	var b strings.Builder
	b.WriteString("{")
	seen := 0
	for _, k := range kids {
		v, ok := m[k.name]
		if !ok {
			continue
		}
		seen++
		switch k.kind {
		case "leaf":
			text := ""
			switch x := v.(type) {
			case string:
				text = x
			case json.Number:
				text = x.String()
			case bool:
				text = fmt.Sprint(x)
			default:
				text = fmt.Sprintf("<%T>", v)
			}
			fmt.Fprintf(&b, "%s=%s ", k.name, c16tok(k.typ, text))
		case "cont":
			if sub, ok := v.(map[string]interface{}); ok {
				b.WriteString(k.name + c16canonJSON(k.kids, sub) + " ")
			} else {
				b.WriteString(k.name + "<not-object> ")
			}
		case "list":
			arr, _ := v.([]interface{})
			if len(arr) > 0 {
				b.WriteString(k.name + "[")
				for _, it := range arr {
					sub, _ := it.(map[string]interface{})
					b.WriteString(c16canonJSON(k.kids, sub))
				}
				b.WriteString("] ")
			}
		}
	}
	if seen != len(m) {
		b.WriteString("<unknown-members> ")
	}
	b.WriteString("}")
	return b.String()
}

func c16decode(js string) (map[string]interface{}, error) {
	dec := json.NewDecoder(strings.NewReader(js))
	dec.UseNumber()
	var v map[string]interface{}
	err := dec.Decode(&v)
	return v, err
}

// directed cases: a where filters the entries of the list it is put on - not a list of the same name further down,
// not a list with its own when
func c16probes(c *core.Ctx) {
	m, err := parser.LoadModuleFromString(nil, `module pw { namespace "urn:pw"; prefix pw; revision 2020-01-01;
  list part { key id; leaf id { type string; } leaf qty { type int32; }
    list part { key id; leaf id { type string; } leaf qty { type int32; } }
    list sub { key id; when "qty>0"; leaf id { type string; } leaf qty { type int32; } } }
  container box { list part { key id; leaf id { type string; } leaf tag { type string; } } }
}`)
	if err != nil {
		c.Violation(core.Replay{Kind: "harness", Summary: "C16 probe module: " + err.Error(), NoInputFound: true})
		return
	}
	doc := `{"part":[{"id":"a","qty":10,"part":[{"id":"a1","qty":1},{"id":"a2","qty":20}],"sub":[{"id":"s1","qty":1},{"id":"s2","qty":0},{"id":"s3","qty":9}]},` +
		`{"id":"b","qty":3,"part":[{"id":"b1","qty":50}]},{"id":"c","qty":6,"part":[{"id":"c1","qty":2}],"sub":[{"id":"s4","qty":-1}]}],"box":{"part":[{"id":"x","tag":"t"}]}}`
	for _, tc := range []struct{ path, want string }{
		{"part?where=qty>5", `{"part":[{"id":"a","qty":10,"part":[{"id":"a1","qty":1},{"id":"a2","qty":20}],"sub":[{"id":"s1","qty":1},{"id":"s3","qty":9}]},{"id":"c","qty":6,"part":[{"id":"c1","qty":2}],"sub":[]}]}`},
		{"part?where=qty<5", `{"part":[{"id":"b","qty":3,"part":[{"id":"b1","qty":50}]}]}`},
		{"part=a/part?where=qty>5", `{"part":[{"id":"a2","qty":20}]}`},
		{"part=a/sub?where=qty>5", `{"sub":[{"id":"s3","qty":9}]}`},
		{"part=a/sub?where=qty<5", `{"sub":[{"id":"s1","qty":1}]}`},
		{"part?where=id='c'", `{"part":[{"id":"c","qty":6,"part":[{"id":"c1","qty":2}],"sub":[]}]}`},
		// an entry its list's condition hides is not there when it is addressed by key either
		{"part=a/sub=s1", `{"id":"s1","qty":1}`},
		{"part=a/sub=s2", `nil`},
		{"part=a/sub=s2/qty", `nil`},
		{"part=c/sub=s4", `nil`},
		{"part=a/sub=s3/qty", `{"qty":9}`},
	} {
		c.Evaluations++
		c.Count("probe", tc.path)
		var got string
		perr := safeDo(func() error {
			n, err := nodeutil.ReadJSON(doc)
			if err != nil {
				return err
			}
			sel, err := node.NewBrowser(m, n).Root().Find(tc.path)
			if err == nil && sel == nil {
				got = "nil"
				return nil
			}
			if err != nil || sel == nil {
				return fmt.Errorf("no selection: %v", err)
			}
			if meta.IsLeaf(sel.Meta()) {
				v, gerr := sel.Get()
				if gerr != nil {
					return gerr
				}
				if v == nil {
					got = "nil"
				} else {
					got = fmt.Sprintf(`{%q:%s}`, sel.Meta().Ident(), v.String())
				}
				return nil
			}
			got, err = nodeutil.WriteJSON(sel)
			return err
		})
		if perr != nil || got != tc.want {
			c.Violation(core.Replay{Kind: "property-failure", Class: "probe-where-nested", Summary: fmt.Sprintf("Find(%q) reads %s (%v); where keeps exactly %s", tc.path, short(got), perr, short(tc.want)),
				Input: map[string]interface{}{"document": doc, "find": tc.path}, Impl: got, Spec: tc.want})
		}
	}
}

// comparisons with a union operand: the value may be of another member type than the literal
func c16unionProbes(c *core.Ctx) {
	m, err := parser.LoadModuleFromString(nil, `module pu { namespace "urn:pu"; prefix pu; revision 2020-01-01;
  list item { key id; leaf id { type string; } leaf limit { type union { type int32; type string; } } leaf dep { when "limit!=10"; type string; } leaf eq { when "limit=10"; type string; } }
}`)
	if err != nil {
		c.Violation(core.Replay{Kind: "harness", Summary: "C16 union probe module: " + err.Error(), NoInputFound: true})
		return
	}
	// operands whose names have dots, dashes and underscores (next to a leaf named like the part before the dot)
	m2, err2 := parser.LoadModuleFromString(nil, `module pd { namespace "urn:pd"; prefix pd; revision 2020-01-01;
  list item { key id; leaf id { type string; } leaf rate { type int32; } leaf rate.limit { type int32; } leaf max-rate_x { type int32; }
    leaf hot { when "rate.limit>100"; type string; } leaf cold { when "max-rate_x<5"; type string; } container c.d { leaf e.f { type int32; } } leaf deep { when "c.d/e.f=7"; type string; } }
}`)
	if err2 != nil {
		c.Violation(core.Replay{Kind: "harness", Summary: "C16 dotted-name probe module: " + err2.Error(), NoInputFound: true})
		return
	}
	doc2 := `{"item":[{"id":"a","rate":500,"rate.limit":50,"max-rate_x":9,"hot":"h","cold":"c","c.d":{"e.f":7},"deep":"d"},{"id":"b","rate":1,"rate.limit":200,"max-rate_x":1,"hot":"h","cold":"c","c.d":{"e.f":8},"deep":"d"}]}`
	for _, tc := range []struct{ path, want string }{
		{"item", `{"item":[{"id":"a","rate":500,"rate.limit":50,"max-rate_x":9,"c.d":{"e.f":7},"deep":"d"},{"id":"b","rate":1,"rate.limit":200,"max-rate_x":1,"hot":"h","cold":"c","c.d":{"e.f":8}}]}`},
		{"item?where=rate.limit>100", `{"item":[{"id":"b","rate":1,"rate.limit":200,"max-rate_x":1,"hot":"h","cold":"c","c.d":{"e.f":8}}]}`},
		{"item?where=rate>100", `{"item":[{"id":"a","rate":500,"rate.limit":50,"max-rate_x":9,"c.d":{"e.f":7},"deep":"d"}]}`},
		{"item?where=max-rate_x>5", `{"item":[{"id":"a","rate":500,"rate.limit":50,"max-rate_x":9,"c.d":{"e.f":7},"deep":"d"}]}`},
		{"item?where=c.d/e.f%3D8", `{"item":[{"id":"b","rate":1,"rate.limit":200,"max-rate_x":1,"hot":"h","cold":"c","c.d":{"e.f":8}}]}`},
	} {
		c.Evaluations++
		c.Count("probe", "dotted "+tc.path)
		var got string
		perr := safeDo(func() error {
			n, err := nodeutil.ReadJSON(doc2)
			if err != nil {
				return err
			}
			sel, err := node.NewBrowser(m2, n).Root().Find(tc.path)
			if err != nil || sel == nil {
				return fmt.Errorf("no selection: %v", err)
			}
			got, err = nodeutil.WriteJSON(sel)
			return err
		})
		if perr != nil || got != tc.want {
			c.Violation(core.Replay{Kind: "property-failure", Class: "probe-dotted-names", Summary: fmt.Sprintf("Find(%q) reads %s (%v); the conditions select %s", tc.path, short(got), perr, short(tc.want)),
				Input: map[string]interface{}{"document": doc2, "find": tc.path}, Impl: got, Spec: tc.want})
		}
	}
	// text beyond the subset the evaluator understands is refused - not read as some other expression
	for _, expr := range []string{"rate>100 and max-rate_x>5", "rate>100 or rate<5", "rate>100)", "rate>100 #note", "rate>10+90", "rate>100 max-rate_x>5", "not(rate>100)", "rate[1]>100", "rate>100;rate<5", "(rate>100)", "rate>100 and", "rate!100"} {
		c.Evaluations++
		c.Count("probe", "unsupported expression")
		var got string
		perr := safeDo(func() error {
			n, err := nodeutil.ReadJSON(doc2)
			if err != nil {
				return err
			}
			sel, err := node.NewBrowser(m2, n).Root().Find("item?where=" + url.QueryEscape(expr))
			if err != nil {
				got = "refused"
				return nil
			}
			if sel == nil {
				got = "nil"
				return nil
			}
			js, err := nodeutil.WriteJSON(sel)
			if err != nil {
				got = "refused"
				return nil
			}
			got = "read " + js
			return nil
		})
		if perr != nil {
			got = perr.Error()
		}
		if got != "refused" {
			c.Violation(core.Replay{Kind: "property-failure", Class: "probe-unsupported-expression", Summary: fmt.Sprintf("where=%q is outside the evaluator's subset and must be refused; it was taken as some expression: %s", expr, short(got)),
				Input: map[string]interface{}{"document": doc2, "where": expr}})
		}
	}
	doc := `{"item":[{"id":"a","limit":10,"dep":"x","eq":"x"},{"id":"b","limit":"none","dep":"y","eq":"y"},{"id":"c","limit":5,"dep":"z","eq":"z"},{"id":"d","dep":"w","eq":"w"}]}`
	for _, tc := range []struct{ path, want string }{
		{"item", `{"item":[{"id":"a","limit":10,"eq":"x"},{"id":"b","limit":"none","dep":"y"},{"id":"c","limit":5,"dep":"z"},{"id":"d"}]}`},
		{"item?where=limit!%3D10", `{"item":[{"id":"b","limit":"none","dep":"y"},{"id":"c","limit":5,"dep":"z"}]}`},
		{"item?where=limit%3D10", `{"item":[{"id":"a","limit":10,"eq":"x"}]}`},
		{"item?where=limit%3D'none'", `{"item":[{"id":"b","limit":"none","dep":"y"}]}`},
		{"item?where=limit!%3D'none'", `{"item":[{"id":"a","limit":10,"eq":"x"},{"id":"c","limit":5,"dep":"z"}]}`},
		{"item?where=limit<7", `{"item":[{"id":"c","limit":5,"dep":"z"}]}`},
	} {
		c.Evaluations++
		c.Count("probe", "union "+tc.path)
		var got string
		perr := safeDo(func() error {
			n, err := nodeutil.ReadJSON(doc)
			if err != nil {
				return err
			}
			sel, err := node.NewBrowser(m, n).Root().Find(tc.path)
			if err != nil || sel == nil {
				return fmt.Errorf("no selection: %v", err)
			}
			got, err = nodeutil.WriteJSON(sel)
			return err
		})
		if perr != nil || got != tc.want {
			c.Violation(core.Replay{Kind: "property-failure", Class: "probe-union-operand", Summary: fmt.Sprintf("Find(%q) reads %s (%v); the conditions select %s", tc.path, short(got), perr, short(tc.want)),
				Input: map[string]interface{}{"document": doc, "find": tc.path}, Impl: got, Spec: tc.want})
		}
	}
}

// conditions that reach a node through more than one uses, through a choice or a case (stated there, or on the uses
// or augment that brings the choice or the case in): every one of them applies to the data nodes below
func c16inheritProbes(c *core.Ctx) {
	y := `module pi { namespace "urn:pi"; prefix pi; revision 2020-01-01;
  grouping g2 { leaf inner { type string; } container box { leaf b { type int32; } leaf z { type string; } } list bl { key k; leaf k { type string; } leaf b { type int32; } } }
  grouping g1 { leaf mid { type string; } uses g2 { when "b=1"; } }
  container nest { leaf a { type int32; } leaf b { type int32; } uses g1 { when "a=1"; } }
  grouping gc { choice ch { case k1 { leaf c1 { type string; } } leaf c2 { type string; } } }
  container withch { leaf on { type int32; } uses gc { when "on=1"; } }
  container t { leaf on { type int32; } choice k { case k1 { leaf x1 { type string; } } } }
  augment "/t/k" { when "on=1"; case k2 { leaf x2 { type string; } container xc { leaf x3 { type string; } } } }
  grouping gcont { container inner { leaf v { type string; } } list li { key k; leaf k { type string; } } }
  container outer { leaf flag { type int32; } container mid { leaf flag { type int32; } uses gcont { when "flag=1"; } } }
  container direct { leaf on { type int32; } choice dk { when "on=1"; leaf y1 { type string; } }
    choice dk2 { case d2 { when "on=2"; leaf y2 { type string; } } case d3 { leaf y3 { type string; } } } }
}`
	m, err := parser.LoadModuleFromString(nil, y)
	if err != nil {
		c.Violation(core.Replay{Kind: "harness", Summary: "C16 inherit probe module: " + err.Error(), NoInputFound: true})
		return
	}
	for _, tc := range []struct{ doc, want string }{
		{`{"nest":{"a":1,"b":1,"mid":"m","inner":"i"}}`, `{"nest":{"a":1,"b":1,"mid":"m","inner":"i"}}`},
		{`{"nest":{"a":1,"b":0,"mid":"m","inner":"i"}}`, `{"nest":{"a":1,"b":0,"mid":"m"}}`},
		{`{"nest":{"a":0,"b":1,"mid":"m","inner":"i"}}`, `{"nest":{"a":0,"b":1}}`},
		{`{"nest":{"a":1,"mid":"m","inner":"i"}}`, `{"nest":{"a":1,"mid":"m"}}`},
		// both conditions of the nested uses are about the node that holds the uses, also for a container or list
		// that has a leaf of the operand's name itself
		{`{"nest":{"a":1,"b":1,"box":{"b":0,"z":"q"},"bl":[{"k":"r","b":0}]}}`, `{"nest":{"a":1,"b":1,"box":{"b":0,"z":"q"},"bl":[{"k":"r","b":0}]}}`},
		{`{"nest":{"a":1,"b":0,"box":{"b":1,"z":"q"},"bl":[{"k":"r","b":1}]}}`, `{"nest":{"a":1,"b":0,"bl":[]}}`},
		{`{"withch":{"on":1,"c1":"x"}}`, `{"withch":{"on":1,"c1":"x"}}`},
		{`{"withch":{"on":0,"c1":"x"}}`, `{"withch":{"on":0}}`},
		{`{"withch":{"on":0,"c2":"y"}}`, `{"withch":{"on":0}}`},
		{`{"withch":{"on":1,"c2":"y"}}`, `{"withch":{"on":1,"c2":"y"}}`},
		{`{"t":{"on":1,"x2":"v","xc":{"x3":"w"}}}`, `{"t":{"on":1,"x2":"v","xc":{"x3":"w"}}}`},
		{`{"t":{"on":0,"x2":"v","xc":{"x3":"w"}}}`, `{"t":{"on":0}}`},
		{`{"t":{"on":0,"x1":"v"}}`, `{"t":{"on":0,"x1":"v"}}`},
		{`{"direct":{"on":1,"y1":"v","y3":"z"}}`, `{"direct":{"on":1,"y1":"v","y3":"z"}}`},
		{`{"direct":{"on":0,"y1":"v"}}`, `{"direct":{"on":0}}`},
		{`{"direct":{"on":2,"y2":"v"}}`, `{"direct":{"on":2,"y2":"v"}}`},
		{`{"direct":{"on":1,"y2":"v"}}`, `{"direct":{"on":1}}`},
		{`FIND - outer/mid/inner {"outer":{"flag":0,"mid":{"flag":1,"inner":{"v":"x"},"li":[{"k":"a"}]}}}`, `{"v":"x"}`},
		{`FIND outer mid/inner {"outer":{"flag":0,"mid":{"flag":1,"inner":{"v":"x"},"li":[{"k":"a"}]}}}`, `{"v":"x"}`},
		{`FIND outer/mid inner {"outer":{"flag":0,"mid":{"flag":1,"inner":{"v":"x"},"li":[{"k":"a"}]}}}`, `{"v":"x"}`},
		{`FIND - outer/mid/li=a {"outer":{"flag":0,"mid":{"flag":1,"inner":{"v":"x"},"li":[{"k":"a"}]}}}`, `{"k":"a"}`},
		{`FIND - outer/mid/inner {"outer":{"flag":1,"mid":{"flag":0,"inner":{"v":"x"},"li":[{"k":"a"}]}}}`, `nil`},
		{`FIND outer mid/inner {"outer":{"flag":1,"mid":{"flag":0,"inner":{"v":"x"},"li":[{"k":"a"}]}}}`, `nil`},
		{`FIND outer mid/li=a {"outer":{"flag":1,"mid":{"flag":0,"inner":{"v":"x"},"li":[{"k":"a"}]}}}`, `nil`},
	} {
		c.Evaluations++
		c.Count("probe", "inherited condition")
		c.Distinct("inherit " + tc.doc)
		if strings.HasPrefix(tc.doc, "FIND ") {
			// a condition handed down by a uses is evaluated where the node lives, whatever selection the path starts from
			f := strings.SplitN(tc.doc[5:], " ", 3) // start, path, data
			var got string
			perr := safeDo(func() error {
				n, err := nodeutil.ReadJSON(f[2])
				if err != nil {
					return err
				}
				sel := node.NewBrowser(m, n).Root()
				if f[0] != "-" {
					if sel, err = sel.Find(f[0]); err != nil || sel == nil {
						return fmt.Errorf("start selection: %v", err)
					}
				}
				t, err := sel.Find(f[1])
				if err != nil {
					return err
				}
				if t == nil {
					got = "nil"
					return nil
				}
				got, err = nodeutil.WriteJSON(t)
				return err
			})
			if perr != nil {
				got = "error " + short(perr.Error())
			}
			if got != tc.want {
				c.Violation(core.Replay{Kind: "property-failure", Class: "probe-inherited-condition-find", Summary: fmt.Sprintf("from %q Find(%q) on %s gives %s, want %s", f[0], f[1], f[2], got, tc.want),
					Input: map[string]interface{}{"yang": y, "start": f[0], "find": f[1], "document": f[2]}, Impl: got, Spec: tc.want})
			}
			continue
		}
		var got string
		perr := safeDo(func() error {
			n, err := nodeutil.ReadJSON(tc.doc)
			if err != nil {
				return err
			}
			got, err = nodeutil.WriteJSON(node.NewBrowser(m, n).Root())
			return err
		})
		if perr != nil || got != tc.want {
			c.Violation(core.Replay{Kind: "property-failure", Class: "probe-inherited-condition", Summary: fmt.Sprintf("%s reads as %s (%v); with every condition that applies: %s", tc.doc, short(got), perr, tc.want),
				Input: map[string]interface{}{"yang": y, "document": tc.doc}, Impl: got, Spec: tc.want})
		}
	}
}

// what a false condition hides is not written by an edit - an entry of a list as little as a container - and an
// edit that is not carried out changes nothing else either
func c16hiddenEdits(c *core.Ctx) {
	y := `module he { namespace "urn:he"; prefix he; revision 2020-01-01;
  list l { when "v>10"; key k; leaf k { type string; } leaf v { type int32; } leaf o { type string; } container in { leaf q { type string; } } }
  leaf sw { type boolean; } choice ch { case a { leaf x { when "sw='true'"; type string; } } case b { leaf y { type string; } } }
  container c { when "z>10"; leaf z { type int32; } leaf q { type string; } }
  container yc { when "z>10"; leaf z { type int32; } leaf q { type string; } }
  grouping gr { leaf ga { type string; } container gc { leaf gx { type string; } } } container u { leaf usw { type boolean; } uses gr { when "usw='true'"; } } }`
	m, err := parser.LoadModuleFromString(nil, y)
	if err != nil {
		c.Violation(core.Replay{Kind: "harness", Summary: "c16hiddenEdits module: " + err.Error(), NoInputFound: true})
		return
	}
	before := `{"l":[{"k":"a","v":11,"o":"x"},{"k":"b","v":1,"o":"y","in":{"q":"Q"}}],"sw":false,"y":"Y","c":{"z":5,"q":"Q"}}`
	with := func(extra string) string { return before[:len(before)-1] + "," + extra + "}" }
	for _, tc := range []struct{ op, at, doc, want string }{
		// a container that does not exist yet and whose condition is false once it does: refused, and nothing of it stays
		{"upsert", "", `{"yc":{"z":1,"q":"hi"}}`, before},
		{"insert", "", `{"yc":{"z":1,"q":"hi"}}`, before},
		{"upsert", "", `{"u":{"ga":"1","gc":{"gx":"2"}}}`, with(`"u":{}`)},
		{"upsert", "", `{"u":{"usw":true,"ga":"1","gc":{"gx":"2"}}}`, with(`"u":{"usw":true,"ga":"1","gc":{"gx":"2"}}`)},
		{"upsert", "", `{"l":[{"k":"b","o":"changed"}]}`, before},
		{"upsert", "", `{"l":[{"k":"b","in":{"q":"changed"}}]}`, before},
		{"update", "", `{"l":[{"k":"b","o":"changed"}]}`, before},
		{"upsert", "", `{"l":[{"k":"a","o":"changed"}]}`, `{"l":[{"k":"a","v":11,"o":"changed"},{"k":"b","v":1,"o":"y","in":{"q":"Q"}}],"sw":false,"y":"Y","c":{"z":5,"q":"Q"}}`},
		{"upsert", "", `{"l":[{"k":"n","v":12,"o":"new"}]}`, `{"l":[{"k":"a","v":11,"o":"x"},{"k":"b","v":1,"o":"y","in":{"q":"Q"}},{"k":"n","v":12,"o":"new"}],"sw":false,"y":"Y","c":{"z":5,"q":"Q"}}`},
		{"upsert", "", `{"c":{"q":"changed"}}`, before},
		{"upsert", "", `{"x":"X"}`, before},
		{"update", "", `{"x":"X"}`, before},
	} {
		var after, status string
		e := safeDo(func() error {
			var data map[string]interface{}
			d := json.NewDecoder(strings.NewReader(before))
			d.UseNumber()
			if err := d.Decode(&data); err != nil {
				return err
			}
			store := c16plain(data).(map[string]interface{})
			b := node.NewBrowser(m, nodeutil.ReflectChild(store))
			src, err := nodeutil.ReadJSON(tc.doc)
			if err != nil {
				return err
			}
			sel := b.Root()
			switch tc.op {
			case "upsert":
				err = sel.UpsertFrom(src)
			case "insert":
				err = sel.InsertFrom(src)
			default:
				err = sel.UpdateFrom(src)
			}
			status = "ok"
			if err != nil {
				status = "error " + short(err.Error())
			}
			// the store itself, not a read: the conditions would hide what was written
			js, err := json.Marshal(c16stringKeys(store))
			after = string(js)
			return err
		})
		if e != nil {
			after = "error " + short(e.Error())
		}
		c.Evaluations++
		c.Count("hidden_edit", tc.op)
		c.Distinct("hiddenedit " + tc.op + tc.doc)
		if !c16sameJSON(after, tc.want) {
			c.Violation(core.Replay{Kind: "property-failure", Class: "hidden-edit", Summary: fmt.Sprintf("%s of %s (%s) leaves the store as %s, want %s", tc.op, tc.doc, status, short(after), tc.want),
				Input: map[string]interface{}{"yang": y, "before": before, "op": tc.op, "doc": tc.doc}, Impl: after, Spec: tc.want})
		}
	}
}

// the maps the reflection node makes for new containers have interface{} keys
func c16stringKeys(v interface{}) interface{} {
	rv := reflect.ValueOf(v)
	switch rv.Kind() {
	case reflect.Map:
		out := map[string]interface{}{}
		for _, k := range rv.MapKeys() {
			out[fmt.Sprint(k.Interface())] = c16stringKeys(rv.MapIndex(k).Interface())
		}
		return out
	case reflect.Slice:
		out := []interface{}{}
		for i := 0; i < rv.Len(); i++ {
			out = append(out, c16stringKeys(rv.Index(i).Interface()))
		}
		return out
	}
	return v
}

// JSON numbers as the Go values a store would hold
func c16plain(v interface{}) interface{} {
	switch x := v.(type) {
	case map[string]interface{}:
		for k, e := range x {
			x[k] = c16plain(e)
		}
		return x
	case []interface{}:
		var rows []map[string]interface{}
		for _, e := range x {
			rows = append(rows, c16plain(e).(map[string]interface{}))
		}
		return rows
	case json.Number:
		n, _ := x.Int64()
		return int(n)
	}
	return v
}

func c16sameJSON(a, b string) bool {
	var x, y interface{}
	if json.Unmarshal([]byte(a), &x) != nil || json.Unmarshal([]byte(b), &y) != nil {
		return false
	}
	return reflect.DeepEqual(x, y)
}

// a conditional leaf addressed directly (Find(leaf) then Get / SetValue) behaves as it does through its container
func c16leafProbes(c *core.Ctx) {
	m, err := parser.LoadModuleFromString(nil, `module lw { namespace "urn:lw"; prefix lw; revision 2020-01-01;
  leaf on { type boolean; } leaf w { when "on = 'true'"; type string; }
  container c { leaf p { type int32; } leaf q { when "p>5"; type string; } list l { key k; leaf k { type string; } leaf n { type int32; } leaf z { when "n<0"; type string; } } }
}`)
	if err != nil {
		c.Violation(core.Replay{Kind: "harness", Summary: "C16 leaf probe module: " + err.Error(), NoInputFound: true})
		return
	}
	for _, tc := range []struct {
		data map[string]interface{}
		path string
		vis  bool
	}{
		{map[string]interface{}{"on": true, "w": "x"}, "w", true},
		{map[string]interface{}{"on": false, "w": "x"}, "w", false},
		{map[string]interface{}{"w": "x"}, "w", false},
		{map[string]interface{}{"c": map[string]interface{}{"p": 9, "q": "v"}}, "c/q", true},
		{map[string]interface{}{"c": map[string]interface{}{"p": 5, "q": "v"}}, "c/q", false},
		{map[string]interface{}{"c": map[string]interface{}{"l": []interface{}{map[string]interface{}{"k": "a", "n": -1, "z": "v"}}}}, "c/l=a/z", true},
		{map[string]interface{}{"c": map[string]interface{}{"l": []interface{}{map[string]interface{}{"k": "a", "n": 1, "z": "v"}}}}, "c/l=a/z", false},
	} {
		c.Evaluations++
		c.Count("probe", "leaf "+tc.path)
		var got, setRes string
		perr := safeDo(func() error {
			b := node.NewBrowser(m, nodeutil.ReflectChild(tc.data))
			s, err := b.Root().Find(tc.path)
			if err != nil || s == nil {
				got = fmt.Sprintf("no selection (%v)", err)
				return nil
			}
			v, err := s.Get()
			switch {
			case err != nil:
				got = "error " + err.Error()
			case v == nil:
				got = "hidden"
			default:
				got = "value " + v.String()
			}
			if err := s.SetValue("new"); err != nil {
				setRes = "error " + err.Error()
			} else {
				js, _ := nodeutil.WriteJSON(b.Root())
				setRes = map[bool]string{true: "written", false: "not written"}[strings.Contains(js, `"new"`)]
			}
			return nil
		})
		want, wantSet := "hidden", "not written"
		if tc.vis {
			want, wantSet = "value "+map[string]string{"w": "x"}[tc.path], "written"
			if tc.path != "w" {
				want = "value v"
			}
		}
		if perr != nil || got != want || (setRes != wantSet && !strings.HasPrefix(setRes, "error")) {
			c.Violation(core.Replay{Kind: "property-failure", Class: "probe-leaf-when", Summary: fmt.Sprintf("Find(%q) on %v: Get gives %s, SetValue %s (%v); the condition is %v, so: %s, %s", tc.path, tc.data, got, setRes, perr, tc.vis, want, wantSet),
				Input: map[string]interface{}{"data": fmt.Sprint(tc.data), "path": tc.path}})
		}
	}
}

func C16(c *core.Ctx) {
	c.Rule = "generated modules placing 'when' on leaves (sibling, nested-path and through-a-list operands), containers and lists (own operands, per entry), on uses (leaf, container with and without a condition of its own, list) and on augments; operands of every integer type incl. 64-bit extremes, decimal64, string, boolean, enumeration; all six operators and plain existence paths; literals that are values of the operand's type and (30 %) literals that are not: beyond the range, beyond 64 bits, with a fraction against an integer, whole against a decimal64, names the enumeration does not have; data with the operand unset, at and one step around the literal, at the type's extremes; (i) read (WriteJSON) from the JSON reader and from reflection over typed maps compared with the Lean model, (ii) ?where= on lists and ?filter= on a notification stream compared with the model's filter, (iii) upsert of a conditional leaf / of a leaf inside a conditional container into a reflection store: written iff the model says the conditions hold, nothing else changed; directed: keyed Find of entries hidden by their list's condition; edits of what a false condition hides (a list entry, a container, a leaf in a case) leave the store as it was (c16hiddenEdits); comparisons with a union operand; conditions reaching a node through nested uses, through a choice or a case (stated there, or on the uses / augment that brings them in). non-trivial = read where ≥1 condition is false and ≥1 true; distinct by (module, tree, source)"
	c.Assumptions = append(c.Assumptions,
		"operands of a condition and the nodes on the way to them carry no condition themselves (the model does not chain conditions of operands)",
		"a leaf's own condition is evaluated in the container that holds the leaf, a container's / list entry's own condition in itself (the library's convention, pinned by its tests), a condition from uses/augment in the parent (RFC 7950 §7.21.5)",
		"comparisons on a container or list (instead of a leaf), and edits that create a conditional container, are outside the generated cases")
	c.ProofStep("YangVerif.Props.C16")
	if c.Thorough() {
		c.LeanChecker("YangVerif.Props.C16")
	}
	c16probes(c)
	c16leafProbes(c)
	c16hiddenEdits(c)
	c16unionProbes(c)
	c16inheritProbes(c)
	rng := core.NewRng(c.Seed)
	var lines []string
	type pend struct {
		kind, desc, impl string
		input            map[string]interface{}
		kids             []*xnode
		after            func(model string)
	}
	var pends []pend
	nMods := c.N(40, 1000)
	for mi := 0; mi < nMods; mi++ {
		r := rng.Fork()
		g := &c16gen{r: r}
		kids, _ := g.body(0, false)
		// one augment with a condition on a container of the module
		var augTarget *xnode
		for _, n := range kids {
			if n.kind == "cont" && n.origin == "" && len(n.kids) > 0 {
				augTarget = n
			}
		}
		augText := ""
		if augTarget != nil && r.Chance(70) {
			var tops []operand
			for _, k := range augTarget.kids {
				if k.kind == "leaf" && len(k.conds) == 0 && strings.HasPrefix(k.name, "o") {
					tops = append(tops, operand{path: []string{k.name}, typ: k.typ})
				}
			}
			if len(tops) > 0 {
				ac := g.cond(tops, true)
				a1 := &xnode{name: g.name("a"), kind: "leaf", typ: c16types[7], origin: "augment:1", conds: []xcond{ac}}
				sub, _ := g.body(2, false)
				a2 := &xnode{name: g.name("ac"), kind: "cont", kids: sub, origin: "augment:1", conds: []xcond{ac}}
				augText = fmt.Sprintf("augment \"/%s\" { when \"%s\";\n%s}\n", augTarget.name, ac.xpath(),
					c16yang([]*xnode{{name: a1.name, kind: "leaf", typ: a1.typ}, {name: a2.name, kind: "cont", kids: a2.kids}}, "  ", false))
				augTarget.kids = append(augTarget.kids, a1, a2)
			}
		}
		// notification with typed leaves
		evKids := []*xnode{{name: "sev", kind: "leaf", typ: c16types[1]}, {name: "cls", kind: "leaf", typ: c16types[7]}, {name: "big", kind: "leaf", typ: c16types[5]},
			{name: "info", kind: "cont", kids: []*xnode{{name: "ratio", kind: "leaf", typ: c16types[6]}}}}
		y := "module m { namespace \"urn:m\"; prefix m; revision 2020-01-01;\n" + strings.Join(g.groups, "") + c16yang(kids, "  ", false) + augText +
			"  notification ev {\n" + c16yang(evKids, "    ", false) + "  }\n}\n"
		m, err := parser.LoadModuleFromString(nil, y)
		// the same module without any condition: groupings are re-rendered from the nodes they brought in
		c16noWhen = true
		yNo := "module m { namespace \"urn:m\"; prefix m; revision 2020-01-01;\n" + c16yangFlat(kids, "  ") + "  notification ev {\n" + c16yang(evKids, "    ", false) + "  }\n}\n"
		c16noWhen = false
		mNo, errNo := parser.LoadModuleFromString(nil, yNo)
		if err == nil && errNo != nil {
			err = fmt.Errorf("condition-free variant: %w", errNo)
		}
		if err != nil {
			c.Violation(core.Replay{Kind: "harness", Summary: "C16 module does not load: " + err.Error(), Input: y, NoInputFound: true})
			return
		}
		hints := map[string][]string{}
		c16hints(kids, hints)
		schemaToks := strings.Join(c16schemaToks(kids), " ")
		for di := 0; di < c.N(6, 12); di++ {
			tree := g.data(kids, hints)
			js := c16dataJSON(kids, tree)
			dataToks := strings.Join(c16dataToks(kids, tree), " ")
			// (i) reads
			for _, srcKind := range []string{"json", "reflect-map"} {
				var src node.Node
				if srcKind == "json" {
					src, _ = nodeutil.ReadJSON(js)
				} else {
					src = nodeutil.ReflectChild(c16dataMap(kids, tree))
				}
				var out string
				rerr := safeDo(func() error {
					var e error
					out, e = nodeutil.WriteJSON(node.NewBrowser(m, src).Root())
					return e
				})
				c.Evaluations++
				c.Count("read_source", srcKind)
				got := ""
				if rerr != nil {
					got = "error " + short(rerr.Error())
				} else if v, derr := c16decode(out); derr != nil {
					got = "bad-json " + short(out)
				} else {
					got = "ok " + c16canonJSON(kids, v)
				}
				lines = append(lines, "c16 read "+schemaToks+" "+dataToks)
				pends = append(pends, pend{kind: "read", desc: "read from " + srcKind, impl: got, kids: kids,
					input: map[string]interface{}{"yang": y, "data": js, "source": srcKind, "output": out}})
				// conditions that hold must be transparent to every other request parameter: the constrained
				// read of this module equals the same read of the condition-free module on what is visible
				if srcKind == "json" && rerr == nil {
					for qi := 0; qi < 2; qi++ {
						q := c16query(r, kids)
						read := func(mod *meta.Module, data string) string {
							var o string
							e := safeDo(func() error {
								src, _ := nodeutil.ReadJSON(data)
								sel, err := node.NewBrowser(mod, src).Root().Find("?" + q)
								if err != nil {
									return err
								}
								o, err = nodeutil.WriteJSON(sel)
								return err
							})
							if e != nil {
								return "error " + short(e.Error())
							}
							v, derr := c16decode(o)
							if derr != nil {
								return "bad-json"
							}
							return "ok " + c16canonJSON(kids, v)
						}
						withW, withoutW := read(m, js), read(mNo, out)
						c.Evaluations++
						c.Count("combined_with", strings.SplitN(q, "=", 2)[0])
						if withW != withoutW {
							c.Violation(core.Replay{Kind: "property-failure", Class: "when-not-transparent-" + strings.SplitN(q, "=", 2)[0],
								Summary: fmt.Sprintf("Find(?%s): with the conditions %s; the same module without any condition, on the visible data, gives %s", q, short(withW), short(withoutW)),
								Input:   map[string]interface{}{"yang": y, "yang_without_when": yNo, "data": js, "visible": out, "find": "?" + q}, Impl: withW, Spec: withoutW})
						}
					}
				}
			}
			c16edits(c, r, m, y, kids, tree, js, schemaToks, dataToks, func(line string, desc string, input map[string]interface{}, after func(string)) {
				lines = append(lines, line)
				pends = append(pends, pend{kind: "edit", desc: desc, input: input, after: after})
			})
			// (ii) where on lists reachable through containers
			for i, n := range kids {
				if n.kind != "list" || len(tree[i].rows) == 0 {
					continue
				}
				var ops []operand
				for _, k := range n.kids[1:] {
					if k.kind == "leaf" && len(k.conds) == 0 {
						ops = append(ops, operand{path: []string{k.name}, typ: k.typ})
					}
				}
				if len(ops) == 0 {
					continue
				}
				wc := g.cond(ops, false)
				path := n.name + "?where=" + url.QueryEscape(wc.xpath())
				var out string
				rerr := safeDo(func() error {
					src, _ := nodeutil.ReadJSON(js)
					sel, err := node.NewBrowser(m, src).Root().Find(path)
					if err != nil {
						return err
					}
					out, err = nodeutil.WriteJSON(sel)
					return err
				})
				c.Evaluations++
				c.Count("where", wc.op+"/"+wc.litType.name)
				got := ""
				if rerr != nil {
					got = "error " + short(rerr.Error())
				} else if v, derr := c16decode(out); derr != nil {
					got = "bad-json"
				} else {
					got = "ok " + c16canonJSON([]*xnode{n}, v)
				}
				if rerr == nil {
					// the where combined with fields: the fields of exactly the kept entries
					fq := "fields=" + n.kids[0].name
					var o1, o2 string
					e1 := safeDo(func() error {
						src, _ := nodeutil.ReadJSON(js)
						sel, err := node.NewBrowser(m, src).Root().Find(path + "&" + fq)
						if err != nil {
							return err
						}
						o1, err = nodeutil.WriteJSON(sel)
						return err
					})
					e2 := safeDo(func() error {
						src, _ := nodeutil.ReadJSON(out)
						sel, err := node.NewBrowser(mNo, src).Root().Find(n.name + "?" + fq)
						if err != nil {
							return err
						}
						o2, err = nodeutil.WriteJSON(sel)
						return err
					})
					c.Evaluations++
					c.Count("combined_with", "where+fields")
					if fmt.Sprint(e1) != fmt.Sprint(e2) || o1 != o2 {
						c.Violation(core.Replay{Kind: "property-failure", Class: "where-with-fields",
							Summary: fmt.Sprintf("Find(%s&%s) returns %s %v; the key fields of the entries the where keeps are %s %v", path, fq, short(o1), e1, short(o2), e2),
							Input:   map[string]interface{}{"yang": y, "data": js, "find": path + "&" + fq}, Impl: o1, Spec: o2})
					}
				}
				nn := n
				lines = append(lines, "c16 wread "+core.Hex(n.name)+" "+strings.Join(wc.toks(), " ")+" "+schemaToks+" "+dataToks)
				pends = append(pends, pend{kind: "where", desc: "Find(" + path + ")", impl: got, kids: []*xnode{nn},
					input: map[string]interface{}{"yang": y, "data": js, "find": path, "output": out}})
			}
		}
		// (ii) notification filter
		for fi := 0; fi < 3; fi++ {
			ops := []operand{{path: []string{"sev"}, typ: evKids[0].typ}, {path: []string{"cls"}, typ: evKids[1].typ}, {path: []string{"big"}, typ: evKids[2].typ},
				{path: []string{"info", "ratio"}, typ: c16types[6]}, {path: []string{"info"}, exists: true}}
			fc := g.cond(ops, false)
			h := map[string][]string{}
			if fc.op != "" && c16isValue(fc.litType, fc.lit) {
				h[fc.path[len(fc.path)-1]] = []string{fc.lit}
			}
			var events [][]*xdata
			for i := 0; i < 5; i++ {
				events = append(events, g.data(evKids, h))
			}
			var delivered []string
			rerr := safeDo(func() error {
				var send func(ev []*xdata)
				root := &nodeutil.Basic{OnNotify: func(r node.NotifyRequest) (node.NotifyCloser, error) {
					send = func(ev []*xdata) { r.Send(nodeutil.ReflectChild(c16dataMap(evKids, ev))) }
					return func() error { return nil }, nil
				}}
				sel, err := node.NewBrowser(m, root).Root().Find("ev?filter=" + url.QueryEscape(fc.xpath()))
				if err != nil {
					return err
				}
				var serr error
				_, err = sel.Notifications(func(n node.Notification) {
					s, e := nodeutil.WriteJSON(n.Event)
					if e != nil {
						serr = e
					}
					delivered = append(delivered, s)
				})
				if err != nil {
					return err
				}
				for _, ev := range events {
					send(ev)
				}
				return serr
			})
			c.Evaluations++
			c.Count("filter", fc.op+"/"+fc.litType.name)
			got := ""
			if rerr != nil {
				got = "error " + short(rerr.Error())
			} else {
				got = "ok ev["
				for _, d := range delivered {
					v, _ := c16decode(d)
					got += c16canonJSON(evKids, v)
				}
				got += "] "
			}
			rowsToks := []string{}
			for _, ev := range events {
				rowsToks = append(rowsToks, c16dataToks(evKids, ev)...)
			}
			lines = append(lines, "c16 where "+strings.Join(fc.toks(), " ")+" "+strings.Join(c16schemaToks(evKids), " ")+" "+fmt.Sprint(len(events))+" "+strings.Join(rowsToks, " "))
			pends = append(pends, pend{kind: "filter", desc: "ev?filter=" + fc.xpath(), impl: got, kids: evKids,
				input: map[string]interface{}{"yang": y, "filter": fc.xpath(), "events": len(events), "delivered": delivered}})
		}
	}
	outs, err := core.RunDriver(lines)
	if err != nil {
		c.ProofBroken = append(c.ProofBroken, err.Error())
		return
	}
	for i, o := range outs {
		p := pends[i]
		switch p.kind {
		case "read":
			tr := &c16tr{toks: strings.Fields(o)}
			want := "ok " + tr.canon(p.kids)
			if tr.bad || len(tr.toks) != 0 {
				c.Count("driver", "read:"+short(o))
				continue
			}
			full := p.input["data"].(string)
			fv, _ := c16decode(full)
			fullCanon := "ok " + c16canonJSON(p.kids, fv)
			effect := "some-hidden"
			if want == fullCanon {
				effect = "nothing-hidden"
			}
			c.Count("read_effect", effect)
			if i%173 == 0 {
				c.Sample(map[string]interface{}{"case": p.desc, "library": short(p.impl), "model": short(want)})
			}
			if p.impl != want {
				c.Violation(core.Replay{Kind: "property-failure", Class: strings.ReplaceAll(p.desc, " ", "-"),
					Summary: fmt.Sprintf("%s: library returns %s; with every false condition hiding its node the read is %s", p.desc, short(p.impl), short(want)), Input: p.input, Impl: p.impl, Model: want})
			} else if effect == "some-hidden" {
				c.Distinct(fmt.Sprint(i))
			}
		case "where", "filter":
			f := strings.Fields(o)
			want := "bad"
			if len(f) > 0 {
				n, _ := strconv.Atoi(f[0])
				tr := &c16tr{toks: f[1:]}
				name := p.kids[0].name
				kk := p.kids[0].kids
				if p.kind == "filter" {
					name, kk = "ev", p.kids
				}
				want = "ok "
				if p.kind == "where" {
					want += "{"
				}
				if n > 0 || p.kind == "filter" {
					want += name + "["
					for j := 0; j < n; j++ {
						want += tr.canon(kk)
					}
					want += "] "
				}
				if p.kind == "where" {
					want += "}"
				}
				if tr.bad || len(tr.toks) != 0 {
					c.Count("driver", p.kind+":"+short(o))
					continue
				}
			}
			if i%97 == 0 {
				c.Sample(map[string]interface{}{"case": p.desc, "library": short(p.impl), "model": short(want)})
			}
			if p.impl != want {
				c.Violation(core.Replay{Kind: "property-failure", Class: p.kind,
					Summary: fmt.Sprintf("%s: library keeps %s; the expression holds for exactly %s", p.desc, short(p.impl), short(want)), Input: p.input, Impl: p.impl, Model: want})
			}
		case "edit":
			p.after(strings.TrimSpace(o))
		}
	}
}

// c16edits writes each conditional leaf of the module body, and each leaf of each present conditional
// container of it, into a reflection store holding the tree; it must be written iff the conditions hold
// for the store's data (the model evaluates them), and nothing else may change.
func c16edits(c *core.Ctx, r *core.Rng, m *meta.Module, y string, kids []*xnode, tree []*xdata, js, schemaToks, dataToks string,
	add func(line string, desc string, input map[string]interface{}, after func(string))) {
	type target struct {
		path  []string // containers down to the leaf's parent
		leaf  *xnode
		conds []string // model lines whose conjunction decides
	}
	var targets []target
	evalLine := func(cd xcond, bodyKids []*xnode, body []*xdata) string {
		return "c16 eval " + strings.Join(cd.toks(), " ") + " " + strings.Join(c16schemaToks(bodyKids), " ") + " " + strings.Join(c16dataToks(bodyKids, body), " ")
	}
	for i, n := range kids {
		switch n.kind {
		case "leaf":
			if len(n.conds) > 0 {
				t := target{leaf: n}
				for _, cd := range n.conds {
					t.conds = append(t.conds, evalLine(cd, kids, tree))
				}
				targets = append(targets, t)
			}
		case "cont":
			if !tree[i].present || len(n.conds) == 0 {
				continue
			}
			// a plain (operand) leaf inside a conditional container that exists
			for _, k := range n.kids {
				if k.kind == "leaf" && len(k.conds) == 0 {
					t := target{path: []string{n.name}, leaf: k}
					for _, cd := range n.conds {
						if cd.parentCtx {
							t.conds = append(t.conds, evalLine(cd, kids, tree))
						} else {
							t.conds = append(t.conds, evalLine(cd, n.kids, tree[i].kids))
						}
					}
					targets = append(targets, t)
					break
				}
			}
		}
	}
	if len(targets) > 3 {
		targets = targets[:3]
	}
	for _, t := range targets {
		t := t
		newVal := c16near(r, t.leaf.typ, core.Pick(r, t.leaf.typ.lits))
		if t.leaf.typ.kind == "str" {
			newVal = "written"
		}
		store := c16dataMap(kids, tree)
		edit := fmt.Sprintf("{%q:%s}", t.leaf.name, c16json(t.leaf.typ, newVal))
		for i := len(t.path) - 1; i >= 0; i-- {
			edit = fmt.Sprintf("{%q:%s}", t.path[i], edit)
		}
		var uerr error
		uerr = safeDo(func() error {
			n, err := nodeutil.ReadJSON(edit)
			if err != nil {
				return err
			}
			return node.NewBrowser(m, nodeutil.ReflectChild(store)).Root().UpsertFrom(n)
		})
		c.Evaluations++
		c.Count("edit", map[bool]string{true: "leaf", false: "leaf-in-container"}[len(t.path) == 0])
		// what the store holds now, read without any condition interfering: straight from the map
		holder := store
		for _, p := range t.path {
			holder, _ = holder[p].(map[string]interface{})
		}
		var gotVal interface{}
		if holder != nil {
			gotVal = holder[t.leaf.name]
		}
		before := c16dataMap(kids, tree)
		hb := before
		for _, p := range t.path {
			hb, _ = hb[p].(map[string]interface{})
		}
		var oldVal interface{}
		if hb != nil {
			oldVal = hb[t.leaf.name]
		}
		// everything but that leaf must be as before
		if holder != nil {
			delete(holder, t.leaf.name)
		}
		if hb != nil {
			delete(hb, t.leaf.name)
		}
		restSame := fmt.Sprint(store) == fmt.Sprint(before)
		restDiff := ""
		if !restSame {
			restDiff = fmt.Sprintf(" before=%v after=%v", before, store)
		}
		results := make([]string, 0, len(t.conds))
		desc := fmt.Sprintf("upsert %s", edit)
		input := map[string]interface{}{"yang": y, "data": js, "edit": edit}
		for ci, line := range t.conds {
			last := ci == len(t.conds)-1
			add(line, desc, input, func(model string) {
				results = append(results, model)
				if !last {
					return
				}
				holds := true
				for _, r := range results {
					if r != "true" {
						holds = false
					}
				}
				written := fmt.Sprint(gotVal) == fmt.Sprint(c16goVal(t.leaf.typ, newVal)) && gotVal != nil
				unchanged := fmt.Sprint(gotVal) == fmt.Sprint(oldVal)
				c.Count("edit_expect", map[bool]string{true: "written", false: "not-written"}[holds])
				switch {
				case !restSame:
					c.Violation(core.Replay{Kind: "property-failure", Class: "edit-collateral", Summary: desc + ": other data changed" + short(restDiff), Input: input, Impl: restDiff})
				case holds && (!written || uerr != nil):
					c.Violation(core.Replay{Kind: "property-failure", Class: "edit-true-not-written",
						Summary: fmt.Sprintf("%s: every condition holds for the current data but the leaf holds %v (error %v)", desc, gotVal, uerr), Input: input})
				case !holds && !unchanged:
					c.Violation(core.Replay{Kind: "property-failure", Class: "edit-false-written",
						Summary: fmt.Sprintf("%s: a condition is false for the current data but the leaf was written (%v → %v)", desc, oldVal, gotVal), Input: input})
				}
			})
		}
	}
}
