// vfx is the translator of property C20: it builds the SSA form of /repo's current source together with the
// scenario package verif/harness/scn, computes with RTA everything the load tasks and the use tasks can reach,
// and extracts for every reachable function of the library which shared state it writes:
//
//	global  - a store, map update, delete, append, copy or sort whose target is rooted at a package-level variable
//	meta    - the same rooted at a field of a struct type of package meta (the compiled schema), directly, through
//	          a slice/map loaded from such a field, through the result of a function that returns one, or through
//	          a parameter of a callee that writes through it (summaries to a fixed point)
//
// Output: lean/YangVerif/Gen/EffectTable.lean (the two call graphs restricted to library and scenario functions,
// numbered so that the reachable functions come first, with their write flags) and a JSON report of the effects.
// What it cannot see is listed in DESIGN.md (aliasing through non-meta heap objects, reflection, unsafe, cgo,
// writes inside the standard library other than the listed mutators).
package main

import (
	"encoding/json"
	"flag"
	"fmt"
	"go/token"
	"go/types"
	"os"
	"sort"
	"strings"

	"golang.org/x/tools/go/callgraph"
	"golang.org/x/tools/go/callgraph/rta"
	"golang.org/x/tools/go/packages"
	"golang.org/x/tools/go/ssa"
	"golang.org/x/tools/go/ssa/ssautil"
)

const repoPath = "github.com/freeconf/yang"
const metaPath = repoPath + "/meta"
const scnPath = "verif/harness/scn"

type rootKind int

const (
	rFresh rootKind = iota
	rUnknown
	rParam
	rGlobal
	rMeta
)

type root struct {
	kind rootKind
	idx  int    // parameter index
	name string // global or meta field
}

func (r root) String() string {
	switch r.kind {
	case rParam:
		return fmt.Sprintf("param%d", r.idx)
	case rGlobal:
		return "global " + r.name
	case rMeta:
		return "meta " + r.name
	case rFresh:
		return "fresh"
	}
	return "unknown"
}

type analysis struct {
	prog    *ssa.Program
	cg      *callgraph.Graph
	writes  map[*ssa.Function]map[int]bool  // parameters written through
	returns map[*ssa.Function]map[int]map[root]bool // roots of reference-typed results, per result index
	changed bool
}

func inRepo(f *ssa.Function) bool {
	return f != nil && f.Pkg != nil && (f.Pkg.Pkg.Path() == repoPath || strings.HasPrefix(f.Pkg.Pkg.Path(), repoPath+"/"))
}

func pkgOf(f *ssa.Function) string {
	for f != nil && f.Pkg == nil && f.Parent() != nil {
		f = f.Parent()
	}
	if f == nil || f.Pkg == nil {
		if f != nil && f.Origin() != nil && f.Origin().Pkg != nil {
			return f.Origin().Pkg.Pkg.Path()
		}
		return ""
	}
	return f.Pkg.Pkg.Path()
}

func isRepoFn(f *ssa.Function) bool {
	p := pkgOf(f)
	return p == repoPath || strings.HasPrefix(p, repoPath+"/")
}

func isScnFn(f *ssa.Function) bool { return pkgOf(f) == scnPath }

func metaStruct(t types.Type) (string, bool) {
	if p, ok := t.Underlying().(*types.Pointer); ok {
		t = p.Elem()
	}
	n, ok := t.(*types.Named)
	if !ok {
		return "", false
	}
	if _, isStruct := n.Underlying().(*types.Struct); !isStruct {
		return "", false
	}
	if n.Obj().Pkg() != nil && n.Obj().Pkg().Path() == metaPath {
		return n.Obj().Name(), true
	}
	return "", false
}

func isRefType(t types.Type) bool {
	switch t.Underlying().(type) {
	case *types.Slice, *types.Map, *types.Pointer, *types.Interface:
		return true
	}
	return false
}

// roots of a value inside function f
func (a *analysis) roots(v ssa.Value, seen map[ssa.Value]bool) []root {
	rs := a.roots0(v, seen)
	// a schema-typed value that was read out of a holder that is not itself part of the schema (a request, an
	// iterator, a selection, a local variable, a call result) is not fresh just because its holder is, and the
	// caller cannot see it behind a parameter either: such holders carry pointers into the shared schema
	if metaTyped(v.Type()) && readFromForeignHolder(v) {
		for i, r := range rs {
			if r.kind == rFresh || r.kind == rParam || r.kind == rUnknown {
				rs[i] = root{kind: rMeta, name: "(a " + v.Type().String() + " read out of a non-schema holder)"}
			}
		}
	}
	if metaTyped(v.Type()) {
		for i, r := range rs {
			if r.kind == rUnknown {
				rs[i] = root{kind: rMeta, name: "(a " + v.Type().String() + " of unknown origin)"}
			}
		}
	}
	return rs
}

func holderIsSchema(h ssa.Value) bool {
	if _, ok := metaStruct(h.Type()); ok {
		return true
	}
	return metaTyped(h.Type())
}

func readFromForeignHolder(v ssa.Value) bool {
	switch x := v.(type) {
	case *ssa.UnOp:
		if x.Op != token.MUL {
			return false
		}
		switch addr := x.X.(type) {
		case *ssa.FieldAddr:
			return !holderIsSchema(addr.X)
		case *ssa.IndexAddr:
			return !holderIsSchema(addr.X)
		case *ssa.Global:
			return false
		case *ssa.Parameter:
			return false
		case *ssa.Alloc:
			return false // decided by what is stored into the slot
		}
		return true // a free variable, ...
	case *ssa.Field:
		return !holderIsSchema(x.X)
	case *ssa.Index:
		return !holderIsSchema(x.X)
	case *ssa.Lookup:
		return !holderIsSchema(x.X)
	case *ssa.Next:
		if r, ok := x.Iter.(*ssa.Range); ok {
			return !holderIsSchema(r.X)
		}
		return true
	case *ssa.Extract:
		if _, isCall := x.Tuple.(*ssa.Call); isCall {
			return false // decided by the callee's summary
		}
		return readFromForeignHolderTuple(x.Tuple)
	}
	return false
}

func readFromForeignHolderTuple(t ssa.Value) bool {
	switch x := t.(type) {
	case *ssa.Lookup:
		return !holderIsSchema(x.X)
	case *ssa.Next:
		if r, ok := x.Iter.(*ssa.Range); ok {
			return !holderIsSchema(r.X)
		}
		return true
	case *ssa.TypeAssert:
		return false
	case *ssa.UnOp:
		return true
	}
	return false
}

func (a *analysis) storedInto(al *ssa.Alloc, seen map[ssa.Value]bool) []root {
	var out []root
	var scan func(f *ssa.Function, addr ssa.Value)
	scan = func(f *ssa.Function, addr ssa.Value) {
		for _, b := range f.Blocks {
			for _, in := range b.Instrs {
				switch x := in.(type) {
				case *ssa.Store:
					if x.Addr == addr {
						out = append(out, a.roots(x.Val, seen)...)
					}
				case *ssa.MakeClosure:
					// the closure sees the variable as a free variable
					fn := x.Fn.(*ssa.Function)
					for i, bnd := range x.Bindings {
						if bnd == addr && i < len(fn.FreeVars) {
							scan(fn, fn.FreeVars[i])
						}
					}
				}
			}
		}
	}
	scan(al.Parent(), al)
	if len(out) == 0 {
		return []root{{kind: rFresh}}
	}
	return out
}

func (a *analysis) roots0(v ssa.Value, seen map[ssa.Value]bool) []root {
	if seen[v] {
		return nil
	}
	seen[v] = true
	switch x := v.(type) {
	case *ssa.Global:
		return []root{{kind: rGlobal, name: x.Pkg.Pkg.Path() + "." + x.Name()}}
	case *ssa.Parameter:
		for i, p := range x.Parent().Params {
			if p == x {
				return []root{{kind: rParam, idx: i}}
			}
		}
		return []root{{kind: rUnknown}}
	case *ssa.FreeVar:
		return []root{{kind: rUnknown}}
	case *ssa.Alloc, *ssa.MakeSlice, *ssa.MakeMap, *ssa.MakeChan, *ssa.MakeClosure, *ssa.Const, *ssa.BinOp, *ssa.Function, *ssa.Builtin:
		return []root{{kind: rFresh}}
	case *ssa.FieldAddr:
		base := a.roots(x.X, seen)
		if n, ok := metaStruct(x.X.Type()); ok {
			// a field of a schema object: shared unless the object was allocated here (fresh) or came in as a
			// parameter (then the caller decides)
			st := x.X.Type().Underlying().(*types.Pointer).Elem().Underlying().(*types.Struct)
			var out []root
			for _, r := range base {
				switch r.kind {
				case rFresh, rParam, rGlobal, rMeta:
					out = append(out, r)
				default:
					out = append(out, root{kind: rMeta, name: n + "." + st.Field(x.Field).Name()})
				}
			}
			return out
		}
		return base
	case *ssa.Field:
		return a.roots(x.X, seen)
	case *ssa.IndexAddr:
		return a.roots(x.X, seen)
	case *ssa.Index:
		return a.roots(x.X, seen)
	case *ssa.Lookup:
		return a.roots(x.X, seen)
	case *ssa.Slice:
		return a.roots(x.X, seen)
	case *ssa.ChangeType:
		return a.roots(x.X, seen)
	case *ssa.Convert:
		return a.roots(x.X, seen)
	case *ssa.MakeInterface:
		return a.roots(x.X, seen)
	case *ssa.ChangeInterface:
		return a.roots(x.X, seen)
	case *ssa.TypeAssert:
		return a.roots(x.X, seen)
	case *ssa.SliceToArrayPointer:
		return a.roots(x.X, seen)
	case *ssa.UnOp:
		if x.Op == token.MUL {
			if al, ok := x.X.(*ssa.Alloc); ok {
				// a local variable that lives in memory (captured by a closure, address taken): what a load
				// yields is what was stored into it (flow-insensitive)
				return a.storedInto(al, seen)
			}
			return a.roots(x.X, seen)
		}
		return []root{{kind: rFresh}}
	case *ssa.Extract:
		if c, ok := x.Tuple.(*ssa.Call); ok {
			return a.callResultRoots(c, x.Index, seen)
		}
		return a.roots(x.Tuple, seen)
	case *ssa.Next:
		return a.roots(x.Iter, seen)
	case *ssa.Range:
		return a.roots(x.X, seen)
	case *ssa.Phi:
		var out []root
		for _, e := range x.Edges {
			out = append(out, a.roots(e, seen)...)
		}
		return out
	case *ssa.Call:
		return a.callResultRoots(x, 0, seen)
	}
	return []root{{kind: rUnknown}}
}

// a value of a schema type whose origin is not known is taken to be part of the shared schema
func metaTyped(t types.Type) bool {
	switch u := t.(type) {
	case *types.Pointer:
		return metaTyped(u.Elem())
	case *types.Slice:
		return metaTyped(u.Elem())
	case *types.Map:
		return metaTyped(u.Elem())
	case *types.Named:
		return u.Obj().Pkg() != nil && u.Obj().Pkg().Path() == metaPath
	}
	return false
}

func (a *analysis) typedRoots(v ssa.Value) []root {
	rs := a.roots(v, map[ssa.Value]bool{})
	for i, r := range rs {
		if r.kind == rUnknown && metaTyped(v.Type()) {
			rs[i] = root{kind: rMeta, name: "(a " + v.Type().String() + " of unknown origin)"}
		}
	}
	return rs
}

func (a *analysis) callees(site ssa.CallInstruction) []*ssa.Function {
	if f := site.Common().StaticCallee(); f != nil {
		return []*ssa.Function{f}
	}
	var out []*ssa.Function
	if n := a.cg.Nodes[site.Parent()]; n != nil {
		for _, e := range n.Out {
			if e.Site == site {
				out = append(out, e.Callee.Func)
			}
		}
	}
	return out
}

func callArgs(c *ssa.CallCommon) []ssa.Value {
	if c.IsInvoke() {
		return append([]ssa.Value{c.Value}, c.Args...)
	}
	return c.Args
}

func (a *analysis) callResultRoots(x *ssa.Call, idx int, seen map[ssa.Value]bool) []root {
	c := x.Common()
	if b, ok := c.Value.(*ssa.Builtin); ok {
		if b.Name() == "append" && len(c.Args) > 0 {
			// the result may share the first argument's backing array
			return a.roots(c.Args[0], seen)
		}
		return []root{{kind: rFresh}}
	}
	var out []root
	args := callArgs(c)
	cs := a.callees(x)
	if len(cs) == 0 {
		return []root{{kind: rUnknown}}
	}
	for _, g := range cs {
		if !(isRepoFn(g) || isScnFn(g)) || len(g.Blocks) == 0 {
			out = append(out, root{kind: rUnknown})
			continue
		}
		for r := range a.returns[g][idx] {
			if r.kind == rParam {
				if r.idx < len(args) {
					out = append(out, a.roots(args[r.idx], seen)...)
				}
			} else {
				out = append(out, r)
			}
		}
	}
	return out
}

// standard-library functions that write through an argument
var stdMutators = map[string][]int{
	"sort.Strings": {0}, "sort.Ints": {0}, "sort.Float64s": {0}, "sort.Slice": {0}, "sort.SliceStable": {0}, "sort.Sort": {0}, "sort.Stable": {0},
	"slices.Sort": {0}, "slices.SortFunc": {0}, "slices.SortStableFunc": {0}, "slices.Reverse": {0},
	"(*sync.Map).Store": {}, // synchronised
}

type effect struct {
	Fn    string `json:"fn"`
	Pos   string `json:"pos"`
	Kind  string `json:"kind"` // global | meta
	What  string `json:"what"`
	Instr string `json:"instr"`
}

// visit the writes of f: cb(target value, description)
func (a *analysis) writesOf(f *ssa.Function, cb func(target ssa.Value, instr ssa.Instruction, what string)) {
	for _, b := range f.Blocks {
		for _, in := range b.Instrs {
			switch x := in.(type) {
			case *ssa.Store:
				cb(x.Addr, in, "store")
			case *ssa.MapUpdate:
				cb(x.Map, in, "map update")
			case ssa.CallInstruction:
				c := x.Common()
				if bi, ok := c.Value.(*ssa.Builtin); ok {
					switch bi.Name() {
					case "append":
						if len(c.Args) > 0 {
							cb(c.Args[0], in, "append")
						}
					case "copy", "delete", "clear":
						if len(c.Args) > 0 {
							cb(c.Args[0], in, bi.Name())
						}
					}
					continue
				}
				args := callArgs(c)
				for _, g := range a.callees(x) {
					if idxs, ok := stdMutators[g.String()]; ok {
						for _, i := range idxs {
							if i < len(args) {
								cb(args[i], in, "call "+g.String())
							}
						}
						continue
					}
					for i := range a.writes[g] {
						if i < len(args) {
							cb(args[i], in, fmt.Sprintf("call %s (writes through argument %d)", g.String(), i))
						}
					}
				}
			}
		}
	}
}

func (a *analysis) summarise(f *ssa.Function) {
	if len(f.Blocks) == 0 {
		return
	}
	a.writesOf(f, func(t ssa.Value, in ssa.Instruction, what string) {
		if what == "store" {
			// a store into a parameter's own slot is not a write through it; FieldAddr/IndexAddr chains are
			if _, isParam := t.(*ssa.Parameter); isParam {
				// *p = v  where p is a pointer parameter: writes through it
			}
		}
		for _, r := range a.typedRoots(t) {
			if r.kind == rParam {
				if a.writes[f] == nil {
					a.writes[f] = map[int]bool{}
				}
				if !a.writes[f][r.idx] {
					a.writes[f][r.idx] = true
					a.changed = true
				}
			}
		}
	})
	// return roots
	for _, b := range f.Blocks {
		for _, in := range b.Instrs {
			ret, ok := in.(*ssa.Return)
			if !ok {
				continue
			}
			for ri, v := range ret.Results {
				if !isRefType(v.Type()) {
					continue
				}
				for _, r := range a.typedRoots(v) {
					if a.returns[f] == nil {
						a.returns[f] = map[int]map[root]bool{}
					}
					if a.returns[f][ri] == nil {
						a.returns[f][ri] = map[root]bool{}
					}
					if !a.returns[f][ri][r] {
						a.returns[f][ri][r] = true
						a.changed = true
					}
				}
			}
		}
	}
}

type table struct {
	Names   []string
	Callees [][]int
	GlobalW []bool
	MetaW   []bool
	Entries []int
	K       int // reachable functions are 0..K-1
}

func main() {
	out := flag.String("lean", "", "Lean file to write")
	report := flag.String("report", "", "JSON report to write")
	flag.Parse()
	cfg := &packages.Config{Mode: packages.LoadAllSyntax, Dir: "/verif/harness", BuildFlags: []string{"-tags=verif"}}
	pkgs, err := packages.Load(cfg, scnPath)
	if err != nil {
		fmt.Println("LOAD-ERR", err)
		os.Exit(2)
	}
	if packages.PrintErrors(pkgs) > 0 {
		fmt.Println("LOAD-ERR packages have errors")
		os.Exit(2)
	}
	prog, spkgs := ssautil.AllPackages(pkgs, ssa.InstantiateGenerics)
	prog.Build()
	var scn *ssa.Package
	for _, p := range spkgs {
		if p != nil && p.Pkg.Path() == scnPath {
			scn = p
		}
	}
	if scn == nil {
		fmt.Println("LOAD-ERR scenario package not found")
		os.Exit(2)
	}
	phases := []struct {
		name  string
		roots []string
	}{{"use", []string{"Use"}}, {"load", []string{"LoadMain", "LoadSub", "LoadBad"}}}

	var effects []effect
	leanParts := []string{"/- GENERATED by /verif/effects/cmd/vfx from /repo's current source and verif/harness/scn: do not edit -/\nnamespace YangVerif.Gen.EffectTable\n"}
	summary := map[string]interface{}{}
	for _, ph := range phases {
		var roots []*ssa.Function
		for _, n := range ph.roots {
			f := scn.Func(n)
			if f == nil {
				fmt.Println("LOAD-ERR no scenario function", n)
				os.Exit(2)
			}
			roots = append(roots, f)
		}
		// package initialisers run before any task: what they instantiate (e.g. a parser object kept in a
		// package-level variable) is live for RTA; they are roots of the analysis but not entries of the table
		rtaRoots := append([]*ssa.Function{}, roots...)
		for _, p := range prog.AllPackages() {
			if ini := p.Func("init"); ini != nil {
				rtaRoots = append(rtaRoots, ini)
			}
		}
		res := rta.Analyze(rtaRoots, true)
		a := &analysis{prog: prog, cg: res.CallGraph, writes: map[*ssa.Function]map[int]bool{}, returns: map[*ssa.Function]map[int]map[root]bool{}}
		var fns []*ssa.Function
		for f := range res.Reachable {
			fns = append(fns, f)
		}
		sort.Slice(fns, func(i, j int) bool { return fns[i].String() < fns[j].String() })
		// summaries to a fixed point (library and scenario functions; the standard library through the mutator list)
		for round := 0; round < 50; round++ {
			a.changed = false
			for _, f := range fns {
				if isRepoFn(f) || isScnFn(f) {
					a.summarise(f)
				}
			}
			if !a.changed {
				break
			}
		}
		// effects
		globalW := map[*ssa.Function]bool{}
		metaW := map[*ssa.Function]bool{}
		isRoot := map[*ssa.Function]bool{}
		for _, r := range roots {
			isRoot[r] = true
		}
		for _, f := range fns {
			if !isRepoFn(f) && !isScnFn(f) {
				continue
			}
			if f.Name() == "init" || strings.HasPrefix(f.Name(), "init#") {
				continue
			}
			a.writesOf(f, func(t ssa.Value, in ssa.Instruction, what string) {
				for _, r := range a.typedRoots(t) {
					if r.kind == rParam && isRoot[f] && r.idx < len(f.Params) && metaTyped(f.Params[r.idx].Type()) {
						// a task body writing through the schema it was handed: that schema is the shared one
						r = root{kind: rMeta, name: "(the shared module handed to " + f.Name() + ")"}
					}
					if r.kind != rGlobal && r.kind != rMeta {
						continue
					}
					kind := "global"
					if r.kind == rMeta {
						kind = "meta"
						metaW[f] = true
					} else {
						globalW[f] = true
					}
					effects = append(effects, effect{Fn: f.String(), Pos: strings.TrimPrefix(prog.Fset.Position(in.Pos()).String(), "/repo/"), Kind: ph.name + ":" + kind, What: what + " -> " + r.String(), Instr: in.String()})
				}
			})
		}
		// table: library and scenario functions; an edge f -> g when g is called from f directly or through
		// functions outside (standard library, e.g. sort.Slice calling a less function, fmt calling String())
		keep := func(f *ssa.Function) bool { return isRepoFn(f) || isScnFn(f) }
		var kept []*ssa.Function
		for _, f := range fns {
			if keep(f) {
				kept = append(kept, f)
			}
		}
		id := map[*ssa.Function]int{}
		for i, f := range kept {
			id[f] = i
		}
		outer := map[*ssa.Function]map[*ssa.Function]bool{} // memo: kept functions reachable from a non-kept one through non-kept ones
		var through func(f *ssa.Function, seen map[*ssa.Function]bool, acc map[*ssa.Function]bool)
		through = func(f *ssa.Function, seen map[*ssa.Function]bool, acc map[*ssa.Function]bool) {
			if seen[f] {
				return
			}
			seen[f] = true
			n := res.CallGraph.Nodes[f]
			if n == nil {
				return
			}
			for _, e := range n.Out {
				g := e.Callee.Func
				if keep(g) {
					acc[g] = true
				} else {
					through(g, seen, acc)
				}
			}
		}
		_ = outer
		t := table{K: len(kept)}
		for _, f := range kept {
			acc := map[*ssa.Function]bool{}
			seen := map[*ssa.Function]bool{}
			n := res.CallGraph.Nodes[f]
			if n != nil {
				for _, e := range n.Out {
					g := e.Callee.Func
					if keep(g) {
						acc[g] = true
					} else {
						through(g, seen, acc)
					}
				}
			}
			var cs []int
			for g := range acc {
				cs = append(cs, id[g])
			}
			sort.Ints(cs)
			t.Names = append(t.Names, f.String())
			t.Callees = append(t.Callees, cs)
			t.GlobalW = append(t.GlobalW, globalW[f])
			t.MetaW = append(t.MetaW, metaW[f])
		}
		for _, r := range roots {
			t.Entries = append(t.Entries, id[r])
		}
		var b strings.Builder
		fmt.Fprintf(&b, "\n/-- phase %s: %d library/scenario functions reachable (RTA) from %v -/\n", ph.name, t.K, ph.roots)
		fmt.Fprintf(&b, "def %sEntries : List Nat := %s\n", ph.name, leanNats(t.Entries))
		fmt.Fprintf(&b, "def %sCount : Nat := %d\n", ph.name, t.K)
		// chunks: one long list literal exceeds the elaborator's recursion depth
		const chunk = 50
		var chunkNames []string
		for c := 0; c*chunk < len(t.Names); c++ {
			cn := fmt.Sprintf("%sFns%d", ph.name, c)
			chunkNames = append(chunkNames, cn)
			fmt.Fprintf(&b, "def %s : List (List Nat × Bool × Bool) := [\n", cn)
			for i := c * chunk; i < len(t.Names) && i < (c+1)*chunk; i++ {
				sep := ","
				if i == len(t.Names)-1 || i == (c+1)*chunk-1 {
					sep = ""
				}
				fmt.Fprintf(&b, "  (%s, %v, %v)%s -- %d %s\n", leanNats(t.Callees[i]), t.GlobalW[i], t.MetaW[i], sep, i, t.Names[i])
			}
			b.WriteString("]\n")
		}
		fmt.Fprintf(&b, "/-- (callees, writes a package-level variable, writes the compiled schema) per function -/\ndef %sFns : List (List Nat × Bool × Bool) := [%s].flatten\n", ph.name, strings.Join(chunkNames, ", "))
		leanParts = append(leanParts, b.String())
		ng, nm := 0, 0
		for i := range t.Names {
			if t.GlobalW[i] {
				ng++
			}
			if t.MetaW[i] {
				nm++
			}
		}
		summary[ph.name] = map[string]int{"reachable_all": len(fns), "table": t.K, "global_writers": ng, "meta_writers": nm}
	}
	leanParts = append(leanParts, "\nend YangVerif.Gen.EffectTable\n")
	if *out != "" {
		if err := os.WriteFile(*out, []byte(strings.Join(leanParts, "")), 0644); err != nil {
			fmt.Println("WRITE-ERR", err)
			os.Exit(2)
		}
	}
	sort.Slice(effects, func(i, j int) bool {
		if effects[i].Kind != effects[j].Kind {
			return effects[i].Kind < effects[j].Kind
		}
		return effects[i].Pos < effects[j].Pos
	})
	rep := map[string]interface{}{"summary": summary, "effects": effects}
	bs, _ := json.MarshalIndent(rep, "", " ")
	if *report != "" {
		os.WriteFile(*report, bs, 0644)
	} else {
		os.Stdout.Write(bs)
	}
}

func leanNats(xs []int) string {
	s := make([]string, len(xs))
	for i, x := range xs {
		s[i] = fmt.Sprint(x)
	}
	return "[" + strings.Join(s, ", ") + "]"
}
