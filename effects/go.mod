module verif/effects

go 1.22.0

toolchain go1.23.5

require golang.org/x/tools v0.29.0

require (
	golang.org/x/mod v0.22.0 // indirect
	golang.org/x/sync v0.10.0 // indirect
)
