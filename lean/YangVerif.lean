import YangVerif.Model.Util
import YangVerif.Model.Compare
import YangVerif.Proofs.Compare
