/-
  Line protocol: one case per line `<property> <op> <args…>` (space separated,
  text arguments hex-encoded), one canonical result line out.
-/
import YangVerif.Drv.C17
import YangVerif.Drv.C10
import YangVerif.Drv.C05
import YangVerif.Drv.C11
import YangVerif.Drv.Data
import YangVerif.Drv.C08
import YangVerif.Drv.C09
import YangVerif.Drv.C12
import YangVerif.Drv.C15
import YangVerif.Drv.C19
import YangVerif.Drv.C07
import YangVerif.Drv.C06
import YangVerif.Drv.C01
import YangVerif.Drv.C02
import YangVerif.Drv.C14
import YangVerif.Drv.C13
import YangVerif.Drv.C16

def dispatch (line : String) : String :=
  match (line.trimAscii.toString.splitOn " ").filter (· ≠ "") with
  | "c17" :: rest => YangVerif.Drv.C17.handle rest
  | "c10" :: rest => YangVerif.Drv.C10.handle rest
  | "c05" :: rest => YangVerif.Drv.C05.handle rest
  | "c11" :: rest => YangVerif.Drv.C11.handle rest
  | "data" :: rest => YangVerif.Drv.Data.handle rest
  | "c08" :: rest => YangVerif.Drv.C08.handle rest
  | "c09" :: rest => YangVerif.Drv.C09.handle rest
  | "c12" :: rest => YangVerif.Drv.C12.handle rest
  | "c15" :: rest => YangVerif.Drv.C15.handle rest
  | "c01" :: rest => YangVerif.Drv.C01.handle rest
  | "c02" :: rest => YangVerif.Drv.C02.handle rest
  | "c13" :: rest => YangVerif.Drv.C13.handle rest
  | "c14" :: rest => YangVerif.Drv.C14.handle rest
  | "c06" :: rest => YangVerif.Drv.C06.handle rest
  | "c07" :: rest => YangVerif.Drv.C07.handle rest
  | "c16" :: rest => YangVerif.Drv.C16.handle rest
  | "c19" :: rest => YangVerif.Drv.C19.handle rest
  | _ => "bad-op"

partial def loop (h : IO.FS.Stream) (out : IO.FS.Stream) : IO Unit := do
  let line ← h.getLine
  if line.isEmpty then return ()
  out.putStrLn (dispatch line)
  loop h out

def main : IO Unit := do
  let out ← IO.getStdout
  loop (← IO.getStdin) out
  out.flush
