/-
  Line-protocol handler for C14.
  c14 imports <hmain> n (hname k himport*)*   → ok | cycle | missing | outOfFuel
-/
import YangVerif.Model.Imports
import YangVerif.Model.Util
namespace YangVerif.Drv.C14
open YangVerif YangVerif.Imports

def pNames : Nat → List String → Option (List String × List String)
  | 0, r => some ([], r)
  | k + 1, h :: r => match unhexStr h, pNames k r with
    | some n, some (ns, r') => some (n :: ns, r')
    | _, _ => none
  | _, [] => none

def pGraph : Nat → List String → Option (Graph × List String)
  | 0, r => some ([], r)
  | k + 1, h :: c :: r => match unhexStr h, c.toNat? with
    | some n, some m => match pNames m r with
      | some (imps, r1) => (pGraph k r1).map fun (g, r2) => ((n, imps) :: g, r2)
      | none => none
    | _, _ => none
  | _, _ => none

def handle (toks : List String) : String :=
  match toks with
  | "imports" :: hm :: n :: rest =>
    match unhexStr hm, n.toNat? with
    | some main, some k => match pGraph k rest with
      | some (g, []) => match load g main with
        | .ok => "ok" | .cycle => "cycle" | .missing => "missing" | .outOfFuel => "outOfFuel"
      | _ => "bad-op graph"
    | _, _ => "bad-op"
  | _ => "bad-op"

end YangVerif.Drv.C14
