/-
  Line-protocol handler for C01.
  c01 compile G ng (hname nodes)* B nodes A na (path nodes)*     → nodes of the compiled tree
     nodes = n node*
     node  = L hname P | C (c|l) hname P nodes | U hname nref (path P)* naug (path nodes)*
     P     = cfg(-|0|1) desc(-|h<hex>) dflt(-|h<hex>) mand(-|0|1)
     path  = k hexseg*
-/
import YangVerif.Model.Expand
import YangVerif.Model.Util
namespace YangVerif.Drv.C01
open YangVerif YangVerif.Expand

abbrev Pr (α : Type) := List String → Option (α × List String)

def pOB (s : String) : Option (Option Bool) :=
  if s == "-" then some none else if s == "0" then some (some false) else if s == "1" then some (some true) else none
def pOS (s : String) : Option (Option String) :=
  if s == "-" then some none else if s.startsWith "h" then (unhexStr (s.drop 1).toString).map some else none

def pON (s : String) : Option (Option Nat) :=
  if s == "-" then some none else s.toNat?.map some

def pP : Pr P
  | c :: d :: f :: m :: lo :: hi :: pr :: r => match pOB c, pOS d, pOS f, pOB m, pON lo, pON hi, pOS pr with
    | some c, some d, some f, some m, some lo, some hi, some pr => some ({ config := c, desc := d, dflt := f, mandatory := m, minEl := lo, maxEl := hi, presence := pr }, r)
    | _, _, _, _, _, _, _ => none
  | _ => none

def pNames : Nat → Pr (List String)
  | 0, r => some ([], r)
  | k + 1, h :: r => match unhexStr h, pNames k r with
    | some n, some (ns, r') => some (n :: ns, r')
    | _, _ => none
  | _, [] => none

def pPath : Pr Path
  | k :: r => match k.toNat? with
    | some n => pNames n r
    | none => none
  | [] => none

def pRefines : Nat → Pr (List (Path × P))
  | 0, r => some ([], r)
  | k + 1, r => match pPath r with
    | some (p, r1) => match pP r1 with
      | some (pp, r2) => (pRefines k r2).map fun (xs, r3) => ((p, pp) :: xs, r3)
      | none => none
    | none => none

mutual
  def pNodes : Nat → Pr (List N)
    | 0, _ => none
    | f + 1, n :: r => match n.toNat? with
      | some k => pNodeN f k r
      | none => none
    | _, [] => none
  def pNodeN : Nat → Nat → Pr (List N)
    | 0, _, _ => none
    | _, 0, r => some ([], r)
    | f + 1, k + 1, r => match pNode f r with
      | some (x, r1) => (pNodeN f k r1).map fun (xs, r2) => (x :: xs, r2)
      | none => none
  def pNode : Nat → Pr N
    | 0, _ => none
    | _ + 1, "L" :: hn :: r => match unhexStr hn, pP r with
      | some n, some (p, r') => some (.leaf n p, r')
      | _, _ => none
    | f + 1, "C" :: k :: hn :: r => match unhexStr hn, pP r with
      | some n, some (p, r1) => (pNodes f r1).map fun (ks, r2) => (.node (if k == "l" then .list else .cont) n p ks, r2)
      | _, _ => none
    | f + 1, "U" :: hn :: nref :: r => match unhexStr hn, nref.toNat? with
      | some g, some nr => match pRefines nr r with
        | some (refs, na :: r1) => match na.toNat? with
          | some nA => (pAugs f nA r1).map fun (augs, r2) => (.uses g refs augs, r2)
          | none => none
        | _ => none
      | _, _ => none
    | _, _ => none
  def pAugs : Nat → Nat → Pr (List (Path × List N))
    | 0, _, _ => none
    | _, 0, r => some ([], r)
    | f + 1, k + 1, r => match pPath r with
      | some (p, r1) => match pNodes f r1 with
        | some (ks, r2) => (pAugs f k r2).map fun (xs, r3) => ((p, ks) :: xs, r3)
        | none => none
      | none => none
end

def pGroupings (fuel : Nat) : Nat → Pr Env
  | 0, r => some ([], r)
  | k + 1, hn :: r => match unhexStr hn, pNodes fuel r with
    | some n, some (b, r1) => (pGroupings fuel k r1).map fun (xs, r2) => ((n, b) :: xs, r2)
    | _, _ => none
  | _, [] => none

def showOB : Option Bool → String
  | none => "-" | some false => "0" | some true => "1"
def showOS : Option String → String
  | none => "-" | some s => "h" ++ hexStr s
def showON : Option Nat → String
  | none => "-" | some n => toString n
def showP (p : P) : List String := [showOB p.config, showOS p.desc, showOS p.dflt, showOB p.mandatory, showON p.minEl, showON p.maxEl, showOS p.presence]

mutual
  def showT : T → List String
    | .leaf n p => "L" :: hexStr n :: showP p
    | .node k n p kids => "C" :: (if k == .list then "l" else "c") :: hexStr n :: showP p ++ showTs kids
  def showTs : List T → List String
    | ts => toString ts.length :: showTl ts
  def showTl : List T → List String
    | [] => []
    | t :: r => showT t ++ showTl r
end

def handle (toks : List String) : String :=
  let fuel := toks.length + 3
  match toks with
  | "compile" :: "G" :: ng :: rest =>
    match ng.toNat? with
    | some n => match pGroupings fuel n rest with
      | some (env, "B" :: r1) => match pNodes fuel r1 with
        | some (body, "A" :: na :: r2) => match na.toNat? with
          | some nA => match pAugs fuel nA r2 with
            | some (augs, []) => String.intercalate " " (showTs (compile (env.length + 2) ⟨env, body, augs⟩))
            | _ => "bad-op augs"
          | none => "bad-op augs"
        | _ => "bad-op body"
      | _ => "bad-op groupings"
    | none => "bad-op"
  | _ => "bad-op"

end YangVerif.Drv.C01
