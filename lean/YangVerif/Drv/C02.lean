/-
  Line-protocol handler for C02.
  c02 leaf M nmods (hprefix ntd typedef*)* S nscopes (ntd typedef*)* texpr dflt units   → eff | none
     texpr   = T hname range length npat hpat* nenum (hname val)* nbits (hname pos)* nmem texpr* path nbases hbase* fd
     typedef = D hname texpr dflt units
     optional strings: - | h<hex>;  optional numbers: - | n
     eff     = E hfmt nr hr* nl hl* np hp* ne (hname val)* nb (hname val)* nm eff* path nbases hb* fd dflt units
-/
import YangVerif.Model.TypeDerive
import YangVerif.Model.Util
namespace YangVerif.Drv.C02
open YangVerif YangVerif.TypeDerive

abbrev Pr (α : Type) := List String → Option (α × List String)

def pOS (s : String) : Option (Option String) :=
  if s == "-" then some none else if s.startsWith "h" then (unhexStr (s.drop 1).toString).map some else none
def pOI (s : String) : Option (Option Int) := if s == "-" then some none else s.toInt?.map some
def pON (s : String) : Option (Option Nat) := if s == "-" then some none else s.toNat?.map some

def pStrs : Nat → Pr (List String)
  | 0, r => some ([], r)
  | k + 1, h :: r => match unhexStr h, pStrs k r with
    | some n, some (ns, r') => some (n :: ns, r')
    | _, _ => none
  | _, [] => none

def pCounted (p : Pr α) : Nat → Pr (List α)
  | 0, r => some ([], r)
  | k + 1, r => match p r with
    | some (x, r1) => (pCounted p k r1).map fun (xs, r2) => (x :: xs, r2)
    | none => none

def pEnum : Pr (String × Option Int)
  | h :: v :: r => match unhexStr h, pOI v with
    | some n, some v => some ((n, v), r)
    | _, _ => none
  | _ => none
def pBit : Pr (String × Option Nat)
  | h :: v :: r => match unhexStr h, pON v with
    | some n, some v => some ((n, v), r)
    | _, _ => none
  | _ => none

def pN (f : Nat → Pr β) : Pr β
  | k :: r => match k.toNat? with
    | some n => f n r
    | none => none
  | [] => none

mutual
  def pT : Nat → Pr TExpr
    | 0, _ => none
    | f + 1, "T" :: hn :: rg :: ln :: r =>
      match unhexStr hn, pOS rg, pOS ln with
      | some name, some range, some length =>
        match pN pStrs r with
        | some (pats, r1) => match pN (pCounted pEnum) r1 with
          | some (enums, r2) => match pN (pCounted pBit) r2 with
            | some (bits, nm :: r3) => match nm.toNat? with
              | some k => match pTs f k r3 with
                | some (members, path :: r4) => match pOS path, pN pStrs r4 with
                  | some path, some (bases, fd :: r5) => (pON fd).map fun fd =>
                      (.mk name range length pats enums bits members path bases fd, r5)
                  | _, _ => none
                | _ => none
              | none => none
            | _ => none
          | none => none
        | none => none
      | _, _, _ => none
    | _, _ => none
  def pTs : Nat → Nat → Pr (List TExpr)
    | 0, _, _ => none
    | _, 0, r => some ([], r)
    | f + 1, k + 1, r => match pT f r with
      | some (x, r1) => (pTs f k r1).map fun (xs, r2) => (x :: xs, r2)
      | none => none
end

def pD (fuel : Nat) : Pr Typedef
  | "D" :: hn :: r => match unhexStr hn, pT fuel r with
    | some n, some (t, d :: u :: r1) => match pOS d, pOS u with
      | some d, some u => some (⟨n, t, d, u⟩, r1)
      | _, _ => none
    | _, _ => none
  | _ => none

def pScope (fuel : Nat) : Pr (List Typedef) := pN (pCounted (pD fuel))

def pMod (fuel : Nat) : Pr (String × List Typedef)
  | h :: r => match unhexStr h, pScope fuel r with
    | some p, some (ts, r1) => some ((p, ts), r1)
    | _, _ => none
  | [] => none

mutual
  def showE : Eff → List String
    | .mk f r l p e b m path bases fd d u =>
      let os (o : Option String) := match o with | none => "-" | some s => "h" ++ hexStr s
      ["E", hexStr f, toString r.length] ++ r.map hexStr ++ [toString l.length] ++ l.map hexStr ++
      [toString p.length] ++ p.map hexStr ++
      [toString e.length] ++ e.flatMap (fun (n, v) => [hexStr n, toString v]) ++
      [toString b.length] ++ b.flatMap (fun (n, v) => [hexStr n, toString v]) ++
      [toString m.length] ++ showEs m ++
      [os path, toString bases.length] ++ bases.map hexStr ++
      [(match fd with | none => "-" | some n => toString n), os d, os u]
  def showEs : List Eff → List String
    | [] => []
    | e :: r => showE e ++ showEs r
end

def handle (toks : List String) : String :=
  let fuel := toks.length + 3
  match toks with
  | "leaf" :: "M" :: rest =>
    match pN (pCounted (pMod fuel)) rest with
    | some (mods, "S" :: r1) => match pN (pCounted (pScope fuel)) r1 with
      | some (chain, r2) => match pT fuel r2 with
        | some (t, [d, u]) => match pOS d, pOS u with
          | some d, some u => match leafEff mods 40 chain t d u with
            | some e => String.intercalate " " (showE e)
            | none => "none"
          | _, _ => "bad-op leaf props"
        | some (t, [d, u, "R"]) => match pOS d, pOS u with
          | some d, some u => match leafEff mods 40 chain t d u true with
            | some e => String.intercalate " " (showE e)
            | none => "none"
          | _, _ => "bad-op leaf props"
        | _ => "bad-op texpr"
      | none => "bad-op scopes"
    | _ => "bad-op mods"
  | _ => "bad-op"

end YangVerif.Drv.C02
