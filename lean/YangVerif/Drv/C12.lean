/-
  Line-protocol handler for C12.
  scenario tokens: S <nids> <hid>* <nsteps> step*     step = c <hlabel> | s scenario
  c12 run <k> scenario  → "<ok 0|1> <n> ev*"   ev = B+<hid> | B-<hid> | E+<hid> | E-<hid> | C+<hl> | C-<hl>
-/
import YangVerif.Model.EditTrace
import YangVerif.Model.Util
namespace YangVerif.Drv.C12
open YangVerif YangVerif.EditTrace

abbrev P (α : Type) := List String → Option (α × List String)

def pIds : Nat → P (List String)
  | 0, r => some ([], r)
  | k + 1, h :: r => match unhexStr h, pIds k r with
    | some s, some (ss, r') => some (s :: ss, r')
    | _, _ => none
  | _, [] => none

mutual
  def pScn : Nat → P Scn
    | 0, _ => none
    | f + 1, "S" :: n :: r =>
      match n.toNat? with
      | some nids =>
        match pIds nids r with
        | some (ids, ns :: r1) =>
          match ns.toNat? with
          | some nsteps => (pSteps f nsteps r1).map fun (steps, r2) => (.mk ids steps, r2)
          | none => none
        | _ => none
      | none => none
    | _, _ => none
  def pSteps : Nat → Nat → P (List Step)
    | 0, _, _ => none
    | _, 0, r => some ([], r)
    | f + 1, k + 1, "c" :: l :: r =>
      match unhexStr l, pSteps f k r with
      | some lab, some (ss, r') => some (.call lab :: ss, r')
      | _, _ => none
    | f + 1, k + 1, "s" :: r =>
      match pScn f r with
      | some (s, r1) => (pSteps f k r1).map fun (ss, r2) => (.sub s :: ss, r2)
      | none => none
    | _, _, _ => none
end

def showEv : Ev → String
  | .beginOk x => "B+" ++ hexStr x | .beginFail x => "B-" ++ hexStr x
  | .endOk x => "E+" ++ hexStr x | .endFail x => "E-" ++ hexStr x
  | .callOk l => "C+" ++ hexStr l | .callFail l => "C-" ++ hexStr l

def handle (toks : List String) : String :=
  match toks with
  | "run" :: k :: rest =>
    match k.toNat?, pScn (toks.length + 3) rest with
    | some k, some (s, []) =>
      let o := run s k
      s!"{if o.ok then 1 else 0} {o.n} {" ".intercalate (o.trace.map showEv)}"
    | _, _ => "bad-op"
  | _ => "bad-op"

end YangVerif.Drv.C12
