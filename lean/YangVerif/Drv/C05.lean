/-
  Line-protocol handler for C05.
  c05 range <scale> <tlo> <thi> <v1,v2,…> <levelhex>…   → "<model> <spec>"  (1 accept / 0 reject / parse-error)
  c05 pattern <sat bits e.g. 101 or ->                   → "<model(or)> <spec(and)>"
  c05 bits <declhex: name:pos,…> <nameshex: a b c>       → "<model> <spec>"
  c05 ident <valuehex> <closurehex: a b c>…              → "ok:<name>" | "err"   (one closure per base)
-/
import YangVerif.Model.Range
import YangVerif.Model.Member
namespace YangVerif.Drv.C05
open YangVerif YangVerif.Range YangVerif.Member

def b2s (b : Bool) : String := if b then "1" else "0"

def handle (toks : List String) : String :=
  match toks with
  | "range" :: scaleS :: tloS :: thiS :: vsS :: levelsHex =>
    match scaleS.toNat?, tloS.toInt?, thiS.toInt?, (vsS.splitOn ",").mapM (·.toInt?), levelsHex.mapM unhexStr with
    | some scale, some tlo, some thi, some vs, some texts =>
      match texts.mapM (parseRange scale) with
      | some levels =>
        let model := listCheck levels vs
        let spec := vs.all (inTypeB tlo thi levels)
        s!"{b2s model} {b2s spec}"
      | none => "parse-error parse-error"
    | _, _, _, _, _ => "bad-op"
  | ["pattern", bits] =>
    let sat := if bits == "-" then [] else bits.toList.map (· == '1')
    s!"{b2s (patternCheckOr sat)} {b2s (patternCheckAnd sat)}"
  | ["bits", declH, namesH] =>
    match unhexStr declH, unhexStr namesH with
    | some declS, some namesS =>
      let decl := (declS.splitOn ",").filterMap fun d =>
        match d.splitOn ":" with
        | [n, p] => p.toNat?.map fun k => (n, k)
        | _ => none
      let names := namesS.splitOn " "
      let r := match bitsByNames decl names with
        | some ns => "ok:" ++ " ".intercalate ns
        | none => "err"
      s!"{r} {r}"
    | _, _ => "bad-op"
  | "ident" :: vH :: closuresH =>
    match unhexStr vH, closuresH.mapM unhexStr with
    | some v, some cs =>
      match identByBases (cs.map fun c => (c.splitOn " ").filter (· ≠ "")) v with
      | some n => "ok:" ++ n
      | none => "err"
    | _, _ => "bad-op"
  | _ => "bad-op"

end YangVerif.Drv.C05
