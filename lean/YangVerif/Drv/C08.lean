/-
  Line-protocol handler for C08 (path text codec).
  c08 render <nseg> (<hident> <nkeys> <hkey>*)*   → hex of Path.String (without module)
  c08 parse <hpath>                               → "ok <nseg> (<hident> <nkeys> <hkey>*)*" | "err"
-/
import YangVerif.Model.Path
import YangVerif.Model.Util
namespace YangVerif.Drv.C08
open YangVerif YangVerif.Path

def readSegs : Nat → Nat → List String → Option (List Seg × List String)
  | 0, _, _ => none
  | _, 0, r => some ([], r)
  | f + 1, n + 1, id :: nk :: r =>
    match unhexBytes id, nk.toNat? with
    | some ident, some k =>
      let ks := r.take k
      if ks.length ≠ k then none else
      match ks.mapM unhexBytes, readSegs f n (r.drop k) with
      | some keys, some (rest, r') => some (⟨ident, keys⟩ :: rest, r')
      | _, _ => none
    | _, _ => none
  | _, _, _ => none

def showSegs (segs : List Seg) : String :=
  " ".intercalate (toString segs.length :: segs.flatMap fun s =>
    hexBytes s.ident :: toString s.keys.length :: s.keys.map hexBytes)

def handle (toks : List String) : String :=
  match toks with
  | "render" :: n :: rest =>
    match n.toNat? with
    | some k => match readSegs (toks.length + 2) k rest with
      | some (segs, []) => hexBytes (renderPath segs)
      | _ => "bad-op"
    | none => "bad-op"
  | ["parse", h] =>
    match unhexBytes h with
    | some bs => match parsePath bs with
      | some segs => "ok " ++ showSegs segs
      | none => "err"
    | none => "bad-op"
  | _ => "bad-op"

end YangVerif.Drv.C08
