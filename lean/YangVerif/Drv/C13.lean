/-
  Line-protocol handler for C13.
  c13 shape <schema> <jval>   → ok | refused
  c13 path <schema> n (hname haskey nkeys hkey*)*   → ok | refused
     schema = n node*     node = L hname (0|1) | C hname schema | K hname nkeys hkey* schema
     jval   = s | n | t | z (null) | a k jval* | o k (hname jval)*
-/
import YangVerif.Model.Shape
import YangVerif.Model.Util
namespace YangVerif.Drv.C13
open YangVerif YangVerif.Shape YangVerif.Json

abbrev Pr (α : Type) := List String → Option (α × List String)

def pStrs : Nat → Pr (List String)
  | 0, r => some ([], r)
  | k + 1, h :: r => match unhexStr h, pStrs k r with
    | some n, some (ns, r') => some (n :: ns, r')
    | _, _ => none
  | _, [] => none

mutual
  def pSchema : Nat → Pr (List SS)
    | 0, _ => none
    | f + 1, n :: r => match n.toNat? with
      | some k => pNodes f k r
      | none => none
    | _, [] => none
  def pNodes : Nat → Nat → Pr (List SS)
    | 0, _, _ => none
    | _, 0, r => some ([], r)
    | f + 1, k + 1, r => match pNode f r with
      | some (x, r1) => (pNodes f k r1).map fun (xs, r2) => (x :: xs, r2)
      | none => none
  def pNode : Nat → Pr SS
    | 0, _ => none
    | _ + 1, "L" :: hn :: l :: r => (unhexStr hn).map fun n => (if l == "2" then .anyLeaf n else .leaf n (l == "1"), r)
    | f + 1, "C" :: hn :: r => match unhexStr hn, pSchema f r with
      | some n, some (ks, r') => some (.cont n ks, r')
      | _, _ => none
    | f + 1, "K" :: hn :: nk :: r => match unhexStr hn, nk.toNat? with
      | some n, some k => match pStrs k r with
        | some (keys, r1) => (pSchema f r1).map fun (ks, r2) => (.list n keys ks, r2)
        | none => none
      | _, _ => none
    | _, _ => none
end

mutual
  def pJ : Nat → Pr JVal
    | 0, _ => none
    | _ + 1, "s" :: r => some (.str [], r)
    | _ + 1, "n" :: r => some (.num "0", r)
    | _ + 1, "t" :: r => some (.lit "true", r)
    | _ + 1, "z" :: r => some (.lit "null", r)
    | f + 1, "a" :: k :: r => match k.toNat? with
      | some n => (pJs f n r).map fun (vs, r') => (.arr vs, r')
      | none => none
    | f + 1, "o" :: k :: r => match k.toNat? with
      | some n => (pMs f n r).map fun (ms, r') => (.obj ms, r')
      | none => none
    | _, _ => none
  def pJs : Nat → Nat → Pr (List JVal)
    | 0, _, _ => none
    | _, 0, r => some ([], r)
    | f + 1, k + 1, r => match pJ f r with
      | some (x, r1) => (pJs f k r1).map fun (xs, r2) => (x :: xs, r2)
      | none => none
  def pMs : Nat → Nat → Pr (List (String × JVal))
    | 0, _, _ => none
    | _, 0, r => some ([], r)
    | f + 1, k + 1, h :: r => match unhexStr h, pJ f r with
      | some n, some (v, r1) => (pMs f k r1).map fun (xs, r2) => ((n, v) :: xs, r2)
      | _, _ => none
    | _, _, _ => none
end

/-- segments: hname (0|1) nkeys hkey* -/
def pSegs : Nat → Pr (List Seg)
  | 0, r => some ([], r)
  | k + 1, hn :: hk :: nk :: r => match unhexStr hn, nk.toNat? with
    | some n, some m => match pStrs m r with
      | some (keys, r1) => (pSegs k r1).map fun (sgs, r2) => ({ name := n, keys := keys, hasKey := hk == "1" } :: sgs, r2)
      | none => none
    | _, _ => none
  | _, _ => none

def handle (toks : List String) : String :=
  let fuel := toks.length + 3
  match toks with
  | "shape" :: rest =>
    match pSchema fuel rest with
    | some (ss, r1) => match pJ fuel r1 with
      | some (.obj ms, []) => if okBody ss ms then "ok" else "refused"
      | some (_, []) => "refused"
      | _ => "bad-op doc"
    | none => "bad-op schema"
  | "path" :: rest =>
    match pSchema fuel rest with
    | some (ss, n :: r1) => match n.toNat? with
      | some k => match pSegs k r1 with
        | some (segs, []) => match pathVerdict (some ss) segs with
          | .ok => "ok" | .refused => "refused"
        | _ => "bad-op segs"
      | none => "bad-op"
    | _ => "bad-op schema"
  | _ => "bad-op"

end YangVerif.Drv.C13
