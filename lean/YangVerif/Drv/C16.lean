/-
  Line-protocol handler for C16.
  c16 eval <expr> <schema> <data>            → true | false
  c16 read <schema> <data>                   → data
  c16 where <expr> <schema> k data*          → k' data*
     expr   = k hexname* (- | op V)          op = eq ne lt le gt ge
     V      = i<int> | d<int> | s<hex> | b0 | b1 | e<hex>
     schema = n node*       node = L hname conds | C hname conds schema | K hname conds schema
     conds  = k (0|1 expr)*
     data   = n item*       item = - | v V | c- | c data | r k data*
-/
import YangVerif.Model.XPath
import YangVerif.Model.Util
namespace YangVerif.Drv.C16
open YangVerif YangVerif.XP

abbrev P (α : Type) := List String → Option (α × List String)

def pV (s : String) : Option V :=
  let body := (s.drop 1).toString
  if s.startsWith "i" then body.toInt?.map V.int
  else if s.startsWith "d" then
    match body.splitOn "e" with
    | [n, sc] => match n.toInt?, sc.toNat? with
      | some n, some sc => some (.dec n sc)
      | _, _ => none
    | _ => none
  else if s.startsWith "s" then (unhexStr body).map V.str
  else if s == "b0" then some (.bool false) else if s == "b1" then some (.bool true)
  else if s.startsWith "e" then (unhexStr body).map V.enum
  else none

def showV : V → String
  | .int i => "i" ++ toString i
  | .dec n sc => "d" ++ toString n ++ "e" ++ toString sc
  | .str s => "s" ++ hexStr s
  | .bool b => if b then "b1" else "b0"
  | .enum l => "e" ++ hexStr l

def pOp (s : String) : Option Op :=
  if s == "eq" then some .eq else if s == "ne" then some .ne else if s == "lt" then some .lt
  else if s == "le" then some .le else if s == "gt" then some .gt else if s == "ge" then some .ge else none

def pNames : Nat → P (List String)
  | 0, r => some ([], r)
  | k + 1, h :: r => match unhexStr h, pNames k r with
    | some n, some (ns, r') => some (n :: ns, r')
    | _, _ => none
  | _, [] => none

def pExpr : P Expr
  | k :: r => match k.toNat? with
    | some n => match pNames n r with
      | some (ns, "-" :: r') => some (⟨ns, none⟩, r')
      | some (ns, op :: v :: r') => match pOp op, pV v with
        | some o, some x => some (⟨ns, some (o, x)⟩, r')
        | _, _ => none
      | _ => none
    | none => none
  | [] => none

def pConds : P (List Cond)
  | k :: r => match k.toNat? with
    | some n =>
      let rec go : Nat → P (List Cond)
        | 0, r => some ([], r)
        | m + 1, flag :: r => match pExpr r with
          | some (e, r1) => (go m r1).map fun (cs, r2) => (⟨e, flag == "1"⟩ :: cs, r2)
          | none => none
        | _, [] => none
      go n r
    | none => none
  | [] => none

mutual
  def pSchema : Nat → P (List S)
    | 0, _ => none
    | f + 1, n :: r => match n.toNat? with
      | some k => pNodes f k r
      | none => none
    | _, [] => none
  def pNodes : Nat → Nat → P (List S)
    | 0, _, _ => none
    | _, 0, r => some ([], r)
    | f + 1, k + 1, r => match pNode f r with
      | some (x, r1) => (pNodes f k r1).map fun (xs, r2) => (x :: xs, r2)
      | none => none
  def pNode : Nat → P S
    | 0, _ => none
    | _ + 1, "L" :: hn :: r => match unhexStr hn, pConds r with
      | some n, some (cs, r') => some (.leaf n cs, r')
      | _, _ => none
    | f + 1, "C" :: hn :: r => match unhexStr hn, pConds r with
      | some n, some (cs, r1) => (pSchema f r1).map fun (ks, r2) => (.cont n cs ks, r2)
      | _, _ => none
    | f + 1, "K" :: hn :: r => match unhexStr hn, pConds r with
      | some n, some (cs, r1) => (pSchema f r1).map fun (ks, r2) => (.list n cs ks, r2)
      | _, _ => none
    | _, _ => none
end

mutual
  def pData : Nat → P (List D)
    | 0, _ => none
    | f + 1, n :: r => match n.toNat? with
      | some k => pItems f k r
      | none => none
    | _, [] => none
  def pItems : Nat → Nat → P (List D)
    | 0, _, _ => none
    | _, 0, r => some ([], r)
    | f + 1, k + 1, r => match pItem f r with
      | some (x, r1) => (pItems f k r1).map fun (xs, r2) => (x :: xs, r2)
      | none => none
  def pItem : Nat → P D
    | 0, _ => none
    | _ + 1, "-" :: r => some (.leaf none, r)
    | _ + 1, "c-" :: r => some (.cont none, r)
    | _ + 1, "v" :: h :: r => (pV h).map fun x => (.leaf (some x), r)
    | f + 1, "c" :: r => (pData f r).map fun (b, r') => (.cont (some b), r')
    | f + 1, "r" :: k :: r => match k.toNat? with
      | some n => (pRows f n r).map fun (rows, r') => (.list rows, r')
      | none => none
    | _, _ => none
  def pRows : Nat → Nat → P (List (List D))
    | 0, _, _ => none
    | _, 0, r => some ([], r)
    | f + 1, k + 1, r => match pData f r with
      | some (x, r1) => (pRows f k r1).map fun (xs, r2) => (x :: xs, r2)
      | none => none
end

mutual
  def showItem : D → List String
    | .leaf none => ["-"]
    | .leaf (some t) => ["v", showV t]
    | .cont none => ["c-"]
    | .cont (some b) => "c" :: showData b
    | .list rows => "r" :: toString rows.length :: showRows rows
  def showData : List D → List String
    | ds => toString ds.length :: showItems ds
  def showItems : List D → List String
    | [] => []
    | d :: ds => showItem d ++ showItems ds
  def showRows : List (List D) → List String
    | [] => []
    | b :: r => showData b ++ showRows r
end

def handle (toks : List String) : String :=
  let fuel := toks.length + 3
  match toks with
  | "eval" :: rest =>
    match pExpr rest with
    | some (e, r1) => match pSchema fuel r1 with
      | some (ss, r2) => match pData fuel r2 with
        | some (ds, []) => toString (holdsIn e ss ds)
        | _ => "bad-op data"
      | none => "bad-op schema"
    | none => "bad-op expr"
  | "read" :: rest =>
    match pSchema fuel rest with
    | some (ss, r2) => match pData fuel r2 with
      | some (ds, []) => String.intercalate " " (showData (readBody ss ds))
      | _ => "bad-op data"
    | none => "bad-op schema"
  | "wread" :: hname :: rest =>
    match unhexStr hname, pExpr rest with
    | some ln, some (e, r1) => match pSchema fuel r1 with
      | some (ss, r2) => match pData fuel r2 with
        | some (ds, []) =>
          let out := whereRead e ss ds ln
          String.intercalate " " (toString out.length :: showRows out)
        | _ => "bad-op data"
      | none => "bad-op schema"
    | _, _ => "bad-op expr"
  | "where" :: rest =>
    match pExpr rest with
    | some (e, r1) => match pSchema fuel r1 with
      | some (ks, k :: r2) => match k.toNat? with
        | some n => match pRows fuel n r2 with
          | some (rows, []) =>
            let out := whereRows e ks rows
            String.intercalate " " (toString out.length :: showRows out)
          | _ => "bad-op rows"
        | none => "bad-op rows"
      | _ => "bad-op schema"
    | none => "bad-op expr"
  | _ => "bad-op"

end YangVerif.Drv.C16
