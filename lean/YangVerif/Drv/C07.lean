/-
  Line-protocol handler for C07.
  c07 parse tok*                      → ok [a,b],[c] | error        tok = s<hex> | ( | ) | ; | /
  c07 window h<hex of the value of fc.range>   → ok <hex selector> <start> <end> | error      (Model/Window parseRange)
  c07 rows <start> <end> <n>                 → the indices of 0..n-1 the window lets through (Model/Window rowsOf)
  c07 proj <query> <target> <schema> <data>
     query  = d (-|n)  c (all|config|nonconfig)  f (-|k tok*)  x (-|k tok*)  t (0|1)  r (-|k tok* start (end|-))
     target = body | list
     schema = n node*     node = L hname cfg (-|h<hex>) | C hname cfg schema | K hname cfg schema
     data   = n item*     item = - | v hex | c- | c data | r k data*          (target list: k data*)
-/
import YangVerif.Model.Query
import YangVerif.Model.Window
import YangVerif.Model.Util
namespace YangVerif.Drv.C07
open YangVerif YangVerif.Query

abbrev P (α : Type) := List String → Option (α × List String)

def pTok (s : String) : Option PTok :=
  if s == "(" then some .lp else if s == ")" then some .rp else if s == ";" then some .semi
  else if s == "/" then some .slash
  else if s.startsWith "s" then (unhexStr (s.drop 1).toString).map PTok.seg else none

def pToks : Nat → P (List PTok)
  | 0, r => some ([], r)
  | k + 1, t :: r => match pTok t, pToks k r with
    | some x, some (xs, r') => some (x :: xs, r')
    | _, _ => none
  | _, [] => none

/-- an optional expression: `-` or `k tok*`; parsed by the model's parser; outer none = malformed line,
    inner none = the expression is rejected -/
def pExpr : P (Option (Option (List Path)))
  | "-" :: r => some (none, r)
  | k :: r => match k.toNat? with
    | some n => (pToks n r).map fun (ts, r') => (some (parseExpr ts), r')
    | none => none
  | [] => none

mutual
  def pSchema : Nat → P (List QS)
    | 0, _ => none
    | f + 1, n :: r => match n.toNat? with
      | some k => pNodes f k r
      | none => none
    | _, [] => none
  def pNodes : Nat → Nat → P (List QS)
    | 0, _, _ => none
    | _, 0, r => some ([], r)
    | f + 1, k + 1, r => match pNode f r with
      | some (x, r1) => (pNodes f k r1).map fun (xs, r2) => (x :: xs, r2)
      | none => none
  def pNode : Nat → P QS
    | 0, _ => none
    | _ + 1, "L" :: hn :: cfg :: d :: r =>
      let dv : Option (Option Val) := if d == "-" then some none else if d.startsWith "h" then (unhexStr (d.drop 1).toString).map some else none
      match unhexStr hn, dv with
      | some n, some dv => some (.leaf n (cfg == "1") dv, r)
      | _, _ => none
    | f + 1, "C" :: hn :: cfg :: r => match unhexStr hn, pSchema f r with
      | some n, some (ks, r') => some (.cont n (cfg == "1") ks, r')
      | _, _ => none
    | f + 1, "K" :: hn :: cfg :: r => match unhexStr hn, pSchema f r with
      | some n, some (ks, r') => some (.list n (cfg == "1") ks, r')
      | _, _ => none
    | _, _ => none
end

mutual
  def pData : Nat → P (List QD)
    | 0, _ => none
    | f + 1, n :: r => match n.toNat? with
      | some k => pItems f k r
      | none => none
    | _, [] => none
  def pItems : Nat → Nat → P (List QD)
    | 0, _, _ => none
    | _, 0, r => some ([], r)
    | f + 1, k + 1, r => match pItem f r with
      | some (x, r1) => (pItems f k r1).map fun (xs, r2) => (x :: xs, r2)
      | none => none
  def pItem : Nat → P QD
    | 0, _ => none
    | _ + 1, "-" :: r => some (.leaf none, r)
    | _ + 1, "c-" :: r => some (.cont none, r)
    | _ + 1, "v" :: h :: r => (unhexStr h).map fun s => (.leaf (some s), r)
    | f + 1, "c" :: r => (pData f r).map fun (b, r') => (.cont (some b), r')
    | f + 1, "r" :: k :: r => match k.toNat? with
      | some n => (pRows f n r).map fun (rows, r') => (.list rows, r')
      | none => none
    | _, _ => none
  def pRows : Nat → Nat → P (List (List QD))
    | 0, _, _ => none
    | _, 0, r => some ([], r)
    | f + 1, k + 1, r => match pData f r with
      | some (x, r1) => (pRows f k r1).map fun (xs, r2) => (x :: xs, r2)
      | none => none
end

mutual
  def showItem : QD → List String
    | .leaf none => ["-"]
    | .leaf (some t) => ["v", hexStr t]
    | .cont none => ["c-"]
    | .cont (some b) => "c" :: showData b
    | .list rows => "r" :: toString rows.length :: showRows rows
  def showData : List QD → List String
    | ds => toString ds.length :: showItems ds
  def showItems : List QD → List String
    | [] => []
    | d :: ds => showItem d ++ showItems ds
  def showRows : List (List QD) → List String
    | [] => []
    | b :: r => showData b ++ showRows r
end

def showPaths (ps : List Path) : String :=
  String.intercalate "," (ps.map fun p => "[" ++ String.intercalate "," p ++ "]")

def handle (toks : List String) : String :=
  match toks with
  | ["window", h] =>
    match unhexBytes (h.drop 1).toString with
    | some bs => match Window.parseRange bs with
      | some (sel, st, en) => s!"ok {hexBytes sel} {st} {en}"
      | none => "error"
    | none => "bad-op"
  | ["rows", st, en, n] =>
    match st.toInt?, en.toInt?, n.toNat? with
    | some st, some en, some n => " ".intercalate ("rows" :: (Window.rowsOf st en (List.range n)).map toString)
    | _, _, _ => "bad-op"
  | "parse" :: rest =>
    match pToks rest.length rest with
    | some (ts, []) => match parseExpr ts with
      | some ps => "ok " ++ showPaths ps
      | none => "error"
    | _ => "bad-op"
  | "proj" :: "d" :: d :: "c" :: c :: "f" :: rest =>
    let fuel := toks.length + 3
    let depth : Option (Option Nat) := if d == "-" then some none else d.toNat?.map some
    let content : Option Content := if c == "all" then some .all else if c == "config" then some .config
      else if c == "nonconfig" then some .nonconfig else none
    match depth, content, pExpr rest with
    | some depth, some content, some (fe, "x" :: rest1) =>
      match pExpr rest1 with
      | some (xe, "t" :: t :: "r" :: rest2) =>
        -- range: - | expr start end
        let rng : Option (Option (Option (List Path) × Nat × Option Nat) × List String) :=
          match rest2 with
          | "-" :: r => some (none, r)
          | _ => match pExpr rest2 with
            | some (some pe, s :: e :: r) => match s.toNat? with
              | some sn => if e == "-" then some (some (pe, sn, none), r) else (e.toNat?.map fun en => (some (pe, sn, some en), r))
              | none => none
            | _ => none
        match rng with
        | some (rg, target :: rest3) =>
          -- any rejected expression makes the request an error
          let bad := (fe == some none) || (xe == some none) || (match rg with | some (none, _, _) => true | _ => false)
          if bad then "error" else
          let q : Query := { depth := depth, content := content, fields := fe.bind id, xfields := xe.bind id, trim := t == "1",
                             range := rg.bind fun (pe, s, e) => pe.map fun ps => (ps, s, e) }
          match pSchema fuel rest3 with
          | some (ss, rest4) =>
            if target == "body" then
              match pData fuel rest4 with
              | some (ds, []) => "ok " ++ String.intercalate " " (showData (projTarget q ss ds))
              | _ => "bad-op data"
            else
              match rest4 with
              | k :: rest5 => match k.toNat? with
                | some n => match pRows fuel n rest5 with
                  | some (rows, []) =>
                    let out := projTargetList q ss rows
                    "ok " ++ String.intercalate " " (toString out.length :: showRows out)
                  | _ => "bad-op rows"
                | none => "bad-op rows"
              | [] => "bad-op rows"
          | none => "bad-op schema"
        | _ => "bad-op range"
      | _ => "bad-op x"
    | _, _, _ => "bad-op query"
  | _ => "bad-op"

end YangVerif.Drv.C07
