/-
  Line-protocol handler for C09.
  tokens: schema = n item*   item = L <hd|~> | C schema | X ncases schema*
          body   = n data*   data = l <hv|~> | c0 | c1 body | x ncases body*
  c09 edit ; schema ; src ; tgt   → "<body tokens> | onecase=<b> tgtonecase=<b>"
  c09 read ; schema ; body        → "<body tokens> | onecase=<b>"
-/
import YangVerif.Model.Choice
import YangVerif.Model.Util
namespace YangVerif.Drv.C09
open YangVerif YangVerif.Choice

def unh (s : String) : Option (Option String) :=
  if s == "~" then some none
  else if s.startsWith "h" then (unhexStr (s.drop 1).toString).map some
  else none

abbrev P (α : Type) := List String → Option (α × List String)

mutual
  def pSchemaList : Nat → P (List Schema)
    | 0, _ => none
    | f + 1, n :: r => match n.toNat? with
      | some k => pSchemaN f k r
      | none => none
    | _, [] => none
  def pSchemaN : Nat → Nat → P (List Schema)
    | 0, _, _ => none
    | _, 0, r => some ([], r)
    | f + 1, k + 1, r =>
      match pSchema f r with
      | some (s, r1) => match pSchemaN f k r1 with
        | some (ss, r2) => some (s :: ss, r2)
        | none => none
      | none => none
  def pSchema : Nat → P Schema
    | 0, _ => none
    | _ + 1, "L" :: d :: r => (unh d).map fun dv => (.leaf dv, r)
    | f + 1, "C" :: r => (pSchemaList f r).map fun (ks, r') => (.cont ks, r')
    | f + 1, "X" :: n :: r => match n.toNat? with
      | some nc => (pCasesS f nc r).map fun (cs, r') => (.choice cs, r')
      | none => none
    | _, _ => none
  def pCasesS : Nat → Nat → P (List (List Schema))
    | 0, _, _ => none
    | _, 0, r => some ([], r)
    | f + 1, k + 1, r =>
      match pSchemaList f r with
      | some (c, r1) => match pCasesS f k r1 with
        | some (cs, r2) => some (c :: cs, r2)
        | none => none
      | none => none
end

mutual
  def pBody : Nat → P (List Data)
    | 0, _ => none
    | f + 1, n :: r => match n.toNat? with
      | some k => pDataN f k r
      | none => none
    | _, [] => none
  def pDataN : Nat → Nat → P (List Data)
    | 0, _, _ => none
    | _, 0, r => some ([], r)
    | f + 1, k + 1, r =>
      match pData f r with
      | some (d, r1) => match pDataN f k r1 with
        | some (ds, r2) => some (d :: ds, r2)
        | none => none
      | none => none
  def pData : Nat → P Data
    | 0, _ => none
    | _ + 1, "l" :: v :: r => (unh v).map fun x => (.leaf x, r)
    | _ + 1, "c0" :: r => some (.cont none, r)
    | f + 1, "c1" :: r => (pBody f r).map fun (b, r') => (.cont (some b), r')
    | f + 1, "x" :: n :: r => match n.toNat? with
      | some nc => (pCasesD f nc r).map fun (cs, r') => (.choice cs, r')
      | none => none
    | _, _ => none
  def pCasesD : Nat → Nat → P (List (List Data))
    | 0, _, _ => none
    | _, 0, r => some ([], r)
    | f + 1, k + 1, r =>
      match pBody f r with
      | some (c, r1) => match pCasesD f k r1 with
        | some (cs, r2) => some (c :: cs, r2)
        | none => none
      | none => none
end

def hx (s : String) : String := "h" ++ hexStr s

mutual
  def showDatas : List Data → List String
    | [] => []
    | d :: r => showData d ++ showDatas r
  def showData : Data → List String
    | .leaf (some v) => ["l", hx v]
    | .leaf none => ["l", "~"]
    | .cont none => ["c0"]
    | .cont (some b) => "c1" :: toString b.length :: showDatas b
    | .choice cs => "x" :: toString cs.length :: showCases cs
  def showCases : List (List Data) → List String
    | [] => []
    | c :: r => (toString c.length :: showDatas c) ++ showCases r
end

def showBody (b : List Data) : String := " ".intercalate (toString b.length :: showDatas b)

def splitSemi (toks : List String) : List (List String) :=
  toks.foldr (fun t acc => if t == ";" then [] :: acc else match acc with
    | [] => [[t]]
    | h :: r => (t :: h) :: r) [[]]

def handle (toks : List String) : String :=
  let fuel := toks.length + 5
  match toks with
  | "edit" :: ";" :: rest =>
    match splitSemi rest with
    | [sc, src, tgt] =>
      match pSchemaList fuel sc, pBody fuel src, pBody fuel tgt with
      | some (ks, []), some (s, []), some (t, []) =>
        let r := editKids false ks s t
        s!"{showBody r} | onecase={oneCaseBody r} tgtonecase={oneCaseBody t} legacy={showBody (editKidsL false ks s t)}"
      | _, _, _ => "bad-op parse"
    | _ => "bad-op"
  | "read" :: ";" :: rest =>
    match splitSemi rest with
    | [sc, body] =>
      match pSchemaList fuel sc, pBody fuel body with
      | some (ks, []), some (b, []) =>
        let r := readOut ks b
        s!"{showBody r} | onecase={oneCaseBody r}"
      | _, _ => "bad-op parse"
    | _ => "bad-op"
  | _ => "bad-op"

end YangVerif.Drv.C09
