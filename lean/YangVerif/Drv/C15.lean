/-
  Line-protocol handler for C15.
  c15 str <hex utf8>              → hex utf8 of the quoted, escaped string as the writer emits it
  c15 doc <members>               → hex utf8 of the compact document       members = n member*
     member = L <hname> jval | C <hname> members | K <hname> nrows members*
     jval   = s <hex> | n <hextext> | t <hextext> | a k jval*
-/
import YangVerif.Model.Json
import YangVerif.Model.Util
namespace YangVerif.Drv.C15
open YangVerif YangVerif.Json

def scalarsOf (s : String) : Scalars := s.toList.map (·.toNat)
def stringOf (cs : Scalars) : String := String.ofList (cs.map Char.ofNat)

def quoted (s : Scalars) : String := "\"" ++ stringOf (escape s) ++ "\""

def tokText : Tok → String
  | .lbrace => "{" | .rbrace => "}" | .lbrack => "[" | .rbrack => "]" | .comma => "," | .colon => ":"
  | .str s => quoted s
  | .name n => "\"" ++ n ++ "\""
  | .num t => t
  | .lit t => t

abbrev P (α : Type) := List String → Option (α × List String)

mutual
  def pJVal : Nat → P JVal
    | 0, _ => none
    | _ + 1, "s" :: h :: r => (unhexStr h).map fun s => (.str (scalarsOf s), r)
    | _ + 1, "n" :: h :: r => (unhexStr h).map fun s => (.num s, r)
    | _ + 1, "t" :: h :: r => (unhexStr h).map fun s => (.lit s, r)
    | f + 1, "a" :: k :: r => match k.toNat? with
      | some n => (pJVals f n r).map fun (vs, r') => (.arr vs, r')
      | none => none
    | _, _ => none
  def pJVals : Nat → Nat → P (List JVal)
    | 0, _, _ => none
    | _, 0, r => some ([], r)
    | f + 1, k + 1, r => match pJVal f r with
      | some (v, r1) => (pJVals f k r1).map fun (vs, r2) => (v :: vs, r2)
      | none => none
end

mutual
  def pMembers : Nat → P (List Member)
    | 0, _ => none
    | f + 1, n :: r => match n.toNat? with
      | some k => pMemberN f k r
      | none => none
    | _, [] => none
  def pMemberN : Nat → Nat → P (List Member)
    | 0, _, _ => none
    | _, 0, r => some ([], r)
    | f + 1, k + 1, r => match pMember f r with
      | some (m, r1) => (pMemberN f k r1).map fun (ms, r2) => (m :: ms, r2)
      | none => none
  def pMember : Nat → P Member
    | 0, _ => none
    | f + 1, "L" :: h :: r => match unhexStr h, pJVal f r with
      | some n, some (v, r') => some (.leaf n v, r')
      | _, _ => none
    | f + 1, "C" :: h :: r => match unhexStr h, pMembers f r with
      | some n, some (b, r') => some (.cont n b, r')
      | _, _ => none
    | f + 1, "K" :: h :: k :: r => match unhexStr h, k.toNat? with
      | some n, some nrows => (pRowsM f nrows r).map fun (rows, r') => (.list n rows, r')
      | _, _ => none
    | _, _ => none
  def pRowsM : Nat → Nat → P (List (List Member))
    | 0, _, _ => none
    | _, 0, r => some ([], r)
    | f + 1, k + 1, r => match pMembers f r with
      | some (row, r1) => (pRowsM f k r1).map fun (rows, r2) => (row :: rows, r2)
      | none => none
end

def handle (toks : List String) : String :=
  match toks with
  | ["str", h] =>
    match unhexStr h with
    | some s => hexStr (quoted (scalarsOf s))
    | none => "bad-op"
  | "doc" :: rest =>
    match pMembers (toks.length + 3) rest with
    | some (ms, []) =>
      match writeDoc ms with
      | some toks => hexStr (String.join (toks.map tokText))
      | none => "writer-stuck"
    | _ => "bad-op parse"
  | _ => "bad-op"

end YangVerif.Drv.C15
