/-
  Line-protocol handler for C17.  The model run here is `cmpInt` at the shape the
  extractor found in /repo (Gen.compareTable); the spec is the mathematical sign.
-/
import YangVerif.Model.Compare
import YangVerif.Gen.CompareTable
namespace YangVerif.Drv.C17
open YangVerif YangVerif.Compare

def shapeOf (recv : String) : Shape :=
  match Gen.compareTable.find? (·.1 == recv) with
  | some e => e.2
  | none => .opaque

def fmtOpt : Option Int → String
  | some i => toString (signOf i)
  | none => "opaque"

/-- insertion sort by the model comparator (sort.Sort contract: a permutation sorted w.r.t. `Less`) -/
def insertBy (lt : Int → Int → Bool) (x : Int) : List Int → List Int
  | [] => [x]
  | y :: ys => if lt x y then x :: y :: ys else y :: insertBy lt x ys

def sortBy (lt : Int → Int → Bool) (xs : List Int) : List Int := xs.foldl (fun acc x => insertBy lt x acc) []

def handle (toks : List String) : String :=
  match toks with
  | ["cmp", recv, xs, ys] =>
    match xs.toInt?, ys.toInt? with
    | some x, some y =>
      let model := cmpInt (shapeOf recv) x y
      let spec := signOf (x - y)
      s!"{fmtOpt model} {spec}"
    | _, _ => "bad-op"
  | ["lex", recv, xs, ys] =>
    match unhexBytes xs, unhexBytes ys with
    | some x, some y =>
      let model := if shapeOf recv == .lex then some (lexCmp x y) else none
      s!"{fmtOpt model} {signOf (lexCmp x y)}"
    | _, _ => "bad-op"
  | ["bool", xs, ys] =>
    let x := xs == "1"; let y := ys == "1"
    let model := if shapeOf "Bool" == .boolThreeWay then some (boolCmp x y) else none
    s!"{fmtOpt model} {signOf ((if x then 1 else 0) - (if y then 1 else 0) : Int)}"
  | "find" :: recv :: keyS :: rest =>
    -- single-component integer keys; entries given in stored order
    match keyS.toInt?, rest.mapM (·.toInt?) with
    | some key, some ks =>
      let sh := shapeOf recv
      let cmp := fun (a b : Int) => (cmpInt sh a b).getD 0
      let sorted := sortBy (fun a b => cmp a b < 0) ks
      let model := match sorterFind cmp (sorted.map ([·])) [key] with
        | some i => toString (sorted.getD i 0)
        | none => "none"
      let spec := if ks.contains key then toString key else "none"
      s!"{model} {spec}"
    | _, _ => "bad-op"
  | _ => "bad-op"

end YangVerif.Drv.C17
