/-
  Line-protocol handler for C10: the model is `convInt` over the tables regenerated
  from /repo/val/conv.go; the spec is "the denoted integer if it lies in the target's
  range, otherwise an error".
-/
import YangVerif.Model.Conv
import YangVerif.Gen.ConvTable
namespace YangVerif.Drv.C10
open YangVerif YangVerif.Conv

def goInt? : String → Option GoInt
  | "int8" => some .i8 | "int16" => some .i16 | "int32" => some .i32 | "int64" => some .i64 | "int" => some .int
  | "uint8" => some .u8 | "uint16" => some .u16 | "uint32" => some .u32 | "uint64" => some .u64 | "uint" => some .uint
  | _ => none

def showOut : Out → String
  | .ok r => s!"ok:{r}"
  | .err => "err"
  | .unspecified => "unspecified"

def spec (target : GoInt) (s : Src) : String :=
  match s.denoteInt target.signed with
  | some r => if target.inRange r then s!"ok:{r}" else "err"
  | none => "err"

def model (target : GoInt) (s : Src) : String :=
  showOut (convInt Gen.toInt64Table Gen.toUInt64Table Gen.narrowTable target s)

def decModel (k : GoInt) (v : Int) : String :=
  match lookupShape Gen.toDecimal64Table (.int k) with
  | some sh => showOut (runToFloat sh v)
  | none => "err"

def handle (toks : List String) : String :=
  match toks with
  | ["int", t, k, v] =>
    match goInt? t, goInt? k, v.toInt? with
    | some t, some k, some v => let s := Src.int k v; s!"{model t s} {spec t s}"
    | _, _, _ => "bad-op"
  | ["float", t, m, e] =>
    match goInt? t, m.toInt?, e.toInt? with
    | some t, some m, some e => let s := Src.float m e; s!"{model t s} {spec t s}"
    | _, _, _ => "bad-op"
  | ["str", t, h] =>
    match goInt? t, unhexStr h with
    | some t, some str => let s := Src.str str; s!"{model t s} {spec t s}"
    | _, _ => "bad-op"
  | ["dec", k, v] =>
    match goInt? k, v.toInt? with
    | some k, some v => s!"{decModel k v} {if representable53 v then s!"ok:{v}" else "err"}"
    | _, _ => "bad-op"
  | ["bool", h] =>
    match unhexStr h with
    | some str =>
      let r := match Conv.toBool (Src.str str) with | some true => "ok:1" | some false => "ok:0" | none => "err"
      s!"{r} {r}"
    | none => "bad-op"
  | _ => "bad-op"

end YangVerif.Drv.C10
