/-
  Line-protocol handler for C19.
  c19 esc <hex utf8>                                  → hex utf8 of escapeText, then hex of unescapeText of that
  c19 doc <mode> <hroot> <hns> <schema> <data>        → hex utf8 of the document; mode = tree | stream | pretty
  c19 read <schema> <elems>                           → data tokens of what XmlNode presents
     schema = n node*      node = L hname hns | A hname hns | C hname hns schema | K hname hns schema
     data   = n item*      item = - | v hex | a k hex* | c data | r k data*      (aligned with the schema)
     elems  = n elem*      elem = E hname hns hextext elems
-/
import YangVerif.Model.Xml
import YangVerif.Model.Util
namespace YangVerif.Drv.C19
open YangVerif YangVerif.Xml

def textOf (s : String) : Text := s.toList.map (·.toNat)
def strOf (t : Text) : String := String.ofList (t.map Char.ofNat)

abbrev P (α : Type) := List String → Option (α × List String)

def pCount (p : Nat → P α) : Nat → Nat → P (List α)
  | 0, _, _ => none
  | _, 0, r => some ([], r)
  | f + 1, k + 1, r => match p f r with
    | some (x, r1) => (pCount p f k r1).map fun (xs, r2) => (x :: xs, r2)
    | none => none

def pHexes : Nat → P (List Text)
  | 0, r => some ([], r)
  | k + 1, h :: r => match unhexStr h, pHexes k r with
    | some s, some (xs, r') => some (textOf s :: xs, r')
    | _, _ => none
  | _, [] => none

mutual
  def pSchema : Nat → P (List XS)
    | 0, _ => none
    | f + 1, n :: r => match n.toNat? with
      | some k => pNodes f k r
      | none => none
    | _, [] => none
  def pNodes : Nat → Nat → P (List XS)
    | 0, _, _ => none
    | _, 0, r => some ([], r)
    | f + 1, k + 1, r => match pNode f r with
      | some (x, r1) => (pNodes f k r1).map fun (xs, r2) => (x :: xs, r2)
      | none => none
  def pNode : Nat → P XS
    | 0, _ => none
    | _ + 1, "L" :: hn :: hs :: r => match unhexStr hn, unhexStr hs with
      | some n, some s => some (.leaf ⟨n, s⟩, r)
      | _, _ => none
    | _ + 1, "A" :: hn :: hs :: r => match unhexStr hn, unhexStr hs with
      | some n, some s => some (.leafList ⟨n, s⟩, r)
      | _, _ => none
    | f + 1, "C" :: hn :: hs :: r => match unhexStr hn, unhexStr hs, pSchema f r with
      | some n, some s, some (ks, r') => some (.cont ⟨n, s⟩ ks, r')
      | _, _, _ => none
    | f + 1, "K" :: hn :: hs :: r => match unhexStr hn, unhexStr hs, pSchema f r with
      | some n, some s, some (ks, r') => some (.list ⟨n, s⟩ ks, r')
      | _, _, _ => none
    | _, _ => none
end

mutual
  def pData : Nat → P (List XD)
    | 0, _ => none
    | f + 1, n :: r => match n.toNat? with
      | some k => pItems f k r
      | none => none
    | _, [] => none
  def pItems : Nat → Nat → P (List XD)
    | 0, _, _ => none
    | _, 0, r => some ([], r)
    | f + 1, k + 1, r => match pItem f r with
      | some (x, r1) => (pItems f k r1).map fun (xs, r2) => (x :: xs, r2)
      | none => none
  def pItem : Nat → P XD
    | 0, _ => none
    | _ + 1, "-" :: r => some (.leaf none, r)
    | _ + 1, "c-" :: r => some (.cont none, r)
    | _ + 1, "v" :: h :: r => (unhexStr h).map fun s => (.leaf (some (textOf s)), r)
    | _ + 1, "a" :: k :: r => match k.toNat? with
      | some n => (pHexes n r).map fun (vs, r') => (.leafList vs, r')
      | none => none
    | f + 1, "c" :: r => (pData f r).map fun (b, r') => (.cont (some b), r')
    | f + 1, "r" :: k :: r => match k.toNat? with
      | some n => (pRows f n r).map fun (rows, r') => (.list rows, r')
      | none => none
    | _, _ => none
  def pRows : Nat → Nat → P (List (List XD))
    | 0, _, _ => none
    | _, 0, r => some ([], r)
    | f + 1, k + 1, r => match pData f r with
      | some (x, r1) => (pRows f k r1).map fun (xs, r2) => (x :: xs, r2)
      | none => none
end

mutual
  def pElems : Nat → P (List Elem)
    | 0, _ => none
    | f + 1, n :: r => match n.toNat? with
      | some k => pElemN f k r
      | none => none
    | _, [] => none
  def pElemN : Nat → Nat → P (List Elem)
    | 0, _, _ => none
    | _, 0, r => some ([], r)
    | f + 1, k + 1, r => match pElem f r with
      | some (x, r1) => (pElemN f k r1).map fun (xs, r2) => (x :: xs, r2)
      | none => none
  def pElem : Nat → P Elem
    | 0, _ => none
    | f + 1, "E" :: hn :: hs :: ht :: r => match unhexStr hn, unhexStr hs, unhexStr ht, pElems f r with
      | some n, some s, some t, some (ks, r') => some (.mk ⟨n, s⟩ (textOf t) ks, r')
      | _, _, _, _ => none
    | _, _ => none
end

mutual
  def showItem : XS → XD → List String
    | .leaf _, .leaf none => ["-"]
    | .leaf _, .leaf (some t) => ["v", hexStr (strOf t)]
    | .leafList _, .leafList vs => "a" :: toString vs.length :: vs.map fun t => hexStr (strOf t)
    | .cont _ _, .cont none => ["c-"]
    | .cont _ ks, .cont (some b) => "c" :: showData ks b
    | .list _ ks, .list rows => "r" :: toString rows.length :: showRows ks rows
    | _, _ => ["?"]
  def showData : List XS → List XD → List String
    | ss, ds => toString ds.length :: showItems ss ds
  def showItems : List XS → List XD → List String
    | s :: ss, d :: ds => showItem s d ++ showItems ss ds
    | _, _ => []
  def showRows : List XS → List (List XD) → List String
    | _, [] => []
    | ks, b :: r => showData ks b ++ showRows ks r
end

def tokText : Tok → String
  | .open loc none => "<" ++ loc ++ ">"
  | .open loc (some ns) => "<" ++ loc ++ " xmlns=\"" ++ ns ++ "\">"
  | .close loc => "</" ++ loc ++ ">"
  | .text t => strOf (escapeText t)
  | .ws d => strOf (indent d)

def handle (toks : List String) : String :=
  match toks with
  | ["esc", h] =>
    match unhexStr h with
    | some s =>
      let e := escapeText (textOf s)
      hexStr (strOf e) ++ " " ++ (match unescapeText e with
        | some t => hexStr (strOf t)
        | none => "not-chardata")
    | none => "bad-op"
  | "doc" :: mode :: hroot :: hns :: rest =>
    let fuel := toks.length + 3
    match unhexStr hroot, unhexStr hns, pSchema fuel rest with
    | some rn, some rns, some (ss, rest') =>
      match pData fuel rest' with
      | some (ds, []) =>
        if !confBody ss ds then "bad-op shape" else
        let root : QName := ⟨rn, rns⟩
        let out : Option (List Tok) :=
          if mode == "tree" then
            match buildAll [(root, [])] (events root.ns ss ds) with
            | some [(q, ks)] => some (render "" (.mk q [] ks))
            | _ => none
          else if mode == "stream" then
            some (.open root.loc (some root.ns) :: streamAll (events root.ns ss ds) ++ [.close root.loc])
          else if mode == "pretty" then
            match buildAll [(root, [])] (events root.ns ss ds) with
            | some [(q, ks)] => some (renderP 0 "" (.mk q [] ks))
            | _ => none
          else none
        match out with
        | some ts => (if okBody ss then "ok " else "dup ") ++ hexStr (String.join (ts.map tokText))
        | none => "writer-stuck"
      | _ => "bad-op data"
    | _, _, _ => "bad-op schema"
  | "read" :: rest =>
    let fuel := toks.length + 3
    match pSchema fuel rest with
    | some (ss, rest') =>
      match pElems fuel rest' with
      | some (es, []) => String.intercalate " " (showData ss (readBody ss es))
      | _ => "bad-op elems"
    | none => "bad-op schema"
  | _ => "bad-op"

end YangVerif.Drv.C19
