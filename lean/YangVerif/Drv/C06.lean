/-
  Line-protocol handler for C06.
  c06 arg <hex utf8 of the argument as written, up to and including the terminating ; or {>
      → <hex value> <hex rest> | none
  c06 ws <hex>   → hex of what is left after white space and comments
-/
import YangVerif.Model.YangStr
import YangVerif.Model.Util
namespace YangVerif.Drv.C06
open YangVerif YangVerif.YStr

def textOf (s : String) : Text := s.toList.map (·.toNat)
def strOf (t : Text) : String := String.ofList (t.map Char.ofNat)

def handle (toks : List String) : String :=
  match toks with
  | ["arg", h] =>
    match unhexStr h with
    | some s =>
      let cs := textOf s
      match lexQuoted (cs.length + 1) cs with
      | some (v, rest) => hexStr (strOf v) ++ " " ++ hexStr (strOf rest)
      | none => "none"
    | none => "bad-op"
  | ["ws", h] =>
    match unhexStr h with
    | some s => let cs := textOf s; hexStr (strOf (skipWS (cs.length + 1) cs))
    | none => "bad-op"
  | _ => "bad-op"

end YangVerif.Drv.C06
