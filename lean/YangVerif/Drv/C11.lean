/-
  Line-protocol handler for C11.
  c11 eval <exprhex> <enabled,csv|->            → "<model>"            (1 / 0 / err)   model = evaluate ∘ tokenize
  c11 ast <prefix ast tokens…> ; <exprhex> <enabled|->  → "<model> <spec>"   spec = RFC meaning of the AST
     prefix ast: & x y | x y ! x  name
  c11 legacy <exprhex> <enabled>                → legacy evaluator (pinned tree), for the witness replay
-/
import YangVerif.Model.IfFeature
import YangVerif.Model.CaseIndex
import YangVerif.Model.Util
namespace YangVerif.Drv.C11
open YangVerif YangVerif.IfFeature

inductive Ast
  | feat (s : String)
  | not (a : Ast)
  | and (a b : Ast)
  | or (a b : Ast)

def Ast.sem (env : String → Bool) : Ast → Bool
  | .feat s => env s
  | .not a => !a.sem env
  | .and a b => a.sem env && b.sem env
  | .or a b => a.sem env || b.sem env

def parsePrefix : Nat → List String → Option (Ast × List String)
  | 0, _ => none
  | _, [] => none
  | f + 1, "!" :: r => (parsePrefix f r).map fun (a, r') => (.not a, r')
  | f + 1, "&" :: r => do
    let (a, r1) ← parsePrefix f r
    let (b, r2) ← parsePrefix f r1
    pure (.and a b, r2)
  | f + 1, "|" :: r => do
    let (a, r1) ← parsePrefix f r
    let (b, r2) ← parsePrefix f r1
    pure (.or a b, r2)
  | _ + 1, n :: r => some (.feat n, r)

def envOf (csv : String) : String → Bool :=
  let on := if csv == "-" then [] else csv.splitOn ","
  fun s => on.contains s

def showR : Option Bool → String
  | some true => "1"
  | some false => "0"
  | none => "err"

/-- `caseindex <ncases> (name implied nnodes (name on)*)*`: names are plain identifiers -/
def pNodes : Nat → List String → Option (List CaseIndex.CNode × List String)
  | 0, r => some ([], r)
  | n + 1, nm :: on :: r => match pNodes n r with
    | some (xs, r') => some (⟨nm, on == "1"⟩ :: xs, r')
    | none => none
  | _, _ => none

def pCases : Nat → Nat → List String → Option (List CaseIndex.Case × List String)
  | 0, _, _ => none
  | _, 0, r => some ([], r)
  | f + 1, n + 1, nm :: imp :: k :: r => match k.toNat? with
    | some k => match pNodes k r with
      | some (nodes, r1) => match pCases f n r1 with
        | some (cs, r2) => some (⟨nm, imp == "1", nodes⟩ :: cs, r2)
        | none => none
      | none => none
    | none => none
  | _, _, _ => none

def handle (toks : List String) : String :=
  match toks with
  | ["eval", h, en] =>
    match unhexStr h with
    | some e =>
      let toks := tokenize e
      let env := envOf en
      let spec := match parseRFC toks with
        | some o => showR (some (o.sem env))
        | none => "err"
      s!"{showR (evaluate env toks)} {spec}"
    | none => "bad-op"
  | "caseindex" :: n :: rest =>
    match n.toNat? with
    | some n => match pCases (toks.length + 1) n rest with
      | some (cs, []) =>
        s!"cases {",".intercalate ((CaseIndex.enterChoice cs).map (·.name))} index {",".intercalate (CaseIndex.holderIndex cs)}"
      | _ => "bad-op"
    | none => "bad-op"
  | ["legacy", h, en] =>
    match unhexStr h with
    | some e => showR (evaluateLegacy (envOf en) (tokenize e))
    | none => "bad-op"
  | "ast" :: rest =>
    let astToks := rest.takeWhile (· ≠ ";")
    match rest.dropWhile (· ≠ ";") with
    | [";", h, en] =>
      match parsePrefix (astToks.length + 1) astToks, unhexStr h with
      | some (a, []), some e =>
        let env := envOf en
        s!"{showR (evaluate env (tokenize e))} {showR (some (a.sem env))}"
      | _, _ => "bad-op"
    | _ => "bad-op"
  | _ => "bad-op"

end YangVerif.Drv.C11
