/-
  Line-protocol handler for the shared data/editor model (C03 C18 C08 …).

  tokens (see harness/gen): schema  = n item*      item = L <hdflt|~> | C schema | K nkeys schema
                            body    = n data*      data = l <hval|~> | c0 | c1 body | r n (nk hkey* body)*
  data kids <upsert|insert|update> ; schema ; srcbody ; tgtbody      → "<model> | <spec>"
  data rows <strategy> ; schema ; r… ; r…                              → editor.list entered at a list
  data ops ; schema ; body ; op ; op …                                  → statuses and final body
     op = U body | I body | P body | DC i | DR i nk hkey* | R i data
  data entry ; schema ; nk hkey* ; docbody ; entrybody                  → edit addressed at one entry (Model/EntryKey)
  data find ; schema ; body ; nseg (i nk hkey*)*                        → Model/Find: "found body <leaf views>" | "found rows <keys>" |
                                                                          "found leaf <v>" | "none" | "notFound" | "bad"
-/
import YangVerif.Model.Data
import YangVerif.Model.EntryKey
import YangVerif.Model.Find
import YangVerif.Model.Util
namespace YangVerif.Drv.Data
open YangVerif YangVerif.Data

def unh (s : String) : Option (Option String) :=
  if s == "~" then some none
  else if s.startsWith "h" then (unhexStr (s.drop 1).toString).map some
  else none

abbrev P (α : Type) := List String → Option (α × List String)

mutual
  def pSchemaList : Nat → P (List Schema)
    | 0, _ => none
    | f + 1, n :: r => match n.toNat? with
      | some k => pSchemaN f k r
      | none => none
    | _, [] => none
  def pSchemaN : Nat → Nat → P (List Schema)
    | 0, _, _ => none
    | _, 0, r => some ([], r)
    | f + 1, k + 1, r =>
      match pSchema f r with
      | some (s, r1) => match pSchemaN f k r1 with
        | some (ss, r2) => some (s :: ss, r2)
        | none => none
      | none => none
  def pSchema : Nat → P Schema
    | 0, _ => none
    | _ + 1, "L" :: d :: r => (unh d).map fun dv => (.leaf dv, r)
    | f + 1, "C" :: r => (pSchemaList f r).map fun (ks, r') => (.cont ks, r')
    | f + 1, "K" :: n :: r => match n.toNat? with
      | some nk => (pSchemaList f r).map fun (ks, r') => (.list nk ks, r')
      | none => none
    | _, _ => none
end

def pKeys : Nat → P (List String)
  | 0, r => some ([], r)
  | k + 1, h :: r => match unh h, pKeys k r with
    | some (some s), some (ks, r') => some (s :: ks, r')
    | _, _ => none
  | _, [] => none

mutual
  def pBody : Nat → P (List Data)
    | 0, _ => none
    | f + 1, n :: r => match n.toNat? with
      | some k => pDataN f k r
      | none => none
    | _, [] => none
  def pDataN : Nat → Nat → P (List Data)
    | 0, _, _ => none
    | _, 0, r => some ([], r)
    | f + 1, k + 1, r =>
      match pData f r with
      | some (d, r1) => match pDataN f k r1 with
        | some (ds, r2) => some (d :: ds, r2)
        | none => none
      | none => none
  def pData : Nat → P Data
    | 0, _ => none
    | _ + 1, "l" :: v :: r => (unh v).map fun x => (.leaf x, r)
    | _ + 1, "c0" :: r => some (.cont none, r)
    | f + 1, "c1" :: r => (pBody f r).map fun (b, r') => (.cont (some b), r')
    | f + 1, "r" :: n :: r => match n.toNat? with
      | some k => (pRows f k r).map fun (rows, r') => (.list rows, r')
      | none => none
    | _, _ => none
  def pRows : Nat → Nat → P (List (Key × List Data))
    | 0, _, _ => none
    | _, 0, r => some ([], r)
    | f + 1, k + 1, nk :: r =>
      match nk.toNat? with
      | some nkeys =>
        match pKeys nkeys r with
        | some (key, r1) =>
          match pBody f r1 with
          | some (b, r2) => match pRows f k r2 with
            | some (rows, r3) => some ((key, b) :: rows, r3)
            | none => none
          | none => none
        | none => none
      | none => none
    | _, _, _ => none
end

def hx (s : String) : String := "h" ++ hexStr s
def showOpt : Option String → String
  | some s => hx s
  | none => "~"

mutual
  def showBody : List Data → List String
    | ds => toString ds.length :: showDatas ds
  def showDatas : List Data → List String
    | [] => []
    | d :: r => showData d ++ showDatas r
  def showData : Data → List String
    | .leaf v => ["l", showOpt v]
    | .cont none => ["c0"]
    | .cont (some b) => "c1" :: toString b.length :: showDatas b
    | .list rows => "r" :: toString rows.length :: showRows rows
  def showRows : List (Key × List Data) → List String
    | [] => []
    | (k, b) :: r => (toString k.length :: k.map hx) ++ (toString b.length :: showDatas b) ++ showRows r
end

def showErr : Err → String
  | .conflict => "conflict" | .notFound => "notFound" | .shape => "shape"

def showRes : Except Err (List Data) → String
  | .ok b => "ok " ++ " ".intercalate (showBody b)
  | .error e => "err " ++ showErr e

def strategy? : String → Option Strategy
  | "upsert" => some .upsert | "insert" => some .insert | "update" => some .update | _ => none

/-- the specification's answer -/
def specKids (st : Strategy) (ks : List Schema) (src tgt : List Data) : Except Err (List Data) :=
  match st with
  | .upsert => .ok (mergeKids ks src tgt)
  | .insert => if insertOKKids ks src tgt then .ok (mergeKids ks src tgt) else .error .conflict
  | .update => if updateOKKids ks src tgt then .ok (mergeKids ks src tgt) else .error .notFound

def splitSemi (toks : List String) : List (List String) :=
  toks.foldr (fun t acc => if t == ";" then [] :: acc else match acc with
    | [] => [[t]]
    | h :: r => (t :: h) :: r) [[]]

def parseOp (f : Nat) (ks : List Schema) : List String → Option Op
  | "U" :: r => match pBody f r with | some (b, []) => some (.upsert b) | _ => none
  | "I" :: r => match pBody f r with | some (b, []) => some (.insert b) | _ => none
  | "P" :: r => match pBody f r with | some (b, []) => some (.update b) | _ => none
  | ["DC", i] => i.toNat?.map .delChild
  | "DR" :: i :: nk :: r => match i.toNat?, nk.toNat? with
    | some i, some nk => match pKeys nk r with
      | some (k, []) => some (.delRow i k)
      | _ => none
    | _, _ => none
  | "RR" :: i :: nk :: r => match i.toNat?, nk.toNat? with
    | some i, some nk => match pKeys nk r with
      | some (k, r') => match pBody f r' with
        | some (b, []) => some (.replaceRow i k b)
        | _ => none
      | none => none
    | _, _ => none
  | "R" :: i :: r => match i.toNat? with
    | some i => match pData f r with
      | some (d, []) => some (.replace i d)
      | _ => none
    | none => none
  | _ => none

def opStatus (ks : List Schema) (body : List Data) : Op → String
  | .upsert doc => match editKids .upsert false ks doc body with | .ok _ => "ok" | .error e => showErr e
  | .insert doc => match editKids .insert false ks doc body with | .ok _ => "ok" | .error e => showErr e
  | .update doc => match editKids .update false ks doc body with | .ok _ => "ok" | .error e => showErr e
  | .replace i d => match replaceChild ks i d body with | .ok _ => "ok" | .error e => showErr e
  | _ => "ok"

/-- the leaves of a selected node as `Get` reads them: value, else default -/
def leafViews : List Schema → List Data → List String
  | .leaf d :: ss, .leaf v :: ds => showOpt (match v with | some x => some x | none => d) :: leafViews ss ds
  | _ :: ss, _ :: ds => "-" :: leafViews ss ds
  | _, _ => []

def pSegs : Nat → P (List Find.Seg)
  | 0, r => some ([], r)
  | n + 1, i :: nk :: r => match i.toNat?, nk.toNat? with
    | some i, some nk => match pKeys nk r with
      | some (k, r1) => match pSegs n r1 with
        | some (ss, r2) => some (⟨i, k⟩ :: ss, r2)
        | none => none
      | none => none
    | _, _ => none
  | _, _ => none

def showFind : Find.Res → String
  | .found (.body ks b) => "found body " ++ " ".intercalate (leafViews ks b)
  | .found (.rows _ rows) => "found rows " ++ " ".intercalate (rows.map fun r => ",".intercalate (r.1.map hx))
  | .found (.leaf v) => "found leaf " ++ showOpt v
  | .none => "none"
  | .notFound => "notFound"
  | .bad => "bad"

def handle (toks : List String) : String :=
  let fuel := toks.length + 5
  match toks with
  | "kids" :: st :: ";" :: rest =>
    match strategy? st, splitSemi rest with
    | some st, [sc, src, tgt] =>
      match pSchemaList fuel sc, pBody fuel src, pBody fuel tgt with
      | some (ks, []), some (s, []), some (t, []) =>
        s!"{showRes (editKids st false ks s t)} | {showRes (specKids st ks s t)}"
      | _, _, _ => "bad-op parse"
    | _, _ => "bad-op"
  | "rows" :: st :: ";" :: rest =>
    match strategy? st, splitSemi rest with
    | some st, [sc, src, tgt] =>
      match pSchemaList fuel sc, pData fuel src, pData fuel tgt with
      | some (ks, []), some (.list s, []), some (.list t, []) =>
        let show' : Except Err (List (Key × List Data)) → String
          | .ok rows => "ok " ++ " ".intercalate (showData (.list rows))
          | .error e => "err " ++ showErr e
        s!"{show' (editRows st ks s t)} | {show' (editRows st ks s t)}"
      | _, _, _ => "bad-op parse"
    | _, _ => "bad-op"
  | "entry" :: ";" :: rest =>
    match splitSemi rest with
    | [sc, nk :: key, doc, body] =>
      match pSchemaList fuel sc, nk.toNat?, pBody fuel doc, pBody fuel body with
      | some (ks, []), some n, some (d, []), some (b, []) =>
        match pKeys n key with
        | some (k, []) => showRes (editEntry ks k d b)
        | _ => "bad-op key"
      | _, _, _, _ => "bad-op parse"
    | _ => "bad-op"
  | "find" :: ";" :: rest =>
    match splitSemi rest with
    | [sc, body, n :: segs] =>
      match pSchemaList fuel sc, pBody fuel body, n.toNat? with
      | some (ks, []), some (b, []), some n =>
        match pSegs n segs with
        | some (p, []) => showFind (Find.find ks b p)
        | _ => "bad-op segs"
      | _, _, _ => "bad-op parse"
    | _ => "bad-op"
  | "ops" :: ";" :: rest =>
    match splitSemi rest with
    | sc :: body :: ops =>
      match pSchemaList fuel sc, pBody fuel body with
      | some (ks, []), some (b, []) =>
        let (final, statuses, bad) := ops.foldl (fun (acc : List Data × List String × Bool) o =>
          match parseOp fuel ks o with
          | some op => (step ks acc.1 op, acc.2.1 ++ [opStatus ks acc.1 op], acc.2.2)
          | none => (acc.1, acc.2.1, true)) (b, [], false)
        if bad then "bad-op parse-op" else
        s!"{",".intercalate statuses} ok {" ".intercalate (showBody final)} | uniq={uniqueKeysBody final} conf={conformsBody ks final}"
      | _, _ => "bad-op parse"
    | _ => "bad-op"
  | _ => "bad-op"

end YangVerif.Drv.Data
