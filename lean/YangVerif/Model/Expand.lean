/-
  Specification of schema expansion (C01): RFC 7950 §7.12 (grouping), §7.13 (uses, refine, uses-augment),
  §7.17 (augment) and §7.21.1 (config inheritance), as a function from the factored syntax to the
  expanded tree.  meta/resolver.go is compared with it on generated module sets.
-/
namespace YangVerif.Expand

/-- the properties a node may state and a refine may override; none = not stated -/
structure P where
  config : Option Bool := none
  desc : Option String := none
  dflt : Option String := none
  mandatory : Option Bool := none
  minEl : Option Nat := none
  maxEl : Option Nat := none
  presence : Option String := none
deriving DecidableEq, Repr, Inhabited

/-- what a refine states wins, the rest stays -/
def P.patch (base patch : P) : P :=
  { config := patch.config.orElse fun _ => base.config,
    desc := patch.desc.orElse fun _ => base.desc,
    dflt := patch.dflt.orElse fun _ => base.dflt,
    mandatory := patch.mandatory.orElse fun _ => base.mandatory,
    minEl := patch.minEl.orElse fun _ => base.minEl,
    maxEl := patch.maxEl.orElse fun _ => base.maxEl,
    presence := patch.presence.orElse fun _ => base.presence }

inductive Kind | cont | list
deriving DecidableEq, Repr, Inhabited

abbrev Path := List String

/-- factored syntax -/
inductive N
  | leaf (name : String) (p : P)
  | node (k : Kind) (name : String) (p : P) (kids : List N)
  | uses (g : String) (refines : List (Path × P)) (augs : List (Path × List N))
deriving Repr, Inhabited

/-- expanded tree: no uses left -/
inductive T
  | leaf (name : String) (p : P)
  | node (k : Kind) (name : String) (p : P) (kids : List T)
deriving Repr, Inhabited

def T.name : T → String
  | .leaf n _ => n | .node _ n _ _ => n

abbrev Env := List (String × List N)

def lookupG (g : String) : Env → Option (List N)
  | [] => none
  | (n, b) :: r => if n = g then some b else lookupG g r

mutual
  /-- apply `f` to the node at `path` below the siblings `ts` (first match by name); no such node: unchanged -/
  def atPath (f : T → T) : Path → List T → List T
    | [], ts => ts
    | _, [] => []
    | [n], t :: ts => if t.name = n then f t :: ts else t :: atPath f [n] ts
    | n :: m :: rest, t :: ts =>
      if t.name = n then atKids f (m :: rest) t :: ts else t :: atPath f (n :: m :: rest) ts
  def atKids (f : T → T) (path : Path) : T → T
    | .leaf n p => .leaf n p
    | .node k n p kids => .node k n p (atPath f path kids)
end

def patchT (patch : P) : T → T
  | .leaf n p => .leaf n (p.patch patch)
  | .node k n p kids => .node k n (p.patch patch) kids

def appendKids (more : List T) : T → T
  | .leaf n p => .leaf n p
  | .node k n p kids => .node k n p (kids ++ more)

def applyRefine (ts : List T) (r : Path × P) : List T := atPath (patchT r.2) r.1 ts

mutual
  /-- a private copy of the grouping's nodes for every uses, refined, then augmented; fuel bounds the
      nesting of groupings (a grouping that uses itself has no expansion) -/
  def expandN (env : Env) : Nat → N → List T
    | _, .leaf n p => [.leaf n p]
    | f, .node k n p kids => [.node k n p (expandL env f kids)]
    | 0, .uses _ _ _ => []
    | f + 1, .uses g refines augs =>
      match lookupG g env with
      | none => []
      | some body =>
        let copy := expandL env f body
        let refined := refines.foldl applyRefine copy
        expandAugs env f augs refined
  def expandL (env : Env) : Nat → List N → List T
    | _, [] => []
    | f, n :: r => expandN env f n ++ expandL env f r
  /-- augments in textual order: the new nodes go behind the target's children -/
  def expandAugs (env : Env) : Nat → List (Path × List N) → List T → List T
    | _, [], ts => ts
    | f, (path, kids) :: r, ts => expandAugs env f r (atPath (appendKids (expandL env f kids)) path ts)
end

structure Module where
  groupings : Env
  body : List N
  augments : List (Path × List N)
deriving Repr, Inhabited

def expandModule (fuel : Nat) (m : Module) : List T :=
  expandAugs m.groupings fuel m.augments (expandL m.groupings fuel m.body)

mutual
  /-- config not stated is inherited from the nearest ancestor that states it (the module: true) -/
  def inherit (cfg : Bool) : T → T
    | .leaf n p => .leaf n { p with config := some (p.config.getD cfg) }
    | .node k n p kids => .node k n { p with config := some (p.config.getD cfg) } (inheritL (p.config.getD cfg) kids)
  def inheritL (cfg : Bool) : List T → List T
    | [] => []
    | t :: r => inherit cfg t :: inheritL cfg r
end

def compile (fuel : Nat) (m : Module) : List T := inheritL true (expandModule fuel m)

end YangVerif.Expand
