/-
  Model of how a statement argument is read (C06): parser/lexer.go acceptWS (white space, block and
  line comments between tokens), acceptString (double-quoted with backslash skipping, single-quoted,
  '+' concatenation) and parser.y tokenString / unescapeDoubleQuoted / string_value.
  Characters are Unicode scalars.
-/
namespace YangVerif.YStr

abbrev Text := List Nat

def isSpace (c : Nat) : Bool := c == 32 || c == 9 || c == 10 || c == 13

/-- the rest after the end of a block comment (`*/`); a comment that never ends swallows the input -/
def dropBlock : Text → Text
  | [] => []
  | 42 :: 47 :: r => r
  | _ :: r => dropBlock r

/-- the rest after the line feed that ends a line comment; the input may end first -/
def dropLine : Text → Text
  | [] => []
  | 10 :: r => r
  | _ :: r => dropLine r

/-- acceptWS: white space and comments, repeatedly -/
def skipWS : Nat → Text → Text
  | 0, cs => cs
  | f + 1, cs =>
    match cs with
    | 47 :: 42 :: r => skipWS f (dropBlock r)
    | 47 :: 47 :: r => skipWS f (dropLine r)
    | c :: r => if isSpace c then skipWS f r else cs
    | [] => []

/-- the body of a double-quoted string up to the closing quote; a backslash makes the next character
    part of the body whatever it is; none = the input ends inside the string -/
def scanDq : Text → Option (Text × Text)
  | [] => none
  | 34 :: r => some ([], r)
  | 92 :: c :: r => (scanDq r).map fun (b, rest) => (92 :: c :: b, rest)
  | [92] => none
  | c :: r => (scanDq r).map fun (b, rest) => (c :: b, rest)

def scanSq : Text → Option (Text × Text)
  | [] => none
  | 39 :: r => some ([], r)
  | c :: r => (scanSq r).map fun (b, rest) => (c :: b, rest)

/-- unescapeDoubleQuoted: \n \t \" \\ ; any other backslash stays -/
def unescape : Text → Text
  | 92 :: 110 :: r => 10 :: unescape r
  | 92 :: 116 :: r => 9 :: unescape r
  | 92 :: 34 :: r => 34 :: unescape r
  | 92 :: 92 :: r => 92 :: unescape r
  | c :: r => c :: unescape r
  | [] => []

/-- one quoted piece: its value (tokenString) and the input behind the closing quote -/
def lexPiece : Text → Option (Text × Text)
  | 34 :: r => (scanDq r).map fun (b, rest) => (unescape b, rest)
  | 39 :: r => scanSq r
  | _ => none

/-- a quoted string argument with its `+` continuations (acceptString + string_value): the value and the
    input left after the white space that follows; `fuel` bounds the number of pieces -/
def lexQuoted : Nat → Text → Option (Text × Text)
  | 0, _ => none
  | f + 1, cs =>
    match lexPiece cs with
    | none => none
    | some (v, rest) =>
      match skipWS rest.length rest with
      | 43 :: r2 => (lexQuoted f (skipWS r2.length r2)).map fun (v', rest') => (v ++ v', rest')
      | rest1 => some (v, rest1)

/-! ### how a text may be written (RFC 7950 §6.1.3) -/

/-- one character inside double quotes: itself unless it is `"` or `\`; or an escape sequence -/
inductive EncChar : Nat → Text → Prop
  | plain (c : Nat) (h1 : c ≠ 34) (h2 : c ≠ 92) : EncChar c [c]
  | quote : EncChar 34 [92, 34]
  | backslash : EncChar 92 [92, 92]
  | newline : EncChar 10 [92, 110]
  | tab : EncChar 9 [92, 116]

inductive Enc : Text → Text → Prop
  | nil : Enc [] []
  | cons {c : Nat} {e : Text} {t es : Text} (hc : EncChar c e) (ht : Enc t es) : Enc (c :: t) (e ++ es)

/-- what may stand between two tokens -/
inductive SepItem
  | space (c : Nat) (h : isSpace c = true)
  | block (body : Text) (h : ∀ r, dropBlock (body ++ 42 :: 47 :: r) = r)   -- the body does not end the comment early
  | line (body : Text) (h : 10 ∉ body)

def SepItem.render : SepItem → Text
  | .space c _ => [c]
  | .block b _ => 47 :: 42 :: b ++ [42, 47]
  | .line b _ => 47 :: 47 :: b ++ [10]

def renderSep (s : List SepItem) : Text := s.flatMap SepItem.render

/-- one written piece: double-quoted with any legal encoding, or single-quoted (no `'` inside) -/
inductive Piece
  | dq (t e : Text) (h : Enc t e)
  | sq (t : Text) (h : 39 ∉ t)

def Piece.text : Piece → Text
  | .dq t _ _ => t
  | .sq t _ => t

def Piece.render : Piece → Text
  | .dq _ e _ => 34 :: e ++ [34]
  | .sq t _ => 39 :: t ++ [39]

/-- pieces joined by `+`, any separators around each `+`, and `after` behind the last piece -/
def renderArg : List (Piece × List SepItem × List SepItem) → List SepItem → Text → Text
  | [], _, rest => rest
  | [(p, _, _)], after, rest => p.render ++ renderSep after ++ rest
  | (p, s1, s2) :: q :: r, after, rest => p.render ++ renderSep s1 ++ 43 :: renderSep s2 ++ renderArg (q :: r) after rest

def argText : List (Piece × List SepItem × List SepItem) → Text
  | [] => []
  | (p, _, _) :: r => p.text ++ argText r

end YangVerif.YStr
