/-
  Model of val/types.go `Compare`, val/util.go `Equal/EqualVals/CompareVals`
  and the sorted-index lookup of nodeutil/reflect.go (`sliceSorter.find`).

  Each Go method body is one of a handful of *shapes*.  The extractor
  (`vextract`) classifies every `Compare` method of /repo/val/types.go into a
  shape and regenerates `Gen/CompareTable.lean`; the functions below give each
  shape its Go semantics on `BitVec` of the Go operand width, so wrap-around is
  expressible.
-/
import YangVerif.Model.Util
namespace YangVerif.Compare

/-- shape of a `Compare` method body -/
inductive Shape
  | threeWayS (w : Nat)   -- a<b → -1; a>b → 1; 0     on intW
  | threeWayU (w : Nat)   -- same on uintW
  | subNarrow (w : Nat)   -- int(intW(x) - intW(y))        (wraps at w bits)
  | sub3U (w : Nat)       -- c := x - y (uintW); c<0 → -1; c>0 → 1; 0
  | sub3S (w : Nat)       -- c := x - y (intW, wraps); c<0 → -1; c>0 → 1; 0
  | subWide (w : Nat)     -- int(x) - int(y) in 64-bit int, operands w-bit signed
  | lex                   -- strings.Compare / bytes.Compare
  | lenThenLex            -- BinaryList: length first, then element-wise bytes.Compare
  | boolThreeWay
  | float3                -- c := x - y (float64); c<0 → -1; c>0 → 1; 0
  | floatThreeWay
  | opaque                -- anything the extractor does not recognise
deriving DecidableEq, Repr, Inhabited

/-! ### Go semantics of the numeric shapes -/

def threeWayS {w : Nat} (x y : BitVec w) : Int :=
  if x.slt y then -1 else if y.slt x then 1 else 0

def threeWayU {w : Nat} (x y : BitVec w) : Int :=
  if x.ult y then -1 else if y.ult x then 1 else 0

/-- `int(int8(x) - int8(y))`: subtraction wraps at the narrow width, then sign-extends -/
def subNarrow {w : Nat} (x y : BitVec w) : Int := (x - y).toInt

/-- `c := x - y` on an unsigned type; `c < 0` can never be true -/
def sub3U {w : Nat} (x y : BitVec w) : Int :=
  let c := x - y
  if c.ult 0#w then -1 else if (0#w).ult c then 1 else 0

/-- `c := x - y` on a signed type (wraps); sign of `c` -/
def sub3S {w : Nat} (x y : BitVec w) : Int :=
  let c := x - y
  if c.slt 0#w then -1 else if (0#w).slt c then 1 else 0

/-- `int(x) - int(y)`: both operands sign-extended to Go's 64-bit `int` first -/
def subWide {w : Nat} (x y : BitVec w) : Int :=
  ((x.signExtend 64) - (y.signExtend 64)).toInt

/-! ### lexicographic comparison of byte strings (strings.Compare, bytes.Compare) -/

def lexCmp : List Nat → List Nat → Int
  | [], [] => 0
  | [], _ :: _ => -1
  | _ :: _, [] => 1
  | a :: as, b :: bs => if a < b then -1 else if b < a then 1 else lexCmp as bs

def boolCmp (x y : Bool) : Int :=
  if x == y then 0 else if x then 1 else -1

/-- comparison of two numeric operands given as mathematical integers that lie
    in the range of the Go type; used by the driver (the theorems are stated on
    the `BitVec` functions above) -/
def cmpInt (s : Shape) (x y : Int) : Option Int :=
  match s with
  | .threeWayS w => some (threeWayS (BitVec.ofInt w x) (BitVec.ofInt w y))
  | .threeWayU w => some (threeWayU (BitVec.ofInt w x) (BitVec.ofInt w y))
  | .subNarrow w => some (subNarrow (BitVec.ofInt w x) (BitVec.ofInt w y))
  | .sub3U w => some (sub3U (BitVec.ofInt w x) (BitVec.ofInt w y))
  | .sub3S w => some (sub3S (BitVec.ofInt w x) (BitVec.ofInt w y))
  | .subWide w => some (subWide (BitVec.ofInt w x) (BitVec.ofInt w y))
  | _ => none

/-- shapes accepted by `shape_ordered`: the ones whose result has the sign of the
    mathematical difference for **all** operands of the width -/
def Shape.good : Shape → Bool
  | .threeWayS _ => true
  | .threeWayU _ => true
  | .subWide w => w ≤ 32
  | .lex => true
  | .boolThreeWay => true
  | .floatThreeWay => true
  | .float3 => true       -- IEEE-754 contract (trusted base): x-y<0 ↔ x<y for finite x y
  | .lenThenLex => true   -- a total order on lists of byte strings (not compared with a denotation)
  | _ => false

/-! ### key tuples -/

/-- val.CompareVals over already-computed component comparisons: first non-zero wins -/
def compareVals {α : Type} (cmp : α → α → Int) : List α → List α → Int
  | a :: as, b :: bs => let c := cmp a b; if c < 0 then c else if c > 0 then c else compareVals cmp as bs
  | _, _ => 0

def equalVals {α : Type} (cmp : α → α → Int) : List α → List α → Bool
  | [], [] => true
  | a :: as, b :: bs => cmp a b == 0 && equalVals cmp as bs
  | _, _ => false

/-! ### sort.Search + EqualVals  (nodeutil/reflect.go sliceSorter.find) -/

/-- `sort.Search(n, f)`: smallest index in `[0,n]` for which `f` is true, assuming
    monotonicity; written as the standard library writes it (`h := (i+j)/2`). -/
def searchLoop (f : Nat → Bool) : Nat → Nat → Nat → Nat
  | 0, i, _ => i
  | fuel + 1, i, j =>
    if i < j then
      let h := (i + j) / 2
      if !f h then searchLoop f fuel (h + 1) j else searchLoop f fuel i h
    else i

def sortSearch (n : Nat) (f : Nat → Bool) : Nat := searchLoop f (n + 1) 0 n

/-- `sliceSorter.find`: lower bound by `CompareVals(entry, key) >= 0`, then `EqualVals` -/
def sorterFind {κ : Type} (cmp : κ → κ → Int) (keys : List (List κ)) (key : List κ) : Option Nat :=
  let found := sortSearch keys.length (fun i => compareVals cmp (keys.getD i []) key ≥ 0)
  if found < keys.length then
    if equalVals cmp (keys.getD found []) key then some found else none
  else none

/-- linear scan, first entry whose key equals the requested key -/
def linearFind {κ : Type} (eq : κ → κ → Bool) : List κ → κ → Nat → Option Nat
  | [], _, _ => none
  | k :: ks, key, i => if eq k key then some i else linearFind eq ks key (i + 1)

end YangVerif.Compare
