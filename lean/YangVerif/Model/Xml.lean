/-
  Model of the XML side (C19):
  * character data codec: patch/xml `escapeText` / `EscapeString` and an XML 1.0 reader of
    character data (references, line-end normalisation);
  * element trees, their token stream with namespace declarations (`xmlns` only where the
    namespace changes, as XMLWtr2.new and XMLWtr.changedXmlns decide), compact and indented,
    and a reader of that token stream (namespace inheritance, accumulated character data);
  * the two writers as consumers of the editor's write-side callbacks:
    XMLWtr2 (builds an element tree) and XMLWtr (streams tokens);
  * XmlNode (nodeutil/xml_rdr.go): schema-driven navigation of an element tree — `Find` by
    local name and namespace, a list / leaf-list = all matching siblings in document order.
-/
namespace YangVerif.Xml

abbrev Text := List Nat           -- Unicode scalars

/-! ### character data -/

/-- XML 1.0 §2.2 Char (patch/xml isInCharacterRange) -/
def isXmlChar (c : Nat) : Bool :=
  c == 9 || c == 10 || c == 13 || (32 ≤ c && c ≤ 0xD7FF) || (0xE000 ≤ c && c ≤ 0xFFFD) ||
  (0x10000 ≤ c && c ≤ 0x10FFFF)

/-- escapeText: `"` `'` `&` `<` `>` tab LF CR are written as references; what XML cannot carry as U+FFFD -/
def escapeChar (c : Nat) : Text :=
  if c == 34 then [38, 35, 51, 52, 59]              -- &#34;
  else if c == 39 then [38, 35, 51, 57, 59]         -- &#39;
  else if c == 38 then [38, 97, 109, 112, 59]       -- &amp;
  else if c == 60 then [38, 108, 116, 59]           -- &lt;
  else if c == 62 then [38, 103, 116, 59]           -- &gt;
  else if c == 9 then [38, 35, 120, 57, 59]         -- &#x9;
  else if c == 10 then [38, 35, 120, 65, 59]        -- &#xA;
  else if c == 13 then [38, 35, 120, 68, 59]        -- &#xD;
  else if isXmlChar c then [c]
  else [0xFFFD]

def escapeText (s : Text) : Text := s.flatMap escapeChar

def decDigit (c : Nat) : Option Nat := if 48 ≤ c && c ≤ 57 then some (c - 48) else none
def hexDigitVal (c : Nat) : Option Nat :=
  if 48 ≤ c && c ≤ 57 then some (c - 48)
  else if 97 ≤ c && c ≤ 102 then some (c - 87)
  else if 65 ≤ c && c ≤ 70 then some (c - 55)
  else none

mutual
  /-- XML 1.0 reader of character data: §4.1 references, §4.6 predefined entities, §2.11 line ends
      (a raw CR, with or without LF, becomes LF), `<` ends the data (none = not well-formed here) -/
  def unescapeText : Text → Option Text
    | [] => some []
    | c :: rest =>
      if c == 38 then
        match rest with
        | 35 :: 120 :: r => refHex false 0 r                                  -- &#x
        | 35 :: r => refDec false 0 r                                         -- &#
        | 97 :: 109 :: 112 :: 59 :: r => (unescapeText r).map (38 :: ·)       -- &amp;
        | 108 :: 116 :: 59 :: r => (unescapeText r).map (60 :: ·)             -- &lt;
        | 103 :: 116 :: 59 :: r => (unescapeText r).map (62 :: ·)             -- &gt;
        | 97 :: 112 :: 111 :: 115 :: 59 :: r => (unescapeText r).map (39 :: ·)   -- &apos;
        | 113 :: 117 :: 111 :: 116 :: 59 :: r => (unescapeText r).map (34 :: ·)  -- &quot;
        | _ => none
      else if c == 60 then none
      else if c == 13 then
        match rest with
        | 10 :: r => (unescapeText r).map (10 :: ·)
        | r => (unescapeText r).map (10 :: ·)
      else if isXmlChar c then (unescapeText rest).map (c :: ·)
      else none
  def refDec (seen : Bool) (acc : Nat) : Text → Option Text
    | [] => none
    | c :: r =>
      if c == 59 then
        if seen && isXmlChar acc then (unescapeText r).map (acc :: ·) else none
      else match decDigit c with
        | some d => refDec true (acc * 10 + d) r
        | none => none
  def refHex (seen : Bool) (acc : Nat) : Text → Option Text
    | [] => none
    | c :: r =>
      if c == 59 then
        if seen && isXmlChar acc then (unescapeText r).map (acc :: ·) else none
      else match hexDigitVal c with
        | some d => refHex true (acc * 16 + d) r
        | none => none
end

/-! ### element trees and tokens -/

structure QName where
  loc : String
  ns : String
deriving DecidableEq, Repr, Inhabited

inductive Elem
  | mk (name : QName) (text : Text) (kids : List Elem)
deriving Repr, Inhabited

def Elem.name : Elem → QName | .mk n _ _ => n
def Elem.text : Elem → Text | .mk _ t _ => t
def Elem.kids : Elem → List Elem | .mk _ _ k => k

inductive Tok
  | open (loc : String) (xmlns : Option String)       -- start tag, with its namespace declaration if any
  | close (loc : String)
  | text (t : Text)                                   -- character data, already decoded
  | ws (d : Nat)                                      -- indentation: the character data `indent d`, written raw
deriving DecidableEq, Repr, Inhabited

/-- indentation written by Encoder.Indent("", "  "): a line break and two blanks per level -/
def indent (d : Nat) : Text := 10 :: List.replicate (2 * d) 32

/-- the declaration a start tag needs: only when the namespace is not the inherited one -/
def decl (inh : String) (q : QName) : Option String := if q.ns = inh then none else some q.ns

def textToks (t : Text) : List Tok := if t = [] then [] else [.text t]

mutual
  /-- compact serialisation below an element of namespace `inh` -/
  def render (inh : String) : Elem → List Tok
    | .mk q t kids => .open q.loc (decl inh q) :: textToks t ++ renderKids q.ns kids ++ [.close q.loc]
  def renderKids (inh : String) : List Elem → List Tok
    | [] => []
    | e :: r => render inh e ++ renderKids inh r
end

mutual
  /-- indented serialisation: white space only around child elements, never inside a leaf element -/
  def renderP (d : Nat) (inh : String) : Elem → List Tok
    | .mk q t [] => .open q.loc (decl inh q) :: textToks t ++ [.close q.loc]
    | .mk q t (k :: ks) =>
      .open q.loc (decl inh q) :: textToks t ++ renderKidsP (d + 1) q.ns (k :: ks) ++ [.ws d, .close q.loc]
  def renderKidsP (d : Nat) (inh : String) : List Elem → List Tok
    | [] => []
    | e :: r => .ws d :: renderP d inh e ++ renderKidsP d inh r
end

mutual
  /-- reader of the token stream: one element; namespaces inherited; character data accumulated -/
  def parseElem : Nat → String → List Tok → Option (Elem × List Tok)
    | f + 1, inh, .open loc d :: rest =>
      let ns := d.getD inh
      match parseContent f ns rest with
      | some (t, kids, .close loc' :: r) => if loc = loc' then some (.mk ⟨loc, ns⟩ t kids, r) else none
      | _ => none
    | _, _, _ => none
  /-- content up to (not including) the end tag of the enclosing element -/
  def parseContent : Nat → String → List Tok → Option (Text × List Elem × List Tok)
    | f + 1, ns, .text t :: rest => (parseContent f ns rest).map fun (t', ks, r) => (t ++ t', ks, r)
    | f + 1, ns, .ws d :: rest => (parseContent f ns rest).map fun (t', ks, r) => (indent d ++ t', ks, r)
    | f + 1, ns, .open l d :: rest =>
      match parseElem f ns (.open l d :: rest) with
      | some (e, r) => (parseContent f ns r).map fun (t, ks, r') => (t, e :: ks, r')
      | none => none
    | _ + 1, _, .close l :: rest => some ([], [], .close l :: rest)
    | _, _, _ => none
end

/-- a document: exactly one root element and nothing after it -/
def parseDoc (toks : List Tok) : Option Elem :=
  match parseElem (toks.length + 1) "" toks with
  | some (e, []) => some e
  | _ => none

/-! ### schema-shaped data and its XML encoding (RFC 7950 §7.5.7, §7.6.6, §7.7.9, §7.8.5) -/

inductive XS
  | leaf (q : QName)
  | leafList (q : QName)
  | cont (q : QName) (kids : List XS)
  | list (q : QName) (kids : List XS)
deriving Repr, Inhabited

def XS.name : XS → QName
  | .leaf q => q | .leafList q => q | .cont q _ => q | .list q _ => q

/-- data aligned with the schema's children -/
inductive XD
  | leaf (v : Option Text)
  | leafList (vs : List Text)                 -- [] : not present
  | cont (body : Option (List XD))
  | list (rows : List (List XD))              -- [] : not present
deriving Repr, Inhabited

mutual
  def toXML : XS → XD → List Elem
    | .leaf q, .leaf (some t) => [.mk q t []]
    | .leafList q, .leafList vs => vs.map fun t => .mk q t []
    | .cont q ks, .cont (some b) => [.mk q [] (toXMLBody ks b)]
    | .list q ks, .list rows => toXMLRows q ks rows
    | _, _ => []
  def toXMLBody : List XS → List XD → List Elem
    | s :: ss, d :: ds => toXML s d ++ toXMLBody ss ds
    | _, _ => []
  def toXMLRows (q : QName) : List XS → List (List XD) → List Elem
    | _, [] => []
    | ks, b :: r => .mk q [] (toXMLBody ks b) :: toXMLRows q ks r
end

/-! ### well-formedness of schema and data (the guards of the round-trip theorem) -/

mutual
  /-- sibling nodes have distinct qualified names, every node has a namespace (RFC 7950 §7.1.3 makes it mandatory) -/
  def okNode : XS → Bool
    | .leaf q => q.ns != ""
    | .leafList q => q.ns != ""
    | .cont q ks => q.ns != "" && okBody ks
    | .list q ks => q.ns != "" && okBody ks
  def okBody : List XS → Bool
    | [] => true
    | s :: ss => okNode s && ss.all (fun s' => s'.name != s.name) && okBody ss
end

mutual
  /-- the data has the shape of the schema -/
  def conf : XS → XD → Bool
    | .leaf _, .leaf _ => true
    | .leafList _, .leafList _ => true
    | .cont _ _, .cont none => true
    | .cont _ ks, .cont (some b) => confBody ks b
    | .list _ ks, .list rows => confRows ks rows
    | _, _ => false
  def confBody : List XS → List XD → Bool
    | [], [] => true
    | s :: ss, d :: ds => conf s d && confBody ss ds
    | _, _ => false
  def confRows : List XS → List (List XD) → Bool
    | _, [] => true
    | ks, b :: r => confBody ks b && confRows ks r
end

/-! ### XmlNode: the reader -/

/-- XmlNode.Find: same local name, and the same namespace unless the element has none -/
def isFor (q : QName) (e : Elem) : Bool := e.name.loc == q.loc && (e.name.ns == "" || e.name.ns == q.ns)

mutual
  /-- what the reader presents for one schema child, given the elements found for it in document order
      (`Find(0, m)`, then `Find(ndx+1, m)` …) -/
  def fromMatches : XS → List Elem → XD
    | .leaf _, e :: _ => .leaf (some e.text)
    | .leaf _, [] => .leaf none
    | .leafList _, es => .leafList (es.map Elem.text)
    | .cont _ ks, e :: _ => .cont (some (readBody ks e.kids))
    | .cont _ _, [] => .cont none
    | .list _ ks, es => .list (es.map fun e => readBody ks e.kids)
  /-- a container body: every schema child looks among all elements `es` of the parent -/
  def readBody : List XS → List Elem → List XD
    | [], _ => []
    | s :: ss, es => fromMatches s (es.filter (isFor s.name)) :: readBody ss es
end

/-! ### the writers as consumers of the editor's callbacks -/

/-- write-side callbacks; `pns` = namespace of the node the path says is the parent -/
inductive Ev
  | field (q : QName) (pns : String) (vals : List Text)   -- OnField{Write}: leaf (one value) or leaf-list
  | childCont (q : QName) (pns : String)                  -- OnChild{New} container
  | childList                                             -- OnChild{New} list: no element of its own
  | next (q : QName) (pns : String)                       -- OnNext{New}: one list entry
  | endNode (loc : String)                                -- EndEdit of a container or list entry (ident of its path)
  | endList                                               -- EndEdit of a list

mutual
  /-- callbacks the editor issues for a body below a node of namespace `pns` -/
  def events (pns : String) : List XS → List XD → List Ev
    | s :: ss, d :: ds => nodeEvents pns s d ++ events pns ss ds
    | _, _ => []
  def nodeEvents (pns : String) : XS → XD → List Ev
    | .leaf q, .leaf (some t) => [.field q pns [t]]
    | .leafList q, .leafList (v :: vs) => [.field q pns (v :: vs)]
    | .cont q ks, .cont (some b) => .childCont q pns :: events q.ns ks b ++ [.endNode q.loc]
    | .list q ks, .list (r :: rs) => .childList :: rowEvents pns q ks (r :: rs) ++ [.endList]
    | _, _ => []
  def rowEvents (pns : String) (q : QName) : List XS → List (List XD) → List Ev
    | _, [] => []
    | ks, b :: r => .next q pns :: events q.ns ks b ++ .endNode q.loc :: rowEvents pns q ks r
end

/-- XMLWtr2: a stack of elements under construction (innermost first); children are appended in call order -/
abbrev Builder := List (QName × List Elem)

def build : Builder → Ev → Option Builder
  | (q0, ks) :: st, .field q _ vals => some ((q0, ks ++ vals.map fun t => .mk q t []) :: st)
  | st, .childCont q _ => some ((q, []) :: st)
  | st, .childList => some st
  | st, .next q _ => some ((q, []) :: st)
  | (q, ks) :: (q0, ks0) :: st, .endNode _ => some ((q0, ks0 ++ [.mk q [] ks]) :: st)
  | st, .endList => some st
  | _, _ => none

def buildAll : Builder → List Ev → Option Builder
  | st, [] => some st
  | st, e :: r => match build st e with
    | some st' => buildAll st' r
    | none => none

/-- XMLWtr: streams tokens; every callback is answered from its own path, no state is kept -/
def stream : Ev → List Tok
  | .field q pns vals => vals.flatMap fun t => .open q.loc (decl pns q) :: textToks t ++ [.close q.loc]
  | .childCont q pns => [.open q.loc (decl pns q)]
  | .childList => []
  | .next q pns => [.open q.loc (decl pns q)]
  | .endNode loc => [.close loc]
  | .endList => []

def streamAll (evs : List Ev) : List Tok := evs.flatMap stream

end YangVerif.Xml
