/-
  Model of how the resolver follows imports (C14): meta/resolver.go `module`: a module is marked loaded and
  "being resolved" when its resolution starts; each import that is being resolved is a cycle (error), one
  that is loaded already is reused, any other is loaded (missing: error) and resolved recursively.
-/
namespace YangVerif.Imports

abbrev Graph := List (String × List String)        -- module name ↦ the modules it imports

def importsOf (g : Graph) (n : String) : Option (List String) :=
  (g.find? (·.1 = n)).map (·.2)

inductive Verdict | ok | cycle | missing | outOfFuel
deriving DecidableEq, Repr, Inhabited

/-- names of the graph not yet loaded: what the recursion can still start on -/
def unloaded : Graph → List String → Nat
  | [], _ => 0
  | p :: r, loaded => (if loaded.contains p.1 then 0 else 1) + unloaded r loaded

/-- resolve the imports `imps` of a module: `resolving` = the chain of modules whose imports are being
    resolved (the module itself included), `loaded` = every module whose resolution has started.
    Result: verdict and the new `loaded`.  `fuel` bounds the nesting; Props/C14 shows it is never exhausted
    when it is at least the number of modules not yet loaded. -/
def resolveImports (g : Graph) : Nat → List String → List String → List String → Verdict × List String
  | _, _, loaded, [] => (.ok, loaded)
  | fuel, resolving, loaded, i :: rest =>
    if resolving.contains i then (.cycle, loaded)
    else if loaded.contains i then resolveImports g fuel resolving loaded rest
    else
      match importsOf g i with
      | none => (.missing, loaded)
      | some imps =>
        match fuel with
        | 0 => (.outOfFuel, loaded)
        | f + 1 =>
          match resolveImports g f (i :: resolving) (i :: loaded) imps with
          | (.ok, loaded') => resolveImports g (f + 1) resolving loaded' rest
          | bad => bad
termination_by fuel _ _ imps => (fuel, imps.length)

/-- loading `main`: its file must be there, then its imports are resolved -/
def load (g : Graph) (main : String) : Verdict :=
  match importsOf g main with
  | none => .missing
  | some imps => (resolveImports g g.length [main] [main] imps).1

end YangVerif.Imports
