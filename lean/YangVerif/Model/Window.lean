/-
  Model of the text of a `fc.range` window (C07): node/list_range.go `NewListRange` behind the `!` —
  strings.Split at '-', strconv.ParseInt(·, 10, 64) of the first piece (start row) and, when there is a
  second piece and it is not empty, of the second (end row); no end is -1.  Pieces behind the second are
  not looked at.  Characters are code points; a piece cannot contain '-' (the text was split there), so a
  sign can only be '+'.
-/
import YangVerif.Model.Path
namespace YangVerif.Window
open YangVerif.Path

abbrev Text := List Nat

def isDigit (c : Nat) : Bool := 48 ≤ c && c ≤ 57

def digitsVal (cs : Text) : Nat := cs.foldl (fun a c => a * 10 + (c - 48)) 0

/-- one or more decimal digits -/
def parseNat (cs : Text) : Option Nat :=
  if cs.isEmpty then none else if cs.all isDigit then some (digitsVal cs) else none

def stripPlus : Text → Text
  | 43 :: r => r
  | cs => cs

/-- strconv.ParseInt(piece, 10, 64) on a piece without '-': optional '+', digits, at most 2^63 - 1 -/
def parseInt64 (cs : Text) : Option Int :=
  match parseNat (stripPlus cs) with
  | some n => if n < 2 ^ 63 then some (Int.ofNat n) else none
  | none => none

/-- the rows expression behind the `!`: (start row, end row), -1 = no end; none = bad request -/
def parseRows (cs : Text) : Option (Int × Int) :=
  match splitOn 45 cs with
  | [] => none
  | p0 :: rest =>
    match parseInt64 p0 with
    | none => none
    | some s =>
      match rest with
      | [] => some (s, -1)
      | p1 :: _ => if p1.isEmpty then some (s, -1) else (parseInt64 p1).map fun e => (s, e)

/-- NewListRange: the selector text before the first '!' and the window behind it -/
def parseRange (cs : Text) : Option (Text × Int × Int) :=
  match splitFirst 33 cs with
  | none => none
  | some (sel, rows) => (parseRows rows).map fun (s, e) => (sel, s, e)

/-- the decimal text of a number -/
def digits (n : Nat) : Text :=
  if h : n < 10 then [48 + n] else digits (n / 10) ++ [48 + n % 10]
termination_by n
decreasing_by omega

/-- which rows of a list the window lets through (CheckListPreConstraints: from the start row while
    row ≤ end row) -/
def rowsOf (s e : Int) (rows : List α) : List α :=
  if s < 0 then [] else
  let from' := rows.drop s.toNat
  if e = -1 then from' else if e < s then [] else from'.take ((e - s).toNat + 1)

end YangVerif.Window
