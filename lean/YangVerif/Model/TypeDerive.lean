/-
  Specification of a leaf's effective type (C02): RFC 7950 §7.3 (typedef, lexical scoping), §7.6.1 / §7.3.4
  (default and units from the nearest typedef), §9 (restrictions along the derivation chain, enum values,
  bit positions, union members, leafref target, identityref bases).  meta/compile.go compileType /
  findTypedef / Type.mixin are compared with it on generated module sets.
-/
namespace YangVerif.TypeDerive

/-- a type statement as written -/
inductive TExpr
  | mk (name : String)                      -- built-in name, typedef name or prefix:typedef
       (range : Option String) (length : Option String) (patterns : List String)
       (enums : List (String × Option Int)) (bits : List (String × Option Nat))
       (members : List TExpr)               -- union
       (path : Option String) (bases : List String) (fd : Option Nat)
deriving Repr, Inhabited

structure Typedef where
  name : String
  type : TExpr
  dflt : Option String
  units : Option String
deriving Repr, Inhabited

/-- the typedefs visible from a leaf: innermost scope first (RFC 7950 §5.5); `mods` = imported modules by prefix -/
structure Scopes where
  chain : List (List Typedef)
  mods : List (String × List Typedef)
deriving Repr, Inhabited

def findIn (n : String) : List Typedef → Option Typedef
  | [] => none
  | t :: r => if t.name = n then some t else findIn n r

/-- the typedef a name refers to and the scopes *its* type statement sees (those enclosing the typedef) -/
def lookupTd (n : String) : List (List Typedef) → Option (Typedef × List (List Typedef))
  | [] => none
  | s :: outer => match findIn n s with
    | some t => some (t, s :: outer)
    | none => lookupTd n outer

def lookupMod (p : String) : List (String × List Typedef) → Option (List Typedef)
  | [] => none
  | (q, ts) :: r => if q = p then some ts else lookupMod p r

def builtins : List String :=
  ["int8", "int16", "int32", "int64", "uint8", "uint16", "uint32", "uint64", "decimal64", "string", "boolean",
   "enumeration", "bits", "binary", "leafref", "identityref", "empty", "union", "instance-identifier", "any"]

/-- RFC 7950 §9.6.4.2 / §9.7.4.2: a stated value stays; a missing one is 0 for the first entry, otherwise one
    more than the highest value so far -/
def number (next : Int) (first : Bool) : List (String × Option Int) → List (String × Int)
  | [] => []
  | (n, some v) :: r => (n, v) :: number (if first || v ≥ next then v + 1 else next) false r
  | (n, none) :: r => (n, next) :: number (next + 1) false r

def numberAll (l : List (String × Option Int)) : List (String × Int) := number 0 true l

/-- a derived type that lists names of its base keeps the base's values for them -/
def restrictBy (base : List (String × Int)) : List (String × Option Int) → List (String × Option Int)
  | [] => []
  | (n, some v) :: r => (n, some v) :: restrictBy base r
  | (n, none) :: r => (n, (base.find? (·.1 = n)).map (·.2)) :: restrictBy base r

/-- the effective type as the accessors present it -/
inductive Eff
  | mk (format : String)
       (ranges : List String) (lengths : List String)      -- own first, then those of the base types
       (patterns : List String)
       (enums : List (String × Int)) (bits : List (String × Int))
       (members : List Eff)
       (path : Option String) (bases : List String) (fd : Option Nat)
       (dflt : Option String) (units : Option String)       -- taken from the nearest typedef of the chain that states them
deriving Repr, Inhabited

def Eff.dflt : Eff → Option String | .mk _ _ _ _ _ _ _ _ _ _ d _ => d
def Eff.units : Eff → Option String | .mk _ _ _ _ _ _ _ _ _ _ _ u => u

def splitPrefix (s : String) : Option (String × String) :=
  match s.splitOn ":" with
  | [p, n] => some (p, n)
  | _ => none

mutual
  /-- RFC 7950 derivation of a type statement; fuel bounds the typedef chain (a cycle has no effective type) -/
  def derive (mods : List (String × List Typedef)) : Nat → List (List Typedef) → TExpr → Option Eff
    | 0, _, _ => none
    | f + 1, chain, .mk name range length patterns enums bits members path bases fd =>
      let own (ms : List Eff) : Eff :=
        .mk name range.toList length.toList patterns (numberAll enums)
          (numberAll (bits.map fun (n, p) => (n, p.map Int.ofNat))) ms path bases fd none none
      if builtins.contains name then
        (deriveAll mods f chain members).map own
      else
        -- a typedef: locally scoped, or of an imported module
        let found : Option (Typedef × List (List Typedef)) :=
          match splitPrefix name with
          | some (p, n) => (lookupMod p mods).bind fun ts => (findIn n ts).map fun t => (t, [ts])
          | none => lookupTd name chain
        match found with
        | none => none
        | some (td, tdChain) =>
          match derive mods f tdChain td.type with
          | none => none
          | some (.mk bf br bl bp be bb bm bpath bbases bfd bd bu) =>
            match deriveAll mods f chain members with
            | none => none
            | some ms =>
              some (.mk bf
                (range.toList ++ br) (length.toList ++ bl)
                (patterns ++ bp)
                (if enums.isEmpty then be else numberAll (restrictBy be enums))
                (if bits.isEmpty then bb else numberAll (restrictBy bb (bits.map fun (n, p) => (n, p.map Int.ofNat))))
                (if members.isEmpty then bm else ms)
                (path.orElse fun _ => bpath)
                (if bases.isEmpty then bbases else bases)
                (fd.orElse fun _ => bfd)
                (td.dflt.orElse fun _ => bd)
                (td.units.orElse fun _ => bu))
  def deriveAll (mods : List (String × List Typedef)) : Nat → List (List Typedef) → List TExpr → Option (List Eff)
    | _, _, [] => some []
    | f, chain, t :: r =>
      match derive mods f chain t, deriveAll mods f chain r with
      | some e, some es => some (e :: es)
      | _, _ => none
end

/-- a leaf: what it states itself wins over what the typedef chain gives; `required` - the leaf is mandatory, the
    leaf-list has min-elements above 0 - and the default of the type is not used (RFC 7950 7.6.1, 7.7.2) -/
def leafEff (mods : List (String × List Typedef)) (fuel : Nat) (chain : List (List Typedef))
    (t : TExpr) (dflt units : Option String) (required : Bool := false) : Option Eff :=
  (derive mods fuel chain t).map fun
    | .mk f r l p e b m path bases fd d u =>
      .mk f r l p e b m path bases fd (dflt.orElse fun _ => if required then none else d) (units.orElse fun _ => u)

end YangVerif.TypeDerive
